#!/bin/bash
# setup: build the framework from files on disk only (offline).
set -e
cd "$(dirname "$0")"
export GOFLAGS=-mod=mod GOPROXY=off
unset GOSUMDB GOTOOLCHAIN || true
mkdir -p .run replays evidence lean/GqlVerif/Generated
(cd tools/extract && go build -o ../../.run/extract .)
for f in lean/GqlVerif/Ties/C*.lean; do
  id=$(basename "$f" .lean)
  ./.run/extract -repo /repo -prop "$id" -out "lean/GqlVerif/Generated/$id.lean"
done
(cd lean && lake build)
cat /repo/v2/go.sum /repo/execution/go.sum /repo/go.work.sum | sort -u > harness/go.sum
(cd harness && go build -tags verif -o ../.run/vh .)
echo "setup ok"
