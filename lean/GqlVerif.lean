-- root module: everything the checks build (models, proofs, property theorems, ties)
import GqlVerif.Base.Json
import GqlVerif.Misc.CacheControl
import GqlVerif.Gql.Lex
import GqlVerif.Gql.Coerce
import GqlVerif.Plan.Sched
import GqlVerif.Plan.Render
import GqlVerif.Props.C02
import GqlVerif.Ties.C02
import GqlVerif.Props.C05
import GqlVerif.Props.C06
import GqlVerif.Props.C08
import GqlVerif.Props.C16
import GqlVerif.Ties.C05
import GqlVerif.Ties.C06
import GqlVerif.Ties.C08
import GqlVerif.Ties.C16
