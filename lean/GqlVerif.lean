import GqlVerif.Base.Json
import GqlVerif.Misc.CacheControl
