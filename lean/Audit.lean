/-
  Audit.lean — run with `lake env lean --run Audit.lean <PropsModule> <TiesModule>`.
  Lists every theorem of the given modules and the axioms each depends on (transitively);
  prints one JSON line: {"theorems":[…],"facts":[…],"axioms":[…],"per_theorem":{name:[axioms]}}.
-/
import Lean
open Lean

def moduleTheorems (env : Environment) (mod : Name) : Array Name := Id.run do
  let some idx := env.getModuleIdx? mod | return #[]
  let md := env.header.moduleData[idx.toNat]!
  let mut out := #[]
  for c in md.constNames do
    if c.isInternal then continue
    if !mod.isPrefixOf c then continue
    -- equation lemmas the compiler generates for definitions in the module are not property theorems
    if (match c with | .str _ s => s.startsWith "eq_" | _ => false) then continue
    match env.find? c with
    | some (.thmInfo _) => out := out.push c
    | _ => pure ()
  return out

/-- transitive axiom dependencies of a constant (own traversal of the kernel environment) -/
partial def collectAx (env : Environment) (c : Name) (st : NameSet × NameSet) : NameSet × NameSet :=
  let (seen, axs) := st
  if seen.contains c then st else
  let seen := seen.insert c
  let go (e : Expr) (st : NameSet × NameSet) : NameSet × NameSet :=
    e.getUsedConstants.foldl (fun acc d => collectAx env d acc) st
  match env.find? c with
  | some (.axiomInfo v)  => go v.type (seen, axs.insert c)
  | some (.defnInfo v)   => go v.value (go v.type (seen, axs))
  | some (.thmInfo v)    => go v.value (go v.type (seen, axs))
  | some (.opaqueInfo v) => go v.value (go v.type (seen, axs))
  | some (.quotInfo _)   => (seen, axs)
  | some (.ctorInfo v)   => go v.type (seen, axs)
  | some (.recInfo v)    => go v.type (seen, axs)
  | some (.inductInfo v) => v.ctors.foldl (fun acc d => collectAx env d acc) (go v.type (seen, axs))
  | none                 => (seen, axs)

def axiomsOf (env : Environment) (c : Name) : Array Name :=
  (collectAx env c ({}, {})).2.toArray.qsort Name.lt

def jsonStr (s : String) : String := "\"" ++ (s.replace "\\" "\\\\").replace "\"" "\\\"" ++ "\""
def jsonArr (xs : Array String) : String := "[" ++ ", ".intercalate (xs.toList.map jsonStr) ++ "]"

def main (args : List String) : IO UInt32 := do
  initSearchPath (← findSysroot)
  let mods := args.map String.toName
  let env ← importModules (mods.toArray.map fun m => { module := m }) {}
  let mut allAx : Array Name := #[]
  let mut per : Array String := #[]
  let mut names : Array (Array String) := #[]
  for m in mods do
    let ths := moduleTheorems env m
    let mut ns := #[]
    for t in ths do
      let ax := axiomsOf env t
      for a in ax do
        if !allAx.contains a then allAx := allAx.push a
      ns := ns.push t.toString
      per := per.push (jsonStr t.toString ++ ": " ++ jsonArr (ax.map toString))
    names := names.push ns
  let thms := names[0]?.getD #[]
  let facts := names[1]?.getD #[]
  IO.println ("{\"theorems\": " ++ jsonArr thms ++ ", \"facts\": " ++ jsonArr facts ++
    ", \"axioms\": " ++ jsonArr (allAx.map toString) ++ ", \"per_theorem\": {" ++ ", ".intercalate per.toList ++ "}}")
  return 0
