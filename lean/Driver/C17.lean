import GqlVerif.Base.Json
import GqlVerif.Misc.Introspection
namespace GqlVerif.Driver
open GqlVerif GqlVerif.Introspection

instance : Inhabited TypeRef := ⟨.named ""⟩

partial def c17Ref (j : Json) : TypeRef :=
  match j.strD "k" with
  | "list" => .list (c17Ref (j.getD "of"))
  | "nonnull" => .nonNull (c17Ref (j.getD "of"))
  | _ => .named (j.strD "n")

def c17OptStr (j : Json) (k : String) : Option String := (j.get? k).bind Json.asStr?

def c17Arg (j : Json) : Arg := ⟨j.strD "name", c17Ref (j.getD "type"), c17OptStr j "default"⟩

def c17Kind : String → Kind
  | "SCALAR" => .scalar | "OBJECT" => .object | "INTERFACE" => .iface | "UNION" => .union | "ENUM" => .enum | _ => .inputObject

def c17Strs (j : Json) (k : String) : List String := (j.arrD k).filterMap Json.asStr?

def c17Schema (j : Json) : Schema :=
  { types := (j.arrD "types").map fun t =>
      { kind := c17Kind (t.strD "kind"), name := t.strD "name",
        fields := (t.arrD "fields").map fun f => ⟨f.strD "name", (f.arrD "args").map c17Arg, c17Ref (f.getD "type"), c17OptStr f "dep"⟩,
        inputFields := (t.arrD "inputFields").map c17Arg,
        interfaces := c17Strs t "interfaces", members := c17Strs t "members",
        enumValues := (t.arrD "enumValues").map fun v => ⟨v.strD "name", c17OptStr v "dep"⟩ },
    directives := (j.arrD "directives").map fun d => ⟨d.strD "name", c17Strs d "locations", (d.arrD "args").map c17Arg, d.boolD "repeatable"⟩,
    query := j.strD "query",
    mutation := (c17OptStr j "mutation").filter (· != ""),
    subscription := (c17OptStr j "subscription").filter (· != "") }

def nkindStr : NKind → String
  | .scalar => "SCALAR" | .object => "OBJECT" | .iface => "INTERFACE" | .union => "UNION" | .enum => "ENUM"
  | .inputObject => "INPUT_OBJECT" | .list => "LIST" | .nonNull => "NON_NULL"

def nrefStr : NRef → String
  | .leaf k n => n ++ ":" ++ nkindStr k
  | .wrap .list t => "[" ++ nrefStr t ++ "]"
  | .wrap .nonNull t => nrefStr t ++ "!"
  | .wrap k t => nkindStr k ++ "(" ++ nrefStr t ++ ")"

def optStr : Option String → String
  | some s => s
  | none => "-"

def depStr (is : Bool) (r : Option String) : String := if is then "dep:" ++ optStr r else "dep:-"

/-- the facts an introspection result states, in the format the harness extracts from the implementation's JSON -/
def factsOf (i : Intro) : List String :=
  ["R|query|" ++ i.query] ++
  (match i.mutation with | some m => ["R|mutation|" ++ m] | none => []) ++
  (match i.subscription with | some m => ["R|subscription|" ++ m] | none => []) ++
  (i.types.flatMap fun t =>
    ["T|" ++ t.name ++ "|" ++ nkindStr t.kind] ++
    (t.fields.flatMap fun f =>
      [s!"F|{t.name}.{f.name}|{nrefStr f.type}|{depStr f.isDeprecated f.reason}"] ++
      f.args.map fun a => s!"A|{t.name}.{f.name}({a.name})|{nrefStr a.type}|def:{optStr a.default}") ++
    (t.inputFields.map fun a => s!"I|{t.name}.{a.name}|{nrefStr a.type}|def:{optStr a.default}") ++
    (t.enumValues.map fun v => s!"E|{t.name}.{v.name}|{depStr v.isDeprecated v.reason}") ++
    (t.interfaces.map fun r => s!"IF|{t.name}->{nrefStr r}") ++
    (t.possibleTypes.map fun r => s!"PT|{t.name}->{nrefStr r}")) ++
  (i.directives.flatMap fun d =>
    [s!"D|@{d.name}|{",".intercalate (d.locations.toArray.qsort (· < ·)).toList}|rep:{d.repeatable}"] ++
    d.args.map fun a => s!"DA|@{d.name}({a.name})|{nrefStr a.type}|def:{optStr a.default}")

/-- `c17.facts {schema}` → the model's facts, and the executable instance of the round-trip theorem -/
def c17facts (args : Json) : Json :=
  let s := c17Schema (args.getD "schema")
  .obj [("facts", .arr ((factsOf (generate s)).map .str)), ("wf", .bool s.wf), ("roundtrip", .bool (decide (convert (generate s) = s)))]

end GqlVerif.Driver
