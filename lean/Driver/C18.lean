import GqlVerif.Base.Json
import GqlVerif.Proto.WsClient
namespace GqlVerif.Driver
open GqlVerif GqlVerif.WsClient

def c18Kind (j : Json) : Kind :=
  match j.strD "kind" with
  | "error" => .error
  | "complete" => .complete
  | _ => .data (j.natD "n")

/-- where subscriber s is registered: (connection, upstream id) -/
def c18Where (st : St) (s : Nat) : Option (Nat × Nat) :=
  st.conns.findSome? fun cn => (cn.regs.find? (·.sub == s)).map fun r => (cn.cid, r.id)

/-- the harness addresses upstream messages and drops by subscriber; resolve against the current state -/
def c18Resolve (st : St) (j : Json) : Option Act :=
  match j.strD "op" with
  | "subscribe" => some (.subscribe (j.natD "sub") (j.natD "key"))
  | "unsubscribe" => some (.unsubscribe (j.natD "sub"))
  | "upstreamSub" => (c18Where st (j.natD "sub")).map fun (c, id) => .upstream c id (c18Kind j)
  | "dropSub" => (c18Where st (j.natD "sub")).map fun (c, _) => .drop c
  | _ => none

def c18EventJson : Event → Json
  | .msg (.data n) => .str s!"data:{n}"
  | .msg .error => .str "error"
  | .msg .complete => .str "complete"
  | .connError => .str "connError"

/-- the registry part of a model state, as a string (the harness counts the distinct states its scenarios visit) -/
def c18Fingerprint (st : St) : String :=
  String.intercalate ";" (st.conns.map fun c =>
    s!"{c.cid}/{c.key}:" ++ String.intercalate "," (c.regs.map fun r => s!"{r.id}>{r.sub}"))

/-- `c18.run {ops, subscribers}` → per subscriber the delivered events, the number of dials, the live connections,
    and per op the number of events it delivers -/
def c18run (args : Json) : Json :=
  let (st, expect, connsAfter, fps) := (args.arrD "ops").foldl (fun (acc : St × List Nat × List Nat × List String) j =>
    match c18Resolve acc.1 j with
    | some a => let st' := step acc.1 a; (st', acc.2.1 ++ [st'.log.length - acc.1.log.length], acc.2.2.1 ++ [st'.conns.length],
        acc.2.2.2 ++ [c18Fingerprint st'])
    | none => (acc.1, acc.2.1 ++ [0], acc.2.2.1 ++ [acc.1.conns.length], acc.2.2.2)) (({} : St), [], [], [])
  .obj [("dials", Json.ofNat st.dials),
        ("states", .arr (fps.map Json.str)),
        ("conns", .arr (st.conns.map fun c => .obj [("cid", Json.ofNat c.cid), ("key", Json.ofNat c.key),
            ("regs", .arr (c.regs.map fun r => .obj [("id", Json.ofNat r.id), ("sub", Json.ofNat r.sub)]))])),
        ("delivered", .arr ((List.range (args.natD "subscribers")).map fun s => .arr ((delivered st s).map c18EventJson))),
        ("expect", .arr (expect.map Json.ofNat)),
        ("connsAfter", .arr (connsAfter.map Json.ofNat))]
end GqlVerif.Driver
