import GqlVerif.Base.Json
import GqlVerif.Plan.Render
import GqlVerif.Plan.RenderSpec
namespace GqlVerif.Driver
open GqlVerif GqlVerif.Render

def strList (j : Json) : List String := (j.asArr?.getD []).filterMap Json.asStr?

def guardOfJson (f : Json) : Guard :=
  { onTypeNames := match f.getD "on" with | .arr xs => some (xs.filterMap Json.asStr?) | _ => none,
    parentOn := match f.getD "parentOn" with
      | .arr xs => some (xs.map fun p => match p with
          | .arr [d, names] => ((d.asNat?).getD 0, strList names)
          | _ => (0, []))
      | _ => none }

mutual
partial def nodeOfJson (j : Json) : Node :=
  match j.strD "k" with
  | "object" => .object (strList (j.getD "path")) (j.boolD "nullable") (j.strD "typeName") (j.strD "source")
      (strList (j.getD "possible")) (strList (j.getD "inaccessibleTypes")) (j.boolD "unresolvable")
      (fieldsOfJson (j.arrD "fields"))
  | "array" => .array (strList (j.getD "path")) (j.boolD "nullable") (nodeOfJson (j.getD "item"))
  | "scalar" =>
    let kind := match j.strD "kind" with
      | "string" => ScalarKind.string | "boolean" => .boolean | "int" => .int | "float" => .float
      | "bigInt" => .bigInt | _ => .custom
    .scalar kind (strList (j.getD "path")) (j.boolD "nullable")
  | "enum" => .enum (strList (j.getD "path")) (j.boolD "nullable") (j.strD "typeName")
      (strList (j.getD "values")) (strList (j.getD "inaccessible"))
  | "static" => .staticString (j.strD "s")
  | "emptyObject" => .emptyObject
  | "emptyArray" => .emptyArray
  | _ => .null
partial def fieldsOfJson : List Json → Fields
  | [] => .nil
  | f :: fs => .cons (f.strD "name") (guardOfJson f) (nodeOfJson (f.getD "value")) (fieldsOfJson fs)
end

def peJson : PE → Json
  | .name s => .str s
  | .idx i => Json.ofNat i

/-- `c02.render {tree, data}` → `{errors:[[cls,[path…]]…], data, dataNull, malformed, wf}`; `wf` = the tree has the shape the
    type-safety theorems of Props.C02 are proved for (`wfRoot`) -/
def c02render (args : Json) : Json :=
  let tree := nodeOfJson (args.getD "tree")
  let out := resolve tree (args.getD "data")
  let errs := Json.arr (out.errors.map fun e => .arr [.str e.cls, .arr (e.path.map peJson)])
  let wf := ("wf", Json.bool (wfRoot tree))
  match out.data with
  | some v => .obj [("errors", errs), ("data", v), ("dataNull", .bool out.dataNull), ("malformed", .bool false), wf]
  | none => .obj [("errors", errs), ("data", .null), ("dataNull", .bool false), ("malformed", .bool true), wf]

end GqlVerif.Driver
