import GqlVerif.Base.Json
import GqlVerif.Proto.SingleFlight
namespace GqlVerif.Driver
open GqlVerif GqlVerif.SingleFlight

def srcOfJson (j : Json) : ErrSrc :=
  match j with
  | .str "upstream" => .upstream
  | .num r => .cancelOf (r.toNat?.getD 0)
  | _ => .upstream

/-- one observed action; the sub-graph single flight's actions are translated into the inbound
    protocol's steps (lookup and registration are one atomic step there; the leader always publishes) -/
def actsOfJson (a : Json) : List Act :=
  match a with
  | .arr (.str name :: .num t :: rest) =>
    let t := t.toNat?.getD 0
    match name with
    | "arrive" => [.arrive t]
    | "addFollower" => [.addFollower t]
    | "wake" => [.wake t]
    | "cancelWait" => [.cancelWait t]
    | "finishOkDelete" => [.finishOkDelete t]
    | "finishOkCheck" => [.finishOkCheck t]
    | "finishOkClose" => [.finishOkClose t]
    | "finishErrDelete" => [.finishErrDelete t (srcOfJson (rest.headD .null))]
    | "finishErrClose" => [.finishErrClose t]
    | "sub.arriveShared" => [.arrive t, .addFollower t]
    | "sub.finishOk" => [.finishOkDelete t, .finishOkCheck t]
    | "sub.finishErr" => [.finishErrDelete t (srcOfJson (rest.headD .null))]
    | "sub.closeOk" => [.finishOkClose t]
    | "sub.closeErr" => [.finishErrClose t]
    | _ => []
  | _ => []

def pcStr : Pc → String
  | .idle => "idle" | .looked g => s!"looked:{g}" | .waiting g => s!"waiting:{g}" | .leader g => s!"leader:{g}"
  | .okDeleted g => s!"okDeleted:{g}" | .okChecked g => s!"okChecked:{g}" | .errDeleted g => s!"errDeleted:{g}"
  | .doneLeader g => s!"doneLeader:{g}" | .gotData g => s!"gotData:{g}"
  | .gotErr g .upstream => s!"gotErr:{g}:upstream" | .gotErr g (.cancelOf u) => s!"gotErr:{g}:cancel:{u}"
  | .ownCancel => "ownCancel" | .solo => "solo"

def runTrace (s : St) : List (Nat × Act) → St × Option Nat
  | [] => (s, none)
  | (i, a) :: rest => match step s a with
    | some s' => runTrace s' rest
    | none => (s, some i)

/-- `c11.accept {trace:[[name,t,…]…], participants:n}` → does the model accept the observed trace; final pcs -/
def c11accept (args : Json) : Json :=
  let acts := (args.arrD "trace").zipIdx.flatMap fun (a, i) => (actsOfJson a).map fun x => (i, x)
  let n := args.natD "participants"
  let (s, rej) := runTrace St.init acts
  let pcs := (List.range n).map fun t => Json.str (pcStr (s.pcs t))
  let closed := (List.range s.nextGen).map fun g => match s.entries g with
    | some e => Json.ofNat e.closed | none => Json.null
  .obj [("accepted", .bool rej.isNone), ("rejectedAt", match rej with | some i => Json.ofNat i | none => .null),
        ("pcs", .arr pcs), ("closed", .arr closed),
        ("noDoubleClose", .bool ((List.range s.nextGen).all fun g => match s.entries g with | some e => e.closed ≤ 1 | none => true))]

end GqlVerif.Driver
