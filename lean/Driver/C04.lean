import GqlVerif.Base.Json
import GqlVerif.Gql.Valid
namespace GqlVerif.Driver
open GqlVerif GqlVerif.Valid

partial def c04TRef (j : Json) : Valid.TRef :=
  match j.strD "k" with
  | "list" => .list (c04TRef (j.getD "of"))
  | "nonnull" => .nonNull (c04TRef (j.getD "of"))
  | _ => .named (j.strD "n")

partial def c04V (j : Json) : V :=
  match j.strD "k" with
  | "int" => .int (j.strD "raw")
  | "float" => .float (j.strD "raw")
  | "str" => .str (j.strD "raw")
  | "bool" => .bool (j.boolD "b")
  | "null" => .null
  | "enum" => .enum (j.strD "raw")
  | "var" => .var (j.strD "raw")
  | "list" => .list ((j.arrD "items").map c04V)
  | "obj" => .obj ((j.arrD "fields").map fun f => (f.strD "n", c04V (f.getD "v")))
  | _ => .null

def c04ArgDef (j : Json) : ArgDef := ⟨j.strD "name", c04TRef (j.getD "type"), j.boolD "hasDefault"⟩

def c04Schema (j : Json) : Valid.Schema :=
  { types := (j.arrD "types").map fun t =>
      { name := t.strD "name", kind := t.strD "kind",
        fields := (t.arrD "fields").map fun f => ⟨f.strD "name", c04TRef (f.getD "type"), (f.arrD "args").map c04ArgDef⟩,
        possible := (t.arrD "possible").filterMap Json.asStr?,
        enumValues := (t.arrD "enumValues").filterMap Json.asStr?,
        inputFields := (t.arrD "inputFields").map c04ArgDef },
    directives := (j.arrD "directives").map fun d =>
      ⟨d.strD "name", (d.arrD "locations").filterMap Json.asStr?, (d.arrD "args").map c04ArgDef, d.boolD "repeatable"⟩,
    query := (if j.strD "query" == "" then "Query" else j.strD "query"),
    mutation := (if j.strD "mutation" == "" then "Mutation" else j.strD "mutation"),
    subscription := (if j.strD "subscription" == "" then "Subscription" else j.strD "subscription") }

def c04Args (j : Json) (k : String) : List (String × V) := (j.arrD k).map fun a => (a.strD "n", c04V (a.getD "v"))
def c04Dirs (j : Json) : List Valid.Dir := (j.arrD "dirs").map fun d => ⟨d.strD "name", c04Args d "args"⟩

partial def c04Sel (j : Json) : Valid.Sel :=
  match j.strD "t" with
  | "inline" => .inline ((j.get? "cond").bind Json.asStr?) (c04Dirs j) ((j.arrD "sels").map c04Sel)
  | "spread" => .spread (j.strD "name") (c04Dirs j)
  | _ => .field (j.strD "alias") (j.strD "name") (c04Args j "args") (c04Dirs j) ((j.arrD "sels").map c04Sel)

def c04Op (j : Json) : Valid.Op :=
  { kind := (if j.strD "kind" == "" then "query" else j.strD "kind"),
    vars := (j.arrD "vars").map fun v => ⟨v.strD "name", c04TRef (v.getD "type"), (v.get? "default").map c04V⟩,
    dirs := c04Dirs j,
    sels := (j.arrD "sels").map c04Sel,
    frags := (j.arrD "frags").map fun f => ⟨f.strD "name", f.strD "typeCond", c04Dirs f, (f.arrD "sels").map c04Sel⟩ }

/-- `c04.validate {schema, op}` → {valid, failed: [rule group names]} -/
def c04validate (args : Json) : Json :=
  let vs := verdicts (c04Schema (args.getD "schema")) (c04Op (args.getD "op"))
  .obj [("valid", .bool (vs.all (·.2))), ("failed", .arr ((vs.filter (!·.2)).map fun p => .str p.1))]
end GqlVerif.Driver
