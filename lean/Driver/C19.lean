import GqlVerif.Base.Json
import GqlVerif.Proto.WsServer
namespace GqlVerif.Driver
open GqlVerif GqlVerif.WsServer

def asciiLower (s : String) : String := String.ofList (s.toList.map fun c => if 'A' ≤ c ∧ c ≤ 'Z' then Char.ofNat (c.toNat + 32) else c)

/-- values of the members Go's decoder assigns to the struct field `name`: exact or case-insensitive key match, in order -/
def goField (kvs : List (String × Json)) (name : String) : List Json :=
  kvs.filterMap fun (k, v) => if k == name || asciiLower k == name then some v else none

/-- a string field: null leaves it alone, a non-string is a type error; the last assignment wins -/
def goString (vals : List Json) : Except Unit String :=
  vals.foldl (fun acc v => match acc, v with
    | .error e, _ => .error e
    | .ok cur, .null => .ok cur
    | .ok _, .str s => .ok s
    | .ok _, _ => .error ()) (.ok "")

def classifyQuery (q : String) : OpKind :=
  if q.startsWith "subscription" then .sub
  else if q.startsWith "query" || q.startsWith "mutation" then .query
  else .poolErr

/-- the operation a subscribe/start payload denotes for the scripted executor pool -/
def opOfPayload (legacy : Bool) (p : Option Json) : Option OpKind :=
  match p with
  | some (.obj kvs) =>
    -- transport: the handler decodes {operationName, query, variables, extensions}; legacy: the raw payload goes to
    -- the executor pool, which (in the harness) reads only `query`
    match goString (goField kvs "query"), (if legacy then .ok "" else goString (goField kvs "operationname")) with
    | .ok q, .ok _ => some (classifyQuery q)
    | _, _ => none
  | some .null => some (classifyQuery "")
  | _ => none

def decodeFrame (legacy : Bool) (raw : String) : Frame :=
  if raw.isEmpty then .empty else
  match Json.parse raw with
  | none => .syntaxErr
  | some .null => .msg "" "" false false "" none
  | some (.obj kvs) =>
    match goString (goField kvs "id"), goString (goField kvs "type") with
    | .ok id, .ok ty =>
      let payload := (goField kvs "payload").getLast?
      let reject := match payload with
        | some (.obj pk) => pk.any fun (k, _) => k == "reject"
        | _ => false
      .msg ty id payload.isSome reject (match payload with | some v => v.render | none => "") (opOfPayload legacy payload)
    | _, _ => .typeErr
  | some _ => .typeErr

def outStr : Out → String
  | .ack => "connection_ack"
  | .pong p => s!"pong:{p}"
  | .heartbeat => "heartbeat"
  | .ka => "ka"
  | .next id t => s!"next:{id}:{t}"
  | .error id => s!"error:{id}"
  | .complete id => s!"complete:{id}"
  | .connectionError => "connection_error"
  | .close c => s!"close:{c}"

def wsActOfJson (legacy : Bool) (a : Json) : Option Act :=
  match a with
  | .arr (.str name :: rest) =>
    let n (k : Nat) : Nat := ((rest.getD k .null).asNat?).getD 0
    match name with
    | "recv" => match rest with
      | [.str raw] => some (.recv (decodeFrame legacy raw))
      | _ => none
    | "execBegin" => some (.execBegin (n 0))
    | "execFlush" => some (.execFlush (n 0) (n 1))
    | "execEnd" => some (.execEnd (n 0) ((rest.getD 1 .null).asBool?.getD false) ((rest.getD 2 .null).asNat?))
    | "instExit" => some (.instExit (n 0))
    | "initTimeout" => some .initTimeout
    | "tick" => some .tick
    | "exit" => some .exit
    | "clientGone" => some .clientGone
    | _ => none
  | _ => none

def runWs (legacy : Bool) (s : St) : List (Nat × Json) → St × Option Nat
  | [] => (s, none)
  | (i, a) :: rest =>
    match a with
    | .arr [.str "ticks", .bool observed] =>
      -- several timer intervals passed with the connection open: keep-alive frames were written iff a loop is running
      if (decide (s.heartbeats > 0) && s.closed.isNone) == observed then
        (if observed then match step s .tick with
          | some s' => runWs legacy s' rest
          | none => (s, some i)
        else runWs legacy s rest)
      else (s, some i)
    | _ =>
    match wsActOfJson legacy a with
    | some act => match step s act with
      | some s' => runWs legacy s' rest
      | none => (s, some i)
    | none => (s, some i)

/-- `c19.run {proto:"transport"|"legacy", trace:[…]}` -/
def c19run (args : Json) : Json :=
  let p := if args.strD "proto" == "legacy" then Proto.legacy else Proto.transport
  let (s, rej) := runWs (p == .legacy) (St.init p) ((args.arrD "trace").zipIdx.map fun (a, i) => (i, a))
  .obj [("accepted", .bool rej.isNone), ("rejectedAt", match rej with | some i => Json.ofNat i | none => .null),
        ("out", .arr (s.out.map fun o => .str (outStr o))),
        ("closed", match s.closed with | some c => .ofNat c | none => .null),
        ("initialized", .bool s.initialized), ("heartbeats", .ofNat s.heartbeats),
        ("registered", .arr (s.reg.map fun p => .str p.1)),
        ("insts", .arr (s.insts.map fun x => .obj [("id", .str x.id), ("sub", .bool x.isSub), ("cancelled", .bool x.cancelled),
                                                      ("phase", .str (match x.phase with | .idle => "idle" | .running => "running" | .exited => "exited")), ("runs", .ofNat x.runs)]))]

/-- `c19.decode {frame}` → how the model decodes a raw frame (for the harness' evidence and debugging) -/
def c19decode (args : Json) : Json :=
  match decodeFrame (args.strD "proto" == "legacy") (args.strD "frame") with
  | .empty => .str "empty"
  | .syntaxErr => .str "syntaxErr"
  | .typeErr => .str "typeErr"
  | .msg ty id hp rj raw op => .obj [("type", .str ty), ("id", .str id), ("hasPayload", .bool hp), ("reject", .bool rj), ("raw", .str raw),
      ("op", match op with | some .sub => .str "sub" | some .query => .str "query" | some .poolErr => .str "poolErr" | none => .null)]

end GqlVerif.Driver
