import GqlVerif.Base.Json
import GqlVerif.Proto.Defer
import GqlVerif.Proto.DeferTree
namespace GqlVerif.Driver
open GqlVerif GqlVerif.Defer

def c10Path (xs : List Json) : List PathElem :=
  xs.map fun x => match x with
    | .str s => .key s
    | .num r => .idx (r.toNat?.getD 0)
    | _ => .key ""

def c10Frame (j : Json) : Frame :=
  { hasData := (j.get? "data").isSome,
    pending := (j.arrD "pending").map fun p => (p.strD "id", c10Path (p.arrD "path")),
    incremental := (j.arrD "incremental").map fun i => ⟨i.strD "id", c10Path (i.arrD "subPath"), i.getD "data"⟩,
    completed := (j.arrD "completed").map fun c => c.strD "id",
    hasNext := j.boolD "hasNext" }

/-- index of the first frame that is not admissible (for the report) -/
def c10FirstBad : State → Nat → List Frame → Option Nat
  | _, _, [] => none
  | s, n, f :: rest => if frameOK s f then c10FirstBad (stepState s f) (n + 1) rest else some n

def c10check (args : Json) : Json :=
  let raw := args.arrD "frames"
  let fs := raw.map c10Frame
  let initial := match raw with | f :: _ => f.getD "data" | [] => .null
  .obj [("accept", .bool (accept fs)),
        ("firstBad", match c10FirstBad {} 0 fs with | some n => Json.ofNat n | none => .null),
        ("allDone", .bool (allDone (finalState {} fs))),
        ("data", reconstruct initial fs)]
/-- `c10.anc {parents:[[id,parent]…], f, p}` → `{anc}` (Proto.DeferTree.anc) -/
def c10anc (args : Json) : Json :=
  let ps := (args.arrD "parents").map fun j => match j with
    | .arr [a, b] => ((a.asNat?).getD 0, (b.asNat?).getD 0)
    | _ => (0, 0)
  let parent : Nat → Nat := fun g => match ps.find? (·.1 == g) with | some (_, p) => p | none => 0
  .obj [("anc", .bool (GqlVerif.Proto.DeferTree.anc parent (args.natD "f") (args.natD "p")))]

end GqlVerif.Driver
