import GqlVerif.Base.Json
import GqlVerif.Misc.CacheControl
namespace GqlVerif.Driver
open GqlVerif

/-- `c16.ttl {values:[hex…], default:int}` → `{stored, ttl, parsed}` -/
def c16ttl (args : Json) : Json :=
  let values := (args.arrD "values").map fun v => bytesOfHex ((v.asStr?).getD "")
  let d := args.intD "default"
  let parsed := CacheControl.parseHeader values
  let flags : Json := match parsed with
    | none => .str "error"
    | some cc => .obj [("maxAge", match cc.maxAge with | some v => Json.ofNat v | none => .null),
                       ("sMaxAge", match cc.sMaxAge with | some v => Json.ofNat v | none => .null),
                       ("noStore", .bool cc.noStore), ("noCache", .bool cc.noCache),
                       ("public", .bool cc.pub), ("private", .bool cc.priv)]
  match CacheControl.ttl values d with
  | none => .obj [("stored", .bool false), ("ttl", .num "0"), ("parsed", flags)]
  | some t => .obj [("stored", .bool true), ("ttl", Json.ofInt t), ("parsed", flags)]

end GqlVerif.Driver
