import GqlVerif.Base.Json
import GqlVerif.Gql.Exec
namespace GqlVerif.Driver
open GqlVerif GqlVerif.Exec

partial def fedTRef (j : Json) : TRef :=
  match j.strD "k" with
  | "list" => .list (fedTRef (j.getD "of"))
  | "nonnull" => .nonNull (fedTRef (j.getD "of"))
  | _ => .named (j.strD "n")

def fedKvs (j : Json) : List (String × Json) := match j with | .obj kvs => kvs | _ => []

def fedSchema (j : Json) : Schema :=
  { types := (j.arrD "types").map fun t =>
      { name := t.strD "name", kind := t.strD "kind",
        fields := (t.arrD "fields").map fun f => { name := f.strD "name", type := fedTRef (f.getD "type"), argDefaults := fedKvs (f.getD "argDefaults") },
        possible := (t.arrD "possible").filterMap Json.asStr?,
        keys := (t.arrD "keys").filterMap Json.asStr? },
    query := (if j.strD "query" == "" then "Query" else j.strD "query"),
    mutation := (if j.strD "mutation" == "" then "Mutation" else j.strD "mutation"),
    isSubgraph := j.boolD "isSubgraph",
    failed := (j.arrD "failed").filterMap fun p => match p with | .arr [.str t, .str f] => some (t, f) | _ => none,
    denied := (j.arrD "denied").filterMap fun p => match p with | .arr [.str t, .str f] => some (t, f) | _ => none }

partial def fedVal (j : Json) : Val :=
  match j.get? "var", j.get? "lit", j.get? "list", j.get? "obj" with
  | some (.str n), _, _, _ => .var n
  | _, some l, _, _ => .lit l
  | _, _, some (.arr xs), _ => .list (xs.map fedVal)
  | _, _, _, some (.arr fs) => .obj (fs.filterMap fun p => match p with | .arr [.str k, v] => some (k, fedVal v) | _ => none)
  | _, _, _, _ => .lit .null

def fedDirs (j : Json) : List Dir := (j.arrD "dirs").map fun d => ⟨d.strD "name", fedVal (d.getD "if")⟩

partial def fedSel (j : Json) : Sel :=
  match j.strD "t" with
  | "inline" => .inline ((j.get? "cond").bind Json.asStr?) (fedDirs j) ((j.arrD "sels").map fedSel)
  | "spread" => .spread (j.strD "name") (fedDirs j)
  | _ => .field (j.strD "alias") (j.strD "name")
      ((j.arrD "args").filterMap fun p => match p with | .arr [.str k, v] => some (k, fedVal v) | _ => none)
      (fedDirs j) ((j.arrD "sels").map fedSel)

def fedOp (j : Json) : Op :=
  { kind := (if j.strD "kind" == "" then "query" else j.strD "kind"),
    sels := (j.arrD "sels").map fedSel,
    frags := (j.arrD "frags").map fun f => ⟨f.strD "name", f.strD "typeCond", (f.arrD "sels").map fedSel⟩,
    varDefaults := fedKvs (j.getD "varDefaults") }

partial def fedFVal (j : Json) : FVal :=
  match j.get? "s", j.get? "r", j.get? "l", j.get? "e", j.get? "c" with
  | some s, _, _, _, _ => .scalar s
  | _, some (.num r), _, _, _ => .ref (r.toNat?.getD 0) none
  | _, _, some (.arr xs), _, _ => .list (xs.map fedFVal)
  | _, _, _, some (.str m), _ => .err m
  | _, _, _, _, some (.arr xs) => .computed (xs.filterMap Json.asStr?)
  | _, _, _, _, _ => .null

def fedUniverse (j : Json) : Universe :=
  { nodes := ((j.arrD "nodes").map fun n => ({ type := n.strD "type", fields := (fedKvs (n.getD "fields")).map fun (k, v) => (k, fedFVal v) } : Node)).toArray }

/-- `fed.exec {schema, universe, op, vars}` → {data, errors} -/
def fedExec (args : Json) : Json :=
  let r := execute (fedSchema (args.getD "schema")) (fedUniverse (args.getD "universe")) (fedOp (args.getD "op")) (fedKvs (args.getD "vars"))
  .obj [("data", r.data), ("errors", .arr (r.errors.map .str))]

end GqlVerif.Driver
