import GqlVerif.Base.Json
import GqlVerif.Gql.Coerce
namespace GqlVerif.Driver
open GqlVerif GqlVerif.Coerce

partial def typeOfJson (j : Json) : GType :=
  match j.strD "k" with
  | "list" => .list (typeOfJson (j.getD "of"))
  | "nonNull" => .nonNull (typeOfJson (j.getD "of"))
  | _ => .named (j.strD "n")

def typeDefOfJson (j : Json) : TypeDef :=
  match j.strD "kind" with
  | "scalar" => .scalar (j.strD "name")
  | "enum" => .enum (j.strD "name") ((j.arrD "values").map fun v =>
      match v with
      | .arr [.str s, .bool b] => (s, b)
      | _ => ("", false))
  | "input" => .input (j.strD "name") (j.boolD "oneOf") ((j.arrD "fields").map fun f =>
      ⟨f.strD "name", typeOfJson (f.getD "type"), f.boolD "hasDefault"⟩)
  | _ => .other (j.strD "name")

def schemaOfJson (j : Json) : Schema := ⟨(j.arrD "types").map typeDefOfJson⟩

/-- `c06.validate {schema, defs:[{name,type}], variables, remap:[[op,client]…], disable}` → verdict -/
def c06validate (args : Json) : Json :=
  let S := schemaOfJson (args.getD "schema")
  let defs := (args.arrD "defs").map fun d => (⟨d.strD "name", typeOfJson (d.getD "type")⟩ : VarDef)
  let remap := (args.arrD "remap").map fun p => match p with
    | .arr [.str a, .str b] => (a, b)
    | _ => ("", "")
  let opts : Opts := ⟨args.boolD "disable"⟩
  match validate S opts defs (args.getD "variables") remap with
  | none => .obj [("ok", .bool true)]
  | some e => .obj [("ok", .bool false), ("cls", .str e.cls.tag), ("var", .str e.var),
                    ("path", match e.path with | some p => .str p | none => .null), ("echo", .bool e.echoesContent)]

end GqlVerif.Driver
