import GqlVerif.Base.Json
import GqlVerif.Gql.Lex
namespace GqlVerif.Driver
open GqlVerif

def inputOfHex (h : String) : Lex.Input := (bytesOfHex h).toArray

/-- `c05.lex {src:hex}` → `{toks:[[kw,start,stop]…]}` -/
def c05lex (args : Json) : Json :=
  let inp := inputOfHex (args.strD "src")
  .obj [("toks", .arr ((Lex.tokenize inp).map fun t => .arr [Json.ofNat t.kw.toNat, Json.ofNat t.start, Json.ofNat t.stop]))]

/-- `c05.limits {src:hex,maxDepth,maxFields}` → `{verdict,depth,fields}` -/
def c05limits (args : Json) : Json :=
  let inp := inputOfHex (args.strD "src")
  match Lex.tokenizeWithLimits inp (args.intD "maxDepth") (args.intD "maxFields") with
  | .ok d f => .obj [("verdict", .str "ok"), ("depth", Json.ofInt d), ("fields", Json.ofNat f)]
  | .depthExceeded d f => .obj [("verdict", .str "depth"), ("depth", Json.ofInt d), ("fields", Json.ofNat f)]
  | .fieldsExceeded d f => .obj [("verdict", .str "fields"), ("depth", Json.ofInt d), ("fields", Json.ofNat f)]

end GqlVerif.Driver
