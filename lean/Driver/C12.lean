import GqlVerif.Base.Json
import GqlVerif.Misc.SubFilter
import GqlVerif.Proto.Subs
namespace GqlVerif.Driver
open GqlVerif GqlVerif.Subs

def kindOfJson : Json → Kind
  | .str "complete" => .complete
  | .str "error" => .error
  | .num r => .data (r.toNat?.getD 0)
  | _ => .error

def optNat : Json → Option Nat
  | .num r => r.toNat?
  | _ => none

def natsOf : Json → List Nat
  | .arr xs => xs.filterMap optNat
  | _ => []

/-- one observed action → model actions.  `update`/`complete`/`error` with no racing removal are a
    whole fan-out; the racing variants are spelled out by the harness with fanBegin/fanOne/fanEnd. -/
def subsActOfJson (a : Json) : Option Act :=
  match a with
  | .arr (.str name :: rest) =>
    let n (k : Nat) : Nat := (optNat (rest.getD k .null)).getD 0
    match name with
    | "subscribe" => some (.subscribe (n 0) (n 1) (n 2) (match rest.getD 3 .null with | .arr xs => some (xs.filterMap optNat) | _ => none) ((rest.getD 4 .null).asBool?.getD false))
    | "startCall" => some (.startCall (n 0))
    | "startOk" => some (.startOk (n 0))
    | "startFail" => some (.startFail (n 0) (natsOf (rest.getD 1 .null)))
    | "fanBegin" => some (.fanBegin (n 0) (kindOfJson (rest.getD 1 .null)) (optNat (rest.getD 2 .null)))
    | "fanOne" => some (.fanOne (n 0) (n 1) ((rest.getD 2 .null).asBool?.getD false))
    | "fanEnd" => some (.fanEnd (n 0))
    | "done" => some (.done (n 0))
    | "unsubscribe" => some (.unsubscribe (n 0))
    | "removeClient" => some (.removeClient (n 0))
    | "heartbeat" => some (.heartbeat (n 0))
    | "hookFail" => some (.hookFail (n 0))
    | "close" => some (.close (n 0))
    | "cancel" => some (.cancel (n 0))
    | "shutdown" => some .shutdown
    | "cancelCtx" => some (.cancelCtx (n 0))
    | _ => none
  | _ => none

def callStr : Call → String
  | .data g n => s!"data:{g}:{n}"
  | .heartbeat => "heartbeat"
  | .error => "error"
  | .complete => "complete"
  | .errorReport => "errorReport"

def runOpt (s : St) (as : List Act) : Option St := run s as

/-- driver-level macros (each expands to model actions chosen from the model state):
    `event g k only`  = the whole fan-out if the updater's guard lets it start, nothing otherwise;
    `fanAll g`        = every outstanding write of g's fan-out;
    `heartbeatAll g`  = updater.Heartbeat: a heartbeat to every eligible member, if the guard passes;
    `startFailAll g`  = startFail with the error written to every current member;
    `drain`           = every pending close and cancel. -/
def macroActs (s : St) (a : Json) : Option (List Act) :=
  match a with
  | .arr [.str "fanAll", .num r] =>
    let g := r.toNat?.getD 0
    match (s.gens g).bind (·.fan) with
    | some (_, todo) => some (todo.map fun j => Act.fanOne g j false)
    | none => none
  | .arr [.str "heartbeatAll", .num r] =>
    let g := r.toNat?.getD 0
    match s.gens g with
    | some G =>
      if G.done || G.cancelled then some []
      else some (((s.members g).filter fun i => match s.subs i with
        | some x => x.hb && !x.wrote && !x.ctxDone && !x.removed
        | none => false).map Act.heartbeat)
    | none => none
  | .arr [.str "startFailAll", .num r] =>
    let g := r.toNat?.getD 0
    some [Act.startFail g (s.members g)]
  | .arr [.str "doneOnce", .num r] =>
    let g := r.toNat?.getD 0
    match s.gens g with
    | some G => if G.done then some [] else some [Act.done g]
    | none => none
  | .arr [.str "closeSub", .num r, .num i] =>
    match s.gens (r.toNat?.getD 0) with
    | some G => if G.done || G.cancelled then some [] else some [Act.unsubscribe (i.toNat?.getD 0)]
    | none => none
  | _ => none

/-- remove one occurrence of each element of `held` from `l` -/
def diffOnce (l held : List Nat) : List Nat := held.foldl List.erase l

/-- `hold` marks the currently pending close/cancel calls as belonging to an operation the harness keeps parked
    between its registry part and its close/cancel part; `drain` leaves those alone until `release`. -/
def runSubs (s : St) (heldClose heldCancel : List Nat) : List (Nat × Json) → St × Option Nat
  | [] => (s, none)
  | (i, a) :: rest =>
    match a with
    | .arr [.str "hold"] => runSubs s s.pendClose s.pendCancel rest
    | .arr [.str "release"] => runSubs s [] [] rest
    | .arr [.str "drain"] =>
      match run s ((diffOnce s.pendClose heldClose).map Act.close ++ (diffOnce s.pendCancel heldCancel).map Act.cancel) with
      | some s' => runSubs s' heldClose heldCancel rest
      | none => (s, some i)
    | .arr [.str "event", .num r, k, only] =>
      let g := r.toNat?.getD 0
      match s.gens g with
      | some G =>
        if G.done || G.cancelled then runSubs s heldClose heldCancel rest
        else
          match step s (.fanBegin g (kindOfJson k) (optNat only)) with
          | some s1 =>
            match (s1.gens g).bind (·.fan) with
            | some (_, todo) =>
              match run s1 (todo.map (fun j => Act.fanOne g j false) ++ [Act.fanEnd g]) with
              | some s' => runSubs s' heldClose heldCancel rest
              | none => (s, some i)
            | none => (s, some i)
          | none => (s, some i)
      | none => (s, some i)
    | _ =>
      match macroActs s a with
      | some acts => match run s acts with
        | some s' => runSubs s' heldClose heldCancel rest
        | none => (s, some i)
      | none =>
        match subsActOfJson a with
        | some act => match step s act with
          | some s' => runSubs s' heldClose heldCancel rest
          | none => (s, some i)
        | none => (s, some i)

/-- `c12.run {trace:[…], subs:[ids], gens:n}` → acceptance and the model's observable state -/
def c12run (args : Json) : Json :=
  let (s, rej) := runSubs St.init [] [] ((args.arrD "trace").zipIdx.map (fun (a, i) => (i, a)))
  let subs := (natsOf (args.getD "subs")).map fun i => match s.subs i with
    | some x => Json.obj [("id", .ofNat i), ("gen", .ofNat x.gen), ("removed", .bool x.removed), ("closed", .ofNat x.closed),
                          ("registered", .bool (s.byID.contains i)), ("wrote", .bool x.wrote), ("log", .arr (x.log.map fun c => .str (callStr c)))]
    | none => Json.obj [("id", .ofNat i), ("missing", .bool true)]
  let gens := (List.range s.nextGen).map fun g => match s.gens g with
    | some G => Json.obj [("g", .ofNat g), ("key", .ofNat G.key), ("started", .ofNat G.started), ("cancelled", .bool G.cancelled),
                          ("done", .bool G.done), ("registered", .bool (s.trigs.contains g)),
                          ("fan", match G.fan with | some (_, l) => .arr (l.map .ofNat) | none => .null)]
    | none => Json.null
  .obj [("accepted", .bool rej.isNone), ("rejectedAt", match rej with | some i => Json.ofNat i | none => .null),
        ("subs", .arr subs), ("gens", .arr gens),
        ("byID", .ofNat s.byID.length), ("conns", .ofNat ((s.byID.filterMap fun i => (s.subs i).map (·.conn)).eraseDups.length)), ("trigs", .ofNat s.trigs.length), ("inited", .ofNat s.inited.length),
        ("pendClose", .ofNat s.pendClose.length), ("pendCancel", .ofNat s.pendCancel.length),
        ("subInc", .ofNat s.subInc), ("subDec", .ofNat s.subDec), ("trigInc", .ofNat s.trigInc), ("trigDec", .ofNat s.trigDec),
        ("shutdown", .bool s.shutdown)]

end GqlVerif.Driver

namespace GqlVerif.Driver
open GqlVerif GqlVerif.SubFilter

def kvsOf (j : Json) : List (String × Json) := match j with | .obj kvs => kvs | _ => []

/-- a listed value of an IN condition: static JSON text, a variable, or a static prefix followed by a (string) variable -/
def c12FValue (vars : Json) (j : Json) : FV :=
  let name := j.strD "variable"
  let pre := j.strD "prefix"
  if name != "" && pre != "" then
    match vars.get? name with
    | some (.str s) => .static (.str (pre ++ s))
    | _ => .static .null
  else if name != "" then .var name
  else match Json.parse (j.strD "static") with
    | some v => .static v
    | none => .static .null

partial def c12Filter (vars : Json) (j : Json) : Filter :=
  match j.strD "kind" with
  | "and" => .and ((j.arrD "children").map (c12Filter vars))
  | "or" => .or ((j.arrD "children").map (c12Filter vars))
  | "not" => .not (match j.arrD "children" with | c :: _ => c12Filter vars c | [] => .and [])
  | _ => .isIn (j.strD "field") ((j.arrD "values").map (c12FValue vars))

/-- `c12.filter {filter, event, variables}` → `{passes}` (Misc.SubFilter.passes) -/
def c12filter (args : Json) : Json :=
  let vars := args.getD "variables"
  let event := (args.getD "event").getD "data"
  .obj [("passes", .bool (passes (kvsOf event) (kvsOf vars) (c12Filter vars (args.getD "filter"))))]

end GqlVerif.Driver
