import GqlVerif.Base.Json
import GqlVerif.Gql.Value
namespace GqlVerif.Driver
open GqlVerif GqlVerif.Value

def c15BytesOfStr (s : String) : List Nat := s.toUTF8.toList.map (·.toNat)
def c15NatsOfHex (s : String) : List Nat := (bytesOfHex s).map (·.toNat)
def c15HexOfNats (l : List Nat) : String := bytesToHex (l.map fun n => UInt8.ofNat n)

instance : Inhabited Lit := ⟨.null⟩
instance : Inhabited Lits := ⟨.nil⟩
instance : Inhabited Fields := ⟨.nil⟩

mutual
  partial def c15LitOfJson (j : Json) : Lit :=
    match j.strD "k" with
    | "null" => .null
    | "bool" => .bool (j.boolD "b")
    | "int" => .int (j.boolD "b") (c15BytesOfStr (j.strD "raw"))
    | "float" => .float (j.boolD "b") (c15BytesOfStr (j.strD "raw"))
    | "enum" => .enum (c15BytesOfStr (j.strD "raw"))
    | "str" => .str (c15NatsOfHex (j.strD "c"))
    | "block" => .block (c15NatsOfHex (j.strD "c"))
    | "list" => .list (c15LitsOfJson (j.arrD "items"))
    | "obj" => .obj (c15FieldsOfJson (j.arrD "fields"))
    | "var" => .var (c15BytesOfStr (j.strD "raw"))
    | _ => .null
  partial def c15LitsOfJson : List Json → Lits
    | [] => .nil
    | x :: xs => .cons (c15LitOfJson x) (c15LitsOfJson xs)
  partial def c15FieldsOfJson : List Json → Fields
    | [] => .nil
    | f :: fs => .cons (c15BytesOfStr (f.strD "n")) (c15LitOfJson (f.getD "v")) (c15FieldsOfJson fs)
end

/-- what jsonparser.Get returns for a compact JSON value text: strings without their quotes -/
def c15VarValOfText (t : String) : VarVal :=
  let b := c15BytesOfStr t
  match b with
  | 34 :: rest => { raw := rest.dropLast, isString := true }
  | _ => { raw := b, isString := false }

mutual
  def c15CleanB : Lit → Bool
    | .str c => (gqlUnits c).isSome
    | .block _ => false
    | .list xs => c15CleanListB xs
    | .obj fs => c15CleanFieldsB fs
    | _ => true
  def c15CleanListB : Lits → Bool
    | .nil => true
    | .cons x xs => c15CleanB x && c15CleanListB xs
  def c15CleanFieldsB : Fields → Bool
    | .nil => true
    | .cons _ v fs => c15CleanB v && c15CleanFieldsB fs
end

mutual
  def c15GvalBeq : GVal → GVal → Bool
    | .null, .null => true
    | .bool a, .bool b => a == b
    | .num a, .num b => a == b
    | .str a, .str b => a == b
    | .enum a, .enum b => a == b
    | .bad, .bad => true
    | .raw a, .raw b => a == b
    | .list a, .list b => c15GvalsBeq a b
    | .obj a, .obj b => c15GfieldsBeq a b
    | _, _ => false
  def c15GvalsBeq : List GVal → List GVal → Bool
    | [], [] => true
    | x :: xs, y :: ys => c15GvalBeq x y && c15GvalsBeq xs ys
    | _, _ => false
  def c15GfieldsBeq : List (List Nat × GVal) → List (List Nat × GVal) → Bool
    | [], [] => true
    | (n, x) :: xs, (m, y) :: ys => n == m && c15GvalBeq x y && c15GfieldsBeq xs ys
    | _, _ => false
end

/-- `c15.write {env:[[name,text]…], lits:[…]}` → the model's bytes for each literal, whether the literal is in the
    theorem's domain, and the executable instance of the theorem (tree value = literal value) -/
def c15write (args : Json) : Json :=
  let envL : List (List Nat × VarVal) := (args.arrD "env").filterMap fun p => match p with
    | .arr [.str n, .str t] => some (c15BytesOfStr n, c15VarValOfText t)
    | _ => none
  let env : Env := fun n => (envL.find? fun p => p.1 == n).map (·.2)
  let lits := (args.arrD "lits").map c15LitOfJson
  .obj [("out", .arr (lits.map fun l => .str (c15HexOfNats (writeJSON env l)))),
        ("clean", .arr (lits.map fun l => .bool (c15CleanB l))),
        ("agree", .arr (lits.map fun l => .bool (c15GvalBeq (treeValue (toTree env l)) (litValue env l))))]

end GqlVerif.Driver
