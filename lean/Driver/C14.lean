import GqlVerif.Base.Json
import GqlVerif.Misc.Authz
namespace GqlVerif.Driver
open GqlVerif GqlVerif.Authz

/-- args: {opType: "query"|"mutation"|"subscription", roots: [{protected, denied}]} -/
def c14sent (args : Json) : Json :=
  let t := match args.strD "opType" with
    | "mutation" => OpType.mutation
    | "subscription" => OpType.subscription
    | _ => OpType.query
  let roots := (args.arrD "roots").map fun r => ({ protected_ := r.boolD "protected", denied := r.boolD "denied" } : RootField)
  .obj [("sent", .bool (fetchSent t roots))]
end GqlVerif.Driver
