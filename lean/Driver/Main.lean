import GqlVerif.Base.Json
import Driver.C16
import Driver.C02
import Driver.C05
import Driver.C06
import Driver.C07
import Driver.C08
import Driver.C11
import Driver.C12
import Driver.C19
import Driver.C15
import Driver.C17
import Driver.Fed
import Driver.C10
import Driver.C14
import Driver.C04
import Driver.C18
open GqlVerif GqlVerif.Driver

/-- dispatch one request; unknown op → `unsupported` -/
def dispatch (op : String) (args : Json) : Option Json :=
  match op with
  | "ping" => some (.obj [("pong", .bool true)])
  | "c16.ttl" => some (c16ttl args)
  | "c06.validate" => some (c06validate args)
  | "c07.taint" => some (c07taint args)
  | "c08.validate" => some (c08validate args)
  | "c08.legacy" => some (c08legacy args)
  | "c08.skip" => some (c08skip args)
  | "c02.render" => some (c02render args)
  | "c11.accept" => some (c11accept args)
  | "c12.run" => some (c12run args)
  | "c12.filter" => some (c12filter args)
  | "c19.run" => some (c19run args)
  | "c15.write" => some (c15write args)
  | "c17.facts" => some (c17facts args)
  | "fed.exec" => some (fedExec args)
  | "c10.check" => some (c10check args)
  | "c10.anc" => some (c10anc args)
  | "c14.sent" => some (c14sent args)
  | "c04.validate" => some (c04validate args)
  | "c18.run" => some (c18run args)
  | "c19.decode" => some (c19decode args)
  | "c05.lex" => some (c05lex args)
  | "c05.limits" => some (c05limits args)
  | _ => none

def handleLine (line : String) : String :=
  match Json.parse line with
  | none => "{\"error\":\"bad-json\"}"
  | some req =>
    let id := req.getD "id"
    let op := req.strD "op"
    match dispatch op (req.getD "args") with
    | some out => Json.render (.obj [("id", id), ("out", out)])
    | none => Json.render (.obj [("id", id), ("unsupported", .str op)])

partial def loop (hin hout : IO.FS.Stream) : IO Unit := do
  let line ← hin.getLine
  if line.isEmpty then return ()
  let l := line.trimAscii.toString
  if !l.isEmpty then
    hout.putStrLn (handleLine l)
    hout.flush
  loop hin hout

def main : IO Unit := do
  loop (← IO.getStdin) (← IO.getStdout)
