import GqlVerif.Base.Json
import GqlVerif.Plan.Sched
import GqlVerif.Plan.Skip
namespace GqlVerif.Driver
open GqlVerif GqlVerif.Sched

partial def treeOfJson (j : Json) : FTree :=
  match j.strD "k" with
  | "single" => .single (j.natD "id")
  | "seq" => nest FTree.seq ((j.arrD "c").map treeOfJson)
  | "par" => nest FTree.par ((j.arrD "c").map treeOfJson)
  | _ => .empty
where
  nest (f : FTree → FTree → FTree) : List FTree → FTree
    | [] => .empty
    | [t] => t
    | t :: ts => f t (nest f ts)

def depsOfJson (j : Json) : List (Nat × List Nat) :=
  (j.asArr?.getD []).map fun p => match p with
    | .arr [i, .arr ds] => ((i.asNat?).getD 0, ds.map fun d => (d.asNat?).getD 0)
    | _ => (0, [])

/-- `c08.validate {tree, deps:[[id,[dep…]]…], known:[id…]}` → `{ok}` (the proved checker) -/
def c08validate (args : Json) : Json :=
  let t := treeOfJson (args.getD "tree")
  let dl := depsOfJson (args.getD "deps")
  let deps : Nat → List Nat := fun i => match dl.find? (·.1 == i) with | some (_, ds) => ds | none => []
  let known := (args.arrD "known").map fun k => (k.asNat?).getD 0
  .obj [("ok", .bool (validate deps known t)), ("ids", .arr ((ids t).map Json.ofNat))]

/-- `c08.legacy {fetches:[[id,[dep…]]…]}` → `{waves:[[id…]…]}` (orderSequenceByDependencies + createParallelNodes) -/
def c08legacy (args : Json) : Json :=
  let fs := (depsOfJson (args.getD "fetches")).map fun p => (⟨p.1, p.2⟩ : Fetch)
  .obj [("waves", .arr ((legacyWaves fs).map fun w => .arr (w.map Json.ofNat)))]

/-- `c08.skip {order:[[id,[dep…]]…] (earliest first), fail:[id…]}` → `{issued:[…], errored:[…]}` (Plan.Skip) -/
def c08skip (args : Json) : Json :=
  let s := ((depsOfJson (args.getD "order")).map fun p => (⟨p.1, p.2⟩ : GqlVerif.Plan.Skip.F)).reverse
  let fail := (args.arrD "fail").map fun k => (k.asNat?).getD 0
  .obj [("issued", .arr ((GqlVerif.Plan.Skip.issued fail s).map Json.ofNat)),
        ("errored", .arr ((GqlVerif.Plan.Skip.errored fail s).map Json.ofNat))]

end GqlVerif.Driver
