import GqlVerif.Base.Json
import GqlVerif.Misc.Taint
namespace GqlVerif.Driver
open GqlVerif

instance : Inhabited GqlVerif.Misc.Taint.T := ⟨.leaf false⟩

partial def c07Tree (j : Json) : GqlVerif.Misc.Taint.T :=
  let m := match j.get? "m" with | some (.bool b) => b | _ => false
  if j.strD "kind" == "leaf" then .leaf m
  else .node m ((j.arrD "k").foldr (fun k acc => .cons (c07Tree k) acc) .nil)

/-- `c07.taint {tree:{m,kind,k:[…]}}` → `{tainted, hasMark, height}` (Misc.Taint) -/
def c07taint (args : Json) : Json :=
  let t := c07Tree (args.getD "tree")
  .obj [("tainted", .bool (GqlVerif.Misc.Taint.isTainted 0 t)), ("hasMark", .bool (GqlVerif.Misc.Taint.hasMark t)),
        ("height", Json.ofNat (GqlVerif.Misc.Taint.height t))]

end GqlVerif.Driver
