/-
  Plan.RenderSpec — the specification side of C02 for the renderer model (Plan.Render):

    • `wfNode` / `wfFields` (executable, also evaluated by the driver on every tree the harness builds): the shape the
      planner gives a response plan — a field's value reads ONE key of its parent object, a list item reads the element
      itself, and no later field of the same object writes (is an object or a list under) a key an earlier field reads;
    • `Conforms` / `ConformsFields`: what it means for a rendered JSON value to be type-safe for a plan node under a stack
      of runtime type names: null only where the node is nullable, scalars of the declared JSON kind, enum values that are
      declared and accessible, lists of conforming items, objects with EXACTLY the response keys of the fields that are
      selected for an admissible runtime type, in plan order, each conforming.
-/
import GqlVerif.Plan.Render
namespace GqlVerif.Render
open GqlVerif

/-- the path a node reads (and, for objects and lists, writes back to) in its container -/
def Node.path : Node → List String
  | .scalar _ p _ => p
  | .enum p _ _ _ _ => p
  | .array p _ _ => p
  | .object p .. => p
  | _ => []

/-- nodes that look at the data at all -/
def Node.reads : Node → Bool
  | .scalar .. => true
  | .enum .. => true
  | .array .. => true
  | .object .. => true
  | _ => false

/-- nodes whose pre-walk may write the data (null propagation, write-back of children) -/
def Node.composite : Node → Bool
  | .array .. => true
  | .object .. => true
  | _ => false

/-- keys written by the fields of one object -/
def compositeKeys : Fields → List String
  | .nil => []
  | .cons _ _ value rest => (if value.composite then value.path else []) ++ compositeKeys rest

mutual
def wfNode : Node → Bool
  | .array _ _ item => (!item.reads || item.path.isEmpty) && wfNode item
  | .object _ _ _ _ _ _ _ fields => wfFields fields && !(compositeKeys fields).contains "__typename"
  | _ => true
def wfFields : Fields → Bool
  | .nil => true
  | .cons _ _ value rest =>
    (!value.reads || (value.path.length == 1 && value.path.all fun k => !(compositeKeys rest).contains k))
      && wfNode value && wfFields rest
end

/-- a plan as `Resolve` gets it: the root reads the whole document -/
def wfRoot (root : Node) : Bool := (!root.reads || root.path.isEmpty) && wfNode root

mutual
def Conforms : Node → Json → List (Option String) → Prop
  | .null, v, _ => v = .null
  | .staticString s, v, _ => v = .str s
  | .emptyObject, v, _ => v = .obj []
  | .emptyArray, v, _ => v = .arr []
  | .scalar kind _ nullable, v, _ => (v = .null ∧ nullable = true) ∨ (v ≠ .null ∧ kindOk kind v = true)
  | .enum _ nullable _ values inaccessible, v, _ =>
    (v = .null ∧ nullable = true) ∨ ∃ s, v = .str s ∧ values.contains s = true ∧ inaccessible.contains s = false
  | .array _ nullable item, v, tns =>
    (v = .null ∧ nullable = true) ∨ ∃ xs, v = .arr xs ∧ ∀ x ∈ xs, Conforms item x tns
  | .object _ nullable typeName _ possible _ _ fields, v, tns =>
    (v = .null ∧ nullable = true) ∨
      ∃ kvs tn, v = .obj kvs ∧ typenameCheck possible [] typeName tn = none ∧ ConformsFields fields kvs (tn :: tns)
def ConformsFields : Fields → List (String × Json) → List (Option String) → Prop
  | .nil, kvs, _ => kvs = []
  | .cons name guard value rest, kvs, tns =>
    if skipField guard tns then ConformsFields rest kvs tns
    else ∃ x r, kvs = (name, x) :: r ∧ Conforms value x tns ∧ ConformsFields rest r tns
end

/-! ### plan-directed well-typedness of the subgraph data (the premise of "well-typed data is projected unchanged") -/

mutual
def WT : Node → Json → List (Option String) → Prop
  | .null, _, _ => True
  | .staticString _, _, _ => True
  | .emptyObject, _, _ => True
  | .emptyArray, _, _ => True
  | .scalar kind path nullable, c, _ =>
    match getPath c path with
    | none => nullable = true
    | some .null => nullable = true
    | some v => kindOk kind v = true
  | .enum path nullable _ values inaccessible, c, _ =>
    match getPath c path with
    | none => nullable = true
    | some .null => nullable = true
    | some (.str s) => values.contains s = true ∧ inaccessible.contains s = false
    | some _ => False
  | .array path nullable item, c, tns =>
    match getPath c path with
    | none => nullable = true
    | some .null => nullable = true
    | some (.arr xs) => ∀ x ∈ xs, WT item x tns
    | some _ => False
  | .object path nullable typeName _ possible inaccessibleT unresolvable fields, c, tns =>
    unresolvable = false ∧
    match getPath c path with
    | none => nullable = true
    | some .null => nullable = true
    | some (.obj kvs) =>
      typenameCheck possible inaccessibleT typeName (typenameOf (.obj kvs)) = none ∧
        WTFields fields (.obj kvs) (typenameOf (.obj kvs) :: tns)
    | some _ => False
def WTFields : Fields → Json → List (Option String) → Prop
  | .nil, _, _ => True
  | .cons _ guard value rest, v, tns =>
    if skipField guard tns then WTFields rest v tns else WT value v tns ∧ WTFields rest v tns
end

end GqlVerif.Render
