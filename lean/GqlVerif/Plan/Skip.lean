/-
  Plan.Skip — the loader's bookkeeping of failed requests (Loader.erroredFetchIDs).

  A linearisation of the fetch tree is a list of fetches, LATEST FIRST (so the model is a structural
  recursion).  When a fetch is reached (preparePhase, under the data lock):
    * one of its dependencies is in the errored set  → it is recorded as errored and NOT issued
      (shouldSkipErroredDependencyLocked),
    * otherwise it is issued; if its request fails it is recorded as errored (loadPhase →
      recordErroredFetchID, under the data lock).
-/
namespace GqlVerif.Plan.Skip

structure F where
  id : Nat
  deps : List Nat
deriving Repr, DecidableEq

/-- does fetch `f` enter the errored set, given the errored set `e` it finds -/
def hit (fail : List Nat) (e : List Nat) (f : F) : Bool :=
  f.deps.any (fun d => e.contains d) || fail.contains f.id

/-- errored set after the linearisation `s` (latest first) -/
def errored (fail : List Nat) : List F → List Nat
  | [] => []
  | f :: t => if hit fail (errored fail t) f then f.id :: errored fail t else errored fail t

/-- requests issued by the linearisation `s` (latest first) -/
def issued (fail : List Nat) : List F → List Nat
  | [] => []
  | f :: t => if f.deps.any (fun d => (errored fail t).contains d) then issued fail t else f.id :: issued fail t

/-- a legal linearisation: ids are unique, no fetch reads from itself or from a later one -/
def WO (s : List F) : Prop :=
  s.Pairwise (fun later f => f.id ≠ later.id ∧ later.id ∉ f.deps) ∧ ∀ f ∈ s, f.id ∉ f.deps

end GqlVerif.Plan.Skip
