/-
  Plan.Render — model of the two-pass response renderer `Resolvable.Resolve`
  (v2/pkg/engine/resolve/resolvable.go: walkObject / walkFields / walkArray / scalar & enum walkers).

  Pass 1 (`pre*`, Go: enableRender = false) collects errors and MUTATES the data (nulls at nullable
  ancestors); the mutation is explicit here: every function returns the updated container.
  Pass 2 (`rnd*`, Go: enableRender = true) prints; here it returns the printed JSON *value*
  (`none` = the render pass met an error, i.e. would emit malformed output).
  Default options only (no Apollo compatibility, no field renderer, no authorization, no defer).
-/
import GqlVerif.Base.Json
namespace GqlVerif.Render
open GqlVerif

/-! ### astjson access -/

def decNat? (s : String) : Option Nat :=
  if s.isEmpty then none else if s.toList.all Char.isDigit then s.toNat? else none

/-- `Value.Get(key)`: object key (first match) or decimal array index -/
def get1 (j : Json) (k : String) : Option Json :=
  match j with
  | .obj kvs => (kvs.find? (·.1 == k)).map (·.2)
  | .arr xs => (decNat? k).bind fun i => xs[i]?
  | _ => none

/-- `Value.Get(keys...)` -/
def getPath : Json → List String → Option Json
  | j, [] => some j
  | j, k :: ks => (get1 j k).bind fun v => getPath v ks

def replaceFirst (kvs : List (String × Json)) (k : String) (v : Json) : List (String × Json) :=
  match kvs with
  | [] => [(k, v)]
  | (k', v') :: r => if k' == k then (k, v) :: r else (k', v') :: replaceFirst r k v

/-- `Value.Set(key, v)` -/
def set1 (j : Json) (k : String) (v : Json) : Json :=
  match j with
  | .obj kvs => .obj (replaceFirst kvs k v)
  | .arr xs => match decNat? k with
    | some i => if i < xs.length then .arr (xs.set i v) else .arr xs
    | none => .arr xs
  | other => other

/-- `astjson.SetValue(v, value, path...)` on a path that exists (the only way the renderer uses it);
    an empty path replaces the value itself (used for write-back of item objects / the root) -/
def setPath : Json → List String → Json → Json
  | _, [], v => v
  | j, [k], v => set1 j k v
  | j, k :: ks, v =>
    match get1 j k with
    | some c => set1 j k (setPath c ks v)
    | none => j

/-! ### response plan nodes -/

inductive ScalarKind where
  | string | boolean | int | float | bigInt | custom
  deriving DecidableEq, Repr

structure Guard where
  onTypeNames : Option (List String) := none
  parentOn : Option (List (Nat × List String)) := none
  deriving Repr

mutual
inductive Node where
  | null
  | staticString (s : String)
  | emptyObject
  | emptyArray
  | scalar (kind : ScalarKind) (path : List String) (nullable : Bool)
  | enum (path : List String) (nullable : Bool) (typeName : String) (values inaccessible : List String)
  | array (path : List String) (nullable : Bool) (item : Node)
  | object (path : List String) (nullable : Bool) (typeName sourceName : String)
      (possible inaccessibleTypes : List String) (unresolvable : Bool) (fields : Fields)
inductive Fields where
  | nil
  | cons (name : String) (guard : Guard) (value : Node) (rest : Fields)
end

instance : Inhabited Node := ⟨.null⟩
instance : Inhabited Fields := ⟨.nil⟩

inductive NodeKind where | object | array | other deriving DecidableEq
def Node.kind : Node → NodeKind
  | .object .. => .object
  | .array .. => .array
  | _ => .other
def Node.nullable : Node → Bool
  | .scalar _ _ n => n
  | .enum _ n _ _ _ => n
  | .array _ n _ => n
  | .object _ n .. => n
  | _ => false

/-- `Object.isAbstract` -/
def isAbstract (possible : List String) (typeName : String) : Bool :=
  if possible.length > 1 then true
  else if possible.length == 1 then !possible.contains typeName
  else false

inductive PE where
  | name (s : String)
  | idx (i : Nat)
  deriving Repr, DecidableEq

structure Err where
  cls : String
  path : List PE
  deriving Repr

/-- walk state: current response path (in order), stack of runtime `__typename`s (innermost first),
    errors so far (in order) -/
structure St where
  path : List PE := []
  typeNames : List (Option String) := []
  errs : List Err := []
  deriving Repr

def St.addErr (s : St) (cls : String) (extra : List String) : St :=
  { s with errs := s.errs ++ [⟨cls, s.path ++ extra.map PE.name⟩] }
def St.push (s : St) (p : List String) : St := { s with path := s.path ++ p.map PE.name }
def St.pushIdx (s : St) (i : Nat) : St := { s with path := s.path ++ [PE.idx i] }

/-- `shouldSkipFieldByTypeCondition` -/
def skipField (g : Guard) (typeNames : List (Option String)) : Bool :=
  let parentSkip := match g.parentOn with
    | none => false
    | some conds => conds.any fun (depth, names) =>
        match typeNames[depth]? with
        | some (some tn) => !names.contains tn
        | _ => true
  let onSkip := match g.onTypeNames with
    | none => false
    | some names => match typeNames.head? with
      | some (some tn) => !names.contains tn
      | _ => true
  parentSkip || onSkip

def isNullOrAbsent : Option Json → Bool
  | none => true
  | some .null => true
  | _ => false

/-- the JSON kind a scalar node accepts; `none` = anything -/
def kindOk (k : ScalarKind) (v : Json) : Bool :=
  match k, v with
  | .string, .str _ => true
  | .string, _ => false
  | .boolean, .bool _ => true
  | .boolean, _ => false
  | .int, .num _ => true
  | .int, _ => false
  | .float, .num _ => true
  | .float, _ => false
  | _, _ => true

def kindErrCls : ScalarKind → String
  | .string => "stringKind" | .boolean => "boolKind" | .int => "intKind" | .float => "floatKind"
  | _ => "scalarKind"

/-- `value.GetStringBytes("__typename")` -/
def typenameOf (v : Json) : Option String :=
  match get1 v "__typename" with
  | some (.str s) => some s
  | _ => none

/-- the runtime-type checks of `walkObject`: the error class, or `none` when the object passes -/
def typenameCheck (possible inaccessibleT : List String) (typeName : String) (tn : Option String) : Option String :=
  if tn.isNone && isAbstract possible typeName then some "typenameMissing"
  else if tn.isSome && !possible.isEmpty && !possible.contains (tn.getD "") then
    some (if inaccessibleT.contains (tn.getD "") then "typenameInaccessible" else "typenameInvalid")
  else none

/-- result of a pre-walk step: did it fail upward, the updated container, the state -/
structure R where
  err : Bool
  c : Json
  st : St

/-- loop over array elements for the pre-walk: `f` walks the item node on one element -/
def preItems (f : Json → St → R) (itemNullableComposite : Bool) :
    List Json → Nat → St → List Json → (Bool × List Json × St)
  | [], _, st, acc => (false, acc.reverse, st)
  | x :: xs, i, st, acc =>
    let r := f x (st.pushIdx i)
    let st' := { r.st with path := st.path }
    if r.err then
      if itemNullableComposite then preItems f itemNullableComposite xs (i + 1) st' (Json.null :: acc)
      else (true, acc.reverse ++ r.c :: xs, st')
    else preItems f itemNullableComposite xs (i + 1) st' (r.c :: acc)

mutual
/-- pass 1 on a node; `c` is the container `Get(path…)` is applied to -/
def preNode : Node → Json → St → R
  | .null, c, st => ⟨false, c, st⟩
  | .staticString _, c, st => ⟨false, c, st⟩
  | .emptyObject, c, st => ⟨false, c, st⟩
  | .emptyArray, c, st => ⟨false, c, st⟩
  | .scalar kind path nullable, c, st =>
    match getPath c path with
    | none => if nullable then ⟨false, c, st⟩ else ⟨true, c, st.addErr "nonNull" path⟩
    | some .null => if nullable then ⟨false, c, st⟩ else ⟨true, c, st.addErr "nonNull" path⟩
    | some v => if kindOk kind v then ⟨false, c, st⟩ else ⟨true, c, st.addErr (kindErrCls kind) path⟩
  | .enum path nullable _ values inaccessible, c, st =>
    match getPath c path with
    | none => if nullable then ⟨false, c, st⟩ else ⟨true, c, st.addErr "nonNull" path⟩
    | some .null => if nullable then ⟨false, c, st⟩ else ⟨true, c, st.addErr "nonNull" path⟩
    | some (.str s) =>
      if !values.contains s then ⟨!nullable, c, st.addErr "enumInvalid" path⟩
      else if inaccessible.contains s then ⟨!nullable, c, st.addErr "enumInaccessible" path⟩
      else ⟨false, c, st⟩
    | some _ => ⟨true, c, st.addErr "enumKind" path⟩
  | .array path nullable item, c, st =>
    match getPath c path with
    | none => if nullable then ⟨false, c, st⟩ else ⟨true, c, st.addErr "nonNull" path⟩
    | some .null => if nullable then ⟨false, c, st⟩ else ⟨true, c, st.addErr "nonNull" path⟩
    | some (.arr xs) =>
      let st1 := st.push path
      let composite := (item.kind == .object || item.kind == .array) && item.nullable
      let res := preItems (fun x s => preNode item x s) composite xs 0 st1 []
      let st3 : St := { res.2.2 with path := st.path }
      if res.1 then
        if nullable && !path.isEmpty then ⟨false, setPath c path .null, st3⟩
        else ⟨true, setPath c path (.arr res.2.1), st3⟩
      else ⟨false, setPath c path (.arr res.2.1), st3⟩
    | some _ => ⟨true, c, (st.push path).addErr "arrayKind" [] |> fun s => { s with path := st.path }⟩
  | .object path nullable typeName _ possible inaccessibleT unresolvable fields, c, st =>
    if unresolvable then ⟨true, c, st.addErr "unresolvable" path⟩
    else match getPath c path with
    | none => if nullable then ⟨false, c, st⟩ else ⟨true, c, st.addErr "nonNull" path⟩
    | some .null => if nullable then ⟨false, c, st⟩ else ⟨true, c, st.addErr "nonNull" path⟩
    | some (.obj kvs) =>
      let tn := typenameOf (.obj kvs)
      match typenameCheck possible inaccessibleT typeName tn with
      | some cls => ⟨!nullable, c, { st with errs := ((st.push path).addErr cls []).errs }⟩
      | none =>
        let r := preFields fields (.obj kvs) { (st.push path) with typeNames := tn :: st.typeNames }
        let st' : St := { r.st with path := st.path, typeNames := st.typeNames }
        if r.err then
          if nullable && !path.isEmpty then ⟨false, setPath c path .null, st'⟩
          else ⟨true, setPath c path r.c, st'⟩
        else ⟨false, setPath c path r.c, st'⟩
    | some _ => ⟨true, c, (st.push path).addErr "objectKind" [] |> fun s => { s with path := st.path }⟩

/-- pass 1 over the fields of an object; `v` is the object's JSON value (mutated by children) -/
def preFields : Fields → Json → St → R
  | .nil, v, st => ⟨false, v, st⟩
  | .cons _ guard value rest, v, st =>
    if skipField guard st.typeNames then preFields rest v st
    else
      let r := preNode value v st
      if r.err then ⟨true, r.c, r.st⟩
      else preFields rest r.c r.st
end

/-- loop over array elements for the render pass -/
def rndItems (f : Json → Option Json) : List Json → Option (List Json)
  | [] => some []
  | x :: xs => match f x, rndItems f xs with
    | some v, some vs => some (v :: vs)
    | _, _ => none

mutual
/-- pass 2 on a node: the printed value, or `none` when the render pass meets an error -/
def rndNode : Node → Json → List (Option String) → Option Json
  | .null, _, _ => some .null
  | .staticString s, _, _ => some (.str s)
  | .emptyObject, _, _ => some (.obj [])
  | .emptyArray, _, _ => some (.arr [])
  | .scalar kind path nullable, c, _ =>
    match getPath c path with
    | none => if nullable then some .null else none
    | some .null => if nullable then some .null else none
    | some v => if kind == .float || kindOk kind v then some v else none
  | .enum path nullable _ values inaccessible, c, _ =>
    match getPath c path with
    | none => if nullable then some .null else none
    | some .null => if nullable then some .null else none
    | some (.str s) =>
      if !values.contains s || inaccessible.contains s then (if nullable then some .null else none)
      else some (.str s)
    | some _ => none
  | .array path nullable item, c, tns =>
    match getPath c path with
    | none => if nullable then some .null else none
    | some .null => if nullable then some .null else none
    | some (.arr xs) => (rndItems (fun x => rndNode item x tns) xs).map Json.arr
    | some _ => none
  | .object path nullable typeName _ possible _ unresolvable fields, c, tns =>
    if unresolvable then some .null   -- only reached for a list item the pre-walk replaced by null
    else match getPath c path with
    | none => if nullable then some .null else none
    | some .null => if nullable then some .null else none
    | some (.obj kvs) =>
      let tn := typenameOf (.obj kvs)
      match typenameCheck possible [] typeName tn with
      | some _ => some .null
      | none => (rndFields fields (.obj kvs) (tn :: tns)).map Json.obj
    | some _ => none

def rndFields : Fields → Json → List (Option String) → Option (List (String × Json))
  | .nil, _, _ => some []
  | .cons name guard value rest, v, tns =>
    if skipField guard tns then rndFields rest v tns
    else match rndNode value v tns, rndFields rest v tns with
      | some x, some r => some ((name, x) :: r)
      | _, _ => none
end

structure Output where
  errors : List Err
  data : Option Json        -- `none` = the render pass hit an error (malformed output)
  dataNull : Bool           -- `"data":null`

/-- `Resolvable.Resolve(root, data)` with default options -/
def resolve (root : Node) (data : Json) : Output :=
  let r := preNode root data {}
  if r.err then ⟨r.st.errs, some .null, true⟩
  else ⟨r.st.errs, rndNode root r.c [], false⟩

end GqlVerif.Render
