/-
  Plan.SkipSched — the decision sequence of a schedule: where the two C08 models meet. A schedule of a fetch tree
  (Plan.Sched: a trace of start / done events) is read as the sequence in which the loader decides to issue or skip
  each fetch (Plan.Skip): the order of the `start` events.
-/
import GqlVerif.Plan.Sched
import GqlVerif.Plan.Skip
namespace GqlVerif.Sched
open GqlVerif.Plan.Skip

def startId : Ev → Option Nat
  | .start i => some i
  | .done _ => none

/-- the fetches of a schedule in the order in which they are prepared (that is where the loader decides to issue or skip) -/
def startOrder (tr : List Ev) : List Nat := tr.filterMap startId

/-- the decision sequence of a schedule, latest first, with the dependencies that belong to the DAG -/
def decisions (deps : Nat → List Nat) (known : List Nat) (tr : List Ev) : List F :=
  ((startOrder tr).map fun i => (⟨i, (deps i).filter (fun d => known.contains d)⟩ : F)).reverse

end GqlVerif.Sched
