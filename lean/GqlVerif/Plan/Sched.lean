/-
  Plan.Sched — fetch trees, their execution semantics, and models of the fetch-tree organiser
  (v2/pkg/engine/postprocess: validateSchedule, orderSequenceByDependencies, createParallelNodes).

  The Go tree is n-ary (`Sequence(c₁…cₙ)`, `Parallel(c₁…cₙ)`); here it is the right-nested binary
  form (`seq c₁ (seq c₂ …)`), which has the same happens-before relation and keeps the datatype a
  plain inductive.  The driver converts.
-/
namespace GqlVerif.Sched

inductive FTree where
  | empty
  | single (id : Nat)
  | seq (a b : FTree)
  | par (a b : FTree)
  deriving Repr, Inhabited, DecidableEq

/-- fetch ids of a tree, in order -/
def ids : FTree → List Nat
  | .empty => []
  | .single i => [i]
  | .seq a b => ids a ++ ids b
  | .par a b => ids a ++ ids b

/-- what the loader does with one fetch: `start` = prepare phase (reads the response data under the
    lock and renders the request), `done` = merge phase finished (result merged under the lock) -/
inductive Ev where
  | start (id : Nat)
  | done (id : Nat)
  deriving Repr, DecidableEq

def events : FTree → List Ev
  | .empty => []
  | .single i => [.start i, .done i]
  | .seq a b => events a ++ events b
  | .par a b => events a ++ events b

/-- Happens-before guaranteed by the loader (`resolveSerial`: children one after the other;
    `resolveParallel`: errgroup, no ordering between children; `resolveSingle`: prepare → load → merge). -/
inductive HB : FTree → Ev → Ev → Prop where
  | single {i} : HB (.single i) (.start i) (.done i)
  | seqL {a b x y} : HB a x y → HB (.seq a b) x y
  | seqR {a b x y} : HB b x y → HB (.seq a b) x y
  | seqAcross {a b x y} : x ∈ events a → y ∈ events b → HB (.seq a b) x y
  | parL {a b x y} : HB a x y → HB (.par a b) x y
  | parR {a b x y} : HB b x y → HB (.par a b) x y

/-- position-based "x occurs before y" in a trace -/
def Before (tr : List Ev) (x y : Ev) : Prop :=
  ∃ l₁ l₂ l₃, tr = l₁ ++ x :: l₂ ++ y :: l₃

/-- a schedule (linearization) of the tree: every event exactly once, consistent with `HB` -/
structure Linearization (t : FTree) (tr : List Ev) : Prop where
  perm : tr.Perm (events t)
  respects : ∀ x y, HB t x y → Before tr x y

/-! ### `validateSchedule` -/

/-- the recursive `walk` of `validateSchedule`: `before` = fetches guaranteed complete; returns the
    ids of the subtree or `none` on an error. `deps f` are the declared dependencies, `known` the
    ids of the DAG (dependencies outside it are satisfied elsewhere). -/
def walk (deps : Nat → List Nat) (known : List Nat) : FTree → List Nat → Option (List Nat)
  | .empty, _ => some []
  | .single i, before =>
    if known.contains i && (deps i).all (fun d => !known.contains d || before.contains d) then some [i] else none
  | .seq a b, before =>
    match walk deps known a before with
    | none => none
    | some ia =>
      match walk deps known b (ia ++ before) with
      | none => none
      | some ib => some (ia ++ ib)
  | .par a b, before =>
    match walk deps known a before with
    | none => none
    | some ia =>
      match walk deps known b before with
      | none => none
      | some ib => some (ia ++ ib)

/-- `validateSchedule`: dependencies sequenced before, every DAG fetch exactly once -/
def validate (deps : Nat → List Nat) (known : List Nat) (t : FTree) : Bool :=
  match walk deps known t [] with
  | none => false
  | some is => decide is.Nodup && known.all (fun k => is.contains k)

/-! ### legacy organiser: orderSequenceByDependencies + createParallelNodes -/

structure Fetch where
  id : Nat
  deps : List Nat
  deriving Repr, Inhabited

def findFetch (fs : List Fetch) (i : Nat) : Option Fetch := fs.find? (·.id == i)

def insertSorted (x : Nat) : List Nat → List Nat
  | [] => [x]
  | y :: ys => if x < y then x :: y :: ys else if x == y then y :: ys else y :: insertSorted x ys

def sortDedup (xs : List Nat) : List Nat := xs.foldl (fun acc x => insertSorted x acc) []

/-- `nodeDependsOn`: transitive dependencies through nodes present in the tree (sorted, compact);
    `fuel` bounds the recursion (the Go code has none and diverges on a cycle) -/
def transDeps (fs : List Fetch) : Nat → List Nat → List Nat
  | 0, ds => sortDedup ds
  | fuel + 1, ds =>
    sortDedup (ds.flatMap fun d =>
      d :: (match findFetch fs d with
            | some c => transDeps fs fuel c.deps
            | none => []))

/-- the comparator of `orderSequenceByDependencies` -/
def cmpLegacy (fs : List Fetch) (a b : Fetch) : Int :=
  let da := transDeps fs fs.length a.deps
  let db := transDeps fs fs.length b.deps
  if da == db then (a.id : Int) - b.id
  else if db.contains a.id then -1
  else if da.contains b.id then 1
  else if da.length == db.length then (a.id : Int) - b.id
  else (da.length : Int) - db.length

def insertBy (lt : Fetch → Fetch → Bool) (x : Fetch) : List Fetch → List Fetch
  | [] => [x]
  | y :: ys => if lt x y then x :: y :: ys else y :: insertBy lt x ys

/-- stable insertion sort by the comparator (for a strict total order every sort gives this list) -/
def orderByDeps (fs : List Fetch) : List Fetch :=
  fs.foldl (fun acc x => insertBy (fun a b => cmpLegacy fs a b < 0) x acc) []

/-- one wave of `createParallelNodes`: the head plus every later node whose dependencies are all
    in `provided`; returns (wave, remaining) -/
def takeWave (provided : List Nat) : List Fetch → List Fetch × List Fetch
  | [] => ([], [])
  | f :: fs =>
    let (w, r) := takeWave provided fs
    if f.deps.all (provided.contains ·) then (f :: w, r) else (w, f :: r)

def waves : Nat → List Nat → List Fetch → List (List Fetch)
  | 0, _, _ => []
  | _ + 1, _, [] => []
  | fuel + 1, provided, f :: fs =>
    let (w, r) := takeWave provided fs
    let wave := f :: w
    wave :: waves fuel (provided ++ wave.map (·.id)) r

def parOf : List Fetch → FTree
  | [] => .empty
  | [f] => .single f.id
  | f :: fs => .par (.single f.id) (parOf fs)

def seqOf : List FTree → FTree
  | [] => .empty
  | [t] => t
  | t :: ts => .seq t (seqOf ts)

/-- the legacy pipeline on a flat list of fetches -/
def legacyWaves (fs : List Fetch) : List (List Nat) :=
  (waves (fs.length + 1) [] (orderByDeps fs)).map (·.map (·.id))

def legacy (fs : List Fetch) : FTree :=
  seqOf ((waves (fs.length + 1) [] (orderByDeps fs)).map parOf)

end GqlVerif.Sched
