/-
  Misc.GrpcMerge — model of how the gRPC datasource assembles `_entities` from the calls of one request
  (v2/pkg/engine/datasource/grpc_datasource: newEntityIndexMap / newRequiredFieldsIndexMap in entity.go, mergeEntities /
  mergeRequiredFields / mergeWithPath(positions) in json_builder.go): every call is made for the representations of ONE
  entity type and answers them in their order; the index map of a type lists the positions of its representations; the
  merged list is padded to the number of representations and every result is written at its position.
-/
namespace GqlVerif.GrpcMerge

/-- `newEntityIndexMap`: the positions of the representations whose __typename is `t` -/
def indexMap (t : String) : List String → Nat → List Nat
  | [], _ => []
  | x :: xs, i => if x == t then i :: indexMap t xs (i + 1) else indexMap t xs (i + 1)

/-- the list padded with nulls to `n` items (`SetArrayItem(n-1, null)` on a shorter list) -/
def pad (arr : List (Option String)) (n : Nat) : List (Option String) := arr ++ List.replicate (n - arr.length) none

/-- one merge: results of a call written at the positions of its index map -/
def place (arr : List (Option String)) : List Nat → List String → List (Option String)
  | i :: is, r :: rs => place (arr.set i (some r)) is rs
  | _, _ => arr

/-- `mergeEntities` for one call of entity type `t` answering `rs` -/
def mergeEntities (types : List String) (arr : List (Option String)) (t : String) (rs : List String) : List (Option String) :=
  place (pad arr types.length) (indexMap t types 0) rs

/-- all the lookups of a request, in the order their results are merged -/
def mergeAll (types : List String) (calls : List (String × List String)) : List (Option String) :=
  calls.foldl (fun arr c => mergeEntities types arr c.1 c.2) []

end GqlVerif.GrpcMerge
