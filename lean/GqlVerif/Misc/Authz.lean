/-
  Misc.Authz — the request-sent rule of up-front (pre-fetch) field authorization: whether a subgraph request is sent,
  given the operation type and, for each of its root fields, whether the field is protected and whether it was denied.
  (The nulling of denied fields in the response is the `denied` coordinate list of the reference executor, Gql.Exec.)
-/
namespace GqlVerif.Authz

inductive OpType where
  | query | mutation | subscription
  deriving DecidableEq, Repr

structure RootField where
  protected_ : Bool
  denied : Bool
  deriving DecidableEq, Repr

def RootField.blocked (r : RootField) : Bool := r.protected_ && r.denied

/-- Loader.isFetchAuthorizedFromCache: a query request is skipped when all of its root fields are denied, a mutation or
    subscription request when any of them is; a request without root fields is sent -/
def fetchSent (t : OpType) (roots : List RootField) : Bool :=
  if roots.isEmpty then true
  else match t with
    | .query => (roots.filter RootField.blocked).length != roots.length
    | _ => !roots.any RootField.blocked

end GqlVerif.Authz
