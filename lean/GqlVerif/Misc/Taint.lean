/-
  Misc.Taint — `taintedObjects.isTainted` / `filterOutTainted` (v2/pkg/engine/resolve/tainted_objects.go).

  The loader marks ("taints") entity objects whose nullable `@requires` input failed; before a dependent fetch builds its
  representations, every item that IS or CONTAINS a marked object is dropped.  A JSON value is modelled by its shape and
  the marks on its nodes only (keys and scalars play no part in the decision).
-/
namespace GqlVerif.Misc.Taint

mutual
inductive T where
  | leaf (marked : Bool)                 -- scalar / null (can itself be in the set only in theory; kept for generality)
  | node (marked : Bool) (kids : Kids)   -- object (its values, in key order) or array (its elements)
inductive Kids where
  | nil
  | cons (t : T) (rest : Kids)
end

def maxDepth : Nat := 100   -- maximumDepthOfTaintedTraversal

mutual
/-- `isTainted(item, depth)`: in the set → true; beyond the depth limit → false; otherwise any child -/
def isTainted : Nat → T → Bool
  | _, .leaf m => m
  | d, .node m ks => m || (if d > maxDepth then false else anyKids (d + 1) ks)
def anyKids : Nat → Kids → Bool
  | _, .nil => false
  | d, .cons t r => isTainted d t || anyKids d r
end

mutual
/-- the value is or contains a marked node -/
def hasMark : T → Bool
  | .leaf m => m
  | .node m ks => m || kidsHaveMark ks
def kidsHaveMark : Kids → Bool
  | .nil => false
  | .cons t r => hasMark t || kidsHaveMark r
end

mutual
def height : T → Nat
  | .leaf _ => 0
  | .node _ ks => 1 + kidsHeight ks
def kidsHeight : Kids → Nat
  | .nil => 0
  | .cons t r => max (height t) (kidsHeight r)
end

/-- `filterOutTainted` -/
def filterOut (items : List T) : List T := items.filter fun it => !isTainted 0 it

mutual
/-- the variant that keeps only the verdict of the LAST child of an object (`found = isTainted(value)` instead of latching) -/
def isTaintedLast : Nat → T → Bool
  | _, .leaf m => m
  | d, .node m ks => m || (if d > maxDepth then false else lastKid (d + 1) ks false)
def lastKid : Nat → Kids → Bool → Bool
  | _, .nil, acc => acc
  | d, .cons t r, _ => lastKid d r (isTaintedLast d t)
end

end GqlVerif.Misc.Taint
