/-
  Misc.Introspection — what introspection says about a schema (v2/pkg/introspection/generator.go) and the way
  back (converter.go), over structured schemas.

  `generate` turns a schema into the introspection data the generator emits: every type with its kind, fields,
  arguments (type references as nested {kind, name, ofType}, defaults as printed values), input fields, enum
  values, deprecations, the interfaces a type implements, the possible types of interfaces and unions, the custom
  directives, the root operation types.  `convert` reads such data back into a schema the way JsonConverter does.
-/
namespace GqlVerif.Introspection

inductive Kind where
  | scalar | object | iface | union | enum | inputObject
  deriving DecidableEq, Repr

inductive TypeRef where
  | named (n : String)
  | list (t : TypeRef)
  | nonNull (t : TypeRef)
  deriving DecidableEq, Repr

structure Arg where
  name : String
  type : TypeRef
  default : Option String
  deriving DecidableEq, Repr

structure Field where
  name : String
  args : List Arg
  type : TypeRef
  dep : Option String          -- deprecation reason (the default reason when @deprecated has no argument)
  deriving DecidableEq, Repr

structure EnumVal where
  name : String
  dep : Option String
  deriving DecidableEq, Repr

structure TypeDef where
  kind : Kind
  name : String
  fields : List Field := []
  inputFields : List Arg := []
  interfaces : List String := []
  members : List String := []
  enumValues : List EnumVal := []
  deriving DecidableEq, Repr

structure Directive where
  name : String
  locations : List String
  args : List Arg
  repeatable : Bool
  deriving DecidableEq, Repr

structure Schema where
  types : List TypeDef
  directives : List Directive
  query : String
  mutation : Option String
  subscription : Option String
  deriving DecidableEq, Repr

/-! ### introspection data -/

inductive NKind where
  | scalar | object | iface | union | enum | inputObject | list | nonNull
  deriving DecidableEq, Repr

/-- nested type reference {kind, name, ofType} -/
inductive NRef where
  | leaf (kind : NKind) (name : String)
  | wrap (kind : NKind) (ofType : NRef)
  deriving DecidableEq, Repr

structure IArg where
  name : String
  type : NRef
  default : Option String
  deriving DecidableEq, Repr

structure IField where
  name : String
  args : List IArg
  type : NRef
  isDeprecated : Bool
  reason : Option String
  deriving DecidableEq, Repr

structure IEnumVal where
  name : String
  isDeprecated : Bool
  reason : Option String
  deriving DecidableEq, Repr

structure FullType where
  kind : NKind
  name : String
  fields : List IField
  inputFields : List IArg
  interfaces : List NRef
  enumValues : List IEnumVal
  possibleTypes : List NRef
  deriving DecidableEq, Repr

structure IDirective where
  name : String
  locations : List String
  args : List IArg
  repeatable : Bool
  deriving DecidableEq, Repr

structure Intro where
  types : List FullType
  directives : List IDirective
  query : String
  mutation : Option String
  subscription : Option String
  deriving DecidableEq, Repr

def nkind : Kind → NKind
  | .scalar => .scalar | .object => .object | .iface => .iface | .union => .union | .enum => .enum | .inputObject => .inputObject

def builtinScalars : List String := ["String", "Int", "Float", "Boolean", "ID"]

/-- the kind introspection reports for a named type: declared types by their definition, everything else is a scalar
    (the built-in scalars) -/
def kindOf (s : Schema) (n : String) : NKind :=
  match s.types.find? (·.name == n) with
  | some t => nkind t.kind
  | none => .scalar

def nref (s : Schema) : TypeRef → NRef
  | .named n => .leaf (kindOf s n) n
  | .list t => .wrap .list (nref s t)
  | .nonNull t => .wrap .nonNull (nref s t)

def iarg (s : Schema) (a : Arg) : IArg := ⟨a.name, nref s a.type, a.default⟩

def ifield (s : Schema) (f : Field) : IField := ⟨f.name, f.args.map (iarg s), nref s f.type, f.dep.isSome, f.dep⟩

/-- possible types: of a union its members; of an interface every object type (in schema order) that implements it -/
def possible (s : Schema) (t : TypeDef) : List NRef :=
  match t.kind with
  | .union => t.members.map fun m => .leaf (kindOf s m) m
  | .iface => (s.types.filter fun u => u.kind == .object && u.interfaces.contains t.name).map fun u => .leaf .object u.name
  | _ => []

def fullType (s : Schema) (t : TypeDef) : FullType :=
  { kind := nkind t.kind, name := t.name,
    fields := (if t.kind == .object || t.kind == .iface then t.fields.map (ifield s) else []),
    inputFields := (if t.kind == .inputObject then t.inputFields.map (iarg s) else []),
    interfaces := (if t.kind == .object || t.kind == .iface then t.interfaces.map fun i => .leaf .iface i else []),
    enumValues := (if t.kind == .enum then t.enumValues.map fun v => ⟨v.name, v.dep.isSome, v.dep⟩ else []),
    possibleTypes := possible s t }

def generate (s : Schema) : Intro :=
  { types := s.types.map (fullType s),
    directives := s.directives.map fun d => ⟨d.name, d.locations, d.args.map (iarg s), d.repeatable⟩,
    query := s.query, mutation := s.mutation, subscription := s.subscription }

/-! ### the way back -/

def unref : NRef → TypeRef
  | .leaf _ n => .named n
  | .wrap .list t => .list (unref t)
  | .wrap .nonNull t => .nonNull (unref t)
  | .wrap _ t => unref t

def unarg (a : IArg) : Arg := ⟨a.name, unref a.type, a.default⟩

def unkind : NKind → Kind
  | .scalar => .scalar | .object => .object | .iface => .iface | .union => .union | .enum => .enum
  | .inputObject => .inputObject | .list => .scalar | .nonNull => .scalar

def refName : NRef → String
  | .leaf _ n => n
  | .wrap _ t => refName t

def untype (t : FullType) : TypeDef :=
  { kind := unkind t.kind, name := t.name,
    fields := t.fields.map fun f => ⟨f.name, f.args.map unarg, unref f.type, if f.isDeprecated then f.reason else none⟩,
    inputFields := t.inputFields.map unarg,
    interfaces := t.interfaces.map refName,
    members := (if t.kind == .union then t.possibleTypes.map refName else []),
    enumValues := t.enumValues.map fun v => ⟨v.name, if v.isDeprecated then v.reason else none⟩ }

def convert (i : Intro) : Schema :=
  { types := i.types.map untype,
    directives := i.directives.map fun d => ⟨d.name, d.locations, d.args.map unarg, d.repeatable⟩,
    query := i.query, mutation := i.mutation, subscription := i.subscription }

/-- each kind of type only carries the parts that kind has -/
def TypeDef.wf (t : TypeDef) : Bool :=
  (t.kind == .object || t.kind == .iface || (t.fields.isEmpty && t.interfaces.isEmpty)) &&
  (t.kind == .inputObject || t.inputFields.isEmpty) &&
  (t.kind == .union || t.members.isEmpty) &&
  (t.kind == .enum || t.enumValues.isEmpty)

def Schema.wf (s : Schema) : Bool := s.types.all (·.wf)

end GqlVerif.Introspection
