/-
  Misc.CacheControl — model of v2/pkg/engine/cache/{lex.go,cache_control.go} and v2/pkg/caching/cachecontrol.go
  (`ParseCacheControlResponse` and `caching.TTL`).  Bytes are `UInt8`; the lexer is written as a
  one-pass state machine (structural recursion on the input), which is a reformulation of
  `nextToken/readIdent/readString`; the correspondence check compares it with the Go code.
-/
namespace GqlVerif.CacheControl

abbrev Bytes := List UInt8

/-- `isForbiddenCharacter`: control characters 0..31 and 127 except TAB -/
def forbidden (b : UInt8) : Bool := b != 9 && (b ≤ 0x1F || b == 0x7F)
/-- `isWhitespace`: SP / HTAB -/
def ws (b : UInt8) : Bool := b == 32 || b == 9
/-- `isPrintableCharacter` -/
def printable (b : UInt8) : Bool := 0x20 ≤ b && b ≤ 0x7E
/-- `isInvalidTokenCharacter`: ( ) < > @ , ; : \ " / [ ] ? = { } SP TAB -/
def invalidTok (b : UInt8) : Bool :=
  b == 40 || b == 41 || b == 60 || b == 62 || b == 64 || b == 44 || b == 59 || b == 58 ||
  b == 92 || b == 34 || b == 47 || b == 91 || b == 93 || b == 63 || b == 61 || b == 123 ||
  b == 125 || b == 32 || b == 9

inductive Tok where
  | ident (lit : Bytes)
  | comma
  | equals
  | str (lit : Bytes)
  deriving Repr, DecidableEq, Inhabited

inductive Mode where
  | idle
  | ident (acc : Bytes)   -- reversed
  | str (acc : Bytes)     -- reversed
  deriving Repr

/-- one-pass lexer; `none` = the Go lexer returns an error -/
def lexGo : Mode → Bytes → List Tok → Option (List Tok)
  | .idle, [], toks => some toks.reverse
  | .idle, b :: r, toks =>
    if forbidden b then none
    else if ws b then lexGo .idle r toks
    else if b == 61 then lexGo .idle r (.equals :: toks)
    else if b == 44 then lexGo .idle r (.comma :: toks)
    else if b == 34 then lexGo (.str []) r toks
    else lexGo (.ident [b]) r toks          -- the first byte of an identifier is not validated
  | .ident acc, [], toks => some (Tok.ident acc.reverse :: toks).reverse
  | .ident acc, b :: r, toks =>
    if forbidden b then none
    else if b == 44 then lexGo .idle r (.comma :: .ident acc.reverse :: toks)
    else if b == 61 then lexGo .idle r (.equals :: .ident acc.reverse :: toks)
    else if ws b then lexGo .idle r (.ident acc.reverse :: toks)
    else if !printable b || invalidTok b then none
    else lexGo (.ident (b :: acc)) r toks
  | .str _, [], _ => none
  | .str acc, b :: r, toks =>
    if forbidden b then none
    else if b == 34 then lexGo .idle r (.str acc.reverse :: toks)
    else lexGo (.str (b :: acc)) r toks

def tokenize (s : Bytes) : Option (List Tok) := lexGo .idle s []

/-- ASCII lower-casing; a name containing a byte ≥ 0x80 never equals a known directive
    (Go's `strings.ToLower` maps an invalid UTF-8 byte to U+FFFD) -/
def lowerByte (b : UInt8) : UInt8 := if 65 ≤ b && b ≤ 90 then b + 32 else b
def lower (s : Bytes) : Bytes := s.map lowerByte

structure Arg where
  present : Bool
  text : Bytes
  deriving Repr

structure CC where
  maxAge : Option Nat := none
  sMaxAge : Option Nat := none
  noStore : Bool := false
  noCache : Bool := false    -- `NoCache != nil`
  pub : Bool := false
  priv : Bool := false       -- `Private != nil`
  deriving Repr, DecidableEq

def isDigit (b : UInt8) : Bool := 48 ≤ b && b ≤ 57

def decimal (s : Bytes) : Nat := s.foldl (fun n b => n * 10 + (b.toNat - 48)) 0

def maxInt32 : Nat := 2147483647

/-- `deltaSecondsArgument` -/
def deltaSeconds (a : Arg) : Option Nat :=
  if !a.present || a.text.isEmpty then none
  else if !a.text.all isDigit then none
  else some (min (decimal a.text) maxInt32)

/-- ASCII string literal as bytes (kernel-reducible) -/
def s (x : String) : Bytes := x.toList.map fun c => UInt8.ofNat c.toNat

/-- the `switch strings.ToLower(name.lit)` of `parseIdent` -/
inductive Dir where
  | maxAge | sMaxAge | noStore | pub | noCache | priv | other
  deriving Repr, DecidableEq

def classify (n : Bytes) : Dir :=
  if n == s "max-age" then .maxAge
  else if n == s "s-maxage" then .sMaxAge
  else if n == s "no-store" then .noStore
  else if n == s "public" then .pub
  else if n == s "no-cache" then .noCache
  else if n == s "private" then .priv
  else .other

/-- `parseIdent` after the argument has been read -/
def applyDirective (name : Bytes) (a : Arg) (cc : CC) : Option CC :=
  match classify (lower name) with
  | .maxAge =>
    if cc.maxAge.isSome then some cc
    else match deltaSeconds a with | none => none | some v => some { cc with maxAge := some v }
  | .sMaxAge =>
    if cc.sMaxAge.isSome then some cc
    else match deltaSeconds a with | none => none | some v => some { cc with sMaxAge := some v }
  | .noStore => some { cc with noStore := true }
  | .pub => some { cc with pub := true }
  | .noCache => some { cc with noCache := true }
  | .priv => some { cc with priv := true }
  | .other => some cc

/-- is the next token a delimiter (comma) or end of input? -/
def atDelim : List Tok → Bool
  | [] => true
  | .comma :: _ => true
  | _ => false

/-- `parse` over the token list; mirrors the `readToken/peekToken` loop with `readArgument`
    inlined as patterns. -/
def parseToks : List Tok → CC → Option CC
  | [], cc => some cc
  | .comma :: r, cc => parseToks r cc
  | .ident n :: .equals :: .str lit :: r, cc =>
    if atDelim r then
      match applyDirective n ⟨true, lit⟩ cc with
      | none => none
      | some cc' => parseToks r cc'
    else none
  | .ident n :: .equals :: .ident lit :: r, cc =>
    match applyDirective n ⟨true, lit⟩ cc with
    | none => none
    | some cc' => if atDelim r then parseToks r cc' else none
  | .ident n :: .equals :: r, cc =>
    -- "=" with nothing usable after it: r is [] or starts with comma/equals
    match applyDirective n ⟨true, []⟩ cc with
    | none => none
    | some cc' => if atDelim r then parseToks r cc' else none
  | .ident n :: r, cc =>
    match applyDirective n ⟨false, []⟩ cc with
    | none => none
    | some cc' => if atDelim r then parseToks r cc' else none
  | .equals :: _, _ => none
  | .str _ :: _, _ => none

def trimChar (b : UInt8) : Bool := b == 9 || b == 13 || b == 10

def trimLeft : Bytes → Bytes
  | b :: r => if trimChar b then trimLeft r else b :: r
  | [] => []

def trim (x : Bytes) : Bytes := (trimLeft (trimLeft x).reverse).reverse

def joinComma : List Bytes → Bytes
  | [] => []
  | [x] => x
  | x :: xs => x ++ 44 :: joinComma xs

/-- `ParseCacheControlResponse` on the list of `Cache-Control` header values -/
def parseHeader (values : List Bytes) : Option CC :=
  let v := trim (joinComma values)
  if v.isEmpty then some {}
  else match tokenize v with
    | none => none
    | some toks => parseToks toks {}

def second : Int := 1000000000

/-- the storage decision of `caching.TTL` on a parsed header -/
def ttlOf (cc : CC) (defaultTTL : Int) : Option Int :=
  if cc.noStore then none
  else if cc.noCache || cc.priv then none
  else if !cc.pub then none
  else match cc.sMaxAge with
    | some v => if v = 0 then none else some (Int.ofNat v * second)
    | none =>
      match cc.maxAge with
      | some v => if v = 0 then none else some (Int.ofNat v * second)
      | none => if defaultTTL ≤ 0 then none else some defaultTTL

/-- `caching.TTL(headers, defaultTTL)`: `some ttl` (nanoseconds) iff the entity may be stored -/
def ttl (values : List Bytes) (defaultTTL : Int) : Option Int :=
  match parseHeader values with
  | none => none
  | some cc => ttlOf cc defaultTTL

end GqlVerif.CacheControl
