/-
  Misc.SubFilter — model of the subscription filter decision (v2/pkg/engine/resolve/subscription_filter.go:
  SubscriptionFilter.SkipEvent / SubscriptionFieldFilter.SkipEvent): a filter is a tree of And / Or / Not over IN
  conditions; an IN condition compares one field of the event with a list of values (static JSON or context variables;
  an array-valued variable lists its elements) by type and value.  `passes` is the meaning of "the event passes the
  subscriber's filter" in C12; `skip = !passes` is what SkipEvent returns.  The values of one IN list are of one type
  (they come from one argument), which is the case the implementation is written for.
-/
import GqlVerif.Base.Json
namespace GqlVerif.SubFilter
open GqlVerif

inductive FV where
  | static (j : Json)
  | var (name : String)

inductive Filter where
  | and (fs : List Filter)
  | or (fs : List Filter)
  | not (f : Filter)
  | isIn (field : String) (values : List FV)

instance : Inhabited Filter := ⟨.and []⟩

/-- the same scalar: same JSON type and same value (numbers by their text) -/
def sameScalar (a b : Json) : Bool :=
  match a, b with
  | .str x, .str y => x == y
  | .num x, .num y => x == y
  | .bool x, .bool y => x == y
  | _, _ => false

/-- one listed value against the event's field: an array lists its elements -/
def matchesValue (fv v : Json) : Bool :=
  match v with
  | .arr xs => xs.any (sameScalar fv)
  | other => sameScalar fv other

def lookup (kvs : List (String × Json)) (k : String) : Option Json := (kvs.find? (·.1 == k)).map (·.2)

def valueOf (vars : List (String × Json)) : FV → Option Json
  | .static j => some j
  | .var n => lookup vars n

/-- IN: the event has the field and one listed value matches it -/
def inPasses (event vars : List (String × Json)) (field : String) (values : List FV) : Bool :=
  match lookup event field with
  | none => false
  | some fv => values.any fun v => match valueOf vars v with | some j => matchesValue fv j | none => false

mutual
  def passes (event vars : List (String × Json)) : Filter → Bool
    | .and fs => passesAll event vars fs
    | .or fs => passesAny event vars fs
    | .not f => !passes event vars f
    | .isIn field values => inPasses event vars field values
  def passesAll (event vars : List (String × Json)) : List Filter → Bool
    | [] => true
    | f :: fs => passes event vars f && passesAll event vars fs
  def passesAny (event vars : List (String × Json)) : List Filter → Bool
    | [] => false
    | f :: fs => passes event vars f || passesAny event vars fs
end

/-- what SkipEvent returns -/
def skip (event vars : List (String × Json)) (f : Filter) : Bool := !passes event vars f

end GqlVerif.SubFilter
