/-
  Proofs.C12 — invariants of Proto.Subs about single subscribers: what a step can do to a subscriber record, and
  the accounting of completion signals.
-/
import GqlVerif.Proofs.C12Prim
namespace GqlVerif.Subs

theorem markRemoved_apply (subs : Nat → Option Sub) (is : List Nat) (i : Nat) :
    markRemoved subs is i = if is.contains i then (subs i).map fun x => { x with removed := true } else subs i := rfl

theorem markRemoved_substep (subs : Nat → Option Sub) (is : List Nat) (i : Nat) (x : Sub) (h : subs i = some x) :
    ∃ x', markRemoved subs is i = some x' ∧ SubStep x x' ∧ x'.closed = x.closed ∧ x'.log = x.log ∧
      (x'.removed = true ↔ (x.removed = true ∨ i ∈ is)) := by
  rw [markRemoved_apply]
  split
  · next hc =>
    have hm : i ∈ is := by simpa using hc
    refine ⟨{ x with removed := true }, by simp [h], ⟨rfl, rfl, rfl, fun _ => rfl, fun _ => rfl, List.prefix_refl _, Nat.le_refl _⟩, rfl, rfl, ?_⟩
    exact ⟨fun _ => Or.inr hm, fun _ => rfl⟩
  · next hc =>
    have hm : i ∉ is := by simpa using hc
    refine ⟨x, h, SubStep.refl x, rfl, rfl, ?_⟩
    exact ⟨Or.inl, fun h' => h'.elim id (fun h'' => absurd h'' hm)⟩

/-- one primitive keeps every subscriber record and changes it only as SubStep allows -/
theorem prim_subs {s t : St} (p : Prim s t) (i : Nat) (x : Sub) (h : s.subs i = some x) :
    ∃ x', t.subs i = some x' ∧ SubStep x x' := by
  cases p with
  | join j key conn filter hb g h1 h2 h3 =>
    by_cases hij : i = j
    · subst hij; rw [h2] at h; cases h
    · exact ⟨x, by simp [upd, hij, h], SubStep.refl x⟩
  | create j key conn filter hb h1 h2 h3 =>
    by_cases hij : i = j
    · subst hij; rw [h2] at h; cases h
    · exact ⟨x, by simp [upd, hij, h], SubStep.refl x⟩
  | setGen => exact ⟨x, h, SubStep.refl x⟩
  | init => exact ⟨x, h, SubStep.refl x⟩
  | setSub j y y' h1 h2 h3 h4 =>
    by_cases hij : i = j
    · subst hij; rw [h1] at h; cases h; exact ⟨y', by simp [upd], h2⟩
    · exact ⟨x, by simp [upd, hij, h], SubStep.refl x⟩
  | detach g _ =>
    obtain ⟨x', h1, h2, _⟩ := markRemoved_substep s.subs (s.members g) i x h
    exact ⟨x', h1, h2⟩
  | removeOne j g h1 h2 =>
    obtain ⟨x', h3, h4, _⟩ := markRemoved_substep s.subs [j] i x h
    refine ⟨x', ?_, h4⟩
    unfold removeOne; split <;> exact h3
  | close j y h1 h2 =>
    by_cases hij : i = j
    · subst hij; rw [h2] at h; cases h
      exact ⟨{ x with closed := x.closed + 1 }, by simp [upd], ⟨rfl, rfl, rfl, id, fun _ => rfl, List.prefix_refl _, Nat.le_succ _⟩⟩
    · exact ⟨x, by simp [upd, hij, h], SubStep.refl x⟩
  | cancel => exact ⟨x, h, SubStep.refl x⟩
  | shut => exact ⟨x, h, SubStep.refl x⟩

theorem prims_subs {s t : St} (p : Prims s t) (i : Nat) (x : Sub) (h : s.subs i = some x) :
    ∃ x', t.subs i = some x' ∧ SubStep x x' := by
  induction p generalizing x with
  | nil _ => exact ⟨x, h, SubStep.refl x⟩
  | cons a _ ih =>
    obtain ⟨y, hy, sy⟩ := prim_subs a i x h
    obtain ⟨z, hz, sz⟩ := ih y hy
    exact ⟨z, hz, sy.trans sz⟩

/-! ### completion accounting -/

/-- every close that has happened or is pending is matched by exactly one successful removed-CAS -/
structure CloseInv (s : St) : Prop where
  dom : ∀ i ∈ s.byID, (s.subs i).isSome = true
  nodup : s.byID.Nodup
  pdom : ∀ i ∈ s.pendClose, (s.subs i).isSome = true
  acct : ∀ i x, s.subs i = some x → x.closed + s.pendClose.count i = (if x.removed then 1 else 0)

theorem closeInv_init : CloseInv St.init := by
  refine ⟨?_, ?_, ?_, ?_⟩ <;> simp [St.init]

theorem count_flipped (subs : Nat → Option Sub) (is : List Nat) (hn : is.Nodup) (i : Nat) (x : Sub) (h : subs i = some x) :
    (flipped subs is).count i = if i ∈ is ∧ x.removed = false then 1 else 0 := by
  unfold flipped
  have hl : live subs i = !x.removed := by simp [live, h]
  by_cases hp : live subs i = true
  · rw [List.count_filter hp, hn.count]
    have : x.removed = false := by rw [hl] at hp; simpa using hp
    simp [this]
  · have : i ∉ List.filter (live subs) is := fun hm => hp (List.mem_filter.mp hm).2
    rw [List.count_eq_zero_of_not_mem this]
    have : x.removed = true := by rw [hl] at hp; simpa using hp
    simp [this]

theorem flipped_dom (subs : Nat → Option Sub) (is : List Nat) (i : Nat) (h : i ∈ flipped subs is) : (subs i).isSome = true := by
  unfold flipped at h
  have := (List.mem_filter.mp h).2
  cases hx : subs i with
  | none => simp [live, hx] at this
  | some _ => rfl

theorem members_nodup (s : St) (h : s.byID.Nodup) (g : Nat) : (s.members g).Nodup := h.filter _

theorem markRemoved_isSome (subs : Nat → Option Sub) (is : List Nat) (i : Nat) : (markRemoved subs is i).isSome = (subs i).isSome := by
  rw [markRemoved_apply]; split <;> simp

/-- the accounting after marking `is` removed and queueing the ones that flipped -/
theorem acct_mark (s : St) (h : CloseInv s) (is : List Nat) (hn : is.Nodup) (i : Nat) (x' : Sub)
    (hx' : markRemoved s.subs is i = some x') :
    x'.closed + (flipped s.subs is ++ s.pendClose).count i = (if x'.removed then 1 else 0) := by
  cases hx : s.subs i with
  | none => rw [markRemoved_apply, hx] at hx'; split at hx' <;> simp at hx'
  | some x =>
    obtain ⟨y, hy, _, hc, _, hr⟩ := markRemoved_substep s.subs is i x hx
    have hyx : y = x' := by rw [hy] at hx'; exact Option.some.inj hx'
    subst hyx
    rw [List.count_append, count_flipped s.subs is hn i x hx, hc]
    have ha := h.acct i x hx
    by_cases hrem : x.removed = true
    · have hy' : y.removed = true := hr.mpr (Or.inl hrem)
      simp only [hrem, hy', if_true] at ha ⊢
      simp; omega
    · have hrem' : x.removed = false := by simpa using hrem
      by_cases hc' : i ∈ is
      · have hy' : y.removed = true := hr.mpr (Or.inr hc')
        simp only [hrem', hy', hc', if_true] at ha ⊢
        simp at ha ⊢; omega
      · have hy' : y.removed = false := by
          cases hyr : y.removed with
          | false => rfl
          | true => rcases hr.mp hyr with h'' | h'' <;> simp_all
        simp only [hrem', hy', hc'] at ha ⊢
        simp at ha ⊢; omega

theorem closeInv_prim {s t : St} (h : CloseInv s) (p : Prim s t) : CloseInv t := by
  have fresh_byID : ∀ j, s.subs j = none → j ∉ s.byID := fun j hj hm => by have := h.dom j hm; simp [hj] at this
  have fresh_pend : ∀ j, s.subs j = none → j ∉ s.pendClose := fun j hj hm => by have := h.pdom j hm; simp [hj] at this
  cases p with
  | join j key conn filter hb g h1 h2 h3 =>
    refine ⟨?_, List.nodup_cons.mpr ⟨fresh_byID j h2, h.nodup⟩, ?_, ?_⟩
    · intro i hi
      by_cases hij : i = j
      · subst hij; simp [upd]
      · rcases List.mem_cons.mp hi with rfl | hi
        · exact absurd rfl hij
        · simpa [upd, hij] using h.dom i hi
    · intro i hi
      by_cases hij : i = j
      · subst hij; simp [upd]
      · simpa [upd, hij] using h.pdom i hi
    · intro i x hx
      by_cases hij : i = j
      · subst hij
        simp [upd] at hx; subst hx
        simp [List.count_eq_zero_of_not_mem (fresh_pend i h2)]
      · exact h.acct i x (by simpa [upd, hij] using hx)
  | create j key conn filter hb h1 h2 h3 =>
    refine ⟨?_, List.nodup_cons.mpr ⟨fresh_byID j h2, h.nodup⟩, ?_, ?_⟩
    · intro i hi
      by_cases hij : i = j
      · subst hij; simp [upd]
      · rcases List.mem_cons.mp hi with rfl | hi
        · exact absurd rfl hij
        · simpa [upd, hij] using h.dom i hi
    · intro i hi
      by_cases hij : i = j
      · subst hij; simp [upd]
      · simpa [upd, hij] using h.pdom i hi
    · intro i x hx
      by_cases hij : i = j
      · subst hij
        simp [upd] at hx; subst hx
        simp [List.count_eq_zero_of_not_mem (fresh_pend i h2)]
      · exact h.acct i x (by simpa [upd, hij] using hx)
  | setGen => exact ⟨h.dom, h.nodup, h.pdom, h.acct⟩
  | init => exact ⟨h.dom, h.nodup, h.pdom, h.acct⟩
  | setSub j y y' h1 h2 h3 h4 =>
    refine ⟨?_, h.nodup, ?_, ?_⟩
    · intro i hi
      by_cases hij : i = j
      · subst hij; simp [upd]
      · simpa [upd, hij] using h.dom i hi
    · intro i hi
      by_cases hij : i = j
      · subst hij; simp [upd]
      · simpa [upd, hij] using h.pdom i hi
    · intro i x hx
      by_cases hij : i = j
      · subst hij
        simp [upd] at hx; subst hx
        rw [h3, h4]; exact h.acct i y h1
      · exact h.acct i x (by simpa [upd, hij] using hx)
  | detach g _ =>
    refine ⟨?_, h.nodup.filter _, ?_, ?_⟩
    · intro i hi
      have := h.dom i (List.mem_filter.mp hi).1
      simpa [detach, markRemoved_isSome] using this
    · intro i hi
      simp only [detach] at hi ⊢
      rw [markRemoved_isSome]
      rcases List.mem_append.mp hi with hi | hi
      · exact flipped_dom _ _ _ hi
      · exact h.pdom i hi
    · intro i x hx
      exact acct_mark s h (s.members g) (members_nodup s h.nodup g) i x hx
  | removeOne j g h1 h2 =>
    have key : ∀ i x, markRemoved s.subs [j] i = some x →
        x.closed + (flipped s.subs [j] ++ s.pendClose).count i = (if x.removed then 1 else 0) :=
      fun i x hx => acct_mark s h [j] (by simp) i x hx
    have pd : ∀ i ∈ flipped s.subs [j] ++ s.pendClose, (markRemoved s.subs [j] i).isSome = true := by
      intro i hi
      rw [markRemoved_isSome]
      rcases List.mem_append.mp hi with hi | hi
      · exact flipped_dom _ _ _ hi
      · exact h.pdom i hi
    have dm : ∀ i ∈ s.byID.erase j, (markRemoved s.subs [j] i).isSome = true := by
      intro i hi
      rw [markRemoved_isSome]; exact h.dom i (List.mem_of_mem_erase hi)
    unfold removeOne
    split
    · exact ⟨dm, h.nodup.erase j, pd, key⟩
    · exact ⟨dm, h.nodup.erase j, pd, key⟩
  | close j y h1 h2 =>
    have hj : j ∈ s.pendClose := by simpa using h1
    refine ⟨?_, h.nodup, ?_, ?_⟩
    · intro i hi
      by_cases hij : i = j
      · subst hij; simp [upd]
      · simpa [upd, hij] using h.dom i hi
    · intro i hi
      by_cases hij : i = j
      · subst hij; simp [upd]
      · simpa [upd, hij] using h.pdom i (List.mem_of_mem_erase hi)
    · intro i x hx
      by_cases hij : i = j
      · subst hij
        simp [upd] at hx; subst hx
        have ha := h.acct i y h2
        have hc : 0 < s.pendClose.count i := List.count_pos_iff.mpr hj
        simp only [List.count_erase_self]
        show y.closed + 1 + (s.pendClose.count i - 1) = (if y.removed = true then 1 else 0)
        rw [← ha]; omega
      · have hx' : s.subs i = some x := by simpa [upd, hij] using hx
        have := h.acct i x hx'
        rw [List.count_erase_of_ne hij]; exact this
  | cancel => exact ⟨h.dom, h.nodup, h.pdom, h.acct⟩
  | shut => exact ⟨h.dom, h.nodup, h.pdom, h.acct⟩

theorem closeInv_reach {s : St} (h : Reach s) : CloseInv s :=
  reach_induct closeInv_init (fun _ _ hs hp => closeInv_prim hs hp) h

end GqlVerif.Subs
