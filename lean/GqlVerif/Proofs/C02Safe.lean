/-
  Proofs.C02Safe — lemmas for the type-safety / two-pass agreement theorems of C02 (Props.C02):
  get/set algebra of the astjson model, what the pre-walk may change in its container (frame lemmas), and the mutual
  induction over plan nodes and field lists.
-/
import GqlVerif.Plan.RenderSpec
import GqlVerif.Proofs.C02
set_option linter.unusedSimpArgs false
set_option linter.unusedVariables false
namespace GqlVerif.Render
open GqlVerif

/-! ### get / set -/

theorem find_replaceFirst_same (kvs : List (String × Json)) (k : String) (v : Json) :
    (replaceFirst kvs k v).find? (·.1 == k) = some (k, v) := by
  induction kvs with
  | nil => simp [replaceFirst]
  | cons kv r ih =>
    obtain ⟨k', v'⟩ := kv
    simp only [replaceFirst]
    by_cases h : (k' == k) = true
    · simp [h]
    · simp only [h, Bool.false_eq_true, if_false]
      rw [List.find?_cons]
      simp [h, ih]

theorem find_replaceFirst_other (kvs : List (String × Json)) (k k' : String) (v : Json) (hne : k' ≠ k) :
    (replaceFirst kvs k' v).find? (·.1 == k) = kvs.find? (·.1 == k) := by
  induction kvs with
  | nil => simp [replaceFirst, hne]
  | cons kv r ih =>
    obtain ⟨k2, v2⟩ := kv
    simp only [replaceFirst]
    by_cases h : (k2 == k') = true
    · have : k2 = k' := by simpa using h
      subst this
      simp [h, List.find?_cons, hne]
    · simp only [h, Bool.false_eq_true, if_false]
      rw [List.find?_cons, List.find?_cons, ih]

theorem get1_set1_same (j : Json) (k : String) (v y : Json) (h : get1 j k = some y) :
    get1 (set1 j k v) k = some v := by
  cases j with
  | obj kvs => simp [set1, get1, find_replaceFirst_same]
  | arr xs =>
    simp only [get1] at h
    cases hd : decNat? k with
    | none => simp [hd] at h
    | some i =>
      simp only [hd, Option.bind_some] at h
      have hi : i < xs.length := by
        have := List.getElem?_eq_some_iff.mp h
        exact this.1
      simp [set1, get1, hd, hi]
  | null => simp [get1] at h
  | bool _ => simp [get1] at h
  | num _ => simp [get1] at h
  | str _ => simp [get1] at h

theorem get1_set1_other_obj (kvs : List (String × Json)) (k k' : String) (v : Json) (hne : k' ≠ k) :
    get1 (set1 (.obj kvs) k' v) k = get1 (.obj kvs) k := by
  simp [set1, get1, find_replaceFirst_other _ _ _ _ hne]

/-- reading back what was just written, for the paths the planner uses (at most one key) -/
theorem getPath_setPath_same (c : Json) (p : List String) (x y : Json) (hp : p.length ≤ 1)
    (h : getPath c p = some y) : getPath (setPath c p x) p = some x := by
  match p, hp with
  | [], _ => simp [setPath, getPath]
  | [k], _ =>
    simp only [getPath] at h
    cases hg : get1 c k with
    | none => simp [hg] at h
    | some z =>
      simp [setPath, getPath, get1_set1_same c k x z hg]

def isObj : Json → Bool
  | .obj _ => true
  | _ => false

theorem isObj_set1 (j : Json) (k : String) (v : Json) (h : isObj j = true) : isObj (set1 j k v) = true := by
  cases j <;> simp_all [isObj, set1]

/-! ### the pre-walk keeps the stack of runtime type names -/

theorem preItems_typeNames (f : Json → St → R) (b : Bool)
    (hf : ∀ x s, (f x s).st.typeNames = s.typeNames) : ∀ xs i st acc,
    (preItems f b xs i st acc).2.2.typeNames = st.typeNames := by
  intro xs
  induction xs with
  | nil => intro i st acc; simp [preItems]
  | cons x xs ih =>
    intro i st acc
    simp only [preItems]
    have h := hf x (st.pushIdx i)
    have hpush : (st.pushIdx i).typeNames = st.typeNames := rfl
    rw [hpush] at h
    split
    · split
      · rw [ih]; exact h
      · exact h
    · rw [ih]; exact h

mutual
theorem preNode_typeNames : ∀ (n : Node) (c : Json) (st : St), (preNode n c st).st.typeNames = st.typeNames
  | .null, c, st => by simp [preNode]
  | .staticString _, c, st => by simp [preNode]
  | .emptyObject, c, st => by simp [preNode]
  | .emptyArray, c, st => by simp [preNode]
  | .scalar kind path nullable, c, st => by
    simp only [preNode]
    repeat' split
    all_goals simp [St.addErr]
  | .enum path nullable _ values inaccessible, c, st => by
    simp only [preNode]
    repeat' split
    all_goals simp [St.addErr]
  | .array path nullable item, c, st => by
    simp only [preNode]
    split
    · split <;> simp [St.addErr]
    · split <;> simp [St.addErr]
    · have := preItems_typeNames (fun x s => preNode item x s)
        ((item.kind == .object || item.kind == .array) && item.nullable)
        (fun x s => preNode_typeNames item x s)
      repeat' split
      all_goals simp [this, St.push]
    · simp [St.addErr, St.push]
  | .object path nullable typeName src possible inaccessibleT unresolvable fields, c, st => by
    simp only [preNode]
    repeat' split
    all_goals simp [St.addErr, St.push]
end

theorem preFields_typeNames : ∀ (fs : Fields) (v : Json) (st : St), (preFields fs v st).st.typeNames = st.typeNames
  | .nil, v, st => by simp [preFields]
  | .cons _ guard value rest, v, st => by
    simp only [preFields]
    split
    · exact preFields_typeNames rest v st
    · split
      · exact preNode_typeNames value v st
      · rw [preFields_typeNames rest, preNode_typeNames value v st]

/-! ### what the pre-walk may change in its container -/

theorem preNode_c_leaf (n : Node) (c : Json) (st : St) (h : n.composite = false) : (preNode n c st).c = c := by
  cases n with
  | null => simp [preNode]
  | staticString _ => simp [preNode]
  | emptyObject => simp [preNode]
  | emptyArray => simp [preNode]
  | scalar kind path nullable => simp only [preNode]; repeat' split
                                 all_goals rfl
  | enum path nullable _ values inaccessible => simp only [preNode]; repeat' split
                                                all_goals rfl
  | array _ _ _ => simp [Node.composite] at h
  | object _ _ _ _ _ _ _ _ => simp [Node.composite] at h

theorem preNode_c (n : Node) (c : Json) (st : St) :
    (preNode n c st).c = c ∨ ∃ x, (preNode n c st).c = setPath c n.path x := by
  cases hn : n.composite with
  | false => exact Or.inl (preNode_c_leaf n c st hn)
  | true =>
    cases n with
    | array path nullable item =>
      simp only [preNode, Node.path]
      repeat' split
      all_goals first | exact Or.inl rfl | exact Or.inr ⟨_, rfl⟩
    | object path nullable typeName src possible inaccessibleT unresolvable fields =>
      simp only [preNode, Node.path]
      repeat' split
      all_goals first | exact Or.inl rfl | exact Or.inr ⟨_, rfl⟩
    | _ => simp [Node.composite] at hn

/-- a field value (one key, or no access at all) leaves an object an object and every other key alone -/
theorem preNode_field_frame (n : Node) (kvs : List (String × Json)) (st : St)
    (hshape : n.reads = false ∨ ∃ k, n.path = [k]) :
    ∃ kvs', (preNode n (.obj kvs) st).c = .obj kvs' ∧
      ∀ k, (n.composite = true → k ∉ n.path) → get1 (.obj kvs') k = get1 (.obj kvs) k := by
  cases hn : n.composite with
  | false => exact ⟨kvs, preNode_c_leaf n _ st hn, fun _ _ => rfl⟩
  | true =>
    have hreads : n.reads = true := by cases n <;> simp_all [Node.composite, Node.reads]
    rcases hshape with h | ⟨k0, hk0⟩
    · simp [hreads] at h
    · rcases preNode_c n (.obj kvs) st with h | ⟨x, h⟩
      · exact ⟨kvs, h, fun _ _ => rfl⟩
      · rw [hk0] at h
        simp only [setPath, set1] at h
        refine ⟨_, h, ?_⟩
        intro k hk
        have hne : k0 ≠ k := by
          intro he
          apply hk rfl
          simp [hk0, he]
        have := get1_set1_other_obj kvs k k0 x hne
        simpa [set1] using this

theorem wfFields_cons {name : String} {g : Guard} {value : Node} {rest : Fields}
    (h : wfFields (.cons name g value rest) = true) :
    (value.reads = false ∨ ∃ k, value.path = [k] ∧ k ∉ compositeKeys rest) ∧ wfNode value = true ∧ wfFields rest = true := by
  simp only [wfFields, Bool.and_eq_true, Bool.or_eq_true, Bool.not_eq_true'] at h
  obtain ⟨⟨h1, h2⟩, h3⟩ := h
  refine ⟨?_, h2, h3⟩
  rcases h1 with h1 | ⟨hl, ha⟩
  · exact Or.inl h1
  · right
    match hp : value.path, hl, ha with
    | [k], _, ha =>
      refine ⟨k, rfl, ?_⟩
      simpa using ha

theorem preFields_frame : ∀ (fs : Fields) (kvs : List (String × Json)) (st : St), wfFields fs = true →
    ∃ kvs', (preFields fs (.obj kvs) st).c = .obj kvs' ∧
      ∀ k, k ∉ compositeKeys fs → get1 (.obj kvs') k = get1 (.obj kvs) k
  | .nil, kvs, st, _ => ⟨kvs, by simp [preFields], fun _ _ => rfl⟩
  | .cons name guard value rest, kvs, st, hwf => by
    obtain ⟨hshape, _, hrest⟩ := wfFields_cons hwf
    have hshape' : value.reads = false ∨ ∃ k, value.path = [k] := by
      rcases hshape with h | ⟨k, hk, _⟩
      · exact Or.inl h
      · exact Or.inr ⟨k, hk⟩
    simp only [preFields]
    split
    · obtain ⟨kvs', h1, h2⟩ := preFields_frame rest kvs st hrest
      refine ⟨kvs', h1, fun k hk => h2 k ?_⟩
      intro hm; apply hk; simp [compositeKeys, hm]
    · obtain ⟨kvs1, hc1, hf1⟩ := preNode_field_frame value kvs st hshape'
      have hkeep : ∀ k, k ∉ compositeKeys (.cons name guard value rest) →
          get1 (.obj kvs1) k = get1 (.obj kvs) k := by
        intro k hk
        apply hf1 k
        intro hcomp hm
        apply hk
        simp [compositeKeys, hcomp, hm]
      split
      · exact ⟨kvs1, hc1, hkeep⟩
      · rw [hc1]
        obtain ⟨kvs', h1, h2⟩ := preFields_frame rest kvs1 (preNode value (.obj kvs) st).st hrest
        refine ⟨kvs', h1, fun k hk => ?_⟩
        rw [h2 k (by intro hm; apply hk; simp [compositeKeys, hm]), hkeep k hk]

/-! ### the render pass only looks at the data below the node's path -/

theorem rndNode_congr (n : Node) (c c' : Json) (tns : List (Option String))
    (h : n.reads = false ∨ getPath c n.path = getPath c' n.path) : rndNode n c tns = rndNode n c' tns := by
  cases n with
  | null => simp [rndNode]
  | staticString _ => simp [rndNode]
  | emptyObject => simp [rndNode]
  | emptyArray => simp [rndNode]
  | scalar kind path nullable =>
    have h' : getPath c path = getPath c' path := by simpa [Node.reads, Node.path] using h
    simp only [rndNode, h']
  | enum path nullable _ values inaccessible =>
    have h' : getPath c path = getPath c' path := by simpa [Node.reads, Node.path] using h
    simp only [rndNode, h']
  | array path nullable item =>
    have h' : getPath c path = getPath c' path := by simpa [Node.reads, Node.path] using h
    simp only [rndNode, h']
  | object path nullable typeName src possible inaccessibleT unresolvable fields =>
    have h' : getPath c path = getPath c' path := by simpa [Node.reads, Node.path] using h
    simp only [rndNode, h']

theorem typenameCheck_none (possible ina : List String) (typeName : String) (tn : Option String)
    (h : typenameCheck possible ina typeName tn = none) : typenameCheck possible [] typeName tn = none := by
  unfold typenameCheck at h ⊢
  split
  · simp_all
  · split
    · simp_all
    · rfl

theorem typenameCheck_some (possible ina : List String) (typeName : String) (tn : Option String) (cls : String)
    (h : typenameCheck possible ina typeName tn = some cls) : ∃ cls', typenameCheck possible [] typeName tn = some cls' := by
  unfold typenameCheck at h ⊢
  split
  · exact ⟨_, rfl⟩
  · split
    · exact ⟨_, rfl⟩
    · simp_all

/-! ### list items -/

/-- elementwise relation of two lists of the same length -/
inductive All2 {α β : Type} (P : α → β → Prop) : List α → List β → Prop
  | nil : All2 P [] []
  | cons {a b as bs} : P a b → All2 P as bs → All2 P (a :: as) (b :: bs)

/-- how an element `y` of the written-back list relates to the element `x` it came from -/
def ItemRel (f : Json → St → R) (comp : Bool) (tns : List (Option String)) (x y : Json) : Prop :=
  (∃ s : St, s.typeNames = tns ∧ (f x s).err = false ∧ y = (f x s).c) ∨ (comp = true ∧ y = .null)

theorem preItems_ok (f : Json → St → R) (comp : Bool)
    (hf : ∀ x s, (f x s).st.typeNames = s.typeNames) : ∀ xs i st acc,
    (preItems f comp xs i st acc).1 = false →
    ∃ zs, (preItems f comp xs i st acc).2.1 = acc.reverse ++ zs ∧ All2 (ItemRel f comp st.typeNames) xs zs := by
  intro xs
  induction xs with
  | nil => intro i st acc _; exact ⟨[], by simp [preItems], All2.nil⟩
  | cons x xs ih =>
    intro i st acc h
    simp only [preItems] at h ⊢
    have htn : (f x (st.pushIdx i)).st.typeNames = st.typeNames := by rw [hf]; rfl
    split at h
    · rename_i herr
      split at h
      · rename_i hcomp
        subst hcomp
        simp only [herr, if_true]
        obtain ⟨zs, h1, h2⟩ := ih (i + 1) { (f x (st.pushIdx i)).st with path := st.path } (Json.null :: acc) h
        refine ⟨Json.null :: zs, by simp [h1], All2.cons (Or.inr ⟨rfl, rfl⟩) ?_⟩
        simpa [htn] using h2
      · simp at h
    · rename_i herr
      simp only [herr, Bool.false_eq_true, if_false]
      obtain ⟨zs, h1, h2⟩ := ih (i + 1) { (f x (st.pushIdx i)).st with path := st.path } ((f x (st.pushIdx i)).c :: acc) h
      refine ⟨(f x (st.pushIdx i)).c :: zs, by simp [h1], All2.cons (Or.inl ⟨st.pushIdx i, rfl, by simpa using herr, rfl⟩) ?_⟩
      simpa [htn] using h2

theorem rndItems_ok (g : Json → Option Json) (P : Json → Json → Prop) (C : Json → Prop) :
    ∀ xs zs, All2 P xs zs → (∀ x y, P x y → ∃ v, g y = some v ∧ C v) →
    ∃ vs, rndItems g zs = some vs ∧ ∀ v ∈ vs, C v := by
  intro xs zs h
  induction h with
  | nil => intro _; exact ⟨[], by simp [rndItems], by simp⟩
  | cons hxy _ ih =>
    intro hg
    obtain ⟨v, hv, hc⟩ := hg _ _ hxy
    obtain ⟨vs, hvs, hcs⟩ := ih hg
    refine ⟨v :: vs, by simp [rndItems, hv, hvs], ?_⟩
    intro w hw
    rcases List.mem_cons.mp hw with rfl | hw
    · exact hc
    · exact hcs w hw

/-! ### leaves -/

theorem leaf_ok (n : Node) (c : Json) (st : St) (tns : List (Option String)) (hleaf : n.composite = false)
    (h : (preNode n c st).err = false) : ∃ x, rndNode n c tns = some x ∧ Conforms n x tns := by
  cases n with
  | null => exact ⟨.null, by simp [rndNode], by simp [Conforms]⟩
  | staticString s => exact ⟨.str s, by simp [rndNode], by simp [Conforms]⟩
  | emptyObject => exact ⟨.obj [], by simp [rndNode], by simp [Conforms]⟩
  | emptyArray => exact ⟨.arr [], by simp [rndNode], by simp [Conforms]⟩
  | scalar kind path nullable =>
    simp only [preNode] at h
    simp only [rndNode]
    cases hg : getPath c path with
    | none =>
      simp only [hg] at h ⊢
      cases nullable <;> simp_all [Conforms]
    | some v =>
      simp only [hg] at h ⊢
      cases v with
      | null => cases nullable <;> simp_all [Conforms]
      | bool b => by_cases hk : kindOk kind (.bool b) = true <;> simp_all [Conforms]
      | num r => by_cases hk : kindOk kind (.num r) = true <;> simp_all [Conforms]
      | str r => by_cases hk : kindOk kind (.str r) = true <;> simp_all [Conforms]
      | arr r => by_cases hk : kindOk kind (.arr r) = true <;> simp_all [Conforms]
      | obj r => by_cases hk : kindOk kind (.obj r) = true <;> simp_all [Conforms]
  | enum path nullable tn values inaccessible =>
    simp only [preNode] at h
    simp only [rndNode]
    cases hg : getPath c path with
    | none =>
      simp only [hg] at h ⊢
      cases nullable <;> simp_all [Conforms]
    | some v =>
      simp only [hg] at h ⊢
      cases v with
      | null => cases nullable <;> simp_all [Conforms]
      | str r =>
        by_cases h1 : values.contains r = true
        · by_cases h2 : inaccessible.contains r = true
          · cases nullable <;> simp_all [Conforms]
          · simp_all [Conforms]
        · cases nullable <;> simp_all [Conforms]
      | bool b => simp_all
      | num r => simp_all
      | arr r => simp_all
      | obj r => simp_all
  | array _ _ _ => simp [Node.composite] at hleaf
  | object _ _ _ _ _ _ _ _ => simp [Node.composite] at hleaf

/-! ### objects and lists -/

/-- a list element the pre-walk replaced by null renders as null, and its node is nullable -/
theorem rnd_null_composite (item : Node) (tns : List (Option String)) (hpath : item.path = [])
    (hcomp : ((item.kind == .object || item.kind == .array) && item.nullable) = true) :
    rndNode item .null tns = some .null ∧ Conforms item .null tns := by
  cases item with
  | array path nullable it =>
    simp only [Node.path] at hpath
    subst hpath
    simp only [Node.nullable, Bool.and_eq_true] at hcomp
    simp [rndNode, getPath, Conforms, hcomp.2]
  | object path nullable typeName src possible ina unres fields =>
    simp only [Node.path] at hpath
    subst hpath
    simp only [Node.nullable, Bool.and_eq_true] at hcomp
    simp only [rndNode, getPath, Conforms, hcomp.2]
    split <;> simp
  | _ => simp [Node.kind] at hcomp

theorem typenameOf_congr (kvs kvs' : List (String × Json))
    (h : get1 (.obj kvs') "__typename" = get1 (.obj kvs) "__typename") : typenameOf (.obj kvs') = typenameOf (.obj kvs) := by
  simp only [typenameOf, h]

mutual
theorem node_ok : ∀ (n : Node) (c : Json) (st : St), wfNode n = true → (n.reads = false ∨ n.path.length ≤ 1) →
    (preNode n c st).err = false →
    ∃ x, rndNode n (preNode n c st).c st.typeNames = some x ∧ Conforms n x st.typeNames
  | .null, c, st, _, _, h => by rw [preNode_c_leaf _ _ _ rfl]; exact leaf_ok _ c st _ rfl h
  | .staticString _, c, st, _, _, h => by rw [preNode_c_leaf _ _ _ rfl]; exact leaf_ok _ c st _ rfl h
  | .emptyObject, c, st, _, _, h => by rw [preNode_c_leaf _ _ _ rfl]; exact leaf_ok _ c st _ rfl h
  | .emptyArray, c, st, _, _, h => by rw [preNode_c_leaf _ _ _ rfl]; exact leaf_ok _ c st _ rfl h
  | .scalar _ _ _, c, st, _, _, h => by rw [preNode_c_leaf _ _ _ rfl]; exact leaf_ok _ c st _ rfl h
  | .enum _ _ _ _ _, c, st, _, _, h => by rw [preNode_c_leaf _ _ _ rfl]; exact leaf_ok _ c st _ rfl h
  | .array path nullable item, c, st, hwf, hp, h => by
    have hp' : path.length ≤ 1 := by simpa [Node.reads, Node.path] using hp
    simp only [wfNode, Bool.and_eq_true, Bool.or_eq_true, Bool.not_eq_true'] at hwf
    obtain ⟨hitemShape, hitemWf⟩ := hwf
    simp only [preNode] at h ⊢
    cases hg : getPath c path with
    | none =>
      simp only [hg] at h ⊢
      cases nullable <;> simp_all [rndNode, Conforms]
    | some v =>
      simp only [hg] at h ⊢
      cases v with
      | null => cases nullable <;> simp_all [rndNode, Conforms]
      | bool _ => simp at h
      | num _ => simp at h
      | str _ => simp at h
      | obj _ => simp at h
      | arr xs =>
        simp only at h ⊢
        generalize hres : preItems (fun x s => preNode item x s)
          ((item.kind == .object || item.kind == .array) && item.nullable) xs 0 (st.push path) [] = res at h ⊢
        cases herr : res.1 with
        | true =>
          simp only [herr, if_true] at h ⊢
          by_cases hn : (nullable && !path.isEmpty) = true
          · simp only [hn, if_true]
            have hnull : nullable = true := by simp_all
            refine ⟨.null, ?_, by simp [Conforms, hnull]⟩
            simp [rndNode, getPath_setPath_same c path .null _ hp' hg, hnull]
          · simp [hn] at h
        | false =>
          simp only [herr, Bool.false_eq_true, if_false] at h ⊢
          have hok := preItems_ok (fun x s => preNode item x s)
            ((item.kind == .object || item.kind == .array) && item.nullable)
            (fun x s => preNode_typeNames item x s) xs 0 (st.push path) [] (by rw [hres]; exact herr)
          rw [hres] at hok
          obtain ⟨zs, hzs, hall⟩ := hok
          simp only [List.reverse_nil, List.nil_append] at hzs
          have htn : (st.push path).typeNames = st.typeNames := rfl
          rw [htn] at hall
          have hitems := rndItems_ok (fun x => rndNode item x st.typeNames) _ (fun v => Conforms item v st.typeNames)
            xs zs hall (by
              intro x y hxy
              rcases hxy with ⟨s, hs, herr', hy⟩ | ⟨hcomp, hy⟩
              · subst hy
                have hshape : item.reads = false ∨ item.path.length ≤ 1 := by
                  rcases hitemShape with h1 | h1
                  · exact Or.inl h1
                  · right; simp [List.isEmpty_iff.mp h1]
                have := node_ok item x s hitemWf hshape herr'
                rw [hs] at this
                exact this
              · subst hy
                have hcomp' := hcomp
                have hreads : item.reads = true := by
                  cases item <;> simp_all [Node.kind, Node.reads]
                have hpath : item.path = [] := by
                  rcases hitemShape with h1 | h1
                  · simp [hreads] at h1
                  · exact List.isEmpty_iff.mp h1
                exact ⟨.null, (rnd_null_composite item st.typeNames hpath hcomp').1,
                  (rnd_null_composite item st.typeNames hpath hcomp').2⟩)
          obtain ⟨vs, hvs, hcs⟩ := hitems
          refine ⟨.arr vs, ?_, by simp only [Conforms]; exact Or.inr ⟨vs, rfl, hcs⟩⟩
          simp [rndNode, getPath_setPath_same c path _ _ hp' hg, hzs, hvs]
  | .object path nullable typeName src possible ina unres fields, c, st, hwf, hp, h => by
    have hp' : path.length ≤ 1 := by simpa [Node.reads, Node.path] using hp
    simp only [wfNode, Bool.and_eq_true, Bool.not_eq_true'] at hwf
    obtain ⟨hfieldsWf, htnKey⟩ := hwf
    simp only [preNode] at h ⊢
    cases unres with
    | true => simp at h
    | false =>
      simp only [Bool.false_eq_true, if_false] at h ⊢
      cases hg : getPath c path with
      | none =>
        simp only [hg] at h ⊢
        cases nullable <;> simp_all [rndNode, Conforms]
      | some v =>
        simp only [hg] at h ⊢
        cases v with
        | null => cases nullable <;> simp_all [rndNode, Conforms]
        | bool _ => simp at h
        | num _ => simp at h
        | str _ => simp at h
        | arr _ => simp at h
        | obj kvs =>
          simp only at h ⊢
          cases hchk : typenameCheck possible ina typeName (typenameOf (.obj kvs)) with
          | some cls =>
            simp only [hchk] at h ⊢
            have hnull : nullable = true := by simpa using h
            obtain ⟨cls', hcls'⟩ := typenameCheck_some _ _ _ _ _ hchk
            refine ⟨.null, ?_, by simp [Conforms, hnull]⟩
            simp [rndNode, hg, hcls']
          | none =>
            simp only [hchk] at h ⊢
            generalize hst2 : ({ (st.push path) with typeNames := typenameOf (.obj kvs) :: st.typeNames } : St) = st2 at h ⊢
            have hst2tn : st2.typeNames = typenameOf (.obj kvs) :: st.typeNames := by rw [← hst2]
            cases herr : (preFields fields (.obj kvs) st2).err with
            | true =>
              simp only [herr, if_true] at h ⊢
              by_cases hn : (nullable && !path.isEmpty) = true
              · simp only [hn, if_true]
                have hnull : nullable = true := by simp_all
                refine ⟨.null, ?_, by simp [Conforms, hnull]⟩
                simp [rndNode, getPath_setPath_same c path .null _ hp' hg, hnull]
              · simp [hn] at h
            | false =>
              simp only [herr, Bool.false_eq_true, if_false] at h ⊢
              obtain ⟨kvs', hc', hframe⟩ := preFields_frame fields kvs st2 hfieldsWf
              have htn : typenameOf (.obj kvs') = typenameOf (.obj kvs) :=
                typenameOf_congr kvs kvs' (hframe "__typename" (by simpa using htnKey))
              obtain ⟨out, hout, hconf⟩ := fields_ok fields kvs st2 hfieldsWf herr
              rw [hc', hst2tn] at hout
              rw [hst2tn] at hconf
              refine ⟨.obj out, ?_, ?_⟩
              · simp [rndNode, getPath_setPath_same c path _ _ hp' hg, hc', htn,
                  typenameCheck_none _ _ _ _ hchk, hout]
              · simp only [Conforms]
                exact Or.inr ⟨out, typenameOf (.obj kvs), rfl, typenameCheck_none _ _ _ _ hchk, hconf⟩
theorem fields_ok : ∀ (fs : Fields) (kvs : List (String × Json)) (st : St), wfFields fs = true →
    (preFields fs (.obj kvs) st).err = false →
    ∃ out, rndFields fs (preFields fs (.obj kvs) st).c st.typeNames = some out ∧ ConformsFields fs out st.typeNames
  | .nil, kvs, st, _, _ => ⟨[], by simp [preFields, rndFields], by simp [ConformsFields]⟩
  | .cons name guard value rest, kvs, st, hwf, h => by
    obtain ⟨hshape, hvalueWf, hrestWf⟩ := wfFields_cons hwf
    simp only [preFields] at h ⊢
    by_cases hskip : skipField guard st.typeNames = true
    · simp only [hskip, if_true] at h ⊢
      obtain ⟨out, h1, h2⟩ := fields_ok rest kvs st hrestWf h
      exact ⟨out, by simp [rndFields, hskip, h1], by simp [ConformsFields, hskip, h2]⟩
    · simp only [hskip, Bool.false_eq_true, if_false] at h ⊢
      cases herr : (preNode value (.obj kvs) st).err with
      | true => simp [herr] at h
      | false =>
        simp only [herr, Bool.false_eq_true, if_false] at h ⊢
        have hshape1 : value.reads = false ∨ value.path.length ≤ 1 := by
          rcases hshape with h1 | ⟨k, hk, _⟩
          · exact Or.inl h1
          · right; simp [hk]
        have hshape2 : value.reads = false ∨ ∃ k, value.path = [k] := by
          rcases hshape with h1 | ⟨k, hk, _⟩
          · exact Or.inl h1
          · exact Or.inr ⟨k, hk⟩
        obtain ⟨x, hx, hxc⟩ := node_ok value (.obj kvs) st hvalueWf hshape1 herr
        obtain ⟨kvs1, hc1, _⟩ := preNode_field_frame value kvs st hshape2
        rw [hc1] at h hx ⊢
        obtain ⟨outs, houts, hcs⟩ := fields_ok rest kvs1 (preNode value (.obj kvs) st).st hrestWf h
        rw [preNode_typeNames] at houts hcs
        obtain ⟨kvs', hc', hframe⟩ := preFields_frame rest kvs1 (preNode value (.obj kvs) st).st hrestWf
        have hcongr : rndNode value (preFields rest (.obj kvs1) (preNode value (.obj kvs) st).st).c st.typeNames
            = rndNode value (.obj kvs1) st.typeNames := by
          apply rndNode_congr
          rcases hshape with h1 | ⟨k, hk, hknot⟩
          · exact Or.inl h1
          · right
            rw [hc', hk]
            simp only [getPath]
            rw [hframe k hknot]
        refine ⟨(name, x) :: outs, ?_, ?_⟩
        · simp [rndFields, hskip, hcongr, hx, houts]
        · simp only [ConformsFields, hskip, Bool.false_eq_true, if_false]
          exact ⟨x, outs, rfl, hxc, hcs⟩
end

end GqlVerif.Render
