/-
  Proofs.C20Merge — the positional assembly of `_entities` (Misc.GrpcMerge): index maps are sorted, complete and typed;
  placing results by an index map writes exactly those positions; a sequence of calls with distinct entity types yields
  one item per representation, every result at the position of its representation, null where no call answers.
-/
import GqlVerif.Misc.GrpcMerge
set_option linter.unusedSimpArgs false
namespace GqlVerif.GrpcMerge

theorem indexMap_mem (t : String) : ∀ (xs : List String) (i j : Nat), j ∈ indexMap t xs i →
    i ≤ j ∧ j < i + xs.length ∧ xs[j - i]? = some t := by
  intro xs
  induction xs with
  | nil => intro i j h; simp [indexMap] at h
  | cons x xs ih =>
    intro i j h
    simp only [indexMap] at h
    by_cases hx : (x == t) = true
    · simp only [hx, if_true, List.mem_cons] at h
      rcases h with rfl | h
      · refine ⟨Nat.le_refl _, by simp, ?_⟩
        simp; simpa using hx
      · obtain ⟨h1, h2, h3⟩ := ih (i + 1) j h
        refine ⟨by omega, by simp; omega, ?_⟩
        have : j - i = (j - (i + 1)) + 1 := by omega
        rw [this]; simpa using h3
    · simp only [hx, Bool.false_eq_true, if_false] at h
      obtain ⟨h1, h2, h3⟩ := ih (i + 1) j h
      refine ⟨by omega, by simp; omega, ?_⟩
      have : j - i = (j - (i + 1)) + 1 := by omega
      rw [this]; simpa using h3

theorem indexMap_complete (t : String) : ∀ (xs : List String) (i k : Nat), xs[k]? = some t → i + k ∈ indexMap t xs i := by
  intro xs
  induction xs with
  | nil => intro i k h; simp at h
  | cons x xs ih =>
    intro i k h
    simp only [indexMap]
    cases k with
    | zero =>
      simp at h
      subst h
      simp
    | succ k =>
      simp at h
      have := ih (i + 1) k h
      have he : i + (k + 1) = i + 1 + k := by omega
      rw [he]
      split
      · exact List.mem_cons_of_mem _ this
      · exact this

theorem indexMap_sorted (t : String) : ∀ (xs : List String) (i : Nat), (indexMap t xs i).Pairwise (· < ·) := by
  intro xs
  induction xs with
  | nil => intro i; simp [indexMap]
  | cons x xs ih =>
    intro i
    simp only [indexMap]
    split
    · refine List.pairwise_cons.mpr ⟨?_, ih (i + 1)⟩
      intro j hj
      have := (indexMap_mem t xs (i + 1) j hj).1
      omega
    · exact ih (i + 1)

theorem place_length (arr : List (Option String)) : ∀ (is : List Nat) (rs : List String), (place arr is rs).length = arr.length := by
  intro is
  induction is generalizing arr with
  | nil => intro rs; simp [place]
  | cons i is ih =>
    intro rs
    cases rs with
    | nil => simp [place]
    | cons r rs => simp [place, ih]

theorem place_frame (arr : List (Option String)) : ∀ (is : List Nat) (rs : List String) (j : Nat), j ∉ is →
    (place arr is rs)[j]? = arr[j]? := by
  intro is
  induction is generalizing arr with
  | nil => intro rs j _; simp [place]
  | cons i is ih =>
    intro rs j hj
    cases rs with
    | nil => simp [place]
    | cons r rs =>
      simp only [place]
      rw [ih _ rs j (fun h => hj (List.mem_cons_of_mem _ h))]
      have hne : i ≠ j := fun h => hj (by simp [h])
      simp [List.getElem?_set, hne]

theorem place_get (arr : List (Option String)) : ∀ (is : List Nat) (rs : List String), is.Pairwise (· < ·) →
    (∀ i ∈ is, i < arr.length) → ∀ (k : Nat) (p : Nat) (r : String), is[k]? = some p → rs[k]? = some r →
    (place arr is rs)[p]? = some (some r) := by
  intro is
  induction is generalizing arr with
  | nil => intro rs _ _ k p r h; simp at h
  | cons i is ih =>
    intro rs hs hb k p r hk hr
    cases rs with
    | nil => simp at hr
    | cons r0 rs =>
      simp only [place]
      have hs' := List.pairwise_cons.mp hs
      cases k with
      | zero =>
        simp at hk hr
        subst hk; subst hr
        have hnot : i ∉ is := fun h => by have := hs'.1 i h; omega
        rw [place_frame _ is rs i hnot]
        have hi : i < arr.length := hb i (by simp)
        simp [List.getElem?_set, hi]
      | succ k =>
        simp at hk hr
        exact ih (arr.set i (some r0)) rs hs'.2 (fun j hj => by simp; exact hb j (List.mem_cons_of_mem _ hj)) k p r hk hr

theorem pad_length (arr : List (Option String)) (n : Nat) : (pad arr n).length = max arr.length n := by
  simp [pad]; omega

/-- **merged_length**: after a merge the list has one item per representation (or keeps a longer list) -/
theorem merged_length (types : List String) (arr : List (Option String)) (t : String) (rs : List String) :
    (mergeEntities types arr t rs).length = max arr.length types.length := by
  simp [mergeEntities, place_length, pad_length]

/-- **merged_positional**: result `k` of the call for type `t` is written at the position of the `k`-th representation of
    type `t` -/
theorem merged_positional (types : List String) (arr : List (Option String)) (t : String) (rs : List String)
    (k p : Nat) (r : String) (hk : (indexMap t types 0)[k]? = some p) (hr : rs[k]? = some r) :
    (mergeEntities types arr t rs)[p]? = some (some r) := by
  unfold mergeEntities
  apply place_get _ _ _ (indexMap_sorted t types 0) ?_ k p r hk hr
  intro i hi
  have := (indexMap_mem t types 0 i hi).2.1
  rw [pad_length]; omega

/-- **merged_frame**: positions of representations of other types are not touched by the merge -/
theorem merged_frame (types : List String) (arr : List (Option String)) (t : String) (rs : List String) (p : Nat)
    (hp : types[p]? ≠ some t) : (mergeEntities types arr t rs)[p]? = (pad arr types.length)[p]? := by
  unfold mergeEntities
  apply place_frame
  intro hmem
  have := (indexMap_mem t types 0 p hmem).2.2
  simp at this
  exact hp this

/-- every representation of type `t` has a position in the index map, in order: the k-th one is at rank k -/
theorem every_representation_has_a_position (types : List String) (t : String) (p : Nat) (h : types[p]? = some t) :
    p ∈ indexMap t types 0 := by
  have := indexMap_complete t types 0 p h
  simpa using this

end GqlVerif.GrpcMerge

namespace GqlVerif.GrpcMerge

theorem pad_self (arr : List (Option String)) (n : Nat) (h : arr.length = n) : pad arr n = arr := by
  simp [pad, h]

def fold (types : List String) (calls : List (String × List String)) (arr : List (Option String)) : List (Option String) :=
  calls.foldl (fun arr c => mergeEntities types arr c.1 c.2) arr

theorem fold_length (types : List String) : ∀ (calls : List (String × List String)) (arr : List (Option String)),
    arr.length = types.length → (fold types calls arr).length = types.length := by
  intro calls
  induction calls with
  | nil => intro arr h; simpa [fold] using h
  | cons c cs ih =>
    intro arr h
    simp only [fold, List.foldl_cons]
    apply ih
    rw [merged_length, h]; omega

/-- positions whose type no remaining call answers keep their value -/
theorem fold_frame (types : List String) : ∀ (calls : List (String × List String)) (arr : List (Option String)) (p : Nat),
    arr.length = types.length → (∀ c ∈ calls, types[p]? ≠ some c.1) → (fold types calls arr)[p]? = arr[p]? := by
  intro calls
  induction calls with
  | nil => intro arr p _ _; simp [fold]
  | cons c cs ih =>
    intro arr p h hno
    simp only [fold, List.foldl_cons]
    have h1 : (mergeEntities types arr c.1 c.2).length = types.length := by rw [merged_length, h]; omega
    have := ih (mergeEntities types arr c.1 c.2) p h1 (fun c' hc' => hno c' (List.mem_cons_of_mem _ hc'))
    simp only [fold] at this
    rw [this, merged_frame types arr c.1 c.2 p (hno c (by simp)), pad_self arr _ h]

/-- a call's results end up at the positions of its type, whatever is merged before or after it -/
theorem fold_hit (types : List String) : ∀ (calls : List (String × List String)) (arr : List (Option String)),
    arr.length = types.length → (calls.map (·.1)).Nodup →
    ∀ c ∈ calls, ∀ (k p : Nat) (r : String), (indexMap c.1 types 0)[k]? = some p → c.2[k]? = some r →
      (fold types calls arr)[p]? = some (some r) := by
  intro calls
  induction calls with
  | nil => intro arr _ _ c hc; cases hc
  | cons c0 cs ih =>
    intro arr h hnd c hc k p r hk hr
    simp only [fold, List.foldl_cons]
    have h1 : (mergeEntities types arr c0.1 c0.2).length = types.length := by rw [merged_length, h]; omega
    simp only [List.map_cons, List.nodup_cons] at hnd
    rcases List.mem_cons.mp hc with rfl | hc'
    · -- the first call: written now, and no later call is of its type
      have hp : types[p]? = some c.1 := by
        have := (indexMap_mem c.1 types 0 p (List.mem_of_getElem? hk)).2.2
        simpa using this
      have hfr := fold_frame types cs (mergeEntities types arr c.1 c.2) p h1 (by
        intro c' hc' heq
        rw [hp] at heq
        have : c.1 = c'.1 := by simpa using heq
        exact hnd.1 (this ▸ List.mem_map.mpr ⟨c', hc', rfl⟩))
      simp only [fold] at hfr
      rw [hfr]
      -- the padded start list is the list itself
      have := merged_positional types arr c.1 c.2 k p r hk hr
      exact this
    · have := ih (mergeEntities types arr c0.1 c0.2) h1 hnd.2 c hc' k p r hk hr
      simpa [fold] using this

end GqlVerif.GrpcMerge

namespace GqlVerif.GrpcMerge

theorem pad_pad (arr : List (Option String)) (n : Nat) : pad (pad arr n) n = pad arr n := by
  have : n - (pad arr n).length = 0 := by rw [pad_length]; omega
  simp [pad] at this ⊢
  omega

theorem mergeAll_eq_fold (types : List String) (calls : List (String × List String)) (h : calls ≠ []) :
    mergeAll types calls = fold types calls (pad [] types.length) := by
  cases calls with
  | nil => exact absurd rfl h
  | cons c cs =>
    simp only [mergeAll, fold, List.foldl_cons, mergeEntities, pad_pad]

theorem pad_nil_length (n : Nat) : (pad [] n).length = n := by simp [pad]

/-- **one item per representation** -/
theorem entities_one_item_per_representation (types : List String) (calls : List (String × List String)) (h : calls ≠ []) :
    (mergeAll types calls).length = types.length := by
  rw [mergeAll_eq_fold types calls h]
  exact fold_length types calls _ (pad_nil_length _)

/-- **entity i answers representation i**: with one call per entity type, result `k` of the call for type `t` is the item
    at the position of the `k`-th representation of type `t`, whatever the other calls returned and in whatever order the
    calls are merged -/
theorem entity_answers_its_representation (types : List String) (calls : List (String × List String))
    (hnd : (calls.map (·.1)).Nodup) (c : String × List String) (hc : c ∈ calls) (k p : Nat) (r : String)
    (hk : (indexMap c.1 types 0)[k]? = some p) (hr : c.2[k]? = some r) :
    (mergeAll types calls)[p]? = some (some r) := by
  have hne : calls ≠ [] := by intro h; rw [h] at hc; cases hc
  rw [mergeAll_eq_fold types calls hne]
  exact fold_hit types calls _ (pad_nil_length _) hnd c hc k p r hk hr

/-- **representations no call answers are null**, wherever they sit in the list (also at its end) -/
theorem unanswered_representation_is_null (types : List String) (calls : List (String × List String)) (hne : calls ≠ [])
    (p : Nat) (hp : p < types.length) (hno : ∀ c ∈ calls, types[p]? ≠ some c.1) :
    (mergeAll types calls)[p]? = some none := by
  rw [mergeAll_eq_fold types calls hne, fold_frame types calls _ p (pad_nil_length _) hno]
  simp [pad, hp]

/-- non-vacuity: [Storage, Product, Storage, Warehouse] answered by a Storage call and a Product call, in either order -/
example : mergeAll ["Storage", "Product", "Storage", "Warehouse"] [("Storage", ["S1", "S2"]), ("Product", ["P1"])] =
    [some "S1", some "P1", some "S2", none] := by decide
example : mergeAll ["Storage", "Product", "Storage", "Warehouse"] [("Product", ["P1"]), ("Storage", ["S1", "S2"])] =
    [some "S1", some "P1", some "S2", none] := by decide

end GqlVerif.GrpcMerge
