/-
  Proofs.C07Taint — the traversal of `isTainted` finds a marked object exactly when there is one (within the depth limit).
-/
import GqlVerif.Misc.Taint
namespace GqlVerif.Misc.Taint

mutual
theorem isTainted_eq : ∀ (t : T) (d : Nat), d + height t ≤ maxDepth + 1 → isTainted d t = hasMark t
  | .leaf m, d, _ => by simp [isTainted, hasMark]
  | .node m ks, d, h => by
    simp only [height] at h
    have hd : ¬ d > maxDepth := by omega
    simp only [isTainted, hasMark, hd, if_false]
    rw [anyKids_eq ks (d + 1) (by omega)]
theorem anyKids_eq : ∀ (ks : Kids) (d : Nat), d + kidsHeight ks ≤ maxDepth + 1 → anyKids d ks = kidsHaveMark ks
  | .nil, d, _ => by simp [anyKids, kidsHaveMark]
  | .cons t r, d, h => by
    simp only [kidsHeight] at h
    simp only [anyKids, kidsHaveMark]
    rw [isTainted_eq t d (by omega), anyKids_eq r d (by omega)]
end

/-- an item is dropped exactly when it is or contains a marked object (values nested at most 100 levels deep) -/
theorem dropped_iff_contains_marked (t : T) (h : height t ≤ maxDepth + 1) : isTainted 0 t = hasMark t :=
  isTainted_eq t 0 (by omega)

/-- the items that remain contain no marked object, in their original order; nothing else is dropped -/
theorem filterOut_spec (items : List T) (h : ∀ t ∈ items, height t ≤ maxDepth + 1) :
    filterOut items = items.filter (fun t => !hasMark t) := by
  unfold filterOut
  apply List.filter_congr
  intro t ht
  rw [dropped_iff_contains_marked t (h t ht)]

theorem filterOut_clean (items : List T) (h : ∀ t ∈ items, height t ≤ maxDepth + 1) :
    ∀ t ∈ filterOut items, hasMark t = false := by
  intro t ht
  rw [filterOut_spec items h] at ht
  simpa using (List.mem_filter.mp ht).2

mutual
/-- whatever the depth, a verdict "tainted" is never wrong -/
theorem isTainted_sound : ∀ (t : T) (d : Nat), isTainted d t = true → hasMark t = true
  | .leaf m, d, h => by simpa [isTainted, hasMark] using h
  | .node m ks, d, h => by
    simp only [isTainted, Bool.or_eq_true] at h
    simp only [hasMark, Bool.or_eq_true]
    rcases h with h | h
    · exact Or.inl h
    · split at h
      · cases h
      · exact Or.inr (anyKids_sound ks (d + 1) h)
theorem anyKids_sound : ∀ (ks : Kids) (d : Nat), anyKids d ks = true → kidsHaveMark ks = true
  | .nil, d, h => by simp [anyKids] at h
  | .cons t r, d, h => by
    simp only [anyKids, Bool.or_eq_true] at h
    simp only [kidsHaveMark, Bool.or_eq_true]
    exact h.imp (isTainted_sound t d) (anyKids_sound r d)
end

end GqlVerif.Misc.Taint
