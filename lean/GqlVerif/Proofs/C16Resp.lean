/-
  Proofs.C16Resp — the entity response cache bookkeeping (Cache.RespCache): collected items are positional, a written
  batch is found again as a whole, a hit is positional, a partial hit is a miss.
-/
import GqlVerif.Cache.RespCache
namespace GqlVerif.RespCache

theorem allSome_eq_some {α : Type} : ∀ (l : List (Option α)) (vs : List α), allSome l = some vs → l = vs.map some
  | [], vs, h => by simp [allSome] at h; subst h; rfl
  | none :: _, vs, h => by simp [allSome] at h
  | some x :: xs, vs, h => by
    simp only [allSome, Option.map_eq_some_iff] at h
    obtain ⟨r, hr, rfl⟩ := h
    simp [allSome_eq_some xs r hr]

theorem allSome_map_some {α : Type} (vs : List α) : allSome (vs.map some) = some vs := by
  induction vs with
  | nil => rfl
  | cons v vs ih => simp [allSome, ih]

/-- **collect_positional**: every item handed to the cache is an object value of the answer together with the key of
    the SAME position of the batch. -/
theorem collect_positional (keys : List String) (vals : List (Option String)) (items : List (String × String))
    (h : collect keys vals = some items) :
    ∀ kv ∈ items, ∃ i : Nat, keys[i]? = some kv.1 ∧ vals[i]? = some (some kv.2) := by
  unfold collect at h
  split at h
  · cases h
  · simp only [Option.some.injEq] at h
    subst h
    intro kv hkv
    obtain ⟨⟨k, ov⟩, hmem, hmap⟩ := List.mem_filterMap.mp hkv
    cases ov with
    | none => simp at hmap
    | some v =>
      simp only [Option.map_some, Option.some.injEq] at hmap
      subst hmap
      obtain ⟨i, hi⟩ := List.mem_iff_getElem?.mp hmem
      have := List.getElem?_zip_eq_some.mp hi
      exact ⟨i, this.1, this.2⟩

/-- … and nothing that is an object is left out -/
theorem collect_complete (keys : List String) (vals : List (Option String)) (items : List (String × String))
    (h : collect keys vals = some items) (i : Nat) (k v : String) (hk : keys[i]? = some k) (hv : vals[i]? = some (some v)) :
    (k, v) ∈ items := by
  unfold collect at h
  split at h
  · cases h
  · simp only [Option.some.injEq] at h
    subst h
    apply List.mem_filterMap.mpr
    refine ⟨(k, some v), ?_, rfl⟩
    apply List.mem_iff_getElem?.mpr
    exact ⟨i, List.getElem?_zip_eq_some.mpr ⟨hk, hv⟩⟩

theorem find_unique (l : List (String × String)) (hn : (l.map (·.1)).Nodup) (k v : String) (h : (k, v) ∈ l) :
    l.find? (·.1 == k) = some (k, v) := by
  induction l with
  | nil => cases h
  | cons kv r ih =>
    obtain ⟨k', v'⟩ := kv
    simp only [List.map_cons, List.nodup_cons] at hn
    rw [List.find?_cons]
    rcases List.mem_cons.mp h with heq | hr
    · cases heq; simp
    · have hne : k' ≠ k := by
        intro he
        subst he
        exact hn.1 (List.mem_map.mpr ⟨(k', v), hr, rfl⟩)
      have hb : (k' == k) = false := by simpa using hne
      simp [hb, ih hn.2 hr]

theorem nodup_reverse' {l : List String} (h : l.Nodup) : l.reverse.Nodup := by
  unfold List.Nodup at *
  rw [List.pairwise_reverse]
  exact h.imp (fun h => Ne.symm h)

theorem get_setMany (s : Store) (items : List (String × String)) (hn : (items.map (·.1)).Nodup) (k v : String)
    (h : (k, v) ∈ items) : Store.get (setMany s items) k = some v := by
  unfold Store.get setMany
  rw [List.find?_append]
  have hn' : ((items.reverse).map (·.1)).Nodup := by
    rw [List.map_reverse]; exact nodup_reverse' hn
  rw [find_unique items.reverse hn' k v (List.mem_reverse.mpr h)]
  rfl

theorem dedup_nodup (keys : List String) (h : keys.Nodup) : dedup keys = keys := by
  induction keys with
  | nil => rfl
  | cons k ks ih =>
    simp only [List.nodup_cons] at h
    simp [dedup, h.1, ih h.2]

/-- **roundtrip**: a batch of distinct keys whose answer holds an object (non-empty) at every position is, once collected
    and written, found again as a whole, and the synthesized `_entities` array is exactly that answer — whatever else the
    cache holds. -/
theorem roundtrip (s : Store) (keys vs : List String) (hn : keys.Nodup) (hne : keys ≠ []) (hl : vs.length = keys.length)
    (hv : ∀ v ∈ vs, v.isEmpty = false) :
    ∃ items, collect keys (vs.map some) = some items ∧ lookup (setMany s items) keys = some vs := by
  have hitems : collect keys (vs.map some) = some (keys.zip vs) := by
    unfold collect
    simp only [List.length_map, hl, ne_eq, not_true_eq_false, if_false, Option.some.injEq]
    clear hn hne hv
    induction keys generalizing vs with
    | nil => simp
    | cons k ks ih =>
      cases vs with
      | nil => simp at hl
      | cons v vs => simp at hl; simp [ih vs hl]
  refine ⟨keys.zip vs, hitems, ?_⟩
  have hkeysmap : (keys.zip vs).map (·.1) = keys := by
    rw [List.map_fst_zip]; omega
  have hget : ∀ (i : Nat) k v, keys[i]? = some k → vs[i]? = some v → Store.get (setMany s (keys.zip vs)) k = some v := by
    intro i k v hk hv'
    apply get_setMany s _ (by rw [hkeysmap]; exact hn)
    apply List.mem_iff_getElem?.mpr
    exact ⟨i, List.getElem?_zip_eq_some.mpr ⟨hk, hv'⟩⟩
  have husable : keys.map (usable (setMany s (keys.zip vs))) = vs.map some := by
    apply List.ext_getElem?
    intro i
    simp only [List.getElem?_map]
    cases hk : keys[i]? with
    | none =>
      have : vs[i]? = none := by
        rw [List.getElem?_eq_none_iff] at hk ⊢; omega
      simp [this]
    | some k =>
      have hi : i < vs.length := by
        have := (List.getElem?_eq_some_iff.mp hk).1; omega
      have hvi : vs[i]? = some vs[i] := List.getElem?_eq_getElem hi
      simp only [hvi, Option.map_some, usable, hget i k vs[i] hk hvi, hv vs[i] (List.getElem_mem hi)]
      rfl
  unfold lookup
  have h1 : keys.isEmpty = false := by cases keys <;> simp_all
  have h2 : foundCount (setMany s (keys.zip vs)) keys = keys.length := by
    unfold foundCount
    rw [dedup_nodup keys hn]
    rw [List.filter_eq_self.mpr]
    intro k hk
    obtain ⟨i, hi⟩ := List.mem_iff_getElem?.mp hk
    have hil : i < vs.length := by
      have := (List.getElem?_eq_some_iff.mp hi).1; omega
    simp [hget i k vs[i] hi (List.getElem?_eq_getElem hil)]
  simp only [h1, Bool.false_eq_true, if_false, h2, ne_eq, not_true_eq_false, husable, allSome_map_some]

/-- **hit_is_positional**: whenever a lookup hits, the synthesized array has one value per key, and the value at position
    `i` is the cache's (non-empty) entry for key `i` — never another key's. -/
theorem hit_is_positional (s : Store) (keys vs : List String) (h : lookup s keys = some vs) :
    vs.length = keys.length ∧ ∀ (i : Nat) k, keys[i]? = some k → ∃ v, vs[i]? = some v ∧ s.get k = some v ∧ v.isEmpty = false := by
  unfold lookup at h
  split at h; · cases h
  split at h; · cases h
  have hm := allSome_eq_some _ _ h
  refine ⟨by have := congrArg List.length hm; simpa using this.symm, ?_⟩
  intro i k hk
  have := congrArg (·[i]?) hm
  simp only [List.getElem?_map, hk, Option.map_some] at this
  cases hv : vs[i]? with
  | none => simp [hv] at this
  | some v =>
    simp only [hv, Option.map_some, Option.some.injEq] at this
    refine ⟨v, rfl, ?_⟩
    unfold usable at this
    split at this
    · next w hw =>
      split at this
      · cases this
      · next hne => cases this; exact ⟨hw, by simpa using hne⟩
    · cases this

/-- **partial_is_a_miss**: when one key of the batch has no entry the whole batch misses (and is fetched again). -/
theorem partial_is_a_miss (s : Store) (keys : List String) (k : String) (hk : k ∈ keys) (hs : s.get k = none) :
    lookup s keys = none := by
  cases h : lookup s keys with
  | none => rfl
  | some vs =>
    obtain ⟨i, hi⟩ := List.mem_iff_getElem?.mp hk
    obtain ⟨v, _, hv, _⟩ := (hit_is_positional s keys vs h).2 i k hi
    rw [hs] at hv; cases hv

theorem nodup_index_unique {l : List String} (h : l.Nodup) {i j : Nat} {k : String}
    (hi : l[i]? = some k) (hj : l[j]? = some k) : i = j := by
  induction l generalizing i j with
  | nil => simp at hi
  | cons x xs ih =>
    simp only [List.nodup_cons] at h
    cases i with
    | zero =>
      cases j with
      | zero => rfl
      | succ j =>
        simp at hi hj
        subst hi
        exact absurd (List.mem_of_getElem? hj) h.1
    | succ i =>
      cases j with
      | zero =>
        simp at hi hj
        subst hj
        exact absurd (List.mem_of_getElem? hi) h.1
      | succ j =>
        simp at hi hj
        rw [ih h.2 hi hj]

/-- an entity the subgraph answered with null is not handed to the cache under its key -/
theorem null_entity_is_not_stored (keys : List String) (vals : List (Option String)) (items : List (String × String))
    (h : collect keys vals = some items) (hn : keys.Nodup) (i : Nat) (k : String)
    (hk : keys[i]? = some k) (hv : vals[i]? = some none) : ∀ v, (k, v) ∉ items := by
  intro v hmem
  obtain ⟨j, hj, hvj⟩ := collect_positional keys vals items h (k, v) hmem
  have := nodup_index_unique hn hk hj
  subst this
  rw [hv] at hvj
  cases hvj

end GqlVerif.RespCache
