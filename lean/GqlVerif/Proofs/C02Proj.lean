/-
  Proofs.C02Proj — the pre-walk changes the data only where it reports an error: if no error was added the container is
  untouched, and on plan-directed well-typed data (`WT`) no error is added.  Used by Props.C02 (welltyped_projects).
-/
import GqlVerif.Plan.RenderSpec
import GqlVerif.Proofs.C02
import GqlVerif.Proofs.C02Safe
set_option linter.unusedSimpArgs false
set_option linter.unusedVariables false
namespace GqlVerif.Render
open GqlVerif

/-! ### writing back what was read changes nothing -/

theorem replaceFirst_id (kvs : List (String × Json)) (k : String) (y : Json)
    (h : (kvs.find? (·.1 == k)).map (·.2) = some y) : replaceFirst kvs k y = kvs := by
  induction kvs with
  | nil => simp at h
  | cons kv r ih =>
    obtain ⟨k', v'⟩ := kv
    simp only [replaceFirst]
    by_cases hk : (k' == k) = true
    · have : k' = k := by simpa using hk
      subst this
      simp [List.find?_cons] at h
      simp [h]
    · simp only [hk, Bool.false_eq_true, if_false]
      rw [List.find?_cons] at h
      simp only [hk] at h
      rw [ih h]

theorem set1_get1_id (j : Json) (k : String) (y : Json) (h : get1 j k = some y) : set1 j k y = j := by
  cases j with
  | obj kvs => simp only [get1] at h; simp [set1, replaceFirst_id kvs k y h]
  | arr xs =>
    simp only [get1] at h
    cases hd : decNat? k with
    | none => simp [hd] at h
    | some i =>
      simp only [hd, Option.bind_some] at h
      obtain ⟨hi, hx⟩ := List.getElem?_eq_some_iff.mp h
      simp only [set1, hd, hi, if_true]
      congr 1
      rw [← hx]
      exact List.set_getElem_self hi
  | null => simp [get1] at h
  | bool _ => simp [get1] at h
  | num _ => simp [get1] at h
  | str _ => simp [get1] at h

theorem setPath_getPath_id : ∀ (p : List String) (c y : Json), getPath c p = some y → setPath c p y = c
  | [], c, y, h => by simp [getPath] at h; simp [setPath, h]
  | [k], c, y, h => by
    simp only [getPath] at h
    cases hg : get1 c k with
    | none => simp [hg] at h
    | some z =>
      simp [hg] at h
      subst h
      simp [setPath, set1_get1_id c k z hg]
  | k :: k2 :: ks, c, y, h => by
    simp only [getPath] at h
    cases hg : get1 c k with
    | none => simp [hg] at h
    | some z =>
      simp only [hg, Option.bind_some] at h
      have ih := setPath_getPath_id (k2 :: ks) z y (by simpa [getPath] using h)
      simp only [setPath, hg, ih]
      exact set1_get1_id c k z hg

/-! ### no new error, no change -/

theorem reports_len {st : St} {r : R} (h : Reports st r) : st.errs.length ≤ r.st.errs.length := by
  unfold Reports b2n at h; split at h <;> omega

theorem reports_err {st : St} {r : R} (h : Reports st r) (hl : r.st.errs.length = st.errs.length) : r.err = false := by
  unfold Reports b2n at h
  cases he : r.err
  · rfl
  · simp [he] at h; omega

theorem preItems_nochange (f : Json → St → R) (comp : Bool) (hrep : ∀ x s, Reports s (f x s))
    (hno : ∀ x s, (f x s).st.errs.length = s.errs.length → (f x s).c = x) : ∀ xs i st acc,
    (preItems f comp xs i st acc).2.2.errs.length = st.errs.length →
    (preItems f comp xs i st acc).1 = false ∧ (preItems f comp xs i st acc).2.1 = acc.reverse ++ xs := by
  intro xs
  induction xs with
  | nil => intro i st acc _; simp [preItems]
  | cons x xs ih =>
    intro i st acc h
    have hrx := hrep x (st.pushIdx i)
    have hpush : (st.pushIdx i).errs = st.errs := rfl
    have hmono := preItems_reports f comp hrep
    simp only [preItems] at h ⊢
    have hlen1 : st.errs.length ≤ (f x (st.pushIdx i)).st.errs.length := by
      have := reports_len hrx; rw [hpush] at this; exact this
    cases herr : (f x (st.pushIdx i)).err with
    | true =>
      -- an item failed: at least one error was added, the total cannot be unchanged
      have hgrow : st.errs.length + 1 ≤ (f x (st.pushIdx i)).st.errs.length := by
        unfold Reports b2n at hrx; simp [herr, hpush] at hrx; omega
      simp only [herr, if_true] at h
      split at h
      · have := hmono xs (i + 1) { (f x (st.pushIdx i)).st with path := st.path } (Json.null :: acc)
        simp only at this
        omega
      · simp at h; omega
    | false =>
      simp only [herr, Bool.false_eq_true, if_false] at h ⊢
      have hm := hmono xs (i + 1) { (f x (st.pushIdx i)).st with path := st.path } ((f x (st.pushIdx i)).c :: acc)
      simp only at hm
      have hl : (f x (st.pushIdx i)).st.errs.length = (st.pushIdx i).errs.length := by rw [hpush]; omega
      have hc := hno x (st.pushIdx i) hl
      obtain ⟨h1, h2⟩ := ih (i + 1) { (f x (st.pushIdx i)).st with path := st.path } ((f x (st.pushIdx i)).c :: acc)
        (by simp only; omega)
      exact ⟨h1, by rw [h2, hc]; simp⟩

mutual
theorem preNode_nochange : ∀ (n : Node) (c : Json) (st : St),
    (preNode n c st).st.errs.length = st.errs.length → (preNode n c st).c = c
  | .null, c, st, _ => by simp [preNode]
  | .staticString _, c, st, _ => by simp [preNode]
  | .emptyObject, c, st, _ => by simp [preNode]
  | .emptyArray, c, st, _ => by simp [preNode]
  | .scalar kind path nullable, c, st, _ => by
    simp only [preNode]; repeat' split
    all_goals rfl
  | .enum path nullable _ values inaccessible, c, st, _ => by
    simp only [preNode]; repeat' split
    all_goals rfl
  | .array path nullable item, c, st, h => by
    simp only [preNode] at h ⊢
    split
    · split <;> rfl
    · split <;> rfl
    · rename_i xs hg
      simp only [hg] at h
      have hpush : (st.push path).errs = st.errs := rfl
      have := preItems_nochange (fun x s => preNode item x s)
        ((item.kind == .object || item.kind == .array) && item.nullable)
        (fun x s => preNode_reports item x s) (fun x s hl => preNode_nochange item x s hl) xs 0 (st.push path) []
      generalize preItems (fun x s => preNode item x s) ((item.kind == .object || item.kind == .array) && item.nullable)
        xs 0 (st.push path) [] = res at h this ⊢
      have hl : res.2.2.errs.length = (st.push path).errs.length := by
        rw [hpush]
        split at h
        · split at h <;> simpa using h
        · simpa using h
      obtain ⟨h1, h2⟩ := this hl
      simp only [h1, Bool.false_eq_true, if_false, h2, List.reverse_nil, List.nil_append]
      exact setPath_getPath_id path c _ hg
    · rfl
  | .object path nullable typeName src possible ina unres fields, c, st, h => by
    simp only [preNode] at h ⊢
    cases unres with
    | true => simp
    | false =>
      simp only [Bool.false_eq_true, if_false] at h ⊢
      cases hg : getPath c path with
      | none => simp only [hg]; split <;> rfl
      | some v =>
        simp only [hg] at h ⊢
        cases v with
        | null => simp only []; split <;> rfl
        | bool _ => rfl
        | num _ => rfl
        | str _ => rfl
        | arr _ => rfl
        | obj kvs =>
          simp only at h ⊢
          cases hchk : typenameCheck possible ina typeName (typenameOf (.obj kvs)) with
          | some cls => simp only [hchk]
          | none =>
            simp only [hchk] at h ⊢
            generalize hst2 : ({ (st.push path) with typeNames := typenameOf (.obj kvs) :: st.typeNames } : St) = st2 at h ⊢
            have hst2e : st2.errs = st.errs := by rw [← hst2]; rfl
            have hrep := preFields_reports fields (.obj kvs) st2
            have hl : (preFields fields (.obj kvs) st2).st.errs.length = st2.errs.length := by
              rw [hst2e]
              split at h
              · split at h <;> simpa using h
              · simpa using h
            have herr := reports_err hrep hl
            have hc := preFields_nochange fields (.obj kvs) st2 hl
            simp only [herr, Bool.false_eq_true, if_false, hc]
            exact setPath_getPath_id path c _ hg
theorem preFields_nochange : ∀ (fs : Fields) (v : Json) (st : St),
    (preFields fs v st).st.errs.length = st.errs.length → (preFields fs v st).c = v
  | .nil, v, st, _ => by simp [preFields]
  | .cons _ guard value rest, v, st, h => by
    simp only [preFields] at h ⊢
    split
    · rename_i hs; simp only [hs, if_true] at h; exact preFields_nochange rest v st h
    · rename_i hs
      simp only [hs, Bool.false_eq_true, if_false] at h
      have h1 := preNode_reports value v st
      have hl1 := reports_len h1
      split
      · rename_i herr
        simp only [herr, if_true] at h
        have := reports_err h1 h
        simp [herr] at this
      · rename_i herr
        simp only [herr, Bool.false_eq_true, if_false] at h
        have h2 := reports_len (preFields_reports rest (preNode value v st).c (preNode value v st).st)
        have hv := preNode_nochange value v st (by omega)
        have hr := preFields_nochange rest (preNode value v st).c (preNode value v st).st (by omega)
        rw [hr, hv]
end

/-! ### well-typed data adds no error -/

theorem preItems_wt (f : Json → St → R) (comp : Bool) (tns : List (Option String))
    (hrep : ∀ x s, Reports s (f x s)) (htn : ∀ x s, (f x s).st.typeNames = s.typeNames) : ∀ xs i st acc,
    st.typeNames = tns → (∀ x ∈ xs, ∀ s : St, s.typeNames = tns → (f x s).st.errs = s.errs) →
    (preItems f comp xs i st acc).2.2.errs = st.errs := by
  intro xs
  induction xs with
  | nil => intro i st acc _ _; simp [preItems]
  | cons x xs ih =>
    intro i st acc hst hwt
    have he := hwt x (by simp) (st.pushIdx i) hst
    have hpush : (st.pushIdx i).errs = st.errs := rfl
    have herr := reports_err (hrep x (st.pushIdx i)) (by rw [he])
    simp only [preItems, herr, Bool.false_eq_true, if_false]
    rw [ih (i + 1) _ _ (by simp only; rw [htn]; exact hst) (fun y hy s hs => hwt y (by simp [hy]) s hs)]
    simp only [he, hpush]

mutual
theorem wt_node : ∀ (n : Node) (c : Json) (st : St), WT n c st.typeNames → (preNode n c st).st.errs = st.errs
  | .null, c, st, _ => by simp [preNode]
  | .staticString _, c, st, _ => by simp [preNode]
  | .emptyObject, c, st, _ => by simp [preNode]
  | .emptyArray, c, st, _ => by simp [preNode]
  | .scalar kind path nullable, c, st, h => by
    simp only [WT] at h
    simp only [preNode]
    cases hg : getPath c path with
    | none => simp_all
    | some v => cases v <;> simp_all
  | .enum path nullable _ values inaccessible, c, st, h => by
    simp only [WT] at h
    simp only [preNode]
    cases hg : getPath c path with
    | none => simp_all
    | some v => cases v <;> simp_all
  | .array path nullable item, c, st, h => by
    simp only [WT] at h
    simp only [preNode]
    cases hg : getPath c path with
    | none => simp_all
    | some v =>
      cases v with
      | arr xs =>
        simp only [hg] at h ⊢
        have := preItems_wt (fun x s => preNode item x s)
          ((item.kind == .object || item.kind == .array) && item.nullable) st.typeNames
          (fun x s => preNode_reports item x s) (fun x s => preNode_typeNames item x s) xs 0 (st.push path) [] rfl
          (fun x hx s hs => wt_node item x s (by rw [hs]; exact h x hx))
        have hpush : (st.push path).errs = st.errs := rfl
        rw [hpush] at this
        repeat' split
        all_goals simp [this]
      | _ => simp_all
  | .object path nullable typeName src possible ina unres fields, c, st, h => by
    simp only [WT] at h
    obtain ⟨hun, h⟩ := h
    subst hun
    simp only [preNode, Bool.false_eq_true, if_false]
    cases hg : getPath c path with
    | none => simp_all
    | some v =>
      cases v with
      | obj kvs =>
        simp only [hg] at h ⊢
        obtain ⟨hchk, hf⟩ := h
        simp only [hchk]
        generalize hst2 : ({ (st.push path) with typeNames := typenameOf (.obj kvs) :: st.typeNames } : St) = st2
        have hst2e : st2.errs = st.errs := by rw [← hst2]; rfl
        have hst2t : st2.typeNames = typenameOf (.obj kvs) :: st.typeNames := by rw [← hst2]
        have := wt_fields fields (.obj kvs) st2 (by rw [hst2t]; exact hf)
        repeat' split
        all_goals simp [this, hst2e]
      | _ => simp_all
theorem wt_fields : ∀ (fs : Fields) (v : Json) (st : St), WTFields fs v st.typeNames → (preFields fs v st).st.errs = st.errs
  | .nil, v, st, _ => by simp [preFields]
  | .cons _ guard value rest, v, st, h => by
    simp only [WTFields] at h
    simp only [preFields]
    by_cases hs : skipField guard st.typeNames = true
    · simp only [hs, if_true] at h ⊢
      exact wt_fields rest v st h
    · simp only [hs, Bool.false_eq_true, if_false] at h ⊢
      have h1 := wt_node value v st h.1
      have herr := reports_err (preNode_reports value v st) (by rw [h1])
      have hc := preNode_nochange value v st (by rw [h1])
      simp only [herr, Bool.false_eq_true, if_false, hc]
      rw [wt_fields rest v _ (by rw [preNode_typeNames]; exact h.2), h1]
end

end GqlVerif.Render
