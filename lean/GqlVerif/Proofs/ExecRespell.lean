/-
  Proofs.ExecRespell — the reference executor (Gql.Exec) looks at an operation's argument and directive values only through
  what they evaluate to: two (operation, variables) pairs that differ only in how values are spelled (literal or variable,
  which variable name, default or supplied) have the same response.  One mutual induction over the recursion budget of
  execSels / execField / complete, with `collect` handled by a relational lemma.  Variable renaming (C09), variable
  extraction and default injection (C03) are instances (Props.C09, Props.C03).
-/
import GqlVerif.Gql.Exec
set_option linter.unusedSimpArgs false
set_option linter.unusedVariables false
namespace GqlVerif.Exec
open GqlVerif

/-- elementwise relation of two lists of the same length -/
inductive Rel2 {α β : Type} (P : α → β → Prop) : List α → List β → Prop
  | nil : Rel2 P [] []
  | cons {a b as bs} : P a b → Rel2 P as bs → Rel2 P (a :: as) (b :: bs)

theorem Rel2.append {α β : Type} {P : α → β → Prop} {l1 l1' : List α} {l2 l2' : List β}
    (h1 : Rel2 P l1 l2) (h2 : Rel2 P l1' l2') : Rel2 P (l1 ++ l1') (l2 ++ l2') := by
  induction h1 with
  | nil => exact h2
  | cons h _ ih => exact .cons h ih

/-- an environment: how argument / directive values are evaluated (variables and operation defaults) -/
abbrev Ev := Val → Option Json

def ArgsRel (ev ev' : Ev) : List (String × Val) → List (String × Val) → Prop :=
  Rel2 fun x y => x.1 = y.1 ∧ ev x.2 = ev' y.2

def DirsRel (ev ev' : Ev) : List Dir → List Dir → Prop :=
  Rel2 fun d d' => d.name = d'.name ∧ ev d.ifArg = ev' d'.ifArg

/-- two selections that differ only in how their argument and directive values are spelled -/
inductive SelRel (ev ev' : Ev) : Sel → Sel → Prop
  | field {alias name a a' d d' ss ss'} : ArgsRel ev ev' a a' → DirsRel ev ev' d d' → Rel2 (SelRel ev ev') ss ss' →
      SelRel ev ev' (.field alias name a d ss) (.field alias name a' d' ss')
  | inline {c d d' ss ss'} : DirsRel ev ev' d d' → Rel2 (SelRel ev ev') ss ss' →
      SelRel ev ev' (.inline c d ss) (.inline c d' ss')
  | spread {n d d'} : DirsRel ev ev' d d' → SelRel ev ev' (.spread n d) (.spread n d')

abbrev SelsRel (ev ev' : Ev) := Rel2 (SelRel ev ev')

def FragRel (ev ev' : Ev) (f f' : Frag) : Prop :=
  f.name = f'.name ∧ f.typeCond = f'.typeCond ∧ SelsRel ev ev' f.sels f'.sels

def CollRel (ev ev' : Ev) (c c' : Collected) : Prop :=
  c.key = c'.key ∧ c.name = c'.name ∧ ArgsRel ev ev' c.args c'.args ∧ SelsRel ev ev' c.sels c'.sels

/-! ### the operation and variables enter the executor only through these three functions -/

section
variable (op op' : Op) (vars vars' : List (String × Json))

/-- the two environments of a pair of (operation, variables) -/
abbrev evOf (op : Op) (vars : List (String × Json)) : Ev := evalVal vars op.varDefaults

theorem dirsAllow_rel {d d' : List Dir} (h : DirsRel (evOf op vars) (evOf op' vars') d d') :
    dirsAllow vars op.varDefaults d = dirsAllow vars' op'.varDefaults d' := by
  unfold dirsAllow
  induction h with
  | nil => rfl
  | cons hd _ ih =>
    simp only [List.all_cons]
    rw [ih]
    obtain ⟨hn, hv⟩ := hd
    simp only [evOf] at hv
    rw [hn, hv]

theorem filterMap_args_rel {ev ev' : Ev} {a a' : List (String × Val)} (h : ArgsRel ev ev' a a') :
    (a.filterMap fun (kv : String × Val) => (ev kv.2).map fun j => (kv.1, j)) =
      (a'.filterMap fun (kv : String × Val) => (ev' kv.2).map fun j => (kv.1, j)) := by
  induction h with
  | nil => rfl
  | cons hd _ ih =>
    obtain ⟨hk, hv⟩ := hd
    simp only [List.filterMap_cons, hk, hv, ih]

theorem givenArgs_rel {c c' : Collected} (h : CollRel (evOf op vars) (evOf op' vars') c c') :
    givenArgs op vars c = givenArgs op' vars' c' := by
  unfold givenArgs
  exact filterMap_args_rel h.2.2.1

theorem fieldArgs_rel (s : Schema) (objType : String) {c c' : Collected}
    (h : CollRel (evOf op vars) (evOf op' vars') c c') :
    fieldArgs s op vars objType c = fieldArgs s op' vars' objType c' := by
  unfold fieldArgs
  rw [givenArgs_rel op op' vars vars' h, h.2.1]

theorem any_key_rel {ev ev' : Ev} {acc acc' : List Collected} (ha : Rel2 (CollRel ev ev') acc acc') (k : String) :
    acc.any (·.key == k) = acc'.any (·.key == k) := by
  induction ha with
  | nil => rfl
  | cons hd _ ih => simp only [List.any_cons, ih, hd.1]

theorem map_merge_rel {ev ev' : Ev} {acc acc' : List Collected} {c c' : Collected}
    (ha : Rel2 (CollRel ev ev') acc acc') (hc : CollRel ev ev' c c') :
    Rel2 (CollRel ev ev')
      (acc.map fun x => if x.key == c.key then { x with sels := x.sels ++ c.sels } else x)
      (acc'.map fun x => if x.key == c'.key then { x with sels := x.sels ++ c'.sels } else x) := by
  induction ha with
  | nil => exact .nil
  | @cons x y xs ys hd _ ih =>
    simp only [List.map_cons]
    refine .cons ?_ ih
    have hxy : x.key = y.key := hd.1
    have hcc : c.key = c'.key := hc.1
    by_cases hkey : (x.key == c.key) = true
    · have hkey' : (y.key == c'.key) = true := by rw [← hxy, ← hcc]; exact hkey
      simp only [hkey, hkey', if_true]
      exact ⟨hd.1, hd.2.1, hd.2.2.1, Rel2.append hd.2.2.2 hc.2.2.2⟩
    · have hkey' : ¬ (y.key == c'.key) = true := by rw [← hxy, ← hcc]; exact hkey
      simp only [hkey, hkey', if_false]
      exact hd

theorem addCollected_rel {ev ev' : Ev} {acc acc' : List Collected} {c c' : Collected}
    (ha : Rel2 (CollRel ev ev') acc acc') (hc : CollRel ev ev' c c') :
    Rel2 (CollRel ev ev') (addCollected acc c) (addCollected acc' c') := by
  unfold addCollected
  rw [any_key_rel ha c.key, hc.1]
  split
  · have := map_merge_rel ha hc
    rw [hc.1] at this
    exact this
  · exact Rel2.append ha (.cons hc .nil)

theorem find_frag_rel {ev ev' : Ev} {fs fs' : List Frag} (h : Rel2 (FragRel ev ev') fs fs') (n : String) :
    match fs.find? (·.name == n), fs'.find? (·.name == n) with
    | some f, some f' => FragRel ev ev' f f'
    | none, none => True
    | _, _ => False := by
  induction h with
  | nil => simp
  | @cons f f' r r' hd _ ih =>
    have hn : f.name = f'.name := hd.1
    rw [List.find?_cons, List.find?_cons, ← hn]
    by_cases hk : (f.name == n) = true
    · simp only [hk]; exact hd
    · simp only [hk]; exact ih

theorem collect_rel (s : Schema) (objType : String)
    (hf : Rel2 (FragRel (evOf op vars) (evOf op' vars')) op.frags op'.frags) :
    ∀ (fuel : Nat) (visited : List String) (sels sels' : List Sel) (acc acc' : List Collected),
      SelsRel (evOf op vars) (evOf op' vars') sels sels' →
      Rel2 (CollRel (evOf op vars) (evOf op' vars')) acc acc' →
      Rel2 (CollRel (evOf op vars) (evOf op' vars')) (collect s op vars objType fuel visited sels acc).1
        (collect s op' vars' objType fuel visited sels' acc').1 ∧
      (collect s op vars objType fuel visited sels acc).2 = (collect s op' vars' objType fuel visited sels' acc').2 := by
  intro fuel
  induction fuel with
  | zero => intro visited sels sels' acc acc' _ ha; simp only [collect]; exact ⟨ha, trivial⟩
  | succ n ih =>
    intro visited sels sels' acc acc' hs ha
    cases hs with
    | nil => simp only [collect]; exact ⟨ha, trivial⟩
    | @cons sel sel' rest rest' hsel hrest =>
      cases hsel with
      | @field alias name a a' d d' ss ss' hargs hdirs hss =>
        simp only [collect]
        rw [dirsAllow_rel op op' vars vars' hdirs]
        split
        · exact ih visited rest rest' _ _ hrest (addCollected_rel ha ⟨rfl, rfl, hargs, hss⟩)
        · exact ih visited rest rest' _ _ hrest ha
      | @inline c d d' ss ss' hdirs hss =>
        simp only [collect]
        rw [dirsAllow_rel op op' vars vars' hdirs]
        split
        · have h1 := ih visited ss ss' acc acc' hss ha
          rw [← h1.2]
          exact ih _ rest rest' _ _ hrest h1.1
        · exact ih visited rest rest' _ _ hrest ha
      | @spread nm d d' hdirs =>
        simp only [collect]
        rw [dirsAllow_rel op op' vars vars' hdirs]
        split
        · have hfr := find_frag_rel hf nm
          cases h1 : op.frags.find? (·.name == nm) <;> cases h2 : op'.frags.find? (·.name == nm) <;>
            simp only [h1, h2] at hfr
          · exact ih visited rest rest' _ _ hrest ha
          · rename_i f f'
            obtain ⟨_, htc, hfs⟩ := hfr
            simp only
            rw [← htc]
            split
            · have h3 := ih (nm :: visited) f.sels f'.sels acc acc' hfs ha
              rw [← h3.2]
              exact ih _ rest rest' _ _ hrest h3.1
            · exact ih (nm :: visited) rest rest' _ _ hrest ha
        · exact ih visited rest rest' _ _ hrest ha

theorem foldl_rel {α β γ : Type} {P : α → β → Prop} (f : γ → α → γ) (g : γ → β → γ) {l : List α} {l' : List β}
    (h : Rel2 P l l') (hfg : ∀ acc a b, P a b → f acc a = g acc b) (init : γ) : l.foldl f init = l'.foldl g init := by
  induction h generalizing init with
  | nil => rfl
  | cons hd _ ih => simp only [List.foldl_cons, hfg init _ _ hd, ih]

/-- the three mutually recursive functions agree, at one recursion budget -/
def ExecEq (s : Schema) (u : Universe) (fuel : Nat) : Prop :=
  (∀ objType i overlay sels sels', SelsRel (evOf op vars) (evOf op' vars') sels sels' →
    execSels s u op vars fuel objType i overlay sels = execSels s u op' vars' fuel objType i overlay sels') ∧
  (∀ objType i overlay c c', CollRel (evOf op vars) (evOf op' vars') c c' →
    execField s u op vars fuel objType i overlay c = execField s u op' vars' fuel objType i overlay c') ∧
  (∀ t v sels sels', SelsRel (evOf op vars) (evOf op' vars') sels sels' →
    complete s u op vars fuel t v sels = complete s u op' vars' fuel t v sels')

theorem exec_rel (s : Schema) (u : Universe)
    (hf : Rel2 (FragRel (evOf op vars) (evOf op' vars')) op.frags op'.frags) :
    ∀ fuel, ExecEq op op' vars vars' s u fuel := by
  intro fuel
  induction fuel with
  | zero =>
    refine ⟨?_, ?_, ?_⟩
    · intro objType i overlay sels sels' _; simp [execSels]
    · intro objType i overlay c c' _; simp [execField]
    · intro t v sels sels' _; simp [complete]
  | succ n ih =>
    obtain ⟨ihS, ihF, ihC⟩ := ih
    refine ⟨?_, ?_, ?_⟩
    · intro objType i overlay sels sels' hs
      simp only [execSels]
      have hcol := (collect_rel op op' vars vars' s objType hf 4096 [] sels sels' [] [] hs .nil).1
      apply foldl_rel _ _ hcol
      intro acc c c' hc
      cases acc.1 with
      | none => rfl
      | some out => simp only [ihF objType i overlay c c' hc, hc.1]
    · intro objType i overlay c c' hc
      simp only [execField]
      rw [fieldArgs_rel op op' vars vars' s objType hc, hc.2.1]
      exact ihC _ _ _ _ hc.2.2.2
    · intro t v sels sels' hs
      simp only [complete]
      cases t with
      | nonNull t' => simp only [ihC t' v sels sels' hs]
      | list t' =>
        cases v with
        | list xs =>
          have hc : ∀ x, complete s u op vars n t' x sels = complete s u op' vars' n t' x sels' :=
            fun x => ihC t' x sels sels' hs
          simp only [hc]
        | _ => rfl
      | named nm =>
        cases v with
        | ref i overlay =>
          simp only
          cases u.nodes[i]? with
          | none => rfl
          | some node => simp only [ihS node.type i overlay sels sels' hs]
        | _ => rfl

/-- **the meaning of an operation depends on its argument and directive values only through what they denote**: two
    (operation, variables) pairs whose selections and fragments differ only in how values are spelled (`SelRel`: same
    structure, every argument and every directive condition evaluates to the same JSON value in its own environment)
    have the same response — data and errors. -/
theorem execute_respelled (s : Schema) (u : Universe) (hk : op.kind = op'.kind)
    (hs : SelsRel (evOf op vars) (evOf op' vars') op.sels op'.sels)
    (hf : Rel2 (FragRel (evOf op vars) (evOf op' vars')) op.frags op'.frags) :
    execute s u op vars = execute s u op' vars' := by
  unfold execute
  rw [hk]
  simp only [(exec_rel op op' vars vars' s u hf 256).1 _ 0 none op.sels op'.sels hs]

end

/-! ### structural maps of selections (renaming, extraction and injection are instances) -/

/-- a selection with its argument entries and directives changed elementwise by relations `A` and `D` -/
inductive SelMap (A : String × Val → String × Val → Prop) (D : Dir → Dir → Prop) : Sel → Sel → Prop
  | field {alias name a a' d d' ss ss'} : Rel2 A a a' → Rel2 D d d' → Rel2 (SelMap A D) ss ss' →
      SelMap A D (.field alias name a d ss) (.field alias name a' d' ss')
  | inline {c d d' ss ss'} : Rel2 D d d' → Rel2 (SelMap A D) ss ss' → SelMap A D (.inline c d ss) (.inline c d' ss')
  | spread {n d d'} : Rel2 D d d' → SelMap A D (.spread n d) (.spread n d')

theorem Rel2.mono {α β : Type} {P Q : α → β → Prop} (hpq : ∀ a b, P a b → Q a b) {l : List α} {l' : List β}
    (h : Rel2 P l l') : Rel2 Q l l' := by
  induction h with
  | nil => exact .nil
  | cons hd _ ih => exact .cons (hpq _ _ hd) ih

mutual
theorem selMap_rel {A : String × Val → String × Val → Prop} {D : Dir → Dir → Prop} {ev ev' : Ev}
    (hA : ∀ x y, A x y → x.1 = y.1 ∧ ev x.2 = ev' y.2) (hD : ∀ d d', D d d' → d.name = d'.name ∧ ev d.ifArg = ev' d'.ifArg) :
    ∀ (sel sel' : Sel), SelMap A D sel sel' → SelRel ev ev' sel sel'
  | .field _ _ _ _ ss, _, h => by
    cases h with
    | field ha hd hss => exact .field (Rel2.mono hA ha) (Rel2.mono hD hd) (selsMap_rel hA hD ss _ hss)
  | .inline _ _ ss, _, h => by
    cases h with
    | inline hd hss => exact .inline (Rel2.mono hD hd) (selsMap_rel hA hD ss _ hss)
  | .spread _ _, _, h => by
    cases h with
    | spread hd => exact .spread (Rel2.mono hD hd)
theorem selsMap_rel {A : String × Val → String × Val → Prop} {D : Dir → Dir → Prop} {ev ev' : Ev}
    (hA : ∀ x y, A x y → x.1 = y.1 ∧ ev x.2 = ev' y.2) (hD : ∀ d d', D d d' → d.name = d'.name ∧ ev d.ifArg = ev' d'.ifArg) :
    ∀ (l l' : List Sel), Rel2 (SelMap A D) l l' → Rel2 (SelRel ev ev') l l'
  | [], _, h => by cases h; exact .nil
  | x :: xs, _, h => by
    cases h with
    | cons h1 h2 => exact .cons (selMap_rel hA hD x _ h1) (selsMap_rel hA hD xs _ h2)
end

/-! ### reflexivity: the same selections under two environments that evaluate every value alike -/

theorem argsRefl {ev ev' : Ev} (h : ∀ v, ev v = ev' v) : ∀ (a : List (String × Val)), ArgsRel ev ev' a a
  | [] => .nil
  | x :: xs => .cons ⟨rfl, h x.2⟩ (argsRefl h xs)

theorem dirsRefl {ev ev' : Ev} (h : ∀ v, ev v = ev' v) : ∀ (d : List Dir), DirsRel ev ev' d d
  | [] => .nil
  | x :: xs => .cons ⟨rfl, h x.ifArg⟩ (dirsRefl h xs)

mutual
theorem selRel_refl {ev ev' : Ev} (h : ∀ v, ev v = ev' v) : ∀ (sel : Sel), SelRel ev ev' sel sel
  | .field _ _ a d ss => .field (argsRefl h a) (dirsRefl h d) (selsRel_refl h ss)
  | .inline _ d ss => .inline (dirsRefl h d) (selsRel_refl h ss)
  | .spread _ d => .spread (dirsRefl h d)
theorem selsRel_refl {ev ev' : Ev} (h : ∀ v, ev v = ev' v) : ∀ (l : List Sel), Rel2 (SelRel ev ev') l l
  | [] => .nil
  | x :: xs => .cons (selRel_refl h x) (selsRel_refl h xs)
end

end GqlVerif.Exec
