/-
  Proofs.C19 — invariants of Proto.WsServer.
-/
import GqlVerif.Proto.WsServer
namespace GqlVerif.WsServer

@[simp] theorem emit_closed (s : St) (o : Out) : (s.emit o).closed = s.closed := by unfold St.emit; split <;> rfl
@[simp] theorem emit_initialized (s : St) (o : Out) : (s.emit o).initialized = s.initialized := by unfold St.emit; split <;> rfl
@[simp] theorem emit_starts (s : St) (o : Out) : (s.emit o).starts = s.starts := by unfold St.emit; split <;> rfl
@[simp] theorem emit_timerLive (s : St) (o : Out) : (s.emit o).timerLive = s.timerLive := by unfold St.emit; split <;> rfl
@[simp] theorem emit_proto (s : St) (o : Out) : (s.emit o).proto = s.proto := by unfold St.emit; split <;> rfl
@[simp] theorem closeWith_initialized (s : St) (c : Nat) : (s.closeWith c).initialized = s.initialized := by unfold St.closeWith; split <;> rfl
@[simp] theorem closeWith_starts (s : St) (c : Nat) : (s.closeWith c).starts = s.starts := by unfold St.closeWith; split <;> rfl
@[simp] theorem closeWith_timerLive (s : St) (c : Nat) : (s.closeWith c).timerLive = s.timerLive := by unfold St.closeWith; split <;> rfl
@[simp] theorem closeWith_proto (s : St) (c : Nat) : (s.closeWith c).proto = s.proto := by unfold St.closeWith; split <;> rfl
@[simp] theorem cancelId_closed (s : St) (id : String) : (s.cancelId id).closed = s.closed := by unfold St.cancelId; split <;> rfl
@[simp] theorem cancelId_out (s : St) (id : String) : (s.cancelId id).out = s.out := by unfold St.cancelId; split <;> rfl
@[simp] theorem cancelId_initialized (s : St) (id : String) : (s.cancelId id).initialized = s.initialized := by unfold St.cancelId; split <;> rfl
@[simp] theorem cancelId_starts (s : St) (id : String) : (s.cancelId id).starts = s.starts := by unfold St.cancelId; split <;> rfl
@[simp] theorem cancelId_timerLive (s : St) (id : String) : (s.cancelId id).timerLive = s.timerLive := by unfold St.cancelId; split <;> rfl
@[simp] theorem cancelId_proto (s : St) (id : String) : (s.cancelId id).proto = s.proto := by unfold St.cancelId; split <;> rfl

theorem emit_out_closed (s : St) (o : Out) (h : s.closed.isSome = true) : (s.emit o).out = s.out := by
  unfold St.emit; simp [h]

theorem closeWith_closed_of_closed (s : St) (c : Nat) (h : s.closed.isSome = true) : s.closeWith c = s := by
  unfold St.closeWith; simp [h]

theorem closeWith_open (s : St) (c : Nat) (h : s.closed = none) :
    (s.closeWith c).closed = some c ∧ (s.closeWith c).out = s.out ++ [.close c] := by
  unfold St.closeWith; simp [h]

/-- what one step may do to the observable part once the connection is closed: nothing -/
theorem engineStart_closed (s : St) (id : String) (op : Option OpKind) (h : s.closed.isSome = true) :
    (s.engineStart id op).out = s.out ∧ (s.engineStart id op).closed = s.closed := by
  unfold St.engineStart
  split
  · exact ⟨rfl, rfl⟩
  · exact ⟨rfl, rfl⟩
  · split
    · split
      · simp [closeWith_closed_of_closed s 4409 h]
      · simp [emit_out_closed s _ h]
    · exact ⟨rfl, rfl⟩

end GqlVerif.WsServer

namespace GqlVerif.WsServer

@[simp] theorem setPhase_out (s : St) (k : Nat) (p : Phase) : (s.setPhase k p).out = s.out := rfl
@[simp] theorem setPhase_closed (s : St) (k : Nat) (p : Phase) : (s.setPhase k p).closed = s.closed := rfl
@[simp] theorem setPhase_initialized (s : St) (k : Nat) (p : Phase) : (s.setPhase k p).initialized = s.initialized := rfl
@[simp] theorem setPhase_starts (s : St) (k : Nat) (p : Phase) : (s.setPhase k p).starts = s.starts := rfl
@[simp] theorem setPhase_timerLive (s : St) (k : Nat) (p : Phase) : (s.setPhase k p).timerLive = s.timerLive := rfl
@[simp] theorem setPhase_proto (s : St) (k : Nat) (p : Phase) : (s.setPhase k p).proto = s.proto := rfl
@[simp] theorem cancelAll_out (s : St) : s.cancelAll.out = s.out := rfl
@[simp] theorem cancelAll_closed (s : St) : s.cancelAll.closed = s.closed := rfl
@[simp] theorem cancelAll_initialized (s : St) : s.cancelAll.initialized = s.initialized := rfl
@[simp] theorem cancelAll_starts (s : St) : s.cancelAll.starts = s.starts := rfl
@[simp] theorem cancelAll_timerLive (s : St) : s.cancelAll.timerLive = s.timerLive := rfl
@[simp] theorem cancelAll_proto (s : St) : s.cancelAll.proto = s.proto := rfl

theorem emit_out_cases (s : St) (o : Out) : (s.emit o).out = s.out ∨ (s.closed = none ∧ (s.emit o).out = s.out ++ [o]) := by
  unfold St.emit
  cases h : s.closed with
  | none => right; simp
  | some c => left; simp

/-- once the connection is closed, no step changes what the client has been sent or the close code -/
theorem closed_frozen {s s' : St} (a : Act) (h : step s a = some s') (hc : s.closed.isSome = true) :
    s'.out = s.out ∧ s'.closed = s.closed := by
  cases a with
  | recv f => simp [step, hc] at h
  | execBegin k =>
    simp only [step] at h
    split at h
    · split at h
      · cases h; exact ⟨rfl, rfl⟩
      · cases h
    · cases h
  | execFlush k tag =>
    simp only [step] at h
    split at h
    · split at h
      · split at h
        · cases h; exact ⟨emit_out_closed s _ hc, by simp⟩
        · cases h; exact ⟨rfl, rfl⟩
      · cases h
    · cases h
  | execEnd k ok tag =>
    simp only [step] at h
    split at h
    · split at h
      · split at h
        · split at h
          · cases h; exact ⟨by rw [emit_out_closed _ _ (by simpa using hc)]; rfl, by simp⟩
          · split at h
            · cases h; exact ⟨by rw [emit_out_closed _ _ (by simpa using hc)]; rfl, by simp⟩
            · cases h; exact ⟨rfl, rfl⟩
        · split at h
          · cases h
            refine ⟨?_, by simp⟩
            rw [cancelId_out, emit_out_closed _ _ (by simpa using hc)]; rfl
          · cases h
            refine ⟨?_, by simp⟩
            rw [cancelId_out, emit_out_closed _ _ (by simpa using hc), emit_out_closed _ _ (by simpa using hc)]; rfl
      · cases h
    · cases h
  | instExit k =>
    simp only [step] at h
    split at h
    · split at h
      · cases h; exact ⟨rfl, rfl⟩
      · cases h
    · cases h
  | initTimeout =>
    simp only [step] at h
    split at h
    · cases h
      have : ({ s with timerLive := false } : St).closed.isSome = true := hc
      rw [closeWith_closed_of_closed _ _ this]; exact ⟨rfl, rfl⟩
    · cases h
  | tick =>
    simp only [step] at h
    split at h
    · cases h; exact ⟨emit_out_closed s _ hc, by simp⟩
    · cases h
  | clientGone => simp [step, hc] at h
  | exit =>
    simp only [step] at h
    split at h
    · cases h; exact ⟨rfl, rfl⟩
    · cases h

end GqlVerif.WsServer

namespace GqlVerif.WsServer

theorem emit_prefix (s : St) (o : Out) : s.out <+: (s.emit o).out := by
  unfold St.emit; split
  · exact List.prefix_refl _
  · exact List.prefix_append _ _

theorem closeWith_prefix (s : St) (c : Nat) : s.out <+: (s.closeWith c).out := by
  unfold St.closeWith; split
  · exact List.prefix_refl _
  · exact List.prefix_append _ _

theorem engineStart_prefix (s : St) (id : String) (op : Option OpKind) : s.out <+: (s.engineStart id op).out := by
  unfold St.engineStart
  split
  · exact List.prefix_refl _
  · exact List.prefix_refl _
  · split
    · split
      · exact closeWith_prefix s 4409
      · exact emit_prefix s _
    · exact List.prefix_refl _

theorem engineStop_prefix (s : St) (id : String) : s.out <+: (s.engineStop id).out := by
  unfold St.engineStop
  have := emit_prefix (s.cancelId id) (.complete id)
  rwa [cancelId_out] at this

theorem recvTransport_prefix (s : St) (f : Frame) : s.out <+: (recvTransport s f).out := by
  unfold recvTransport
  split
  · exact List.prefix_refl _
  · exact closeWith_prefix s 4400
  · exact List.prefix_refl _
  · split
    · split
      · exact closeWith_prefix s 4429
      · split
        · exact closeWith_prefix s 4401
        · split
          · exact emit_prefix { s with timerLive := false } .ack
          · exact closeWith_prefix s 1011
    · split
      · exact emit_prefix s _
      · split
        · exact List.prefix_refl _
        · split
          · split
            · exact closeWith_prefix s 4401
            · exact engineStart_prefix s _ _
          · split
            · exact engineStop_prefix s _
            · exact closeWith_prefix s 4400

theorem recvLegacy_prefix (s : St) (f : Frame) : s.out <+: (recvLegacy s f).out := by
  unfold recvLegacy
  split
  · exact List.prefix_refl _
  · exact emit_prefix s _
  · exact List.prefix_refl _
  · split
    · split
      · exact emit_prefix s _
      · exact emit_prefix s _
    · split
      · exact engineStart_prefix s _ _
      · split
        · exact engineStop_prefix s _
        · split
          · exact List.prefix_refl _
          · exact emit_prefix s _

/-- the server never takes back what it wrote -/
theorem step_out_prefix {s s' : St} (a : Act) (h : step s a = some s') : s.out <+: s'.out := by
  cases a with
  | recv f =>
    simp only [step] at h
    split at h
    · cases h
    · cases h
      split
      · exact recvTransport_prefix s f
      · exact recvLegacy_prefix s f
  | execBegin k =>
    simp only [step] at h
    split at h
    · split at h
      · cases h; exact List.prefix_refl _
      · cases h
    · cases h
  | execFlush k tag =>
    simp only [step] at h
    split at h
    · split at h
      · split at h
        · cases h; exact emit_prefix s _
        · cases h; exact List.prefix_refl _
      · cases h
    · cases h
  | execEnd k ok tag =>
    simp only [step] at h
    split at h
    · split at h
      · split at h
        · split at h
          · cases h; exact emit_prefix (s.setPhase k .idle) _
          · split at h
            · cases h; exact emit_prefix (s.setPhase k .idle) _
            · cases h; exact List.prefix_refl _
        · split at h
          · cases h
            rw [cancelId_out]; exact emit_prefix (s.setPhase k .exited) _
          · cases h
            rw [cancelId_out]
            exact List.IsPrefix.trans (emit_prefix (s.setPhase k .exited) _) (emit_prefix _ _)
      · cases h
    · cases h
  | instExit k =>
    simp only [step] at h
    split at h
    · split at h
      · cases h; exact List.prefix_refl _
      · cases h
    · cases h
  | initTimeout =>
    simp only [step] at h
    split at h
    · cases h; exact closeWith_prefix { s with timerLive := false } 4408
    · cases h
  | tick =>
    simp only [step] at h
    split at h
    · cases h; exact emit_prefix s _
    · cases h
  | clientGone =>
    simp only [step] at h
    split at h
    · cases h
    · cases h; exact List.prefix_refl _
  | exit =>
    simp only [step] at h
    split at h
    · cases h; exact List.prefix_refl _
    · cases h

end GqlVerif.WsServer

namespace GqlVerif.WsServer

theorem mem_emit {s : St} {o x : Out} (h : x ∈ (s.emit o).out) : x ∈ s.out ∨ x = o := by
  unfold St.emit at h; split at h
  · exact Or.inl h
  · simp at h; exact h

theorem mem_closeWith {s : St} {c : Nat} {x : Out} (h : x ∈ (s.closeWith c).out) : x ∈ s.out ∨ x = .close c := by
  unfold St.closeWith at h; split at h
  · exact Or.inl h
  · simp at h; exact h

@[simp] theorem setAt_eq_nil (l : List Inst) (k : Nat) (f : Inst → Inst) : setAt l k f = [] ↔ l = [] := by
  unfold setAt; simp

theorem engineStart_next {s : St} {id : String} {op : Option OpKind} {i : String} {t : Nat}
    (h : Out.next i t ∈ (s.engineStart id op).out) : Out.next i t ∈ s.out := by
  unfold St.engineStart at h
  split at h
  · exact h
  · exact h
  · split at h
    · split at h
      · rcases mem_closeWith h with h | h
        · exact h
        · cases h
      · rcases mem_emit h with h | h
        · exact h
        · cases h
    · exact h

theorem engineStop_next {s : St} {id : String} {i : String} {t : Nat}
    (h : Out.next i t ∈ (s.engineStop id).out) : Out.next i t ∈ s.out := by
  unfold St.engineStop at h
  rcases mem_emit h with h | h
  · simpa using h
  · cases h

theorem recvTransport_next {s : St} {f : Frame} {i : String} {t : Nat}
    (h : Out.next i t ∈ (recvTransport s f).out) : Out.next i t ∈ s.out := by
  unfold recvTransport at h
  split at h
  · exact h
  · rcases mem_closeWith h with h | h <;> first | exact h | cases h
  · exact h
  · split at h
    · split at h
      · rcases mem_closeWith h with h | h <;> first | exact h | cases h
      · split at h
        · rcases mem_closeWith h with h | h <;> first | exact h | cases h
        · split at h
          · rcases mem_emit h with h | h <;> first | exact h | cases h
          · rcases mem_closeWith h with h | h <;> first | exact h | cases h
    · split at h
      · rcases mem_emit h with h | h <;> first | exact h | cases h
      · split at h
        · exact h
        · split at h
          · split at h
            · rcases mem_closeWith h with h | h <;> first | exact h | cases h
            · exact engineStart_next h
          · split at h
            · exact engineStop_next h
            · rcases mem_closeWith h with h | h <;> first | exact h | cases h

/-- invariant of the graphql-transport-ws connection -/
structure TInv (s : St) : Prop where
  proto : s.proto = .transport
  starts : ∀ p ∈ s.starts, p.2 = true
  timer : s.timerLive = true → s.initialized = false
  acked : s.initialized = true → (Out.ack ∈ s.out ∨ s.closed.isSome = true)
  insts : s.insts ≠ [] → Out.ack ∈ s.out
  nexts : ∀ i t, Out.next i t ∈ s.out → Out.ack ∈ s.out

theorem tinv_init : TInv (St.init .transport) := by
  refine ⟨rfl, ?_, ?_, ?_, ?_, ?_⟩ <;> simp [St.init]

theorem engineStart_insts (s : St) (id : String) (op : Option OpKind) (h : (s.engineStart id op).insts ≠ []) (hs : s.insts = []) :
    op ≠ none ∧ op ≠ some .poolErr := by
  unfold St.engineStart at h
  split at h
  · exact absurd hs h
  · exact absurd hs h
  · next k h1 h2 => exact ⟨by simp, fun e => h2 (by cases e; rfl)⟩

theorem engineStart_starts (s : St) (id : String) (op : Option OpKind) (p : String × Bool) (h : p ∈ (s.engineStart id op).starts) :
    p ∈ s.starts ∨ p.2 = s.initialized := by
  unfold St.engineStart at h
  split at h
  · exact Or.inl h
  · exact Or.inl h
  · split at h
    · split at h
      · simp at h; exact Or.inl h
      · simp at h; exact Or.inl h
    · simp at h
      rcases h with h | h
      · exact Or.inl h
      · right; rw [h]

theorem engineStart_fields (s : St) (id : String) (op : Option OpKind) :
    (s.engineStart id op).initialized = s.initialized ∧ (s.engineStart id op).timerLive = s.timerLive ∧
    (s.engineStart id op).proto = s.proto ∧ (s.closed.isSome = true → (s.engineStart id op).closed.isSome = true) := by
  unfold St.engineStart
  split
  · exact ⟨rfl, rfl, rfl, fun h => h⟩
  · exact ⟨rfl, rfl, rfl, fun h => h⟩
  · split
    · split
      · refine ⟨by simp, by simp, by simp, fun h => ?_⟩
        simp [closeWith_closed_of_closed s 4409 h, h]
      · refine ⟨by simp, by simp, by simp, fun h => by simpa using h⟩
    · exact ⟨rfl, rfl, rfl, fun h => h⟩

end GqlVerif.WsServer

namespace GqlVerif.WsServer

theorem cancelId_insts_nil (s : St) (id : String) : (s.cancelId id).insts = [] ↔ s.insts = [] := by
  unfold St.cancelId; split
  · simp
  · exact Iff.rfl

theorem cancelAll_insts_nil (s : St) : s.cancelAll.insts = [] ↔ s.insts = [] := by
  unfold St.cancelAll; simp

theorem emit_insts (s : St) (o : Out) : (s.emit o).insts = s.insts := by unfold St.emit; split <;> rfl
theorem closeWith_insts (s : St) (c : Nat) : (s.closeWith c).insts = s.insts := by unfold St.closeWith; split <;> rfl

theorem closeWith_closed_mono (s : St) (c : Nat) (h : s.closed.isSome = true) : (s.closeWith c).closed.isSome = true := by
  rw [closeWith_closed_of_closed s c h]; exact h

/-- a step that leaves the protocol flags alone, keeps instance-emptiness and only appends to the output preserves TInv,
    provided every new `next` comes from an existing instance -/
theorem tinv_frame {s s' : St} (h : TInv s) (hp : s'.proto = s.proto) (hs : s'.starts = s.starts) (ht : s'.timerLive = s.timerLive)
    (hi : s'.initialized = s.initialized) (hn : s'.insts = [] ↔ s.insts = []) (ho : s.out <+: s'.out)
    (hc : s.closed.isSome = true → s'.closed.isSome = true)
    (hnx : ∀ i t, Out.next i t ∈ s'.out → Out.next i t ∈ s.out ∨ s.insts ≠ []) : TInv s' := by
  refine ⟨hp.trans h.proto, by rw [hs]; exact h.starts, by rw [ht, hi]; exact h.timer, ?_, ?_, ?_⟩
  · intro hi'
    rw [hi] at hi'
    rcases h.acked hi' with r | r
    · exact Or.inl (List.IsPrefix.subset ho r)
    · exact Or.inr (hc r)
  · intro hne
    exact List.IsPrefix.subset ho (h.insts (fun e => hne (hn.mpr e)))
  · intro i t hm
    rcases hnx i t hm with r | r
    · exact List.IsPrefix.subset ho (h.nexts i t r)
    · exact List.IsPrefix.subset ho (h.insts r)

theorem tinv_closeWith {s : St} (h : TInv s) (c : Nat) : TInv (s.closeWith c) :=
  tinv_frame h (by simp) (by simp) (by simp) (by simp) (by rw [closeWith_insts]) (closeWith_prefix s c)
    (closeWith_closed_mono s c)
    (fun i t hm => by rcases mem_closeWith hm with r | r <;> first | exact Or.inl r | cases r)

theorem tinv_emit {s : St} (h : TInv s) (o : Out) (ho : ∀ i t, o ≠ .next i t) : TInv (s.emit o) :=
  tinv_frame h (by simp) (by simp) (by simp) (by simp) (by rw [emit_insts]) (emit_prefix s o)
    (fun hc => by simpa using hc)
    (fun i t hm => by
      rcases mem_emit hm with r | r
      · exact Or.inl r
      · exact absurd r.symm (ho i t))

theorem tinv_emit_next {s : St} (h : TInv s) (i : String) (t : Nat) (hne : s.insts ≠ []) : TInv (s.emit (.next i t)) :=
  tinv_frame h (by simp) (by simp) (by simp) (by simp) (by rw [emit_insts]) (emit_prefix s _)
    (fun hc => by simpa using hc) (fun _ _ _ => Or.inr hne)

theorem tinv_cancelId {s : St} (h : TInv s) (id : String) : TInv (s.cancelId id) :=
  tinv_frame h (by simp) (by simp) (by simp) (by simp) (cancelId_insts_nil s id) (by rw [cancelId_out]; exact List.prefix_refl _)
    (fun hc => by simpa using hc) (fun i t hm => Or.inl (by simpa using hm))

theorem tinv_setPhase {s : St} (h : TInv s) (k : Nat) (p : Phase) : TInv (s.setPhase k p) :=
  tinv_frame h rfl rfl rfl rfl (by unfold St.setPhase; simp) (List.prefix_refl _) (fun hc => hc) (fun _ _ hm => Or.inl hm)

theorem tinv_engineStart {s : St} (h : TInv s) (hi : s.initialized = true) (hc : s.closed = none) (id : String) (op : Option OpKind) :
    TInv (s.engineStart id op) := by
  have hack : Out.ack ∈ s.out := by
    rcases h.acked hi with r | r
    · exact r
    · rw [hc] at r; cases r
  have f := engineStart_fields s id op
  refine ⟨f.2.2.1.trans h.proto, ?_, by rw [f.2.1, f.1]; exact h.timer, ?_, ?_, ?_⟩
  · intro p hp
    rcases engineStart_starts s id op p hp with r | r
    · exact h.starts p r
    · rw [r]; exact hi
  · intro _; exact Or.inl (List.IsPrefix.subset (engineStart_prefix s id op) hack)
  · intro _; exact List.IsPrefix.subset (engineStart_prefix s id op) hack
  · intro i t hm; exact List.IsPrefix.subset (engineStart_prefix s id op) (h.nexts i t (engineStart_next hm))

theorem recvTransport_tinv {s : St} (h : TInv s) (hc : s.closed = none) (f : Frame) : TInv (recvTransport s f) := by
  unfold recvTransport
  split
  · exact h
  · exact tinv_closeWith h 4400
  · exact h
  · split
    · split
      · -- second init: 4429, heartbeat flag
        have := tinv_closeWith h 4429
        exact ⟨this.proto, this.starts, this.timer, this.acked, this.insts, this.nexts⟩
      · split
        · exact tinv_closeWith h 4401
        · split
          · -- accepted init: ack
            have hs : ({ s with timerLive := false } : St).closed = none := hc
            have hout : ({ s with timerLive := false } : St).emit .ack = { s with timerLive := false, out := s.out ++ [.ack] } := by
              unfold St.emit; simp [hc]
            rw [hout]
            refine ⟨h.proto, h.starts, by simp, fun _ => Or.inl (by simp), fun hne => by simp, ?_⟩
            intro i t hm
            simp
          · -- the timer is gone: 1011
            have hcl := closeWith_open s 1011 hc
            refine ⟨by simp [h.proto], by simpa using h.starts, ?_, fun _ => Or.inr (by simp [hcl.1]), ?_, ?_⟩
            · intro ht; simp at ht; simp_all
            · intro hne
              have : s.insts ≠ [] := by simpa [closeWith_insts] using hne
              exact List.IsPrefix.subset (closeWith_prefix s 1011) (h.insts this)
            · intro i t hm
              have hm' : Out.next i t ∈ (s.closeWith 1011).out := hm
              rcases mem_closeWith hm' with r | r
              · exact List.IsPrefix.subset (closeWith_prefix s 1011) (h.nexts i t r)
              · cases r
    · split
      · exact tinv_emit h _ (fun _ _ => by simp)
      · split
        · exact h
        · split
          · split
            · exact tinv_closeWith h 4401
            · next hi => exact tinv_engineStart h (by simpa using hi) hc _ _
          · split
            · exact tinv_emit (tinv_cancelId h _) _ (fun _ _ => by simp)
            · exact tinv_closeWith h 4400

end GqlVerif.WsServer

namespace GqlVerif.WsServer

theorem getElem?_some_ne_nil {l : List Inst} {k : Nat} {x : Inst} (h : l[k]? = some x) : l ≠ [] := by
  intro e; rw [e] at h; simp at h

theorem tinv_step {s s' : St} (h : TInv s) (a : Act) (hs : step s a = some s') : TInv s' := by
  cases a with
  | recv f =>
    simp only [step] at hs
    split at hs
    · cases hs
    · next hg =>
      cases hs
      have hc : s.closed = none := by
        cases hcl : s.closed with
        | none => rfl
        | some c => simp [hcl] at hg
      simp only [h.proto]
      exact recvTransport_tinv h hc f
  | execBegin k =>
    simp only [step] at hs
    split at hs
    · split at hs
      · cases hs
        exact tinv_frame h rfl rfl rfl rfl (by simp) (List.prefix_refl _) (fun hc => hc) (fun _ _ hm => Or.inl hm)
      · cases hs
    · cases hs
  | execFlush k tag =>
    simp only [step] at hs
    split at hs
    · next x hx =>
      split at hs
      · split at hs
        · cases hs; exact tinv_emit_next h _ _ (getElem?_some_ne_nil hx)
        · cases hs; exact h
      · cases hs
    · cases hs
  | execEnd k ok tag =>
    simp only [step] at hs
    split at hs
    · next x hx =>
      have hne : s.insts ≠ [] := getElem?_some_ne_nil hx
      have hne' : ∀ p, (s.setPhase k p).insts ≠ [] := fun p => by unfold St.setPhase; simpa using hne
      split at hs
      · split at hs
        · split at hs
          · cases hs; exact tinv_emit (tinv_setPhase h k .idle) _ (fun _ _ => by simp)
          · split at hs
            · cases hs; exact tinv_emit_next (tinv_setPhase h k .idle) _ _ (hne' _)
            · cases hs; exact tinv_setPhase h k .idle
        · split at hs
          · cases hs; exact tinv_cancelId (tinv_emit (tinv_setPhase h k .exited) _ (fun _ _ => by simp)) _
          · cases hs
            apply tinv_cancelId
            apply tinv_emit _ _ (fun _ _ => by simp)
            exact tinv_emit_next (tinv_setPhase h k .exited) _ _ (hne' _)
      · cases hs
    · cases hs
  | instExit k =>
    simp only [step] at hs
    split at hs
    · split at hs
      · cases hs
        exact tinv_frame h rfl rfl rfl rfl (by simp) (List.prefix_refl _) (fun hc => hc) (fun _ _ hm => Or.inl hm)
      · cases hs
    · cases hs
  | initTimeout =>
    simp only [step] at hs
    split at hs
    · next hg =>
      cases hs
      have h0 : TInv ({ s with timerLive := false } : St) :=
        ⟨h.proto, h.starts, fun ht => by simp at ht, h.acked, h.insts, h.nexts⟩
      exact tinv_closeWith h0 4408
    · cases hs
  | tick =>
    simp only [step] at hs
    split at hs
    · cases hs
      apply tinv_emit h
      intro i t; split <;> simp
    · cases hs
  | clientGone =>
    simp only [step] at hs
    split at hs
    · cases hs
    · cases hs
      exact tinv_frame h rfl rfl rfl rfl Iff.rfl (List.prefix_refl _) (fun _ => rfl) (fun _ _ hm => Or.inl hm)
  | exit =>
    simp only [step] at hs
    split at hs
    · cases hs
      exact tinv_frame h rfl rfl rfl rfl (by simp [cancelAll_insts_nil]) (List.prefix_refl _) (fun hc => hc) (fun _ _ hm => Or.inl hm)
    · cases hs

theorem tinv_run {s s' : St} (h : TInv s) (as : List Act) (hs : run s as = some s') : TInv s' := by
  induction as generalizing s with
  | nil => simp only [run] at hs; cases hs; exact h
  | cons a as ih =>
    simp only [run] at hs
    split at hs
    · next t ht => exact ih (tinv_step h a ht) hs
    · cases hs

theorem tinv_reach {s : St} (h : Reach .transport s) : TInv s := by
  obtain ⟨as, has⟩ := h
  exact tinv_run tinv_init as has

end GqlVerif.WsServer
