/-
  Proofs.C12Prim — every step of Proto.Subs is a finite sequence of primitive state updates.
  The invariants of C12 / C13 are proved once per primitive (Proofs.C12, Proofs.C13).
-/
import GqlVerif.Proto.Subs
namespace GqlVerif.Subs

/-- what can happen to one subscriber record in one primitive update -/
structure SubStep (x x' : Sub) : Prop where
  key : x'.key = x.key
  gen : x'.gen = x.gen
  conn : x'.conn = x.conn
  removed_mono : x.removed = true → x'.removed = true
  frozen : x.removed = true → x'.log = x.log
  pref : x.log <+: x'.log
  closed_mono : x.closed ≤ x'.closed

theorem SubStep.refl (x : Sub) : SubStep x x :=
  ⟨rfl, rfl, rfl, id, fun _ => rfl, List.prefix_refl _, Nat.le_refl _⟩

theorem SubStep.trans {x y z : Sub} (a : SubStep x y) (b : SubStep y z) : SubStep x z :=
  ⟨b.key.trans a.key, b.gen.trans a.gen, b.conn.trans a.conn, fun h => b.removed_mono (a.removed_mono h),
   fun h => (b.frozen (a.removed_mono h)).trans (a.frozen h), List.IsPrefix.trans a.pref b.pref,
   Nat.le_trans a.closed_mono b.closed_mono⟩

theorem SubStep.write (x : Sub) (c : Call) : SubStep x (x.write c) := by
  unfold Sub.write
  split
  · exact SubStep.refl x
  · next h =>
    exact ⟨rfl, rfl, rfl, fun h' => by simp [h'] at h, fun h' => by simp [h'] at h, List.prefix_append _ _, Nat.le_refl _⟩

theorem SubStep.fanWrite (g : Nat) (k : Kind) (fails : Bool) (x : Sub) : SubStep x (fanWrite g k fails x) := by
  unfold Subs.fanWrite
  split
  · exact SubStep.refl x
  · next h =>
    have hr : ¬ x.removed = true := h
    split
    · split <;> exact ⟨rfl, rfl, rfl, fun h' => absurd h' hr, fun h' => absurd h' hr, List.prefix_append _ _, Nat.le_refl _⟩
    · exact ⟨rfl, rfl, rfl, fun h' => absurd h' hr, fun h' => absurd h' hr, List.prefix_append _ _, Nat.le_refl _⟩
    · exact ⟨rfl, rfl, rfl, fun h' => absurd h' hr, fun h' => absurd h' hr, List.prefix_append _ _, Nat.le_refl _⟩

theorem fanWrite_closed (g : Nat) (k : Kind) (fails : Bool) (x : Sub) : (fanWrite g k fails x).closed = x.closed := by
  unfold fanWrite; split; · rfl
  split
  · split <;> rfl
  · rfl
  · rfl

theorem fanWrite_removed (g : Nat) (k : Kind) (fails : Bool) (x : Sub) : (fanWrite g k fails x).removed = x.removed := by
  unfold fanWrite; split; · rfl
  split
  · split <;> rfl
  · rfl
  · rfl

inductive Prim : St → St → Prop
  | join (s : St) (i key conn : Nat) (filter : Option (List Nat)) (hb : Bool) (g : Nat) :
      s.shutdown = false → s.subs i = none → s.lookup key = some g →
      Prim s { s with subs := upd s.subs i (some { key := key, conn := conn, gen := g, filter := filter, hb := hb }),
                      byID := i :: s.byID, subInc := s.subInc + 1 }
  | create (s : St) (i key conn : Nat) (filter : Option (List Nat)) (hb : Bool) :
      s.shutdown = false → s.subs i = none → s.lookup key = none →
      Prim s { s with subs := upd s.subs i (some { key := key, conn := conn, gen := s.nextGen, filter := filter, hb := hb }),
                      gens := upd s.gens s.nextGen (some { key := key }),
                      byID := i :: s.byID, trigs := s.nextGen :: s.trigs, nextGen := s.nextGen + 1,
                      subInc := s.subInc + 1 }
  | setGen (s : St) (g : Nat) (G G' : Gen) :
      s.gens g = some G → G'.key = G.key → G'.cancelled = G.cancelled →
      (G'.started = G.started ∨ (G.started = 0 ∧ G'.started = 1)) →
      (G.startReturned = true → G'.startReturned = true) →
      Prim s { s with gens := upd s.gens g (some G') }
  | init (s : St) (g : Nat) (G : Gen) : s.trigs.contains g = true → s.gens g = some G → G.startReturned = false →
      Prim s { s with gens := upd s.gens g (some { G with startReturned := true }), inited := g :: s.inited, trigInc := s.trigInc + 1 }
  | setSub (s : St) (i : Nat) (x x' : Sub) :
      s.subs i = some x → SubStep x x' → x'.closed = x.closed → x'.removed = x.removed →
      Prim s { s with subs := upd s.subs i (some x') }
  | detach (s : St) (g : Nat) : g < s.nextGen → Prim s (detach s g)
  | removeOne (s : St) (i g : Nat) : s.byID.contains i = true → s.genOf i = some g → Prim s (removeOne s i g)
  | close (s : St) (i : Nat) (x : Sub) : s.pendClose.contains i = true → s.subs i = some x →
      Prim s { s with subs := upd s.subs i (some { x with closed := x.closed + 1 }), pendClose := s.pendClose.erase i }
  | cancel (s : St) (g : Nat) (G : Gen) : s.pendCancel.contains g = true → s.gens g = some G →
      Prim s { s with gens := upd s.gens g (some { G with cancelled := true }), pendCancel := s.pendCancel.erase g }
  | shut (s : St) : s.trigs = [] → Prim s { s with shutdown := true }

inductive Prims : St → St → Prop
  | nil (s : St) : Prims s s
  | cons {s t u : St} : Prim s t → Prims t u → Prims s u

theorem Prims.one {s t : St} (h : Prim s t) : Prims s t := .cons h (.nil t)

theorem Prims.append {s t u : St} (a : Prims s t) (b : Prims t u) : Prims s u := by
  induction a with
  | nil _ => exact b
  | cons h _ ih => exact .cons h (ih b)

/-- an invariant preserved by every primitive is preserved by sequences -/
theorem Prims.preserve {P : St → Prop} (hp : ∀ s t, P s → Prim s t → P t) {s t : St} (h : Prims s t) (hs : P s) : P t := by
  induction h with
  | nil _ => exact hs
  | cons a _ ih => exact ih (hp _ _ hs a)

/-- well-formedness needed to decompose `shutdown`: no trigger is registered twice -/
def Basic (s : St) : Prop := s.trigs.Nodup ∧ ∀ g ∈ s.trigs, g < s.nextGen

theorem basic_init : Basic St.init := by simp [Basic, St.init]

theorem erase_sub_nodup {l : List Nat} (h : l.Nodup) (g : Nat) : (l.erase g).Nodup := h.erase g

theorem basic_detach {s : St} (h : Basic s) (g : Nat) : Basic (detach s g) := by
  refine ⟨h.1.erase g, fun x hx => h.2 x ?_⟩
  exact List.mem_of_mem_erase hx

theorem basic_removeOne {s : St} (h : Basic s) (i g : Nat) : Basic (removeOne s i g) := by
  unfold removeOne
  split
  · exact h
  · refine ⟨h.1.erase g, fun x hx => h.2 x ?_⟩
    exact List.mem_of_mem_erase hx

theorem basic_prim {s t : St} (h : Basic s) (p : Prim s t) : Basic t := by
  cases p with
  | join => exact h
  | create i key conn filter hb h1 h2 h3 =>
    refine ⟨List.nodup_cons.mpr ⟨fun hm => Nat.lt_irrefl _ (h.2 _ hm), h.1⟩, ?_⟩
    intro x hx
    rcases List.mem_cons.mp hx with rfl | hx
    · exact Nat.lt_succ_self _
    · exact Nat.lt_succ_of_lt (h.2 x hx)
  | setGen => exact h
  | init => exact h
  | setSub => exact h
  | detach g _ => exact basic_detach h g
  | removeOne i g => exact basic_removeOne h i g
  | close => exact h
  | cancel => exact h
  | shut => exact h

theorem basic_prims {s t : St} (h : Basic s) (p : Prims s t) : Basic t :=
  Prims.preserve (P := Basic) (fun _ _ hs hp => basic_prim hs hp) p h

/-! ### decomposition of the composite operations -/

theorem unsub_prims (s : St) (i : Nat) : Prims s (unsub s i) := by
  unfold unsub
  split
  · next hc =>
    split
    · next g hg => exact .one (.removeOne s i g hc hg)
    · exact .nil s
  · exact .nil s

theorem foldl_unsub_prims (l : List Nat) (s : St) : Prims s (l.foldl unsub s) := by
  induction l generalizing s with
  | nil => exact .nil s
  | cons i l ih => exact (unsub_prims s i).append (ih _)

theorem foldl_detach_prims (l : List Nat) (s : St) (hl : ∀ g ∈ l, g < s.nextGen) : Prims s (l.foldl detach s) := by
  induction l generalizing s with
  | nil => exact .nil s
  | cons g l ih =>
    exact Prims.cons (.detach s g (hl g (List.mem_cons_self ..))) (ih _ (fun x hx => hl x (List.mem_cons_of_mem _ hx)))

theorem foldl_detach_trigs (l : List Nat) (s : St) : (l.foldl detach s).trigs = l.foldl List.erase s.trigs := by
  induction l generalizing s with
  | nil => rfl
  | cons g l ih => simp only [List.foldl_cons]; rw [ih]; rfl

theorem foldl_erase_self (l : List Nat) (h : l.Nodup) : ∀ (m : List Nat), (∀ x ∈ m, x ∈ l) → m.Nodup → l.foldl List.erase m = [] := by
  induction l with
  | nil => intro m hm _; cases m with
    | nil => rfl
    | cons a _ => exact absurd (hm a (List.mem_cons_self ..)) (by simp)
  | cons g l ih =>
    intro m hm hnd
    simp only [List.foldl_cons]
    have hg := (List.nodup_cons.mp h)
    apply ih hg.2
    · intro x hx
      have hxm := List.mem_of_mem_erase hx
      rcases List.mem_cons.mp (hm x hxm) with rfl | h'
      · exact absurd hx (List.Nodup.not_mem_erase hnd)
      · exact h'
    · exact hnd.erase g

theorem shutdown_trigs_empty (s : St) (h : Basic s) : (s.trigs.foldl detach s).trigs = [] := by
  rw [foldl_detach_trigs]
  exact foldl_erase_self s.trigs h.1 s.trigs (fun _ hx => hx) h.1

theorem writeAll_prims (is : List Nat) (c : Call) (s : St) : Prims s { s with subs := writeAll s.subs is c } := by
  induction is generalizing s with
  | nil => exact .nil s
  | cons i is ih =>
    unfold writeAll
    simp only [List.foldl_cons]
    cases hx : s.subs i with
    | none => simpa [writeAll, hx] using ih s
    | some x =>
      have p : Prim s { s with subs := upd s.subs i (some (x.write c)) } :=
        .setSub s i x (x.write c) hx (SubStep.write x c) (by unfold Sub.write; split <;> rfl) (by unfold Sub.write; split <;> rfl)
      exact Prims.cons p (by simpa [writeAll] using ih { s with subs := upd s.subs i (some (x.write c)) })

end GqlVerif.Subs

namespace GqlVerif.Subs

/-- a generation record update that keeps key, cancellation and the Start discipline -/
theorem setGen_prims (s : St) (g : Nat) (G G' : Gen) (h : s.gens g = some G) (hk : G'.key = G.key) (hc : G'.cancelled = G.cancelled)
    (hs : G'.started = G.started ∨ (G.started = 0 ∧ G'.started = 1)) (hr : G.startReturned = true → G'.startReturned = true) :
    Prims s { s with gens := upd s.gens g (some G') } := .one (.setGen s g G G' h hk hc hs hr)

theorem step_prims {s s' : St} (hb : Basic s) (a : Act) (h : step s a = some s') : Prims s s' := by
  cases a with
  | subscribe i key conn filter hbeat =>
    simp only [step] at h
    split at h; · cases h
    split at h; · cases h
    next hsh hsub =>
    have hnone : s.subs i = none := by
      cases hx : s.subs i with
      | none => rfl
      | some _ => simp [hx] at hsub
    have hsh' : s.shutdown = false := by simpa using hsh
    split at h
    · next g hg => cases h; exact .one (.join s i key conn filter hbeat g hsh' hnone hg)
    · next hg => cases h; exact .one (.create s i key conn filter hbeat hsh' hnone hg)
  | startCall g =>
    simp only [step] at h
    split at h
    · next G hG =>
      split at h
      · next hc => cases h; exact setGen_prims s g G _ hG rfl rfl (Or.inr ⟨hc.1, rfl⟩) id
      · cases h
    · cases h
  | startOk g =>
    simp only [step] at h
    split at h
    · next G hG =>
      split at h
      · split at h
        · next hret hc =>
          cases h
          exact .one (.init s g G hc hG hret.2)
        · cases h; exact setGen_prims s g G _ hG rfl rfl (Or.inl rfl) (fun _ => rfl)
      · cases h
    · cases h
  | startFail g sel =>
    simp only [step] at h
    split at h
    · next G hG =>
      split at h
      · have p1 := writeAll_prims sel .errorReport s
        have p2 : Prim { s with subs := writeAll s.subs sel .errorReport }
            { s with subs := writeAll s.subs sel .errorReport, gens := upd s.gens g (some { G with startReturned := true }) } :=
          .setGen _ g G _ hG rfl rfl (Or.inl rfl) (fun _ => rfl)
        split at h
        · next hc => cases h; exact (p1.append (.one p2)).append (.one (.detach _ g (hb.2 g (by simpa using hc))))
        · cases h; exact p1.append (.one p2)
      · cases h
    · cases h
  | fanBegin g k only =>
    simp only [step] at h
    split at h
    · next G hG =>
      split at h
      · split at h
        · split at h
          · cases h; exact setGen_prims s g G _ hG rfl rfl (Or.inl rfl) id
          · cases h
        · cases h; exact setGen_prims s g G _ hG rfl rfl (Or.inl rfl) id
      · cases h
    · cases h
  | fanOne g i fails =>
    simp only [step] at h
    split at h
    · next G hG =>
      split at h
      · next k rest hfan =>
        split at h
        · split at h
          · next x hx =>
            cases h
            have hstep : ∀ x' : Sub, SubStep x x' → x'.closed = x.closed → x'.removed = x.removed →
                Prims s { s with subs := upd s.subs i (some x'), gens := upd s.gens g (some { G with fan := some (k, rest.erase i) }) } := by
              intro x' h1 h2 h3
              have p1 : Prim s { s with subs := upd s.subs i (some x') } := .setSub s i x x' hx h1 h2 h3
              have p2 : Prim { s with subs := upd s.subs i (some x') }
                  { s with subs := upd s.subs i (some x'), gens := upd s.gens g (some { G with fan := some (k, rest.erase i) }) } :=
                .setGen _ g G _ hG rfl rfl (Or.inl rfl) id
              exact Prims.cons p1 (.one p2)
            exact hstep _ (SubStep.fanWrite g k fails x) (fanWrite_closed g k fails x) (fanWrite_removed g k fails x)
          · cases h
        · cases h
      · cases h
    · cases h
  | fanEnd g =>
    simp only [step] at h
    split at h
    · next G hG =>
      split at h
      · cases h; exact setGen_prims s g G _ hG rfl rfl (Or.inl rfl) id
      · cases h
    · cases h
  | done g =>
    simp only [step] at h
    split at h
    · next G hG =>
      split at h
      · split at h
        · next hc =>
          cases h
          exact Prims.cons (.setGen s g G { G with done := true } hG rfl rfl (Or.inl rfl) id) (.one (.detach _ g (hb.2 g (by simpa using hc))))
        · cases h; exact setGen_prims s g G _ hG rfl rfl (Or.inl rfl) id
      · cases h
    · cases h
  | unsubscribe i =>
    simp only [step] at h
    split at h
    · cases h
    · cases h; exact unsub_prims s i
  | removeClient conn =>
    simp only [step] at h
    split at h
    · cases h
    · cases h; exact foldl_unsub_prims _ s
  | heartbeat i =>
    simp only [step] at h
    split at h
    · next x hx =>
      split at h
      · cases h
        exact .one (.setSub s i x _ hx (SubStep.write x _) (by unfold Sub.write; split <;> rfl) (by unfold Sub.write; split <;> rfl))
      · cases h
    · cases h
  | hookFail i =>
    simp only [step] at h
    split at h
    · next x hx =>
      split at h
      · cases h
      · cases h
        have p1 : Prim s { s with subs := upd s.subs i (some (x.write .errorReport)) } :=
          .setSub s i x _ hx (SubStep.write x _) (by unfold Sub.write; split <;> rfl) (by unfold Sub.write; split <;> rfl)
        exact Prims.cons p1 (unsub_prims _ i)
    · cases h
  | close i =>
    simp only [step] at h
    split at h
    · next hc =>
      split at h
      · next x hx => cases h; exact .one (.close s i x hc hx)
      · cases h
    · cases h
  | cancel g =>
    simp only [step] at h
    split at h
    · next hc =>
      split at h
      · next G hG => cases h; exact .one (.cancel s g G hc hG)
      · cases h
    · cases h
  | cancelCtx i =>
    simp only [step] at h
    split at h
    · next x hx =>
      cases h
      exact .one (.setSub s i x _ hx ⟨rfl, rfl, rfl, id, fun _ => rfl, List.prefix_refl _, Nat.le_refl _⟩ rfl rfl)
    · cases h
  | shutdown =>
    simp only [step] at h
    split at h
    · cases h
    · cases h
      exact (foldl_detach_prims s.trigs s hb.2).append (.one (.shut _ (shutdown_trigs_empty s hb)))

/-- every reachable state is reached through primitives, and is well formed -/
theorem run_prims {s s' : St} (hb : Basic s) (as : List Act) (h : run s as = some s') : Prims s s' ∧ Basic s' := by
  induction as generalizing s with
  | nil => simp only [run] at h; cases h; exact ⟨.nil _, hb⟩
  | cons a as ih =>
    simp only [run] at h
    split at h
    · next t ht =>
      have p := step_prims hb a ht
      have hb' := basic_prims hb p
      have r := ih hb' h
      exact ⟨p.append r.1, r.2⟩
    · cases h

theorem reach_prims {s : St} (h : Reach s) : Prims St.init s ∧ Basic s := by
  obtain ⟨as, has⟩ := h
  exact run_prims basic_init as has

/-- induction principle used by every invariant: true initially, preserved by each primitive -/
theorem reach_induct {P : St → Prop} (h0 : P St.init) (hp : ∀ s t, P s → Prim s t → P t) {s : St} (h : Reach s) : P s :=
  Prims.preserve hp (reach_prims h).1 h0

end GqlVerif.Subs
