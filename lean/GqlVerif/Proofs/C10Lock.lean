/-
  Proofs.C10Lock — the invariant of the render / flush region: the lock holder owns the buffer, the buffer is empty when
  the lock is free, every frame sent is the payload of one group.
-/
import GqlVerif.Proto.DeferLock
namespace GqlVerif.Proto.DeferLock

structure Inv (s : St) : Prop where
  holder : ∀ g, (s.pc g = 1 ∨ s.pc g = 2) → s.lock = some g
  free : s.lock = none → s.buf = []
  held : ∀ g, s.lock = some g → (s.pc g = 1 ∨ s.pc g = 2) ∧ (s.pc g = 2 → s.buf = []) ∧ ∀ x ∈ s.buf, x = g
  frames : ∀ fr ∈ s.out, Homogeneous fr

theorem inv_init : Inv {} := by
  constructor
  · intro g h; simp at h
  · intro _; rfl
  · intro g h; simp at h
  · intro fr h; simp at h

theorem setPc_same (pc : Nat → Nat) (g v : Nat) : setPc pc g v g = v := by simp [setPc]
theorem setPc_other (pc : Nat → Nat) (g v x : Nat) (h : x ≠ g) : setPc pc g v x = pc x := by simp [setPc, h]

theorem inv_step (s s' : St) (a : Act) (hi : Inv s) (hs : step s a = some s') : Inv s' := by
  cases a with
  | acq g =>
    simp only [step] at hs
    split at hs
    · rename_i hc
      cases hs
      constructor <;> (try dsimp only)
      · intro x hx
        by_cases hxg : x = g
        · subst hxg; rfl
        · rw [setPc_other _ _ _ _ hxg] at hx
          have := hi.holder x hx
          rw [hc.2] at this; cases this
      · intro h; cases h
      · intro x hx
        have : x = g := by cases hx; rfl
        subst this
        refine ⟨Or.inl (setPc_same _ _ _), ?_, ?_⟩
        · intro h; rw [setPc_same] at h; cases h
        · intro y hy; rw [hi.free hc.2] at hy; cases hy
      · exact hi.frames
    · cases hs
  | rend g =>
    simp only [step] at hs
    split at hs
    · rename_i hc
      cases hs
      have hl := hi.holder g (Or.inl hc)
      constructor <;> (try dsimp only)
      · exact hi.holder
      · intro h; rw [hl] at h; cases h
      · intro x hx
        have hxg : x = g := by rw [hl] at hx; cases hx; rfl
        subst hxg
        refine ⟨(hi.held x hl).1, ?_, ?_⟩
        · intro h2; rw [hc] at h2; cases h2
        · intro y hy
          rcases List.mem_append.mp hy with hy | hy
          · exact (hi.held x hl).2.2 y hy
          · simpa using hy
      · exact hi.frames
    · cases hs
  | flush g =>
    simp only [step] at hs
    split at hs
    · rename_i hc
      cases hs
      have hl := hi.holder g (Or.inl hc)
      constructor <;> (try dsimp only)
      · intro x hx
        by_cases hxg : x = g
        · subst hxg; exact hl
        · rw [setPc_other _ _ _ _ hxg] at hx; exact hi.holder x hx
      · intro _; rfl
      · intro x hx
        have hxg : x = g := by rw [hl] at hx; cases hx; rfl
        subst hxg
        exact ⟨Or.inr (setPc_same _ _ _), fun _ => rfl, fun y hy => by cases hy⟩
      · intro fr hfr
        rcases List.mem_append.mp hfr with h | h
        · exact hi.frames fr h
        · have : fr = s.buf := by simpa using h
          subst this
          exact ⟨g, (hi.held g hl).2.2⟩
    · cases hs
  | rel g =>
    simp only [step] at hs
    split at hs
    · rename_i hc
      cases hs
      have hl := hi.holder g (Or.inr hc)
      constructor <;> (try dsimp only)
      · intro x hx
        by_cases hxg : x = g
        · subst hxg; rw [setPc_same] at hx; rcases hx with h | h <;> cases h
        · rw [setPc_other _ _ _ _ hxg] at hx
          have := hi.holder x hx
          rw [hl] at this; cases this; exact absurd rfl hxg
      · intro _; exact (hi.held g hl).2.1 hc
      · intro x hx; cases hx
      · exact hi.frames
    · cases hs

theorem inv_run : ∀ (as : List Act) (s s' : St), Inv s → run s as = some s' → Inv s'
  | [], s, s', hi, h => by simp [run] at h; subst h; exact hi
  | a :: as, s, s', hi, h => by
    simp only [run] at h
    split at h
    · rename_i s1 hs1; exact inv_run as s1 s' (inv_step s s1 a hi hs1) h
    · cases h

/-- **frames of concurrent groups never interleave**: in every execution of any number of groups, every frame sent is
    the payload of one group -/
theorem frames_never_interleave (as : List Act) (s : St) (h : run {} as = some s) : ∀ fr ∈ s.out, Homogeneous fr :=
  (inv_run as {} s inv_init h).frames

/-- … and whenever the lock is free the writer's buffer is empty (nothing rendered is left unsent) -/
theorem nothing_unsent_when_unlocked (as : List Act) (s : St) (h : run {} as = some s) : s.lock = none → s.buf = [] :=
  (inv_run as {} s inv_init h).free

end GqlVerif.Proto.DeferLock
