/-
  Proofs.C02Path — where the renderer's errors are located: every error the pre-walk of a node adds has a path that
  extends the response path at which the walk of that node started, and the walk restores the path.
-/
import GqlVerif.Proofs.C02
set_option linter.unusedSimpArgs false
set_option linter.unusedVariables false
namespace GqlVerif.Render
open GqlVerif

/-- `errs1` extends `errs0` by errors located at or below path `p` -/
def Below (p : List PE) (errs0 errs1 : List Err) : Prop :=
  ∃ new, errs1 = errs0 ++ new ∧ ∀ e ∈ new, p <+: e.path

theorem Below.refl (p : List PE) (a : List Err) : Below p a a := ⟨[], by simp, by simp⟩

theorem Below.trans {p : List PE} {a b c : List Err} (h1 : Below p a b) (h2 : Below p b c) : Below p a c := by
  obtain ⟨n1, rfl, f1⟩ := h1
  obtain ⟨n2, rfl, f2⟩ := h2
  refine ⟨n1 ++ n2, by simp, ?_⟩
  intro e he
  rcases List.mem_append.mp he with he | he
  · exact f1 e he
  · exact f2 e he

theorem Below.weaken {p q : List PE} {a b : List Err} (hpq : p <+: q) (h : Below q a b) : Below p a b := by
  obtain ⟨n, rfl, f⟩ := h
  exact ⟨n, rfl, fun e he => List.IsPrefix.trans hpq (f e he)⟩

theorem Below.addErr (st : St) (cls : String) (extra : List String) : Below st.path st.errs (st.addErr cls extra).errs :=
  ⟨[⟨cls, st.path ++ extra.map PE.name⟩], rfl, by simp⟩

/-- what every walk step guarantees about locations -/
def Located (st : St) (r : St) : Prop := Below st.path st.errs r.errs ∧ r.path = st.path

theorem preItems_located (f : Json → St → R) (b : Bool) (hf : ∀ x s, Located s (f x s).st) : ∀ xs i st acc,
    Located st (preItems f b xs i st acc).2.2 := by
  intro xs
  induction xs with
  | nil => intro i st acc; exact ⟨Below.refl _ _, rfl⟩
  | cons x xs ih =>
    intro i st acc
    simp only [preItems]
    have h := hf x (st.pushIdx i)
    have h1 : Below st.path st.errs (f x (st.pushIdx i)).st.errs :=
      Below.weaken (p := st.path) (q := (st.pushIdx i).path) (by simp [St.pushIdx]) h.1
    split
    · split
      · have := ih (i + 1) { (f x (st.pushIdx i)).st with path := st.path } (Json.null :: acc)
        exact ⟨h1.trans this.1, this.2⟩
      · exact ⟨h1, rfl⟩
    · have := ih (i + 1) { (f x (st.pushIdx i)).st with path := st.path } ((f x (st.pushIdx i)).c :: acc)
      exact ⟨h1.trans this.1, this.2⟩

mutual
theorem preNode_located : ∀ (n : Node) (c : Json) (st : St), Located st (preNode n c st).st
  | .null, c, st => ⟨Below.refl _ _, rfl⟩
  | .staticString _, c, st => ⟨Below.refl _ _, rfl⟩
  | .emptyObject, c, st => ⟨Below.refl _ _, rfl⟩
  | .emptyArray, c, st => ⟨Below.refl _ _, rfl⟩
  | .scalar kind path nullable, c, st => by
    simp only [preNode]
    repeat' split
    all_goals first | exact ⟨Below.refl _ _, rfl⟩ | exact ⟨Below.addErr _ _ _, rfl⟩
  | .enum path nullable _ values inaccessible, c, st => by
    simp only [preNode]
    repeat' split
    all_goals first | exact ⟨Below.refl _ _, rfl⟩ | exact ⟨Below.addErr _ _ _, rfl⟩
  | .array path nullable item, c, st => by
    simp only [preNode]
    split
    · split
      · exact ⟨Below.refl _ _, rfl⟩
      · exact ⟨Below.addErr _ _ _, rfl⟩
    · split
      · exact ⟨Below.refl _ _, rfl⟩
      · exact ⟨Below.addErr _ _ _, rfl⟩
    · rename_i xs hg
      have := preItems_located (fun x s => preNode item x s)
        ((item.kind == .object || item.kind == .array) && item.nullable)
        (fun x s => preNode_located item x s) xs 0 (st.push path) []
      have hb : Below st.path st.errs _ :=
        Below.weaken (p := st.path) (q := (st.push path).path) (by simp [St.push]) this.1
      repeat' split
      all_goals exact ⟨hb, rfl⟩
    · refine ⟨?_, rfl⟩
      exact Below.weaken (p := st.path) (q := (st.push path).path) (by simp [St.push]) (Below.addErr (st.push path) _ _)
  | .object path nullable typeName src possible ina unres fields, c, st => by
    simp only [preNode]
    split
    · exact ⟨Below.addErr _ _ _, rfl⟩
    · split
      · split
        · exact ⟨Below.refl _ _, rfl⟩
        · exact ⟨Below.addErr _ _ _, rfl⟩
      · split
        · exact ⟨Below.refl _ _, rfl⟩
        · exact ⟨Below.addErr _ _ _, rfl⟩
      · rename_i kvs hg
        split
        · refine ⟨?_, rfl⟩
          exact Below.weaken (p := st.path) (q := (st.push path).path) (by simp [St.push]) (Below.addErr (st.push path) _ _)
        · have := preFields_located fields (.obj kvs)
            { (st.push path) with typeNames := typenameOf (.obj kvs) :: st.typeNames }
          have hb : Below st.path st.errs _ :=
            Below.weaken (p := st.path) (q := (st.push path).path) (by simp [St.push]) this.1
          repeat' split
          all_goals exact ⟨hb, rfl⟩
      · refine ⟨?_, rfl⟩
        exact Below.weaken (p := st.path) (q := (st.push path).path) (by simp [St.push]) (Below.addErr (st.push path) _ _)
theorem preFields_located : ∀ (fs : Fields) (v : Json) (st : St), Located st (preFields fs v st).st
  | .nil, v, st => ⟨Below.refl _ _, rfl⟩
  | .cons _ guard value rest, v, st => by
    simp only [preFields]
    split
    · exact preFields_located rest v st
    · have h1 := preNode_located value v st
      split
      · exact h1
      · have h2 := preFields_located rest (preNode value v st).c (preNode value v st).st
        refine ⟨h1.1.trans ?_, h2.2.trans h1.2⟩
        have := h2.1
        rw [h1.2] at this
        exact this
end

end GqlVerif.Render
