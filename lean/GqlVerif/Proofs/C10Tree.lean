/-
  Proofs.C10Tree — the loop of `isDeferAncestor` decides the enclosing-defer relation; in every valid delivery order the
  enclosing groups of a group have been delivered before it.
-/
import GqlVerif.Proto.DeferTree
namespace GqlVerif.Proto.DeferTree

theorem InChain.ne_zero {parent : Nat → Nat} {p a : Nat} (h : InChain parent p a) : p ≠ 0 := by
  cases h with
  | self h' => exact h'
  | up h' _ => exact h'

theorem isAncestor_sound (parent : Nat → Nat) : ∀ fuel f p, isAncestor parent fuel f p = true → InChain parent p f := by
  intro fuel
  induction fuel with
  | zero => intro f p h; simp [isAncestor] at h
  | succ n ih =>
    intro f p h
    unfold isAncestor at h
    split at h
    · simp at h
    · rename_i hp
      have hp' : p ≠ 0 := by simpa using hp
      split at h
      · rename_i hfp
        have : f = p := by simpa using hfp
        subst this
        exact .self hp'
      · exact .up hp' (ih f (parent p) h)

theorem isAncestor_complete (parent : Nat → Nat) (hw : WF parent) :
    ∀ p f, InChain parent p f → ∀ fuel, p < fuel → isAncestor parent fuel f p = true := by
  intro p f h
  induction h with
  | self hp =>
    intro fuel hf
    cases fuel with
    | zero => omega
    | succ n => simp [isAncestor, hp]
  | @up p a hp _ ih =>
    intro fuel hf
    cases fuel with
    | zero => omega
    | succ n =>
      unfold isAncestor
      have : parent p < n := by have := hw p hp; omega
      simp only [beq_iff_eq, hp, if_false]
      split
      · rfl
      · exact ih n this

/-- the loop decides exactly "is an enclosing defer (or the direct parent itself)" -/
theorem anc_iff (parent : Nat → Nat) (hw : WF parent) (f p : Nat) : anc parent f p = true ↔ InChain parent p f :=
  ⟨isAncestor_sound parent _ f p, fun h => isAncestor_complete parent hw p f h _ (Nat.lt_succ_self p)⟩

/-- every member of the chain of a delivered group has been delivered -/
theorem chain_delivered (parent : Nat → Nat) (ord : List Nat) (hv : Valid parent ord) :
    ∀ p f, InChain parent p f → ∀ L rest, ord = L ++ rest → p ∈ L → f ∈ L := by
  intro p f h
  induction h with
  | self _ => intro L rest _ hp; exact hp
  | @up p a hp _ ih =>
    intro L rest ho hpL
    obtain ⟨m₁, m₂, rfl⟩ := List.append_of_mem hpL
    have hsplit : ord = m₁ ++ p :: (m₂ ++ rest) := by simp [ho]
    rcases (hv m₁ p (m₂ ++ rest) hsplit).2 with h0 | hin
    · -- the chain above p is empty: impossible
      rename_i hch
      exact absurd h0 hch.ne_zero
    · have := ih m₁ (p :: (m₂ ++ rest)) hsplit hin
      exact List.mem_append_left _ this

/-- **the renderer only seeks into delivered groups**: while group `g` is rendered, every defer id `f` for which
    `isDeferAncestor(f, parent g)` holds has been delivered before `g`, in every valid delivery order -/
theorem seeks_only_into_delivered_groups (parent : Nat → Nat) (ord : List Nat) (hv : Valid parent ord)
    (l₁ : List Nat) (g : Nat) (l₂ : List Nat) (ho : ord = l₁ ++ g :: l₂) (f : Nat)
    (h : anc parent f (parent g) = true) : f ∈ l₁ := by
  have hc := isAncestor_sound parent _ f (parent g) h
  have hpg : parent g ≠ 0 := hc.ne_zero
  rcases (hv l₁ g l₂ ho).2 with h0 | hin
  · exact absurd h0 hpg
  · exact chain_delivered parent ord hv (parent g) f hc l₁ (g :: l₂) ho hin

end GqlVerif.Proto.DeferTree
