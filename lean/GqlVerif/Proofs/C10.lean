/-
  Helper lemmas for C10: the stream acceptor maintains "completed ⊆ announced, no id completed or announced twice" on
  every prefix.
-/
import GqlVerif.Proto.Defer
namespace GqlVerif.Defer

def Inv (s : State) : Prop :=
  (s.announced.map (·.1)).Nodup ∧ s.done.Nodup ∧ ∀ id ∈ s.done, id ∈ s.announced.map (·.1)

theorem inv_init : Inv {} := by simp [Inv]

theorem frameOK_parts {s : State} {f : Frame} (h : frameOK s f = true) :
    (∀ i ∈ f.incremental, i.id ∈ annIds s f ∧ i.id ∉ s.done) ∧
    (∀ id ∈ f.completed, id ∈ annIds s f ∧ id ∉ s.done) ∧ f.completed.Nodup ∧ (annIds s f).Nodup := by
  simp only [frameOK, Bool.and_eq_true, List.all_eq_true, decide_eq_true_eq, Bool.not_eq_true',
    List.contains_eq_mem, decide_eq_false_iff_not] at h
  obtain ⟨⟨⟨h1, h2⟩, h3⟩, h4⟩ := h
  exact ⟨h1, h2, h3, h4⟩

theorem inv_step {s : State} {f : Frame} (hi : Inv s) (h : frameOK s f = true) : Inv (stepState s f) := by
  obtain ⟨_, h2, h3, h4⟩ := frameOK_parts h
  obtain ⟨_, i2, i3⟩ := hi
  refine ⟨h4, ?_, ?_⟩
  · show (s.done ++ f.completed).Nodup
    rw [List.nodup_append]
    refine ⟨i2, h3, ?_⟩
    intro a ha b hb hab
    subst hab
    exact (h2 a hb).2 ha
  · intro id hid
    show id ∈ (s.announced ++ f.pending).map (·.1)
    have : id ∈ s.done ++ f.completed := hid
    rcases List.mem_append.mp this with hd | hc
    · rw [List.map_append]; exact List.mem_append_left _ (i3 id hd)
    · exact (h2 id hc).1


theorem finalState_done (s : State) (fs : List Frame) :
    (finalState s fs).done = s.done ++ fs.flatMap (·.completed) := by
  induction fs generalizing s with
  | nil => simp [finalState]
  | cons f fs ih =>
    simp only [finalState, List.foldl_cons, List.flatMap_cons] at *
    rw [ih]; simp [stepState, List.append_assoc]

theorem finalState_announced (s : State) (fs : List Frame) :
    (finalState s fs).announced = s.announced ++ fs.flatMap (·.pending) := by
  induction fs generalizing s with
  | nil => simp [finalState]
  | cons f fs ih =>
    simp only [finalState, List.foldl_cons, List.flatMap_cons] at *
    rw [ih]; simp [stepState, List.append_assoc]

/-- an accepted stream keeps the invariant on every prefix -/
theorem acceptFrom_prefix_inv : ∀ (fs : List Frame) (s : State), Inv s → acceptFrom s fs = true →
    ∀ n, Inv (finalState s (fs.take n))
  | [], _, _, h => by simp [acceptFrom] at h
  | [f], s, hi, h => by
    simp only [acceptFrom, Bool.and_eq_true] at h
    intro n
    cases n with
    | zero => simpa [finalState] using hi
    | succ n => simpa [finalState] using inv_step hi h.1.1
  | f :: g :: rest, s, hi, h => by
    simp only [acceptFrom, Bool.and_eq_true] at h
    intro n
    cases n with
    | zero => simpa [finalState] using hi
    | succ n =>
      have := acceptFrom_prefix_inv (g :: rest) (stepState s f) (inv_step hi h.1.1) h.2 n
      simpa [finalState] using this

theorem acceptFrom_final : ∀ (fs : List Frame) (s : State), acceptFrom s fs = true → allDone (finalState s fs) = true
  | [], _, h => by simp [acceptFrom] at h
  | [f], s, h => by
    simp only [acceptFrom, Bool.and_eq_true] at h
    simpa [finalState] using h.2
  | f :: g :: rest, s, h => by
    simp only [acceptFrom, Bool.and_eq_true] at h
    have := acceptFrom_final (g :: rest) (stepState s f) h.2
    simpa [finalState] using this

theorem acceptFrom_hasNext : ∀ (fs : List Frame) (s : State), acceptFrom s fs = true →
    (∀ f ∈ fs.dropLast, f.hasNext = true) ∧ ∃ l, fs.getLast? = some l ∧ l.hasNext = false
  | [], _, h => by simp [acceptFrom] at h
  | [f], s, h => by
    simp only [acceptFrom, Bool.and_eq_true, Bool.not_eq_true'] at h
    exact ⟨by simp, f, by simp, h.1.2⟩
  | f :: g :: rest, s, h => by
    simp only [acceptFrom, Bool.and_eq_true] at h
    obtain ⟨ih1, l, hl, hl2⟩ := acceptFrom_hasNext (g :: rest) (stepState s f) h.2
    refine ⟨?_, l, ?_, hl2⟩
    · intro x hx
      rw [List.dropLast_cons_cons] at hx
      rcases List.mem_cons.mp hx with rfl | hx
      · exact h.1.2
      · exact ih1 x hx
    · simpa [List.getLast?_cons_cons] using hl

/-- every incremental payload of an accepted stream names an id that is announced by then and not yet completed -/
theorem acceptFrom_incremental : ∀ (fs : List Frame) (s : State), acceptFrom s fs = true →
    ∀ n f, fs[n]? = some f → ∀ i ∈ f.incremental,
      i.id ∈ annIds (finalState s (fs.take n)) f ∧ i.id ∉ (finalState s (fs.take n)).done
  | [], _, h => by simp [acceptFrom] at h
  | [f], s, h => by
    simp only [acceptFrom, Bool.and_eq_true] at h
    intro n f' hn i hi
    cases n with
    | zero =>
      simp at hn; subst hn
      simpa [finalState] using (frameOK_parts h.1.1).1 i hi
    | succ n => simp at hn
  | f :: g :: rest, s, h => by
    simp only [acceptFrom, Bool.and_eq_true] at h
    intro n f' hn i hi
    cases n with
    | zero =>
      simp at hn; subst hn
      simpa [finalState] using (frameOK_parts h.1.1).1 i hi
    | succ n =>
      have := acceptFrom_incremental (g :: rest) (stepState s f) h.2 n f' (by simpa using hn) i hi
      simpa [finalState] using this

end GqlVerif.Defer
