/-
  Proofs.C06 — lemmas about the variables-validator model (Gql.Coerce).
-/
import GqlVerif.Gql.Coerce
set_option linter.unusedSimpArgs false
set_option linter.unusedVariables false
namespace GqlVerif.Coerce
open GqlVerif

/-- a property of the error register that every error constructor establishes -/
structure Good (c : Ctx) (P : Option Err → Prop) : Prop where
  atFuel : P (outOfFuel c)
  atMk : ∀ cls path b, P (some (mkErr c cls path b))

theorem preserve_field (c : Ctx) (P : Option Err → Prop) (hP : Good c P) : ∀ fuel,
    (∀ j n rp err, P err → P (namedNode c fuel j n rp err)) ∧
    (∀ j fs rp err, P err → P (fieldsLoop c fuel j fs rp err).1) ∧
    (∀ f j t rp err, P err → P (fieldType c fuel f j t rp err)) ∧
    (∀ f xs i t rp err, P err → P (fieldElems c fuel f xs i t rp err)) := by
  intro fuel
  induction fuel with
  | zero =>
    refine ⟨?_, ?_, ?_, ?_⟩ <;> intros <;> simp [namedNode, fieldsLoop, fieldType, fieldElems] <;> exact hP.atFuel
  | succ n ih =>
    obtain ⟨ihN, ihL, ihT, ihE⟩ := ih
    refine ⟨?_, ?_, ?_, ?_⟩
    · intro j tn rp err h
      unfold namedNode
      split
      · exact h
      · split
        · exact h
        · exact h
        · split
          · simp only
            have hl : ∀ kvs fs, P (fieldsLoop c n (Json.obj kvs) fs rp err).1 := fun _ _ => ihL _ _ _ _ h
            split
            · exact hl _ _
            · split
              · exact hP.atMk _ _ _
              · split
                · split
                  · exact hP.atMk _ _ _
                  · split
                    · exact hP.atMk _ _ _
                    · exact hl _ _
                · exact hl _ _
          · exact hP.atMk _ _ _
        · simp only
          repeat' split
          all_goals first | exact h | exact hP.atMk _ _ _
        · split
          · split
            · exact h
            · exact hP.atMk _ _ _
          · exact hP.atMk _ _ _
    · intro j fs rp err h
      cases fs with
      | nil => simp only [fieldsLoop]; exact h
      | cons f fs =>
        simp only [fieldsLoop]
        split
        · exact h
        · exact ihL _ _ _ _ (ihT _ _ _ _ _ h)
    · intro f j t rp err h
      unfold fieldType
      repeat' split
      all_goals first
        | exact h
        | exact hP.atMk _ _ _
        | exact ihT _ _ _ _ _ h
        | exact ihE _ _ _ _ _ _ h
        | exact ihN _ _ _ _ h
    · intro f xs i t rp err h
      cases xs with
      | nil => simp only [fieldElems]; exact h
      | cons x xs =>
        simp only [fieldElems]
        exact ihE _ _ _ _ _ _ (ihT _ _ _ _ _ h)

theorem preserve_op (c : Ctx) (P : Option Err → Prop) (hP : Good c P) : ∀ fuel,
    (∀ j t rp err, P err → P (opType c fuel j t rp err)) ∧
    (∀ xs i t rp err, P err → P (opElems c fuel xs i t rp err)) := by
  intro fuel
  induction fuel with
  | zero => refine ⟨?_, ?_⟩ <;> intros <;> simp [opType, opElems] <;> exact hP.atFuel
  | succ n ih =>
    obtain ⟨ihT, ihE⟩ := ih
    have ihN := (preserve_field c P hP n).1
    refine ⟨?_, ?_⟩
    · intro j t rp err h
      unfold opType
      repeat' split
      all_goals first
        | exact h
        | exact hP.atMk _ _ _
        | exact ihT _ _ _ _ h
        | exact ihE _ _ _ _ _ h
        | exact ihN _ _ _ _ h
    · intro xs i t rp err h
      cases xs with
      | nil => simp only [opElems]; exact h
      | cons x xs =>
        simp only [opElems]
        exact ihE _ _ _ _ _ (ihT _ _ _ _ h)

theorem good_isSome (c : Ctx) : Good c (fun e => e.isSome = true) := ⟨rfl, fun _ _ _ => rfl⟩

theorem good_noEcho (c : Ctx) (h : c.opts.disableExposingContent = true) :
    Good c (fun e => ∀ x, e = some x → x.echoesContent = false) := by
  constructor
  · intro x hx; simp [outOfFuel] at hx; subst hx; rfl
  · intro cls path b x hx
    simp [mkErr] at hx; subst hx; simp [h]

theorem good_var (c : Ctx) : Good c (fun e => ∀ x, e = some x → x.var = c.var) := by
  constructor
  · intro x hx; simp [outOfFuel] at hx; subst hx; rfl
  · intro cls path b x hx
    simp [mkErr] at hx; subst hx; rfl

/-- an early exit of the field loop always carries an error -/
theorem fieldsLoop_early (c : Ctx) : ∀ fuel j fs rp err,
    (fieldsLoop c fuel j fs rp err).2 = false → (fieldsLoop c fuel j fs rp err).1.isSome = true := by
  intro fuel
  induction fuel with
  | zero => intros; simp [fieldsLoop, outOfFuel]
  | succ n ih =>
    intro j fs rp err h
    cases fs with
    | nil => simp [fieldsLoop] at h
    | cons f fs =>
      simp only [fieldsLoop] at h ⊢
      split
      · rename_i hs; simpa using hs
      · rename_i hs
        simp only [hs] at h
        exact ih _ _ _ _ h


theorem stays_field (c : Ctx) (fuel : Nat) :
    (∀ j n rp err, err.isSome = true → (namedNode c fuel j n rp err).isSome = true) ∧
    (∀ j fs rp err, err.isSome = true → (fieldsLoop c fuel j fs rp err).1.isSome = true) ∧
    (∀ f j t rp err, err.isSome = true → (fieldType c fuel f j t rp err).isSome = true) ∧
    (∀ f xs i t rp err, err.isSome = true → (fieldElems c fuel f xs i t rp err).isSome = true) :=
  preserve_field c _ (good_isSome c) fuel

theorem none_of_isSome_false {α} {o : Option α} (h : ¬ o.isSome = true) : o = none := by
  cases o <;> simp_all

theorem isSome_of_ne_none {α} {o : Option α} (h : o ≠ none) : o.isSome = true := by
  cases o <;> simp_all

/-- Soundness of acceptance (any fuel): a value the model accepts is coercible in the lenient reading. -/
theorem sound_field (c : Ctx) : ∀ fuel,
    (∀ j n rp, namedNode c fuel j n rp none = none → Co c.S false (.named n j)) ∧
    (∀ j fs rp, (fieldsLoop c fuel j fs rp none).1 = none →
        ∀ f, f ∈ fs → Co c.S false (.field f f.type (j.get? f.name))) ∧
    (∀ f j t rp, fieldType c fuel f j t rp none = none → Co c.S false (.field f t j)) ∧
    (∀ f xs i t rp, fieldElems c fuel f xs i t rp none = none →
        ∀ x, x ∈ xs → Co c.S false (.field f t (some x))) := by
  intro fuel
  induction fuel with
  | zero =>
    refine ⟨?_, ?_, ?_, ?_⟩ <;> intros <;> simp_all [namedNode, fieldsLoop, fieldType, fieldElems, outOfFuel]
  | succ n ih =>
    obtain ⟨ihN, ihL, ihT, ihE⟩ := ih
    have st := stays_field c n
    refine ⟨?_, ?_, ?_, ?_⟩
    · intro j tn rp h
      unfold namedNode at h
      simp only [Option.isSome_none, Bool.false_eq_true, if_false] at h
      split at h
      · rename_i hf; exact .undefinedType hf rfl
      · rename_i hf; exact .otherType hf rfl
      · rename_i nm oneOf fields hf
        split at h
        · rename_i kvs
          split at h
          · rename_i hearly
            have := fieldsLoop_early c n _ _ _ _ hearly
            rw [h] at this; simp at this
          · split at h
            · simp at h
            · rename_i hfind
              have hkeys : ∀ kv, kv ∈ kvs → fields.any (·.name == kv.1) = true := by
                intro kv hkv
                have := List.find?_eq_none.mp hfind kv hkv
                simpa using this
              split at h
              · rename_i hone
                split at h
                · simp at h
                · rename_i hlen
                  split at h
                  · simp at h
                  · rename_i hnull
                    refine .inputObject hf (ihL _ _ _ h) hkeys ?_
                    intro _
                    refine ⟨by simpa using hlen, ?_⟩
                    intro kv hkv
                    have := hnull
                    simp only [List.any_eq_true, not_exists, not_and, Bool.not_eq_true] at this
                    exact this kv hkv
              · rename_i hone
                refine .inputObject hf (ihL _ _ _ h) hkeys ?_
                intro ho; exact absurd ho hone
        · simp at h
      · rename_i nm hf
        refine .scalar hf ?_
        unfold scalarOk
        repeat' split at h
        all_goals first
          | (simp_all; done)
          | (simp_all; exact Decidable.or_iff_not_imp_left.mpr (by assumption))
      · rename_i nm values hf
        split at h
        · rename_i s
          split at h
          · rename_i s' hfind
            exact .enumValue hf hfind
          · simp at h
        · simp at h
    · intro j fs rp h f hf
      cases fs with
      | nil => simp at hf
      | cons g gs =>
        simp only [fieldsLoop, Option.isSome_none, Bool.false_eq_true, if_false] at h
        cases hft : fieldType c n g (j.get? g.name) g.type (.obj g.name :: rp) none with
        | some e =>
          exfalso
          rw [hft] at h
          have := st.2.1 j gs rp (some e) rfl
          rw [h] at this; simp at this
        | none =>
          rw [hft] at h
          rcases List.mem_cons.mp hf with rfl | hmem
          · exact ihT _ _ _ _ hft
          · exact ihL _ _ _ h f hmem
    · intro f j t rp h
      unfold fieldType at h
      split at h
      · -- nonNull
        rename_i inner
        split at h
        · rename_i hnull
          have hdef : (if f.hasDefault = true then (none : Option Err) else some (mkErr c ErrClass.requiredField none true)) = none →
              Co c.S false (.field f (.nonNull inner) j) := by
            intro h'
            by_cases hd : f.hasDefault = true
            · exact .fieldNullDefault rfl hd hnull
            · simp [hd] at h'
          cases inner with
          | named nn =>
            simp only at h
            by_cases hup : nn = "Upload"
            · subst hup; exact .fieldUploadNull rfl hnull
            · simp only [beq_iff_eq, hup, if_false] at h
              exact hdef h
          | list t' => simp only [Bool.false_eq_true, if_false] at h; exact hdef h
          | nonNull t' => simp only [Bool.false_eq_true, if_false] at h; exact hdef h
        · rename_i hnn
          exact .fieldNonNull (by simpa using hnn) (ihT _ _ _ _ h)
      · -- list
        split at h
        · exact .fieldNullableListNone rfl
        · exact .fieldNullableListNone rfl
        · exact .fieldList (ihE _ _ _ _ _ h)
        · simp at h
      · -- named
        split at h
        · exact .fieldNullableNamedNone rfl
        · exact .fieldNullableNamedNone rfl
        · rename_i v hnone hnull
          refine .fieldNamed ?_ (ihN _ _ _ h)
          cases v <;> simp_all [Json.isNull]
    · intro f xs i t rp h x hx
      cases xs with
      | nil => simp at hx
      | cons y ys =>
        simp only [fieldElems] at h
        cases hft : fieldType c n f (some y) t (.arr i :: rp) none with
        | some e =>
          exfalso
          rw [hft] at h
          have := st.2.2.2 f ys (i + 1) t rp (some e) rfl
          rw [h] at this; simp at this
        | none =>
          rw [hft] at h
          rcases List.mem_cons.mp hx with rfl | hmem
          · exact ihT _ _ _ _ hft
          · exact ihE _ _ _ _ _ h x hmem

theorem stays_op (c : Ctx) (fuel : Nat) :
    (∀ j t rp err, err.isSome = true → (opType c fuel j t rp err).isSome = true) ∧
    (∀ xs i t rp err, err.isSome = true → (opElems c fuel xs i t rp err).isSome = true) :=
  preserve_op c _ (good_isSome c) fuel

theorem sound_op (c : Ctx) : ∀ fuel,
    (∀ j t rp, opType c fuel j t rp none = none → Co c.S false (.op t j)) ∧
    (∀ xs i t rp, opElems c fuel xs i t rp none = none → ∀ x, x ∈ xs → Co c.S false (.op t (some x))) := by
  intro fuel
  induction fuel with
  | zero => refine ⟨?_, ?_⟩ <;> intros <;> simp_all [opType, opElems, outOfFuel]
  | succ n ih =>
    obtain ⟨ihT, ihE⟩ := ih
    have ihN := (sound_field c n).1
    have st := stays_op c n
    refine ⟨?_, ?_⟩
    · intro j t rp h
      unfold opType at h
      split at h
      · -- nonNull
        rename_i inner
        split at h
        · simp at h
        · split at h
          · simp at h
          · rename_i hup
            simp at hup
            exact .opUploadNull rfl hup (ihT _ _ _ h)
        · rename_i v hnone hnull
          refine .opNonNull ?_ (ihT _ _ _ h)
          cases v <;> simp_all [Json.isNull]
      · split at h
        · exact .opNullableListNone rfl
        · exact .opNullableListNone rfl
        · exact .opList (ihE _ _ _ _ h)
        · simp at h
      · split at h
        · exact .opNullableNamedNone rfl
        · exact .opNullableNamedNone rfl
        · rename_i v hnone hnull
          refine .opNamed ?_ (ihN _ _ _ h)
          cases v <;> simp_all [Json.isNull]
    · intro xs i t rp h x hx
      cases xs with
      | nil => simp at hx
      | cons y ys =>
        simp only [opElems] at h
        cases hft : opType c n (some y) t (.arr i :: rp) none with
        | some e =>
          exfalso
          rw [hft] at h
          have := st.2 ys (i + 1) t rp (some e) rfl
          rw [h] at this; simp at this
        | none =>
          rw [hft] at h
          rcases List.mem_cons.mp hx with rfl | hmem
          · exact ihT _ _ _ hft
          · exact ihE _ _ _ _ h x hmem

/-- the client-visible name of a variable definition -/
def clientName (remap : List (String × String)) (d : VarDef) : String :=
  match remap.find? (·.1 == d.name) with | some (_, m) => m | none => d.name

theorem validateVar_stays (S : Schema) (opts : Opts) (vars : Json) (remap : List (String × String)) (d : VarDef)
    (err : Option Err) (h : err.isSome = true) : (validateVar S opts vars remap d err).isSome = true := by
  unfold validateVar
  exact (stays_op _ _).1 _ _ _ _ h

theorem foldl_stays (S : Schema) (opts : Opts) (vars : Json) (remap : List (String × String)) :
    ∀ (defs : List VarDef) (err : Option Err), err.isSome = true →
      (defs.foldl (fun e d => validateVar S opts vars remap d e) err).isSome = true := by
  intro defs
  induction defs with
  | nil => intro err h; simpa using h
  | cons d ds ih => intro err h; simp only [List.foldl_cons]; exact ih _ (validateVar_stays S opts vars remap d err h)

theorem validate_sound_aux (S : Schema) (opts : Opts) (vars : Json) (remap : List (String × String)) :
    ∀ (defs : List VarDef), defs.foldl (fun e d => validateVar S opts vars remap d e) none = none →
      ∀ d, d ∈ defs → Co S false (.op d.type (vars.get? (clientName remap d))) := by
  intro defs
  induction defs with
  | nil => intro _ d hd; simp at hd
  | cons d ds ih =>
    intro h d' hd'
    simp only [List.foldl_cons] at h
    cases hv : validateVar S opts vars remap d none with
    | some e =>
      exfalso
      rw [hv] at h
      have := foldl_stays S opts vars remap ds (some e) rfl
      rw [h] at this; simp at this
    | none =>
      rw [hv] at h
      rcases List.mem_cons.mp hd' with rfl | hmem
      · unfold validateVar at hv
        exact (sound_op _ _).1 _ _ _ hv
      · exact ih h d' hmem

/-! ### Completeness: every (leniently) coercible value is accepted once the fuel is large enough -/

/-- what "accepted with this fuel" means for each judgment -/
def Acc (c : Ctx) (fuel : Nat) : J → Prop
  | .named n j => ∀ rp, namedNode c fuel j n rp none = none
  | .field f t j => ∀ rp, fieldType c fuel f j t rp none = none
  | .op t j => ∀ rp, opType c fuel j t rp none = none

theorem fieldsLoop_complete (c : Ctx) (j : Json) : ∀ (fs : List InputField),
    (∀ f, f ∈ fs → ∃ N, ∀ fuel, N ≤ fuel → ∀ rp, fieldType c fuel f (j.get? f.name) f.type rp none = none) →
    ∃ N, ∀ fuel, N ≤ fuel → ∀ rp, fieldsLoop c fuel j fs rp none = (none, true) := by
  intro fs
  induction fs with
  | nil =>
    intro _
    refine ⟨1, ?_⟩
    intro fuel hf rp
    obtain ⟨k, rfl⟩ : ∃ k, fuel = k + 1 := ⟨fuel - 1, by omega⟩
    simp [fieldsLoop]
  | cons f fs ih =>
    intro h
    obtain ⟨Nf, hNf⟩ := h f (List.mem_cons_self)
    obtain ⟨Ns, hNs⟩ := ih (fun g hg => h g (List.mem_cons_of_mem _ hg))
    refine ⟨max Nf Ns + 1, ?_⟩
    intro fuel hf rp
    obtain ⟨k, rfl⟩ : ∃ k, fuel = k + 1 := ⟨fuel - 1, by omega⟩
    simp only [fieldsLoop, Option.isSome_none, Bool.false_eq_true, if_false]
    rw [hNf k (by omega)]
    exact hNs k (by omega) rp

theorem fieldElems_complete (c : Ctx) (f : InputField) (t : GType) : ∀ (xs : List Json),
    (∀ x, x ∈ xs → ∃ N, ∀ fuel, N ≤ fuel → ∀ rp, fieldType c fuel f (some x) t rp none = none) →
    ∃ N, ∀ fuel, N ≤ fuel → ∀ i rp, fieldElems c fuel f xs i t rp none = none := by
  intro xs
  induction xs with
  | nil =>
    intro _
    refine ⟨1, ?_⟩
    intro fuel hf i rp
    obtain ⟨k, rfl⟩ : ∃ k, fuel = k + 1 := ⟨fuel - 1, by omega⟩
    simp [fieldElems]
  | cons x xs ih =>
    intro h
    obtain ⟨Nf, hNf⟩ := h x (List.mem_cons_self)
    obtain ⟨Ns, hNs⟩ := ih (fun g hg => h g (List.mem_cons_of_mem _ hg))
    refine ⟨max Nf Ns + 1, ?_⟩
    intro fuel hf i rp
    obtain ⟨k, rfl⟩ : ∃ k, fuel = k + 1 := ⟨fuel - 1, by omega⟩
    simp only [fieldElems]
    rw [hNf k (by omega)]
    exact hNs k (by omega) _ rp

theorem opElems_complete (c : Ctx) (t : GType) : ∀ (xs : List Json),
    (∀ x, x ∈ xs → ∃ N, ∀ fuel, N ≤ fuel → ∀ rp, opType c fuel (some x) t rp none = none) →
    ∃ N, ∀ fuel, N ≤ fuel → ∀ i rp, opElems c fuel xs i t rp none = none := by
  intro xs
  induction xs with
  | nil =>
    intro _
    refine ⟨1, ?_⟩
    intro fuel hf i rp
    obtain ⟨k, rfl⟩ : ∃ k, fuel = k + 1 := ⟨fuel - 1, by omega⟩
    simp [opElems]
  | cons x xs ih =>
    intro h
    obtain ⟨Nf, hNf⟩ := h x (List.mem_cons_self)
    obtain ⟨Ns, hNs⟩ := ih (fun g hg => h g (List.mem_cons_of_mem _ hg))
    refine ⟨max Nf Ns + 1, ?_⟩
    intro fuel hf i rp
    obtain ⟨k, rfl⟩ : ∃ k, fuel = k + 1 := ⟨fuel - 1, by omega⟩
    simp only [opElems]
    rw [hNf k (by omega)]
    exact hNs k (by omega) _ rp

theorem complete (c : Ctx) (j : J) (h : Co c.S false j) : ∃ N, ∀ fuel, N ≤ fuel → Acc c fuel j := by
  induction h with
  | undefinedType hf _ =>
    refine ⟨1, ?_⟩; intro fuel hfu rp
    obtain ⟨k, rfl⟩ : ∃ k, fuel = k + 1 := ⟨fuel - 1, by omega⟩
    simp [namedNode, hf]
  | otherType hf _ =>
    refine ⟨1, ?_⟩; intro fuel hfu rp
    obtain ⟨k, rfl⟩ : ∃ k, fuel = k + 1 := ⟨fuel - 1, by omega⟩
    simp [namedNode, hf]
  | scalar hf hs =>
    refine ⟨1, ?_⟩; intro fuel hfu rp
    obtain ⟨k, rfl⟩ : ∃ k, fuel = k + 1 := ⟨fuel - 1, by omega⟩
    simp only [namedNode, Option.isSome_none, Bool.false_eq_true, if_false, hf]
    unfold scalarOk at hs
    repeat' split at hs
    all_goals first
      | (simp_all; done)
      | (simp_all; exact Decidable.or_iff_not_imp_left.mp (by assumption))
  | enumValue hf hfind =>
    refine ⟨1, ?_⟩; intro fuel hfu rp
    obtain ⟨k, rfl⟩ : ∃ k, fuel = k + 1 := ⟨fuel - 1, by omega⟩
    simp [namedNode, hf, hfind]
  | @inputObject n m oneOf fields kvs hf hfields hkeys hone ih =>
    obtain ⟨N, hN⟩ := fieldsLoop_complete c (.obj kvs) fields (fun f hfm => ih f hfm)
    refine ⟨N + 1, ?_⟩; intro fuel hfu rp
    obtain ⟨k, rfl⟩ : ∃ k, fuel = k + 1 := ⟨fuel - 1, by omega⟩
    simp only [namedNode, Option.isSome_none, Bool.false_eq_true, if_false, hf]
    rw [hN k (by omega) rp]
    have hfind : kvs.find? (fun kv => !(fields.any (·.name == kv.1))) = none := by
      apply List.find?_eq_none.mpr
      intro kv hkv
      simp [hkeys kv hkv]
    simp only [hfind, Bool.true_eq_false, if_false]
    cases ho : oneOf with
    | false => simp
    | true =>
      obtain ⟨hlen, hnn⟩ := hone ho
      have hany : kvs.any (fun kv => kv.2.isNull) = false := by
        apply List.any_eq_false.mpr
        intro kv hkv; simp [hnn kv hkv]
      simp [hlen, hany]
  | fieldAbsentDefault hd =>
    refine ⟨1, ?_⟩; intro fuel hfu rp
    obtain ⟨k, rfl⟩ : ∃ k, fuel = k + 1 := ⟨fuel - 1, by omega⟩
    simp only [fieldType, isNullOrAbsent, if_true, hd]
    split <;> simp
  | fieldNullDefault _ hd hn =>
    refine ⟨1, ?_⟩; intro fuel hfu rp
    obtain ⟨k, rfl⟩ : ∃ k, fuel = k + 1 := ⟨fuel - 1, by omega⟩
    simp only [fieldType, hn, if_true, hd]
    split <;> simp
  | fieldUploadNull _ hn =>
    refine ⟨1, ?_⟩; intro fuel hfu rp
    obtain ⟨k, rfl⟩ : ∃ k, fuel = k + 1 := ⟨fuel - 1, by omega⟩
    simp [fieldType, hn]
  | fieldNonNull hn _ ih =>
    obtain ⟨N, hN⟩ := ih
    refine ⟨N + 1, ?_⟩; intro fuel hfu rp
    obtain ⟨k, rfl⟩ : ∃ k, fuel = k + 1 := ⟨fuel - 1, by omega⟩
    simp only [fieldType, hn, Bool.false_eq_true, if_false]
    exact hN k (by omega) rp
  | @fieldNullableListNone f t j hn =>
    refine ⟨1, ?_⟩; intro fuel hfu rp
    obtain ⟨k, rfl⟩ : ∃ k, fuel = k + 1 := ⟨fuel - 1, by omega⟩
    cases j with
    | none => simp [fieldType]
    | some v => cases v <;> simp_all [fieldType, isNullOrAbsent]
  | @fieldNullableNamedNone f n j hn =>
    refine ⟨1, ?_⟩; intro fuel hfu rp
    obtain ⟨k, rfl⟩ : ∃ k, fuel = k + 1 := ⟨fuel - 1, by omega⟩
    cases j with
    | none => simp [fieldType]
    | some v => cases v <;> simp_all [fieldType, isNullOrAbsent]
  | @fieldList f t xs _ ih =>
    obtain ⟨N, hN⟩ := fieldElems_complete c f t xs (fun x hx => ih x hx)
    refine ⟨N + 1, ?_⟩; intro fuel hfu rp
    obtain ⟨k, rfl⟩ : ∃ k, fuel = k + 1 := ⟨fuel - 1, by omega⟩
    simp only [fieldType]
    exact hN k (by omega) 0 rp
  | @fieldNamed f n v hv _ ih =>
    obtain ⟨N, hN⟩ := ih
    refine ⟨N + 1, ?_⟩; intro fuel hfu rp
    obtain ⟨k, rfl⟩ : ∃ k, fuel = k + 1 := ⟨fuel - 1, by omega⟩
    cases v <;> simp_all [fieldType, Json.isNull, Acc]
  | @opNonNull t v hv _ ih =>
    obtain ⟨N, hN⟩ := ih
    refine ⟨N + 1, ?_⟩; intro fuel hfu rp
    obtain ⟨k, rfl⟩ : ∃ k, fuel = k + 1 := ⟨fuel - 1, by omega⟩
    cases v <;> simp_all [opType, Json.isNull, Acc]
  | @opUploadNull t _ hup _ ih =>
    obtain ⟨N, hN⟩ := ih
    refine ⟨N + 1, ?_⟩; intro fuel hfu rp
    obtain ⟨k, rfl⟩ : ∃ k, fuel = k + 1 := ⟨fuel - 1, by omega⟩
    simp only [opType, hup, bne_self_eq_false, Bool.false_eq_true, if_false]
    exact hN k (by omega) rp
  | @opNullableListNone t j hn =>
    refine ⟨1, ?_⟩; intro fuel hfu rp
    obtain ⟨k, rfl⟩ : ∃ k, fuel = k + 1 := ⟨fuel - 1, by omega⟩
    cases j with
    | none => simp [opType]
    | some v => cases v <;> simp_all [opType, isNullOrAbsent]
  | @opNullableNamedNone n j hn =>
    refine ⟨1, ?_⟩; intro fuel hfu rp
    obtain ⟨k, rfl⟩ : ∃ k, fuel = k + 1 := ⟨fuel - 1, by omega⟩
    cases j with
    | none => simp [opType]
    | some v => cases v <;> simp_all [opType, isNullOrAbsent]
  | @opList t xs _ ih =>
    obtain ⟨N, hN⟩ := opElems_complete c t xs (fun x hx => ih x hx)
    refine ⟨N + 1, ?_⟩; intro fuel hfu rp
    obtain ⟨k, rfl⟩ : ∃ k, fuel = k + 1 := ⟨fuel - 1, by omega⟩
    simp only [opType]
    exact hN k (by omega) 0 rp
  | @opNamed n v hv _ ih =>
    obtain ⟨N, hN⟩ := ih
    refine ⟨N + 1, ?_⟩; intro fuel hfu rp
    obtain ⟨k, rfl⟩ : ∃ k, fuel = k + 1 := ⟨fuel - 1, by omega⟩
    cases v <;> simp_all [opType, Json.isNull, Acc]

theorem scalarOk_mono (n : String) (j : Json) (h : scalarOk true n j = true) : scalarOk false n j = true := by
  unfold scalarOk at *
  repeat' split at h
  all_goals first
    | (simp_all; done)
    | (simp_all [kindOf])

/-- the strict (specification) reading implies the lenient one -/
theorem strict_lenient (S : Schema) (j : J) (h : Co S true j) : Co S false j := by
  induction h with
  | undefinedType _ hs => simp at hs
  | otherType _ hs => simp at hs
  | scalar hf hs => exact .scalar hf (scalarOk_mono _ _ hs)
  | enumValue hf hfind => exact .enumValue hf hfind
  | inputObject hf _ hkeys hone ih => exact .inputObject hf ih hkeys hone
  | fieldAbsentDefault hd => exact .fieldAbsentDefault hd
  | fieldNullDefault hs _ _ => simp at hs
  | fieldUploadNull hs _ => simp at hs
  | fieldNonNull hn _ ih => exact .fieldNonNull hn ih
  | fieldNullableListNone hn => exact .fieldNullableListNone hn
  | fieldNullableNamedNone hn => exact .fieldNullableNamedNone hn
  | fieldList _ ih => exact .fieldList ih
  | fieldNamed hv _ ih => exact .fieldNamed hv ih
  | opNonNull hv _ ih => exact .opNonNull hv ih
  | opUploadNull hs _ _ _ => simp at hs
  | opNullableListNone hn => exact .opNullableListNone hn
  | opNullableNamedNone hn => exact .opNullableNamedNone hn
  | opList _ ih => exact .opList ih
  | opNamed hv _ ih => exact .opNamed hv ih

/-- generic invariant of the whole validation fold -/
theorem validate_invariant (S : Schema) (opts : Opts) (vars : Json) (remap : List (String × String))
    (P : Option Err → Prop) (all : List VarDef)
    (hgood : ∀ d, d ∈ all → Good ⟨S, clientName remap d, opts⟩ P) :
    ∀ (ds : List VarDef), (∀ d, d ∈ ds → d ∈ all) → ∀ err, P err →
      P (ds.foldl (fun e d => validateVar S opts vars remap d e) err) := by
  intro ds
  induction ds with
  | nil => intro _ err h; simpa using h
  | cons d ds ih =>
    intro hsub err h
    simp only [List.foldl_cons]
    apply ih (fun x hx => hsub x (List.mem_cons_of_mem _ hx))
    unfold validateVar
    exact (preserve_op _ P (hgood d (hsub d List.mem_cons_self)) _).1 _ _ _ _ h

end GqlVerif.Coerce
