/-
  Proofs.C11 — invariants of the inbound single-flight protocol, by induction over all interleavings.
-/
import GqlVerif.Proto.SingleFlight
set_option linter.unusedSimpArgs false
set_option linter.unusedVariables false
namespace GqlVerif.SingleFlight

structure Inv (s : St) : Prop where
  closedLe : ∀ g e, s.entries g = some e → e.closed ≤ 1
  owner : ∀ t g, (s.pcs t).owns g = true → ∃ e, s.entries g = some e ∧ e.creator = t ∧ e.closed = 0
  curOwned : ∀ g, s.cur = some g → ∃ e, s.entries g = some e ∧ s.pcs e.creator = .leader g
  fresh : ∀ g, s.nextGen ≤ g → s.entries g = none
  errProv : ∀ g e src, s.entries g = some e → e.err = some src → src = .upstream ∨ src = .cancelOf e.creator

theorem inv_init : Inv St.init := by
  constructor <;> intros <;> simp_all [St.init, Pc.owns]

theorem owns_cases {p : Pc} {g : Nat} (h : p.owns g = true) :
    p = .leader g ∨ p = .okDeleted g ∨ p = .okChecked g ∨ p = .errDeleted g := by
  unfold Pc.owns at h
  simp only [Bool.or_eq_true, beq_iff_eq] at h
  rcases h with ((h | h) | h) | h <;> simp [h]

/-- a step that changes only participant `t`'s pc to a value that owns nothing, and nothing else -/
theorem inv_pc_nonowner (s : St) (t : Nat) (p : Pc) (hi : Inv s) (hp : ∀ g, p.owns g = false)
    (hnl : ∀ g, s.pcs t ≠ .leader g) : Inv { s with pcs := upd s.pcs t p } := by
  constructor
  · exact hi.closedLe
  · intro t' g hown
    by_cases ht : t' = t
    · subst ht; simp [hp] at hown
    · simp [ht] at hown; exact hi.owner t' g hown
  · intro g hg
    obtain ⟨e, he, hpc⟩ := hi.curOwned g hg
    refine ⟨e, he, ?_⟩
    by_cases ht : e.creator = t
    · rw [ht] at hpc; exact absurd hpc (hnl g)
    · simp [ht, hpc]
  · exact hi.fresh
  · exact hi.errProv

/-- a leader-side step of the owner `t` of entry `g`: pc `p → p'` (both own g or p' is final), the
    entry updated by `f` which keeps the creator -/
theorem inv_owner_step (s : St) (t g : Nat) (e : Entry) (p' : Pc) (e' : Entry) (cur' : Option Nat)
    (hi : Inv s) (hown : (s.pcs t).owns g = true) (he : s.entries g = some e)
    (hcre : e'.creator = e.creator)
    (hclosed : e'.closed ≤ 1)
    (hp' : (∀ g', p'.owns g' = true → g' = g ∧ e'.closed = 0))
    (hcur : cur' = s.cur ∨ cur' = none)
    (hcurok : ∀ g', cur' = some g' → g' = g → p' = .leader g)
    (hcurne : s.cur = some g → (cur' = none ∨ p' = .leader g))
    (herr : ∀ src, e'.err = some src → src = .upstream ∨ src = .cancelOf e.creator) :
    Inv { s with pcs := upd s.pcs t p', cur := cur', entries := upd s.entries g (some e') } := by
  obtain ⟨e0, he0, hc0, hcl0⟩ := hi.owner t g hown
  rw [he] at he0; cases he0
  constructor
  · intro g' x hx
    by_cases hg : g' = g
    · subst hg; simp at hx; subst hx; exact hclosed
    · simp [hg] at hx; exact hi.closedLe g' x hx
  · intro t' g' hown'
    by_cases ht : t' = t
    · subst ht
      simp at hown'
      obtain ⟨hg, hz⟩ := hp' g' hown'
      subst hg
      exact ⟨e', by simp, by rw [hcre, hc0], hz⟩
    · simp [ht] at hown'
      obtain ⟨x, hx, hcx, hclx⟩ := hi.owner t' g' hown'
      have hg : g' ≠ g := by
        intro hg; subst hg; rw [he] at hx; cases hx; exact ht (hcx.symm.trans hc0)
      exact ⟨x, by simp [hg, hx], hcx, hclx⟩
  · intro g' hg'
    simp only at hg'
    rcases hcur with hc | hc
    · rw [hc] at hg'
      obtain ⟨x, hx, hpx⟩ := hi.curOwned g' hg'
      by_cases hg : g' = g
      · subst hg
        rw [he] at hx; cases hx
        rcases hcurne hg' with h1 | h1
        · rw [hc] at h1; rw [h1] at hg'; cases hg'
        · exact ⟨e', by simp, by rw [hcre, hc0]; simp [h1]⟩
      · refine ⟨x, by simp [hg, hx], ?_⟩
        by_cases ht : x.creator = t
        · -- t would be leader of g' ≠ g while owning g: impossible (owner of g' is unique, pc is one value)
          rw [ht] at hpx
          have := owns_cases hown
          rw [hpx] at this
          simp at this
          exact absurd this hg
        · simp [ht, hpx]
    · rw [hc] at hg'; cases hg'
  · intro g' hg'
    have hne : g' ≠ g := by
      intro h; subst h; rw [hi.fresh g' hg'] at he; cases he
    simp [hne]; exact hi.fresh g' hg'
  · intro g' x src hx hsrc
    by_cases hg : g' = g
    · subst hg; simp at hx; subst hx; rw [hcre]; exact herr src hsrc
    · simp [hg] at hx; exact hi.errProv g' x src hx hsrc

/-- a follower-side step: `t` (not a leader) moves to a non-owning pc and bumps the follower count of g -/
theorem inv_follower_step (s : St) (t g : Nat) (e : Entry) (p' : Pc) (hi : Inv s)
    (he : s.entries g = some e) (hp : ∀ g', p'.owns g' = false) (hnl : ∀ g', s.pcs t ≠ .leader g') :
    Inv { s with pcs := upd s.pcs t p', entries := upd s.entries g (some { e with followers := e.followers + 1 }) } := by
  constructor
  · intro g' x hx
    by_cases hg : g' = g
    · subst hg; simp at hx; subst hx; exact hi.closedLe g' e he
    · simp [hg] at hx; exact hi.closedLe g' x hx
  · intro t' g' hown
    by_cases ht : t' = t
    · subst ht; simp [hp] at hown
    · simp [ht] at hown
      obtain ⟨x, hx, hcx, hclx⟩ := hi.owner t' g' hown
      by_cases hg : g' = g
      · subst hg; rw [he] at hx; cases hx
        exact ⟨{ e with followers := e.followers + 1 }, by simp, hcx, hclx⟩
      · exact ⟨x, by simp [hg, hx], hcx, hclx⟩
  · intro g' hg'
    obtain ⟨x, hx, hpx⟩ := hi.curOwned g' hg'
    by_cases hg : g' = g
    · subst hg; rw [he] at hx; cases hx
      refine ⟨{ e with followers := e.followers + 1 }, by simp, ?_⟩
      by_cases ht : e.creator = t
      · rw [ht] at hpx; exact absurd hpx (hnl g')
      · simp [ht, hpx]
    · refine ⟨x, by simp [hg, hx], ?_⟩
      by_cases ht : x.creator = t
      · rw [ht] at hpx; exact absurd hpx (hnl g')
      · simp [ht, hpx]
  · intro g' hg'
    have hne : g' ≠ g := by
      intro h; subst h; rw [hi.fresh g' hg'] at he; cases he
    simp [hne]; exact hi.fresh g' hg'
  · intro g' x src hx hsrc
    by_cases hg : g' = g
    · subst hg; simp at hx; subst hx; exact hi.errProv g' e src he hsrc
    · simp [hg] at hx; exact hi.errProv g' x src hx hsrc

theorem inv_step (s s' : St) (a : Act) (hi : Inv s) (h : step s a = some s') : Inv s' := by
  cases a with
  | arrive t =>
    simp only [step] at h
    split at h
    · rename_i hidle
      split at h
      · rename_i hcur
        simp at h; subst h
        have hfresh := hi.fresh s.nextGen (Nat.le_refl _)
        constructor
        · intro g e he
          by_cases hg : g = s.nextGen
          · subst hg; simp at he; subst he; simp
          · simp [hg] at he; exact hi.closedLe g e he
        · intro t' g hown
          by_cases ht : t' = t
          · subst ht
            simp at hown
            have := owns_cases hown
            simp at this
            subst this
            exact ⟨{ creator := t' }, by simp, rfl, rfl⟩
          · simp [ht] at hown
            obtain ⟨e, he, hc, hcl⟩ := hi.owner t' g hown
            have hg : g ≠ s.nextGen := by
              intro hg; subst hg; simp [hfresh] at he
            exact ⟨e, by simp [hg, he], hc, hcl⟩
        · intro g hg
          simp at hg; subst hg
          exact ⟨{ creator := t }, by simp, by simp⟩
        · intro g hg
          simp only at hg
          have : g ≠ s.nextGen := by omega
          simp [this]
          exact hi.fresh g (by omega)
        · intro g e src he herr
          by_cases hg : g = s.nextGen
          · subst hg; simp at he; subst he; simp at herr
          · simp [hg] at he; exact hi.errProv g e src he herr
      · rename_i g hcur
        simp at h; subst h
        exact inv_pc_nonowner s t (.looked g) hi (by intro g'; simp [Pc.owns]) (by intro g'; simp [hidle])
    · simp at h
  | addFollower t =>
    simp only [step] at h
    split at h
    · rename_i g hpc
      split at h
      · rename_i e he
        simp at h; subst h
        exact inv_follower_step s t g e (.waiting g) hi he (by intro g'; simp [Pc.owns]) (by intro g'; simp [hpc])
      · simp at h
    · simp at h
  | wake t =>
    simp only [step] at h
    split at h
    · rename_i g hpc
      split at h
      · rename_i e he
        split at h
        · split at h
          · simp at h; subst h
            exact inv_pc_nonowner s t _ hi (by intro g'; simp [Pc.owns]) (by intro g'; simp [hpc])
          · split at h
            · simp at h; subst h
              exact inv_pc_nonowner s t _ hi (by intro g'; simp [Pc.owns]) (by intro g'; simp [hpc])
            · simp at h; subst h
              exact inv_pc_nonowner s t _ hi (by intro g'; simp [Pc.owns]) (by intro g'; simp [hpc])
        · simp at h
      · simp at h
    · simp at h
  | cancelWait t =>
    simp only [step] at h
    split at h
    · rename_i g hpc
      simp at h; subst h
      exact inv_pc_nonowner s t _ hi (by intro g'; simp [Pc.owns]) (by intro g'; simp [hpc])
    · simp at h
  | finishOkDelete t =>
    simp only [step] at h
    split at h
    · rename_i g hpc
      simp at h; subst h
      have hown : (s.pcs t).owns g = true := by simp [hpc, Pc.owns]
      obtain ⟨e, he, hc, hcl⟩ := hi.owner t g hown
      have := inv_owner_step s t g e (.okDeleted g) e none hi hown he rfl (by omega)
        (by intro g' h'; have := owns_cases h'; simp at this; exact ⟨this.symm, hcl⟩)
        (Or.inr rfl) (by intro g' h'; cases h') (by intro _; exact Or.inl rfl)
        (by intro src hs; have := hi.errProv g e src he hs; exact this)
      have heq : upd s.entries g (some e) = s.entries := by
        funext x; by_cases hx : x = g
        · subst hx; simp [he]
        · simp [hx]
      rw [heq] at this
      exact this
    · simp at h
  | finishOkCheck t =>
    simp only [step] at h
    split at h
    · rename_i g hpc
      split at h
      · rename_i e he
        simp at h; subst h
        have hown : (s.pcs t).owns g = true := by simp [hpc, Pc.owns]
        obtain ⟨e0, he0, hc, hcl⟩ := hi.owner t g hown
        rw [he] at he0; cases he0
        have hcurne : s.cur ≠ some g := by
          intro hcur
          obtain ⟨x, hx, hpx⟩ := hi.curOwned g hcur
          rw [he] at hx; cases hx
          rw [hc, hpc] at hpx; cases hpx
        exact inv_owner_step s t g e (.okChecked g) _ s.cur hi hown he rfl (by simp; omega)
          (by intro g' h'; have := owns_cases h'; simp at this; exact ⟨this.symm, by simpa using hcl⟩)
          (Or.inl rfl) (by intro g' h1 h2; subst h2; exact absurd h1 hcurne)
          (by intro h1; exact absurd h1 hcurne)
          (by intro src hs; exact hi.errProv g e src he hs)
      · simp at h
    · simp at h
  | finishOkClose t =>
    simp only [step] at h
    split at h
    · rename_i g hpc
      split at h
      · rename_i e he
        simp at h; subst h
        have hown : (s.pcs t).owns g = true := by simp [hpc, Pc.owns]
        obtain ⟨e0, he0, hc, hcl⟩ := hi.owner t g hown
        rw [he] at he0; cases he0
        have hcurne : s.cur ≠ some g := by
          intro hcur
          obtain ⟨x, hx, hpx⟩ := hi.curOwned g hcur
          rw [he] at hx; cases hx
          rw [hc, hpc] at hpx; cases hpx
        exact inv_owner_step s t g e (.doneLeader g) _ s.cur hi hown he rfl (by simp; omega)
          (by intro g' h'; simp [Pc.owns] at h')
          (Or.inl rfl) (by intro g' h1 h2; subst h2; exact absurd h1 hcurne)
          (by intro h1; exact absurd h1 hcurne)
          (by intro src hs; exact hi.errProv g e src he hs)
      · simp at h
    · simp at h
  | finishErrDelete t src =>
    simp only [step] at h
    split at h
    · rename_i g hpc
      split at h
      · rename_i hsrc
        split at h
        · rename_i e he
          simp at h; subst h
          have hown : (s.pcs t).owns g = true := by simp [hpc, Pc.owns]
          obtain ⟨e0, he0, hc, hcl⟩ := hi.owner t g hown
          rw [he] at he0; cases he0
          exact inv_owner_step s t g e (.errDeleted g) _ none hi hown he rfl (by simp; omega)
            (by intro g' h'; have := owns_cases h'; simp at this; exact ⟨this.symm, by simpa using hcl⟩)
            (Or.inr rfl) (by intro g' h'; cases h') (by intro _; exact Or.inl rfl)
            (by intro src' hs; simp at hs; subst hs; rw [hc]; exact hsrc)
        · simp at h
      · simp at h
    · simp at h
  | finishErrClose t =>
    simp only [step] at h
    split at h
    · rename_i g hpc
      split at h
      · rename_i e he
        simp at h; subst h
        have hown : (s.pcs t).owns g = true := by simp [hpc, Pc.owns]
        obtain ⟨e0, he0, hc, hcl⟩ := hi.owner t g hown
        rw [he] at he0; cases he0
        have hcurne : s.cur ≠ some g := by
          intro hcur
          obtain ⟨x, hx, hpx⟩ := hi.curOwned g hcur
          rw [he] at hx; cases hx
          rw [hc, hpc] at hpx; cases hpx
        exact inv_owner_step s t g e (.doneLeader g) _ s.cur hi hown he rfl (by simp; omega)
          (by intro g' h'; simp [Pc.owns] at h')
          (Or.inl rfl) (by intro g' h1 h2; subst h2; exact absurd h1 hcurne)
          (by intro h1; exact absurd h1 hcurne)
          (by intro src hs; exact hi.errProv g e src he hs)
      · simp at h
    · simp at h

theorem inv_run (as : List Act) : ∀ s s', Inv s → run s as = some s' → Inv s' := by
  induction as with
  | nil => intro s s' hi h; simp [run] at h; subst h; exact hi
  | cons a as ih =>
    intro s s' hi h
    simp only [run] at h
    split at h
    · rename_i s1 hs1
      exact ih s1 s' (inv_step s s1 a hi hs1) h
    · simp at h

theorem inv_reach (s : St) (h : Reach s) : Inv s := by
  obtain ⟨as, has⟩ := h
  exact inv_run as St.init s inv_init has

/-! ### what followers return -/

/-- once an entry has been closed, its result fields never change again (only the follower counter can) -/
theorem step_entry_frozen (s s' : St) (a : Act) (hi : Inv s) (h : step s a = some s') (g : Nat) (e : Entry)
    (he : s.entries g = some e) (hcl : e.closed ≥ 1) :
    ∃ e', s'.entries g = some e' ∧ e'.closed = e.closed ∧ e'.dataSet = e.dataSet ∧ e'.err = e.err ∧
      e'.creator = e.creator := by
  have notOwner : ∀ t, (s.pcs t).owns g = true → False := by
    intro t hown
    obtain ⟨x, hx, _, hz⟩ := hi.owner t g hown
    rw [he] at hx; cases hx; omega
  cases a with
  | arrive t =>
    simp only [step] at h
    split at h
    · split at h
      · simp at h; subst h
        have hne : g ≠ s.nextGen := by
          intro hg; subst hg; rw [hi.fresh _ (Nat.le_refl _)] at he; cases he
        exact ⟨e, by simp [hne, he], rfl, rfl, rfl, rfl⟩
      · simp at h; subst h; exact ⟨e, he, rfl, rfl, rfl, rfl⟩
    · simp at h
  | addFollower t =>
    simp only [step] at h
    split at h
    · rename_i g' hpc
      split at h
      · rename_i e' he'
        simp at h; subst h
        by_cases hg : g = g'
        · subst hg; rw [he] at he'; cases he'
          exact ⟨{ e with followers := e.followers + 1 }, by simp, rfl, rfl, rfl, rfl⟩
        · exact ⟨e, by simp [hg, he], rfl, rfl, rfl, rfl⟩
      · simp at h
    · simp at h
  | wake t =>
    simp only [step] at h
    repeat' split at h
    all_goals first
      | (simp at h; done)
      | (simp at h; subst h; exact ⟨e, he, rfl, rfl, rfl, rfl⟩)
  | cancelWait t =>
    simp only [step] at h
    split at h
    · simp at h; subst h; exact ⟨e, he, rfl, rfl, rfl, rfl⟩
    · simp at h
  | finishOkDelete t =>
    simp only [step] at h
    split at h
    · simp at h; subst h; exact ⟨e, he, rfl, rfl, rfl, rfl⟩
    · simp at h
  | finishOkCheck t =>
    simp only [step] at h
    split at h
    · rename_i g' hpc
      split at h
      · rename_i e' he'
        simp at h; subst h
        have hg : g ≠ g' := by
          intro hg; subst hg; exact notOwner t (by simp [hpc, Pc.owns])
        exact ⟨e, by simp [hg, he], rfl, rfl, rfl, rfl⟩
      · simp at h
    · simp at h
  | finishOkClose t =>
    simp only [step] at h
    split at h
    · rename_i g' hpc
      split at h
      · rename_i e' he'
        simp at h; subst h
        have hg : g ≠ g' := by
          intro hg; subst hg; exact notOwner t (by simp [hpc, Pc.owns])
        exact ⟨e, by simp [hg, he], rfl, rfl, rfl, rfl⟩
      · simp at h
    · simp at h
  | finishErrDelete t src =>
    simp only [step] at h
    split at h
    · rename_i g' hpc
      split at h
      · split at h
        · rename_i e' he'
          simp at h; subst h
          have hg : g ≠ g' := by
            intro hg; subst hg; exact notOwner t (by simp [hpc, Pc.owns])
          exact ⟨e, by simp [hg, he], rfl, rfl, rfl, rfl⟩
        · simp at h
      · simp at h
    · simp at h
  | finishErrClose t =>
    simp only [step] at h
    split at h
    · rename_i g' hpc
      split at h
      · rename_i e' he'
        simp at h; subst h
        have hg : g ≠ g' := by
          intro hg; subst hg; exact notOwner t (by simp [hpc, Pc.owns])
        exact ⟨e, by simp [hg, he], rfl, rfl, rfl, rfl⟩
      · simp at h
    · simp at h

/-- what a follower's final pc records -/
structure Inv2 (s : St) : Prop where
  data : ∀ t g, s.pcs t = .gotData g → ∃ e, s.entries g = some e ∧ e.closed ≥ 1 ∧ e.dataSet = true ∧ e.err = none
  err : ∀ t g src, s.pcs t = .gotErr g src → ∃ e, s.entries g = some e ∧ e.closed ≥ 1 ∧ e.err = some src

theorem inv2_init : Inv2 St.init := by
  constructor <;> intros <;> simp_all [St.init]

/-- how a participant can come to hold a follower result -/
theorem step_pc_result (s s' : St) (a : Act) (h : step s a = some s') (t : Nat) :
    (∀ g, s'.pcs t = .gotData g → s.pcs t = .gotData g ∨
        ∃ e, s.entries g = some e ∧ e.closed > 0 ∧ e.dataSet = true ∧ e.err = none) ∧
    (∀ g src, s'.pcs t = .gotErr g src → s.pcs t = .gotErr g src ∨
        ∃ e, s.entries g = some e ∧ e.closed > 0 ∧ e.err = some src) := by
  cases a with
  | wake t' =>
    simp only [step] at h
    split at h
    · rename_i g' hpc
      split at h
      · rename_i e he
        split at h
        · rename_i hcl
          split at h
          · rename_i src hsrc
            simp at h; subst h
            by_cases ht : t = t'
            · subst ht
              refine ⟨by intro g hg; simp at hg, ?_⟩
              intro g src' hg
              simp at hg
              obtain ⟨rfl, rfl⟩ := hg
              exact Or.inr ⟨e, he, hcl, hsrc⟩
            · (simp [ht] <;> exact ⟨fun g h => Or.inl h, fun g src h => Or.inl h⟩)
          · rename_i hnone
            split at h
            · rename_i hds
              simp at h; subst h
              by_cases ht : t = t'
              · subst ht
                refine ⟨?_, by intro g src hg; simp at hg⟩
                intro g hg
                simp at hg; subst hg
                exact Or.inr ⟨e, he, hcl, hds, hnone⟩
              · (simp [ht] <;> exact ⟨fun g h => Or.inl h, fun g src h => Or.inl h⟩)
            · simp at h; subst h
              by_cases ht : t = t'
              · subst ht; simp
              · (simp [ht] <;> exact ⟨fun g h => Or.inl h, fun g src h => Or.inl h⟩)
        · simp at h
      · simp at h
    · simp at h
  | arrive t' =>
    simp only [step] at h
    repeat' split at h
    all_goals first
      | (simp at h; done)
      | (simp at h; subst h
         by_cases ht : t = t'
         · subst ht; simp
         · (simp [ht] <;> exact ⟨fun g h => Or.inl h, fun g src h => Or.inl h⟩))
  | addFollower t' =>
    simp only [step] at h
    repeat' split at h
    all_goals first
      | (simp at h; done)
      | (simp at h; subst h
         by_cases ht : t = t'
         · subst ht; simp
         · (simp [ht] <;> exact ⟨fun g h => Or.inl h, fun g src h => Or.inl h⟩))
  | cancelWait t' =>
    simp only [step] at h
    repeat' split at h
    all_goals first
      | (simp at h; done)
      | (simp at h; subst h
         by_cases ht : t = t'
         · subst ht; simp
         · (simp [ht] <;> exact ⟨fun g h => Or.inl h, fun g src h => Or.inl h⟩))
  | finishOkDelete t' =>
    simp only [step] at h
    repeat' split at h
    all_goals first
      | (simp at h; done)
      | (simp at h; subst h
         by_cases ht : t = t'
         · subst ht; simp
         · (simp [ht] <;> exact ⟨fun g h => Or.inl h, fun g src h => Or.inl h⟩))
  | finishOkCheck t' =>
    simp only [step] at h
    repeat' split at h
    all_goals first
      | (simp at h; done)
      | (simp at h; subst h
         by_cases ht : t = t'
         · subst ht; simp
         · (simp [ht] <;> exact ⟨fun g h => Or.inl h, fun g src h => Or.inl h⟩))
  | finishOkClose t' =>
    simp only [step] at h
    repeat' split at h
    all_goals first
      | (simp at h; done)
      | (simp at h; subst h
         by_cases ht : t = t'
         · subst ht; simp
         · (simp [ht] <;> exact ⟨fun g h => Or.inl h, fun g src h => Or.inl h⟩))
  | finishErrDelete t' src =>
    simp only [step] at h
    repeat' split at h
    all_goals first
      | (simp at h; done)
      | (simp at h; subst h
         by_cases ht : t = t'
         · subst ht; simp
         · (simp [ht] <;> exact ⟨fun g h => Or.inl h, fun g src h => Or.inl h⟩))
  | finishErrClose t' =>
    simp only [step] at h
    repeat' split at h
    all_goals first
      | (simp at h; done)
      | (simp at h; subst h
         by_cases ht : t = t'
         · subst ht; simp
         · (simp [ht] <;> exact ⟨fun g h => Or.inl h, fun g src h => Or.inl h⟩))

theorem inv2_step (s s' : St) (a : Act) (hi : Inv s) (h2 : Inv2 s) (h : step s a = some s') : Inv2 s' := by
  constructor
  · intro t g hpc
    rcases (step_pc_result s s' a h t).1 g hpc with hold | ⟨e, he, hcl, hds, herr⟩
    · obtain ⟨e, he, hcl, hds, herr⟩ := h2.data t g hold
      obtain ⟨e', he', h1, h2', h3, _⟩ := step_entry_frozen s s' a hi h g e he hcl
      exact ⟨e', he', by omega, by rw [h2', hds], by rw [h3, herr]⟩
    · obtain ⟨e', he', h1, h2', h3, _⟩ := step_entry_frozen s s' a hi h g e he hcl
      exact ⟨e', he', by omega, by rw [h2', hds], by rw [h3, herr]⟩
  · intro t g src hpc
    rcases (step_pc_result s s' a h t).2 g src hpc with hold | ⟨e, he, hcl, herr⟩
    · obtain ⟨e, he, hcl, herr⟩ := h2.err t g src hold
      obtain ⟨e', he', h1, _, h3, _⟩ := step_entry_frozen s s' a hi h g e he hcl
      exact ⟨e', he', by omega, by rw [h3, herr]⟩
    · obtain ⟨e', he', h1, _, h3, _⟩ := step_entry_frozen s s' a hi h g e he hcl
      exact ⟨e', he', by omega, by rw [h3, herr]⟩

theorem inv2_run (as : List Act) : ∀ s s', Inv s → Inv2 s → run s as = some s' → Inv2 s' := by
  induction as with
  | nil => intro s s' _ h2 h; simp [run] at h; subst h; exact h2
  | cons a as ih =>
    intro s s' hi h2 h
    simp only [run] at h
    split at h
    · rename_i s1 hs1
      exact ih s1 s' (inv_step s s1 a hi hs1) (inv2_step s s1 a hi h2 hs1) h
    · simp at h

theorem inv2_reach (s : St) (h : Reach s) : Inv2 s := by
  obtain ⟨as, has⟩ := h
  exact inv2_run as St.init s inv_init inv2_init has

/-! ### no wedge: an open entry always has a live owner -/

structure Inv3 (s : St) : Prop where
  live : ∀ g e, s.entries g = some e → e.closed = 0 → (s.pcs e.creator).owns g = true
  known : ∀ t g, (s.pcs t = .waiting g ∨ s.pcs t = .looked g) → ∃ e, s.entries g = some e

theorem inv3_init : Inv3 St.init := by
  constructor <;> intros <;> simp_all [St.init]

theorem inv3_step (s s' : St) (a : Act) (hi : Inv s) (h3 : Inv3 s) (h : step s a = some s') : Inv3 s' := by
  cases a with
  | arrive t =>
    simp only [step] at h
    split at h
    · rename_i hidle
      split at h
      · rename_i hcur
        simp at h; subst h
        have hfresh := hi.fresh s.nextGen (Nat.le_refl _)
        constructor
        · intro g e he hcl
          by_cases hg : g = s.nextGen
          · subst hg; simp at he; subst he; simp [Pc.owns]
          · simp [hg] at he
            have := h3.live g e he hcl
            by_cases ht : e.creator = t
            · rw [ht, hidle] at this; simp [Pc.owns] at this
            · simpa [ht] using this
        · intro t' g hw
          by_cases ht : t' = t
          · subst ht; simp at hw
          · simp [ht] at hw
            obtain ⟨e, he⟩ := h3.known t' g hw
            have hg : g ≠ s.nextGen := by intro hg; subst hg; rw [hfresh] at he; cases he
            exact ⟨e, by simp [hg, he]⟩
      · rename_i g hcur
        simp at h; subst h
        constructor
        · intro g' e he hcl
          have := h3.live g' e he hcl
          by_cases ht : e.creator = t
          · rw [ht, hidle] at this; simp [Pc.owns] at this
          · simpa [ht] using this
        · intro t' g' hw
          by_cases ht : t' = t
          · subst ht
            rcases hw with hw | hw
            · simp at hw
            · simp at hw; subst hw
              obtain ⟨e, he, _⟩ := hi.curOwned _ hcur
              exact ⟨e, he⟩
          · simp [ht] at hw; exact h3.known t' g' hw
    · simp at h
  | addFollower t =>
    simp only [step] at h
    split at h
    · rename_i g hpc
      split at h
      · rename_i e he
        simp at h; subst h
        constructor
        · intro g' x hx hcl
          by_cases hg : g' = g
          · subst hg; simp at hx; subst hx
            have := h3.live g' e he hcl
            by_cases ht : e.creator = t
            · rw [ht, hpc] at this; simp [Pc.owns] at this
            · simpa [ht] using this
          · simp [hg] at hx
            have := h3.live g' x hx hcl
            by_cases ht : x.creator = t
            · rw [ht, hpc] at this; simp [Pc.owns] at this
            · simpa [ht] using this
        · intro t' g' hw
          by_cases ht : t' = t
          · subst ht; simp at hw; subst hw; simp
          · simp [ht] at hw
            obtain ⟨x, hx⟩ := h3.known t' g' hw
            by_cases hg : g' = g
            · subst hg; simp
            · exact ⟨x, by simp [hg, hx]⟩
      · simp at h
    · simp at h
  | wake t =>
    simp only [step] at h
    split at h
    · rename_i g hpc
      have key : ∀ p : Pc, (∀ g', p ≠ .waiting g' ∧ p ≠ .looked g') → Inv3 { s with pcs := upd s.pcs t p } := by
        intro p hp
        constructor
        · intro g' x hx hcl
          have := h3.live g' x hx hcl
          by_cases ht : x.creator = t
          · rw [ht, hpc] at this; simp [Pc.owns] at this
          · simpa [ht] using this
        · intro t' g' hw
          by_cases ht : t' = t
          · subst ht; simp at hw; rcases hw with hw | hw
            · exact absurd hw (hp g').1
            · exact absurd hw (hp g').2
          · simp [ht] at hw; exact h3.known t' g' hw
      split at h
      · split at h
        · split at h
          · simp at h; subst h; exact key _ (by intro g'; simp)
          · split at h
            · simp at h; subst h; exact key _ (by intro g'; simp)
            · simp at h; subst h; exact key _ (by intro g'; simp)
        · simp at h
      · simp at h
    · simp at h
  | cancelWait t =>
    simp only [step] at h
    split at h
    · rename_i g hpc
      simp at h; subst h
      constructor
      · intro g' x hx hcl
        have := h3.live g' x hx hcl
        by_cases ht : x.creator = t
        · rw [ht, hpc] at this; simp [Pc.owns] at this
        · simpa [ht] using this
      · intro t' g' hw
        by_cases ht : t' = t
        · subst ht; simp at hw
        · simp [ht] at hw; exact h3.known t' g' hw
    · simp at h
  | finishOkDelete t =>
    simp only [step] at h
    split at h
    · rename_i g hpc
      simp at h; subst h
      constructor
      · intro g' x hx hcl
        have := h3.live g' x hx hcl
        by_cases ht : x.creator = t
        · rw [ht, hpc] at this
          have hg := owns_cases this; simp at hg; subst hg
          simp [ht, Pc.owns]
        · simpa [ht] using this
      · intro t' g' hw
        by_cases ht : t' = t
        · subst ht; simp at hw
        · simp [ht] at hw; exact h3.known t' g' hw
    · simp at h
  | finishOkCheck t =>
    simp only [step] at h
    split at h
    · rename_i g hpc
      split at h
      · rename_i e he
        simp at h; subst h
        constructor
        · intro g' x hx hcl
          by_cases hg : g' = g
          · subst hg; simp at hx; subst hx
            have := h3.live g' e he (by simpa using hcl)
            by_cases ht : e.creator = t
            · simp [ht, Pc.owns]
            · simp only at this ⊢; simpa [ht] using this
          · simp [hg] at hx
            have := h3.live g' x hx hcl
            by_cases ht : x.creator = t
            · rw [ht, hpc] at this
              have hg' := owns_cases this; simp at hg'; exact absurd hg'.symm hg
            · simpa [ht] using this
        · intro t' g' hw
          by_cases ht : t' = t
          · subst ht; simp at hw
          · simp [ht] at hw
            obtain ⟨x, hx⟩ := h3.known t' g' hw
            by_cases hg : g' = g
            · subst hg; simp
            · exact ⟨x, by simp [hg, hx]⟩
      · simp at h
    · simp at h
  | finishOkClose t =>
    simp only [step] at h
    split at h
    · rename_i g hpc
      split at h
      · rename_i e he
        simp at h; subst h
        constructor
        · intro g' x hx hcl
          by_cases hg : g' = g
          · subst hg; simp at hx; subst hx; simp at hcl
          · simp [hg] at hx
            have := h3.live g' x hx hcl
            by_cases ht : x.creator = t
            · rw [ht, hpc] at this
              have hg' := owns_cases this; simp at hg'; exact absurd hg'.symm hg
            · simpa [ht] using this
        · intro t' g' hw
          by_cases ht : t' = t
          · subst ht; simp at hw
          · simp [ht] at hw
            obtain ⟨x, hx⟩ := h3.known t' g' hw
            by_cases hg : g' = g
            · subst hg; simp
            · exact ⟨x, by simp [hg, hx]⟩
      · simp at h
    · simp at h
  | finishErrDelete t src =>
    simp only [step] at h
    split at h
    · rename_i g hpc
      split at h
      · split at h
        · rename_i e he
          simp at h; subst h
          constructor
          · intro g' x hx hcl
            by_cases hg : g' = g
            · subst hg; simp at hx; subst hx
              have := h3.live g' e he (by simpa using hcl)
              by_cases ht : e.creator = t
              · simp [ht, Pc.owns]
              · simp only at this ⊢; simpa [ht] using this
            · simp [hg] at hx
              have := h3.live g' x hx hcl
              by_cases ht : x.creator = t
              · rw [ht, hpc] at this
                have hg' := owns_cases this; simp at hg'; exact absurd hg'.symm hg
              · simpa [ht] using this
          · intro t' g' hw
            by_cases ht : t' = t
            · subst ht; simp at hw
            · simp [ht] at hw
              obtain ⟨x, hx⟩ := h3.known t' g' hw
              by_cases hg : g' = g
              · subst hg; simp
              · exact ⟨x, by simp [hg, hx]⟩
        · simp at h
      · simp at h
    · simp at h
  | finishErrClose t =>
    simp only [step] at h
    split at h
    · rename_i g hpc
      split at h
      · rename_i e he
        simp at h; subst h
        constructor
        · intro g' x hx hcl
          by_cases hg : g' = g
          · subst hg; simp at hx; subst hx; simp at hcl
          · simp [hg] at hx
            have := h3.live g' x hx hcl
            by_cases ht : x.creator = t
            · rw [ht, hpc] at this
              have hg' := owns_cases this; simp at hg'; exact absurd hg'.symm hg
            · simpa [ht] using this
        · intro t' g' hw
          by_cases ht : t' = t
          · subst ht; simp at hw
          · simp [ht] at hw
            obtain ⟨x, hx⟩ := h3.known t' g' hw
            by_cases hg : g' = g
            · subst hg; simp
            · exact ⟨x, by simp [hg, hx]⟩
      · simp at h
    · simp at h

theorem inv3_run (as : List Act) : ∀ s s', Inv s → Inv3 s → run s as = some s' → Inv3 s' := by
  induction as with
  | nil => intro s s' _ h3 h; simp [run] at h; subst h; exact h3
  | cons a as ih =>
    intro s s' hi h3 h
    simp only [run] at h
    split at h
    · rename_i s1 hs1
      exact ih s1 s' (inv_step s s1 a hi hs1) (inv3_step s s1 a hi h3 hs1) h
    · simp at h

theorem inv3_reach (s : St) (h : Reach s) : Inv3 s := by
  obtain ⟨as, has⟩ := h
  exact inv3_run as St.init s inv_init inv3_init has

end GqlVerif.SingleFlight
