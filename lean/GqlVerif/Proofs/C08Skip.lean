import GqlVerif.Plan.Skip
namespace GqlVerif.Plan.Skip

theorem mem_errored {fail : List Nat} {s : List F} {x : Nat} (h : x ∈ errored fail s) : ∃ f ∈ s, f.id = x := by
  induction s with
  | nil => simp [errored] at h
  | cons g t ih =>
    unfold errored at h
    split at h
    · rcases List.mem_cons.mp h with h | h
      · exact ⟨g, List.mem_cons_self, h.symm⟩
      · obtain ⟨f, hf, e⟩ := ih h; exact ⟨f, List.mem_cons_of_mem _ hf, e⟩
    · obtain ⟨f, hf, e⟩ := ih h; exact ⟨f, List.mem_cons_of_mem _ hf, e⟩

theorem mem_issued {fail : List Nat} {s : List F} {x : Nat} (h : x ∈ issued fail s) : ∃ f ∈ s, f.id = x := by
  induction s with
  | nil => simp [issued] at h
  | cons g t ih =>
    unfold issued at h
    split at h
    · obtain ⟨f, hf, e⟩ := ih h; exact ⟨f, List.mem_cons_of_mem _ hf, e⟩
    · rcases List.mem_cons.mp h with h | h
      · exact ⟨g, List.mem_cons_self, h.symm⟩
      · obtain ⟨f, hf, e⟩ := ih h; exact ⟨f, List.mem_cons_of_mem _ hf, e⟩

theorem hit_iff (fail e : List Nat) (f : F) : hit fail e f = true ↔ (f.id ∈ fail ∨ ∃ d ∈ f.deps, d ∈ e) := by
  simp [hit, List.any_eq_true]
  constructor
  · rintro (⟨d, hd, he⟩ | h)
    · exact Or.inr ⟨d, hd, he⟩
    · exact Or.inl h
  · rintro (h | ⟨d, hd, he⟩)
    · exact Or.inr h
    · exact Or.inl ⟨d, hd, he⟩

theorem errored_cons_mem (fail : List Nat) (g : F) (t : List F) (x : Nat) :
    x ∈ errored fail (g :: t) ↔ (x = g.id ∧ hit fail (errored fail t) g = true) ∨ x ∈ errored fail t := by
  show x ∈ (if hit fail (errored fail t) g then g.id :: errored fail t else errored fail t) ↔ _
  split <;> simp_all

theorem WO_tail {g : F} {t : List F} (h : WO (g :: t)) : WO t :=
  ⟨(List.pairwise_cons.mp h.1).2, fun f hf => h.2 f (List.mem_cons_of_mem _ hf)⟩

/-- the errored set is the fixpoint: a fetch is errored iff its own request fails or it reads from an errored one -/
theorem errored_iff (fail : List Nat) : ∀ (s : List F), WO s → ∀ f ∈ s,
    (f.id ∈ errored fail s ↔ (f.id ∈ fail ∨ ∃ d ∈ f.deps, d ∈ errored fail s))
  | [], _, f, hf => by simp at hf
  | g :: t, hw, f, hf => by
    have hp := List.pairwise_cons.mp hw.1
    have hg_notin : g.id ∉ errored fail t := fun h => by
      obtain ⟨f', hf', e⟩ := mem_errored h
      exact (hp.1 f' hf').1 e
    rcases List.mem_cons.mp hf with rfl | hft
    · rw [errored_cons_mem, hit_iff]
      have hself := hw.2 f List.mem_cons_self
      constructor
      · rintro (⟨_, h | ⟨d, hd, he⟩⟩ | h)
        · exact Or.inl h
        · exact Or.inr ⟨d, hd, (errored_cons_mem ..).mpr (Or.inr he)⟩
        · exact absurd h hg_notin
      · rintro (h | ⟨d, hd, he⟩)
        · exact Or.inl ⟨rfl, Or.inl h⟩
        · rcases (errored_cons_mem ..).mp he with ⟨e, _⟩ | he
          · exact absurd (e ▸ hd) hself
          · exact Or.inl ⟨rfl, Or.inr ⟨d, hd, he⟩⟩
    · have hne := (hp.1 f hft).1
      have hnd := (hp.1 f hft).2
      have ih := errored_iff fail t (WO_tail hw) f hft
      rw [errored_cons_mem]
      constructor
      · rintro (⟨e, _⟩ | h)
        · exact absurd e hne
        · rcases ih.mp h with h | ⟨d, hd, he⟩
          · exact Or.inl h
          · exact Or.inr ⟨d, hd, (errored_cons_mem ..).mpr (Or.inr he)⟩
      · rintro (h | ⟨d, hd, he⟩)
        · exact Or.inr (ih.mpr (Or.inl h))
        · rcases (errored_cons_mem ..).mp he with ⟨e, _⟩ | he
          · exact absurd (e ▸ hd) hnd
          · exact Or.inr (ih.mpr (Or.inr ⟨d, hd, he⟩))

/-- a fetch of the linearisation is issued iff none of its dependencies is errored (at the end, equivalently when it is reached) -/
theorem issued_iff (fail : List Nat) : ∀ (s : List F), WO s → ∀ f ∈ s,
    (f.id ∈ issued fail s ↔ ∀ d ∈ f.deps, d ∉ errored fail s)
  | [], _, f, hf => by simp at hf
  | g :: t, hw, f, hf => by
    have hp := List.pairwise_cons.mp hw.1
    have hg_notin : g.id ∉ issued fail t := fun h => by
      obtain ⟨f', hf', e⟩ := mem_issued h
      exact (hp.1 f' hf').1 e
    have hcons : ∀ x, x ∈ issued fail (g :: t) ↔
        (x = g.id ∧ ¬ (g.deps.any (fun d => (errored fail t).contains d) = true)) ∨ x ∈ issued fail t := by
      intro x
      show x ∈ (if g.deps.any (fun d => (errored fail t).contains d) then issued fail t else g.id :: issued fail t) ↔ _
      split <;> simp_all
    rcases List.mem_cons.mp hf with rfl | hft
    · have hself := hw.2 f List.mem_cons_self
      rw [hcons]
      constructor
      · rintro (⟨_, h⟩ | h)
        · intro d hd he
          rcases (errored_cons_mem ..).mp he with ⟨e, _⟩ | he
          · exact absurd (e ▸ hd) hself
          · exact h (List.any_eq_true.mpr ⟨d, hd, by simpa using he⟩)
        · exact absurd h hg_notin
      · intro h
        refine Or.inl ⟨rfl, fun hany => ?_⟩
        obtain ⟨d, hd, he⟩ := List.any_eq_true.mp hany
        exact h d hd ((errored_cons_mem ..).mpr (Or.inr (by simpa using he)))
    · have hne := (hp.1 f hft).1
      have hnd := (hp.1 f hft).2
      have ih := issued_iff fail t (WO_tail hw) f hft
      rw [hcons]
      constructor
      · rintro (⟨e, _⟩ | h)
        · exact absurd e hne
        · intro d hd he
          rcases (errored_cons_mem ..).mp he with ⟨e, _⟩ | he
          · exact absurd (e ▸ hd) hnd
          · exact ih.mp h d hd he
      · intro h
        exact Or.inr (ih.mpr (fun d hd he => h d hd ((errored_cons_mem ..).mpr (Or.inr he))))

/-- two legal linearisations of the same fetches reach the same errored set -/
theorem errored_perm (fail : List Nat) (s₁ s₂ : List F) (h₁ : WO s₁) (h₂ : WO s₂) (hp : s₁.Perm s₂) :
    ∀ x, x ∈ errored fail s₁ ↔ x ∈ errored fail s₂ := by
  -- along s₁, earliest fetch first: every suffix agrees
  have key : ∀ (t p : List F), s₁ = p ++ t → ∀ f ∈ t, (f.id ∈ errored fail s₁ ↔ f.id ∈ errored fail s₂) := by
    intro t
    induction t with
    | nil => intro p _ f hf; simp at hf
    | cons g t' ih =>
      intro p hs f hf
      have ih' := ih (p ++ [g]) (by simp [hs])
      rcases List.mem_cons.mp hf with rfl | hft
      · have hf1 : f ∈ s₁ := by rw [hs]; simp
        have hf2 : f ∈ s₂ := hp.mem_iff.mp hf1
        rw [errored_iff fail s₁ h₁ f hf1, errored_iff fail s₂ h₂ f hf2]
        -- a dependency of f that is the id of a fetch of s₁ is the id of a fetch of t'
        have dep_in : ∀ d ∈ f.deps, ∀ h ∈ s₁, h.id = d → h ∈ t' := by
          intro d hd h hh e
          rw [hs] at hh
          rcases List.mem_append.mp hh with hh | hh
          · have hpw := h₁.1
            rw [hs, List.pairwise_append] at hpw
            exact absurd (e ▸ hd) (hpw.2.2 h hh f List.mem_cons_self).2
          · rcases List.mem_cons.mp hh with rfl | hh
            · exact absurd (e ▸ hd) (h₁.2 h hf1)
            · exact hh
        constructor
        · rintro (h | ⟨d, hd, he⟩)
          · exact Or.inl h
          · obtain ⟨h, hh, e⟩ := mem_errored he
            have := dep_in d hd h hh e
            exact Or.inr ⟨d, hd, e ▸ (ih' h this).mp (e ▸ he)⟩
        · rintro (h | ⟨d, hd, he⟩)
          · exact Or.inl h
          · obtain ⟨h, hh, e⟩ := mem_errored he
            have hh1 : h ∈ s₁ := hp.mem_iff.mpr hh
            have := dep_in d hd h hh1 e
            exact Or.inr ⟨d, hd, e ▸ (ih' h this).mpr (e ▸ he)⟩
      · exact ih' f hft
  intro x
  constructor
  · intro h
    obtain ⟨f, hf, e⟩ := mem_errored h
    exact e ▸ (key s₁ [] rfl f hf).mp (e ▸ h)
  · intro h
    obtain ⟨f, hf, e⟩ := mem_errored h
    have hf1 : f ∈ s₁ := hp.mem_iff.mpr hf
    exact e ▸ (key s₁ [] rfl f hf1).mpr (e ▸ h)

/-- … and issue the same requests -/
theorem issued_perm (fail : List Nat) (s₁ s₂ : List F) (h₁ : WO s₁) (h₂ : WO s₂) (hp : s₁.Perm s₂) :
    ∀ x, x ∈ issued fail s₁ ↔ x ∈ issued fail s₂ := by
  have he := errored_perm fail s₁ s₂ h₁ h₂ hp
  intro x
  constructor
  · intro h
    obtain ⟨f, hf, e⟩ := mem_issued h
    subst e
    have hf2 := hp.mem_iff.mp hf
    exact (issued_iff fail s₂ h₂ f hf2).mpr (fun d hd hd2 => (issued_iff fail s₁ h₁ f hf).mp h d hd ((he d).mpr hd2))
  · intro h
    obtain ⟨f, hf, e⟩ := mem_issued h
    subst e
    have hf1 := hp.mem_iff.mpr hf
    exact (issued_iff fail s₁ h₁ f hf1).mpr (fun d hd hd1 => (issued_iff fail s₂ h₂ f hf).mp h d hd ((he d).mp hd1))

end GqlVerif.Plan.Skip
