/-
  Proofs.C05 — helper lemmas about the lexer model (bounds and progress of every scanning loop).
-/
import GqlVerif.Gql.Lex
set_option linter.unusedSimpArgs false
set_option linter.unusedVariables false
namespace GqlVerif.Lex

theorem skipWs_bounds (inp : Input) : ∀ fuel pos, pos ≤ inp.size →
    pos ≤ skipWs inp fuel pos ∧ skipWs inp fuel pos ≤ inp.size := by
  intro fuel
  induction fuel with
  | zero => intro pos h; simp [skipWs, h]
  | succ n ih =>
    intro pos h
    unfold skipWs
    split
    · split
      · have := ih (pos + 1) (by omega); omega
      · omega
    · omega

theorem scanWhile_bounds (inp : Input) (p : UInt8 → Bool) : ∀ fuel pos, pos ≤ inp.size →
    pos ≤ scanWhile inp p fuel pos ∧ scanWhile inp p fuel pos ≤ inp.size := by
  intro fuel
  induction fuel with
  | zero => intro pos h; simp [scanWhile, h]
  | succ n ih =>
    intro pos h
    unfold scanWhile
    split
    · split
      · have := ih (pos + 1) (by omega); omega
      · omega
    · omega

theorem commentLoop_bounds (inp : Input) : ∀ fuel pos stop, stop ≤ pos → pos ≤ inp.size →
    stop ≤ (commentLoop inp fuel pos stop).1 ∧ (commentLoop inp fuel pos stop).1 ≤ (commentLoop inp fuel pos stop).2 ∧
    (commentLoop inp fuel pos stop).2 ≤ inp.size ∧ pos ≤ (commentLoop inp fuel pos stop).2 := by
  intro fuel
  induction fuel with
  | zero => intro pos stop h1 h2; simp [commentLoop]; omega
  | succ n ih =>
    intro pos stop h1 h2
    unfold commentLoop
    split
    · simp only
      split
      · simp; omega
      · split
        · split
          · simp; omega
          · have := ih (pos + 1) stop (by omega) (by omega); omega
        · have := ih (pos + 1) (pos + 1) (by omega) (by omega); omega
    · simp; omega

theorem stringLoop_bounds (inp : Input) : ∀ fuel pos esc, pos ≤ inp.size →
    pos ≤ (stringLoop inp fuel pos esc).1 + (if esc then 1 else 0) ∧ (stringLoop inp fuel pos esc).1 ≤ (stringLoop inp fuel pos esc).2 ∧
    (stringLoop inp fuel pos esc).2 ≤ inp.size := by
  intro fuel
  induction fuel with
  | zero => intro pos esc h; simp [stringLoop]; omega
  | succ n ih =>
    intro pos esc h
    have h1 := ih (pos + 1) false
    have h2 := ih (pos + 1) true
    simp only [Bool.false_eq_true, ↓reduceIte] at h1 h2
    unfold stringLoop
    cases esc <;> simp only [Bool.not_true, Bool.not_false, Bool.false_eq_true, ↓reduceIte] <;>
      (repeat' split) <;> (try simp) <;> omega

/-- invariant of the block-string counters: everything counted lies between the content start and
    the current position — this is what makes `End = pos − 3 − whitespaceCount` and
    `Start += leadingWhitespace` safe in `uint32`. -/
structure BSInv (s0 pos : Nat) (st : BS) : Prop where
  le : s0 ≤ pos
  q3 : st.quoteCount < 3
  fit : s0 + st.leading + st.wsCount + st.quoteCount ≤ pos
  lead0 : st.reached = false → st.leading = 0

def BGood (inp : Input) (s0 pos : Nat) (r : Nat × Nat × Nat) : Prop :=
  r.1 ≤ r.2.1 ∧ r.2.1 ≤ r.2.2 ∧ r.2.2 ≤ inp.size ∧ pos ≤ r.2.2 ∧ s0 ≤ r.1

theorem BGood.mono {inp : Input} {s0 pos : Nat} {r : Nat × Nat × Nat} (h : BGood inp s0 (pos + 1) r) :
    BGood inp s0 pos r := by
  unfold BGood at *; omega

theorem blockLoop_bounds (inp : Input) (s0 : Nat) : ∀ fuel pos st, BSInv s0 pos st → pos ≤ inp.size →
    BGood inp s0 pos (blockLoop inp s0 fuel pos st) := by
  intro fuel
  induction fuel with
  | zero =>
    intro pos st hi hp
    have := hi.fit
    simp [blockLoop, BGood]; omega
  | succ n ih =>
    intro pos st hi hp
    have hfit := hi.fit
    have hq := hi.q3
    have hle := hi.le
    unfold blockLoop
    split
    · simp only
      split
      · exact (ih _ _ ⟨by omega, by simp, by simp; omega, by simpa using hi.lead0⟩ (by omega)).mono
      · split
        · simp [BGood]; omega
        · split
          · split
            · exact (ih _ _ ⟨by omega, by simpa using hq, by simp; omega, by simpa using hi.lead0⟩ (by omega)).mono
            · split
              · rename_i heq
                simp at heq
                simp [BGood]; omega
              · rename_i hne
                have : st.quoteCount + 1 < 3 := by
                  simp at hne; omega
                exact (ih _ _ ⟨by omega, by simpa using this, by simp; omega, by simpa using hi.lead0⟩ (by omega)).mono
          · split
            · exact (ih _ _ ⟨by omega, by simp, by simp; omega, by simpa using hi.lead0⟩ (by omega)).mono
            · cases hr : st.reached with
              | true =>
                simp only [if_true]
                exact (ih _ _ ⟨by omega, by simp, by simp; omega, by intro h; simp [hr] at h⟩ (by omega)).mono
              | false =>
                have hl0 := hi.lead0 hr
                simp only [Bool.false_eq_true, if_false]
                exact (ih _ _ ⟨by omega, by simp, by simp; omega, by simp⟩ (by omega)).mono
    · simp [BGood]; omega

theorem numberEnd_bounds (inp : Input) (p1 : Nat) (h : p1 ≤ inp.size) :
    p1 ≤ (numberEnd inp p1).2 ∧ (numberEnd inp p1).2 ≤ inp.size := by
  unfold numberEnd
  simp only
  have h1 := scanWhile_bounds inp isDigit (inp.size + 1) p1 h
  split
  · rename_i hf
    simp at hf
    have hq := hf.2
    have h2 := scanWhile_bounds inp isDigit (inp.size + 1) (scanWhile inp isDigit (inp.size + 1) p1 + 1) (by omega)
    split
    · -- exponent directly after the integer part: optional sign, digits
      simp only
      generalize hq1 : scanWhile inp isDigit (inp.size + 1) p1 + 1 = q1 at *
      have e1 : q1 ≤ (if ((byteAt inp q1 == 45 || byteAt inp q1 == 43) && decide (q1 < inp.size)) = true then q1 + 1 else q1) ∧
          (if ((byteAt inp q1 == 45 || byteAt inp q1 == 43) && decide (q1 < inp.size)) = true then q1 + 1 else q1) ≤ inp.size := by
        split
        · rename_i hc; simp at hc; omega
        · omega
      generalize (if ((byteAt inp q1 == 45 || byteAt inp q1 == 43) && decide (q1 < inp.size)) = true then q1 + 1 else q1) = q1' at *
      have h3 := scanWhile_bounds inp isDigit (inp.size + 1) q1' e1.2
      omega
    · simp only
      generalize hq2 : scanWhile inp isDigit (inp.size + 1) (scanWhile inp isDigit (inp.size + 1) p1 + 1) = q2 at *
      have e3 : q2 ≤ (if ((byteAt inp q2 == 101 || byteAt inp q2 == 69) && decide (q2 < inp.size)) = true then q2 + 1 else q2) ∧
          (if ((byteAt inp q2 == 101 || byteAt inp q2 == 69) && decide (q2 < inp.size)) = true then q2 + 1 else q2) ≤ inp.size := by
        split
        · rename_i hc; simp at hc; omega
        · omega
      generalize (if ((byteAt inp q2 == 101 || byteAt inp q2 == 69) && decide (q2 < inp.size)) = true then q2 + 1 else q2) = q3 at *
      have e4 : q3 ≤ (if ((byteAt inp q3 == 45 || byteAt inp q3 == 43) && decide (q3 < inp.size)) = true then q3 + 1 else q3) ∧
          (if ((byteAt inp q3 == 45 || byteAt inp q3 == 43) && decide (q3 < inp.size)) = true then q3 + 1 else q3) ≤ inp.size := by
        split
        · rename_i hc; simp at hc; omega
        · omega
      generalize (if ((byteAt inp q3 == 45 || byteAt inp q3 == 43) && decide (q3 < inp.size)) = true then q3 + 1 else q3) = q4 at *
      have h5 := scanWhile_bounds inp isDigit (inp.size + 1) q4 (by omega)
      omega
  · simp; omega

/-- what `read` guarantees about the token and the next position -/
def RGood (inp : Input) (pos : Nat) (r : Tok × Nat) : Prop :=
  pos ≤ r.1.start ∧ r.1.start ≤ r.1.stop ∧ r.1.stop ≤ r.2 ∧ r.2 ≤ inp.size ∧ (r.1.kw ≠ .eof → pos < r.2)

theorem read_good (inp : Input) (pos : Nat) (h : pos ≤ inp.size) : RGood inp pos (read inp pos) := by
  unfold read
  simp only
  have hs := skipWs_bounds inp (inp.size + 1) pos h
  generalize skipWs inp (inp.size + 1) pos = p at *
  split
  · rename_i hp
    split
    · simp [RGood]; omega
    · split
      · simp [RGood]; omega
      · split
        · have := commentLoop_bounds inp (inp.size + 1) (p + 1) (p + 1) (by omega) (by omega)
          generalize commentLoop inp (inp.size + 1) (p + 1) (p + 1) = r at *
          obtain ⟨a, b⟩ := r
          simp [RGood] at *; omega
        · split
          · split
            · rename_i hb
              simp at hb
              have := blockLoop_bounds inp (p + 3) (inp.size + 1) (p + 3) {} ⟨by omega, by simp, by simp, by simp⟩ (by omega)
              generalize blockLoop inp (p + 3) (inp.size + 1) (p + 3) {} = r at *
              obtain ⟨a, b, c⟩ := r
              simp [RGood, BGood] at *; omega
            · have := stringLoop_bounds inp (inp.size + 1) (p + 1) false (by omega)
              generalize stringLoop inp (inp.size + 1) (p + 1) false = r at *
              obtain ⟨a, b⟩ := r
              simp [RGood] at *; omega
          · split
            · split
              · rename_i hb; simp at hb; simp [RGood]; omega
              · simp [RGood]; omega
            · split
              · have := numberEnd_bounds inp (p + 1) (by omega)
                generalize numberEnd inp (p + 1) = r at *
                obtain ⟨a, b⟩ := r
                simp [RGood] at *; omega
              · have := scanWhile_bounds inp isIdent (inp.size + 1) (p + 1) (by omega)
                simp [RGood]; omega
  · simp [RGood]; omega

/-- every token produced by `tokenizeFrom` lies inside the input, with `start ≤ stop` -/
theorem tokenizeFrom_bounds (inp : Input) : ∀ fuel pos, pos ≤ inp.size →
    ∀ t ∈ tokenizeFrom inp fuel pos, pos ≤ t.start ∧ t.start ≤ t.stop ∧ t.stop ≤ inp.size := by
  intro fuel
  induction fuel with
  | zero => intro pos h t ht; simp [tokenizeFrom] at ht
  | succ n ih =>
    intro pos h t ht
    unfold tokenizeFrom at ht
    have hg := read_good inp pos h
    generalize read inp pos = r at *
    obtain ⟨tk, q⟩ := r
    simp only at ht
    split at ht
    · simp at ht
    · simp [RGood] at hg
      rcases List.mem_cons.mp ht with rfl | hmem
      · omega
      · have := ih q (by omega) t hmem; omega

/-- tokens come out in input order and never overlap -/
theorem tokenizeFrom_sorted (inp : Input) : ∀ fuel pos, pos ≤ inp.size →
    (tokenizeFrom inp fuel pos).Pairwise (fun a b => a.stop ≤ b.start) := by
  intro fuel
  induction fuel with
  | zero => intro pos h; simp [tokenizeFrom]
  | succ n ih =>
    intro pos h
    unfold tokenizeFrom
    have hg := read_good inp pos h
    generalize hr : read inp pos = r at *
    obtain ⟨tk, q⟩ := r
    simp only
    split
    · simp
    · simp [RGood] at hg
      refine List.pairwise_cons.mpr ⟨?_, ih q (by omega)⟩
      intro b hb
      have := tokenizeFrom_bounds inp n q (by omega) b hb
      omega

/-- the fuel `size + 1` is never what stops the tokenizer: with `size - pos + 1` fuel left the
    loop has reached EOF, so any larger fuel gives the same result -/
theorem tokenizeFrom_fuel (inp : Input) : ∀ fuel pos, pos ≤ inp.size → inp.size - pos + 1 ≤ fuel →
    tokenizeFrom inp fuel pos = tokenizeFrom inp (fuel + 1) pos := by
  intro fuel
  induction fuel with
  | zero => intro pos h hf; omega
  | succ n ih =>
    intro pos h hf
    rw [tokenizeFrom, tokenizeFrom]
    have hg := read_good inp pos h
    generalize hr : read inp pos = r at *
    obtain ⟨tk, q⟩ := r
    simp only
    split
    · rfl
    · rename_i hne
      simp [RGood] at hg
      have hlt := hg.2.2.2.2 (by simpa using hne)
      rw [ih q (by omega) (by omega)]

end GqlVerif.Lex
