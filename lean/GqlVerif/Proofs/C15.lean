/-
  Proofs.C15 — helper lemmas for Props.C15.
-/
import GqlVerif.Gql.Value
namespace GqlVerif.Value

theorem simpleEscape_ge {e v : Nat} (h : simpleEscape e = some v) : 32 ≤ e := by
  unfold simpleEscape at h
  repeat' split at h
  all_goals first | omega | cases h

theorem isHex_ge {c : Nat} (h : isHex c = true) : 32 ≤ c := by
  unfold isHex at h
  simp at h
  omega

theorem escapeControls_cons_ge (c : Nat) (cs : List Nat) (h : 32 ≤ c) : escapeControls (c :: cs) = c :: escapeControls cs := by
  simp only [escapeControls]
  have h1 : c ≠ 9 := by omega
  have h2 : ¬ c < 32 := by omega
  simp [h1, h2]

theorem simpleEscape_ne_u {e v : Nat} (h : simpleEscape e = some v) : e ≠ 117 := by
  intro he; subst he; simp [simpleEscape] at h

theorem jsonUnits_simple (e v : Nat) (rest : List Nat) (hv : simpleEscape e = some v) :
    jsonUnits (bs :: e :: rest) = (jsonUnits rest).map (Sum.inl v :: ·) := by
  have hne := simpleEscape_ne_u hv
  rw [jsonUnits.eq_def]
  simp only [if_true]
  split
  · next a b c' d rest' heq =>
    injection heq with h1 h2
    exact absurd h1 hne
  · next e' rest' _ heq =>
    injection heq with h1 h2
    subst h1 h2
    simp [hv]
  · next heq => cases heq

theorem jsonUnits_u (a b c' d : Nat) (rest : List Nat) (hh : (isHex a && isHex b && isHex c' && isHex d) = true) :
    jsonUnits (bs :: 117 :: a :: b :: c' :: d :: rest) =
      (jsonUnits rest).map (Sum.inr (((hexVal a * 16 + hexVal b) * 16 + hexVal c') * 16 + hexVal d) :: ·) := by
  rw [jsonUnits.eq_def]
  simp [hh]

theorem jsonUnits_plain (c : Nat) (cs : List Nat) (h1 : c ≠ bs) (h2 : 32 ≤ c) (h3 : c ≠ q) :
    jsonUnits (c :: cs) = (jsonUnits cs).map (Sum.inl c :: ·) := by
  rw [jsonUnits.eq_def]
  have : ¬ (c < 32 ∨ c = q) := by
    intro h'; rcases h' with h' | h'
    · omega
    · exact h3 h'
  simp [h1, this]

/-- GraphQL and JSON agree on every single-line string body GraphQL accepts, once raw control characters (TAB) are
    escaped the way the converter does it -/
theorem json_reads_escaped (c : List Nat) (u : Units) (h : gqlUnits c = some u) : jsonUnits (escapeControls c) = some u := by
  fun_induction gqlUnits c generalizing u with
  | case1 => simp [escapeControls, jsonUnits] at h ⊢; exact h
  | case2 a b c' d rest hhex ih =>
    -- \uXXXX
    simp only [Option.map_eq_some_iff] at h
    obtain ⟨u', hu', rfl⟩ := h
    have hh := hhex
    simp only [Bool.and_eq_true] at hh
    rw [escapeControls_cons_ge bs _ (by decide), escapeControls_cons_ge 117 _ (by decide),
        escapeControls_cons_ge a _ (isHex_ge hh.1.1.1), escapeControls_cons_ge b _ (isHex_ge hh.1.1.2),
        escapeControls_cons_ge c' _ (isHex_ge hh.1.2), escapeControls_cons_ge d _ (isHex_ge hh.2)]
    rw [jsonUnits_u a b c' d _ hhex]
    simp [ih u' hu']
  | case3 a b c' d rest hhex => simp at h
  | case4 e rest hne v hv ih =>
    simp only [Option.map_eq_some_iff] at h
    obtain ⟨u', hu', rfl⟩ := h
    rw [escapeControls_cons_ge bs _ (by decide), escapeControls_cons_ge e _ (simpleEscape_ge hv), jsonUnits_simple e v _ hv]
    simp [ih u' hu']
  | case5 e rest hne hv => simp at h
  | case6 => simp at h
  | case7 c cs hbs hbad => simp at h
  | case8 c cs hbs hok ih =>
    simp only [Option.map_eq_some_iff] at h
    obtain ⟨u', hu', rfl⟩ := h
    have hq : c ≠ q := fun e => hok (Or.inr e)
    by_cases h9 : c = 9
    · subst h9
      have : escapeControls (9 :: cs) = bs :: 116 :: escapeControls cs := by simp [escapeControls]
      rw [this, jsonUnits_simple 116 9 _ (by simp [simpleEscape])]
      simp [ih u' hu']
    · have hge : 32 ≤ c := by
        apply Nat.le_of_not_lt; intro hlt; exact hok (Or.inl ⟨hlt, h9⟩)
      rw [escapeControls_cons_ge c _ hge, jsonUnits_plain c _ hbs hge hq]
      simp [ih u' hu']

end GqlVerif.Value

namespace GqlVerif.Value

/-- Go's encoder output is read back by JSON as the bytes it was given (ASCII) -/
theorem json_reads_encoded (v : List Nat) (h : ∀ c ∈ v, c < 128) : (jsonUnits (goEncodeBytes v)).isSome = true := by
  induction v with
  | nil => simp [goEncodeBytes, jsonUnits]
  | cons c cs ih =>
    have hu := ih (fun x hx => h x (List.mem_cons_of_mem _ hx))
    have hc := h c (List.mem_cons_self ..)
    simp only [goEncodeBytes]
    by_cases h1 : c = q
    · subst h1; simp only [if_true]
      show (jsonUnits (bs :: q :: goEncodeBytes cs)).isSome = true
      rw [jsonUnits_simple q 34 _ (by simp [simpleEscape, q])]
      simpa using hu
    · by_cases h2 : c = bs
      · subst h2; simp only [h1, if_false, if_true]
        show (jsonUnits (bs :: bs :: goEncodeBytes cs)).isSome = true
        rw [jsonUnits_simple bs 92 _ (by simp [simpleEscape, bs])]
        simpa using hu
      · by_cases h3 : c = 10
        · subst h3; simp only [h1, h2, if_false, if_true]
          show (jsonUnits (bs :: 110 :: goEncodeBytes cs)).isSome = true
          rw [jsonUnits_simple 110 10 _ (by simp [simpleEscape])]
          simpa using hu
        · by_cases h4 : c = 13
          · subst h4; simp only [h1, h2, h3, if_false, if_true]
            show (jsonUnits (bs :: 114 :: goEncodeBytes cs)).isSome = true
            rw [jsonUnits_simple 114 13 _ (by simp [simpleEscape])]
            simpa using hu
          · by_cases h5 : c = 9
            · subst h5; simp only [h1, h2, h3, h4, if_false, if_true]
              show (jsonUnits (bs :: 116 :: goEncodeBytes cs)).isSome = true
              rw [jsonUnits_simple 116 9 _ (by simp [simpleEscape])]
              simpa using hu
            · by_cases h6 : c = 8
              · subst h6; simp only [h1, h2, h3, h4, h5, if_false, if_true]
                show (jsonUnits (bs :: 98 :: goEncodeBytes cs)).isSome = true
                rw [jsonUnits_simple 98 8 _ (by simp [simpleEscape])]
                simpa using hu
              · by_cases h7 : c = 12
                · subst h7; simp only [h1, h2, h3, h4, h5, h6, if_false, if_true]
                  show (jsonUnits (bs :: 102 :: goEncodeBytes cs)).isSome = true
                  rw [jsonUnits_simple 102 12 _ (by simp [simpleEscape])]
                  simpa using hu
                · by_cases h8 : c < 32 ∨ c = 127
                  · simp only [h1, h2, h3, h4, h5, h6, h7, h8, if_false, if_true]
                    show (jsonUnits (bs :: 117 :: 48 :: 48 :: hexDigit (c / 16) :: hexDigit (c % 16) :: goEncodeBytes cs)).isSome = true
                    have hx : ∀ n, n < 16 → isHex (hexDigit n) = true := by decide
                    have hh : (isHex 48 && isHex 48 && isHex (hexDigit (c / 16)) && isHex (hexDigit (c % 16))) = true := by
                      rw [hx (c / 16) (by omega), hx (c % 16) (by omega)]; decide
                    rw [jsonUnits_u 48 48 _ _ _ hh]
                    simpa using hu
                  · simp only [h1, h2, h3, h4, h5, h6, h7, h8, if_false]
                    have hge : 32 ≤ c := by
                      apply Nat.le_of_not_lt; intro hlt; exact h8 (Or.inl hlt)
                    show (jsonUnits (c :: goEncodeBytes cs)).isSome = true
                    rw [jsonUnits_plain c _ h2 hge h1]
                    simpa using hu

end GqlVerif.Value
