/-
  Proofs.C13 — invariants of Proto.Subs about the registry: reporter accounting, one Start per trigger, and the
  relation between registered subscribers, registered triggers and cancelled trigger contexts.
-/
import GqlVerif.Proofs.C12
namespace GqlVerif.Subs

/-! ### reporter accounting -/

structure Counters (s : St) : Prop where
  subs : s.subInc = s.subDec + s.byID.length
  trigs : s.trigInc = s.trigDec + s.inited.length

theorem length_erase_add (l : List Nat) (g : Nat) : (l.erase g).length + (if l.contains g then 1 else 0) = l.length := by
  rw [List.length_erase]
  by_cases h : g ∈ l
  · have : 0 < l.length := List.length_pos_of_mem h
    simp [h]; omega
  · simp [h]

theorem filter_split (l : List Nat) (p : Nat → Bool) : (l.filter p).length + (l.filter fun i => !p i).length = l.length := by
  induction l with
  | nil => rfl
  | cons a l ih =>
    by_cases h : p a = true
    · simp [List.filter_cons, h]; omega
    · have h' : p a = false := by simpa using h
      simp [List.filter_cons, h']; omega

theorem counters_detach {s : St} (h : Counters s) (g : Nat) : Counters (detach s g) := by
  constructor
  · have := filter_split s.byID (fun i => s.genOf i == some g)
    have h1 := h.subs
    simp only [detach, St.members]
    omega
  · have := length_erase_add s.inited g
    have h1 := h.trigs
    simp only [detach]
    omega

theorem counters_removeOne {s : St} (h : Counters s) (i g : Nat) (hi : s.byID.contains i = true) : Counters (removeOne s i g) := by
  have e1 := length_erase_add s.byID i
  rw [hi] at e1
  have e2 := length_erase_add s.inited g
  have h1 := h.subs
  have h2 := h.trigs
  unfold removeOne
  split
  · constructor
    · show s.subInc = s.subDec + 1 + (s.byID.erase i).length
      simp at e1; omega
    · exact h2
  · constructor
    · show s.subInc = s.subDec + 1 + (s.byID.erase i).length
      simp at e1; omega
    · show s.trigInc = s.trigDec + (if s.inited.contains g then 1 else 0) + (s.inited.erase g).length
      omega

theorem counters_prim {s t : St} (h : Counters s) (p : Prim s t) : Counters t := by
  cases p with
  | join => exact ⟨by have := h.subs; simp only [List.length_cons]; omega, h.trigs⟩
  | create => exact ⟨by have := h.subs; simp only [List.length_cons]; omega, h.trigs⟩
  | setGen => exact ⟨h.subs, h.trigs⟩
  | init => exact ⟨h.subs, by have := h.trigs; simp only [List.length_cons]; omega⟩
  | setSub => exact ⟨h.subs, h.trigs⟩
  | detach g _ => exact counters_detach h g
  | removeOne i g h1 _ => exact counters_removeOne h i g h1
  | close => exact ⟨h.subs, h.trigs⟩
  | cancel => exact ⟨h.subs, h.trigs⟩
  | shut => exact ⟨h.subs, h.trigs⟩

theorem counters_reach {s : St} (h : Reach s) : Counters s :=
  reach_induct ⟨rfl, rfl⟩ (fun _ _ hs hp => counters_prim hs hp) h

/-! ### Source.Start is called at most once per trigger -/

def StartedOnce (s : St) : Prop := ∀ g G, s.gens g = some G → G.started ≤ 1

theorem startedOnce_prim {s t : St} (h : StartedOnce s) (p : Prim s t) : StartedOnce t := by
  cases p with
  | join => exact h
  | create i key conn filter hb h1 h2 h3 =>
    intro g G hG
    by_cases hg : g = s.nextGen
    · subst hg; simp [upd] at hG; subst hG; exact Nat.zero_le _
    · exact h g G (by simpa [upd, hg] using hG)
  | setGen g0 G0 G' h1 h2 h3 h4 h5 =>
    intro g G hG
    by_cases hg : g = g0
    · subst hg; simp [upd] at hG; subst hG
      have := h g G0 h1
      rcases h4 with h4 | h4 <;> omega
    · exact h g G (by simpa [upd, hg] using hG)
  | init g0 G0 h1 h2 h3 =>
    intro g G hG
    by_cases hg : g = g0
    · subst hg; simp [upd] at hG; subst hG; exact h g G0 h2
    · exact h g G (by simpa [upd, hg] using hG)
  | setSub => exact h
  | detach g _ => exact h
  | removeOne i g _ _ => intro g' G hG; apply h g' G; unfold removeOne at hG; split at hG <;> exact hG
  | close => exact h
  | cancel g0 G0 h1 h2 =>
    intro g G hG
    by_cases hg : g = g0
    · subst hg; simp [upd] at hG; subst hG; exact h g G0 h2
    · exact h g G (by simpa [upd, hg] using hG)
  | shut => exact h

theorem startedOnce_reach {s : St} (h : Reach s) : StartedOnce s :=
  reach_induct (fun _ _ hG => by simp [St.init] at hG) (fun _ _ hs hp => startedOnce_prim hs hp) h

end GqlVerif.Subs

namespace GqlVerif.Subs

/-! ### the registry -/

structure RegInv (s : St) : Prop where
  subOf : ∀ i ∈ s.byID, ∃ x, s.subs i = some x ∧ x.removed = false ∧ x.gen ∈ s.trigs ∧ s.keyOfGen x.gen = some x.key
  unreg : ∀ i x, s.subs i = some x → i ∉ s.byID → x.removed = true
  trig : ∀ g ∈ s.trigs, ∃ G, s.gens g = some G ∧ G.cancelled = false ∧ g ∉ s.pendCancel ∧ ∃ i ∈ s.byID, s.genOf i = some g
  gone : ∀ g G, s.gens g = some G → g ∉ s.trigs → (G.cancelled = true ∨ g ∈ s.pendCancel)
  keys : ∀ g ∈ s.trigs, ∀ g' ∈ s.trigs, s.keyOfGen g = s.keyOfGen g' → g = g'
  fresh : ∀ g, s.nextGen ≤ g → s.gens g = none ∧ g ∉ s.pendCancel
  inited : ∀ g ∈ s.inited, g ∈ s.trigs ∧ ∃ G, s.gens g = some G ∧ G.startReturned = true
  initedNodup : s.inited.Nodup
  shut : s.shutdown = true → s.trigs = []
  nodupT : s.trigs.Nodup
  nodupB : s.byID.Nodup

theorem regInv_init : RegInv St.init := by
  refine ⟨?_, ?_, ?_, ?_, ?_, ?_, ?_, ?_, ?_, ?_, ?_⟩ <;> simp [St.init]

theorem lookup_some {s : St} {key g : Nat} (h : s.lookup key = some g) : g ∈ s.trigs ∧ s.keyOfGen g = some key := by
  unfold St.lookup at h
  exact ⟨List.mem_of_find?_eq_some h, by simpa using List.find?_some h⟩

theorem lookup_none {s : St} {key : Nat} (h : s.lookup key = none) : ∀ g ∈ s.trigs, s.keyOfGen g ≠ some key := by
  unfold St.lookup at h
  intro g hg hk
  have := List.find?_eq_none.mp h g hg
  simp [hk] at this

theorem trig_lt {s : St} (h : RegInv s) {g : Nat} (hg : g ∈ s.trigs) : g < s.nextGen := by
  obtain ⟨G, hG, _⟩ := h.trig g hg
  apply Nat.lt_of_not_le
  intro hle
  have := (h.fresh g hle).1
  rw [hG] at this; cases this

theorem gen_lt {s : St} (h : RegInv s) {g : Nat} {G : Gen} (hG : s.gens g = some G) : g < s.nextGen := by
  apply Nat.lt_of_not_le
  intro hle
  have := (h.fresh g hle).1
  rw [hG] at this; cases this

theorem markRemoved_gen (subs : Nat → Option Sub) (is : List Nat) (i : Nat) :
    (markRemoved subs is i).map (·.gen) = (subs i).map (·.gen) := by
  rw [markRemoved_apply]; split
  · cases subs i <;> rfl
  · rfl

theorem regInv_subscribe {s : St} (h : RegInv s) (i key conn : Nat) (filter : Option (List Nat)) (hb : Bool) (g : Nat)
    (hsh : s.shutdown = false) (hi : s.subs i = none) (hg : g ∈ s.trigs) (hk : s.keyOfGen g = some key) :
    RegInv { s with subs := upd s.subs i (some { key := key, conn := conn, gen := g, filter := filter, hb := hb }),
                    byID := i :: s.byID, subInc := s.subInc + 1 } := by
  have hni : i ∉ s.byID := fun hm => by obtain ⟨x, hx, _⟩ := h.subOf i hm; rw [hi] at hx; cases hx
  refine ⟨?_, ?_, ?_, h.gone, h.keys, h.fresh, h.inited, h.initedNodup, fun hs => by simp [hsh] at hs, h.nodupT,
    List.nodup_cons.mpr ⟨hni, h.nodupB⟩⟩
  · intro j hj
    rcases List.mem_cons.mp hj with rfl | hj
    · exact ⟨{ key := key, conn := conn, gen := g, filter := filter, hb := hb }, by simp [upd], rfl, hg, hk⟩
    · have hji : j ≠ i := fun e => hni (e ▸ hj)
      obtain ⟨x, hx, h1, h2, h3⟩ := h.subOf j hj
      exact ⟨x, by simp [upd, hji, hx], h1, h2, h3⟩
  · intro j x hx hj
    have hji : j ≠ i := fun e => hj (e ▸ List.mem_cons_self ..)
    exact h.unreg j x (by simpa [upd, hji] using hx) (fun hm => hj (List.mem_cons_of_mem _ hm))
  · intro g' hg'
    obtain ⟨G, hG, hc, hp, w, hw, hwg⟩ := h.trig g' hg'
    have hwi : w ≠ i := fun e => hni (e ▸ hw)
    exact ⟨G, hG, hc, hp, w, List.mem_cons_of_mem _ hw, by simpa [St.genOf, upd, hwi] using hwg⟩

theorem keyOfGen_upd_same_key (s : St) (g : Nat) (G G' : Gen) (hG : s.gens g = some G) (hk : G'.key = G.key) (g' : Nat) :
    (upd s.gens g (some G') g').map (·.key) = s.keyOfGen g' := by
  by_cases e : g' = g
  · subst e; simp [upd, St.keyOfGen, hG, hk]
  · simp [upd, e, St.keyOfGen]

theorem regInv_prim {s t : St} (h : RegInv s) (p : Prim s t) : RegInv t := by
  cases p with
  | join i key conn filter hb g h1 h2 h3 =>
    exact regInv_subscribe h i key conn filter hb g h1 h2 (lookup_some h3).1 (lookup_some h3).2
  | create i key conn filter hb h1 h2 h3 =>
    have hni : i ∉ s.byID := fun hm => by obtain ⟨x, hx, _⟩ := h.subOf i hm; rw [h2] at hx; cases hx
    have hfr := h.fresh s.nextGen (Nat.le_refl _)
    have hnt : s.nextGen ∉ s.trigs := fun hm => Nat.lt_irrefl _ (trig_lt h hm)
    have kog : ∀ g', g' ≠ s.nextGen → (upd s.gens s.nextGen (some ({ key := key } : Gen)) g').map (·.key) = s.keyOfGen g' := by
      intro g' e; simp [upd, e, St.keyOfGen]
    refine ⟨?_, ?_, ?_, ?_, ?_, ?_, ?_, h.initedNodup, fun hs => by simp [h1] at hs,
      List.nodup_cons.mpr ⟨hnt, h.nodupT⟩, List.nodup_cons.mpr ⟨hni, h.nodupB⟩⟩
    · intro j hj
      rcases List.mem_cons.mp hj with rfl | hj
      · exact ⟨{ key := key, conn := conn, gen := s.nextGen, filter := filter, hb := hb }, by simp [upd], rfl, List.mem_cons_self .., by simp [St.keyOfGen, upd]⟩
      · have hji : j ≠ i := fun e => hni (e ▸ hj)
        obtain ⟨x, hx, r1, r2, r3⟩ := h.subOf j hj
        have hxg : x.gen ≠ s.nextGen := fun e => hnt (e ▸ r2)
        refine ⟨x, by simp [upd, hji, hx], r1, List.mem_cons_of_mem _ r2, ?_⟩
        show (upd s.gens s.nextGen _ x.gen).map (·.key) = some x.key
        rw [kog _ hxg]; exact r3
    · intro j x hx hj
      have hji : j ≠ i := fun e => hj (e ▸ List.mem_cons_self ..)
      exact h.unreg j x (by simpa [upd, hji] using hx) (fun hm => hj (List.mem_cons_of_mem _ hm))
    · intro g' hg'
      rcases List.mem_cons.mp hg' with rfl | hg'
      · refine ⟨{ key := key }, by simp [upd], rfl, ?_, i, List.mem_cons_self .., by simp [St.genOf, upd]⟩
        exact hfr.2
      · obtain ⟨G, hG, hc, hp, w, hw, hwg⟩ := h.trig g' hg'
        have hgn : g' ≠ s.nextGen := fun e => hnt (e ▸ hg')
        have hwi : w ≠ i := fun e => hni (e ▸ hw)
        exact ⟨G, by simp [upd, hgn, hG], hc, hp, w, List.mem_cons_of_mem _ hw, by simpa [St.genOf, upd, hwi] using hwg⟩
    · intro g' G hG hg'
      have hgn : g' ≠ s.nextGen := fun e => hg' (e ▸ List.mem_cons_self ..)
      exact h.gone g' G (by simpa [upd, hgn] using hG) (fun hm => hg' (List.mem_cons_of_mem _ hm))
    · intro g1 hg1 g2 hg2 hk
      have e1 : ∀ g', g' ∈ s.trigs → (upd s.gens s.nextGen (some ({ key := key } : Gen)) g').map (·.key) ≠ some key := by
        intro g' hm
        rw [kog g' (fun e => hnt (e ▸ hm))]; exact lookup_none h3 g' hm
      have en : (upd s.gens s.nextGen (some ({ key := key } : Gen)) s.nextGen).map (·.key) = some key := by simp [upd]
      rcases List.mem_cons.mp hg1 with rfl | hg1 <;> rcases List.mem_cons.mp hg2 with rfl | hg2
      · rfl
      · exact absurd (hk.symm.trans en) (e1 g2 hg2)
      · exact absurd (hk.trans en) (e1 g1 hg1)
      · apply h.keys g1 hg1 g2 hg2
        have := hk
        simp only [St.keyOfGen] at this ⊢
        rw [kog g1 (fun e => hnt (e ▸ hg1)), kog g2 (fun e => hnt (e ▸ hg2))] at this
        exact this
    · intro g' hle
      have hle' : s.nextGen ≤ g' := Nat.le_of_succ_le hle
      have hgn : g' ≠ s.nextGen := fun e => by subst e; exact Nat.lt_irrefl _ hle
      exact ⟨by simpa [upd, hgn] using (h.fresh g' hle').1, (h.fresh g' hle').2⟩
    · intro g' hg'
      obtain ⟨r1, G, hG, r2⟩ := h.inited g' hg'
      have hgn : g' ≠ s.nextGen := fun e => hnt (e ▸ r1)
      exact ⟨List.mem_cons_of_mem _ r1, G, by simp [upd, hgn, hG], r2⟩
  | setGen g0 G0 G' h1 h2 h3 h4 h5 =>
    have kog := keyOfGen_upd_same_key s g0 G0 G' h1 h2
    refine ⟨?_, h.unreg, ?_, ?_, ?_, ?_, ?_, h.initedNodup, h.shut, h.nodupT, h.nodupB⟩
    · intro j hj
      obtain ⟨x, hx, r1, r2, r3⟩ := h.subOf j hj
      exact ⟨x, hx, r1, r2, by show (upd s.gens g0 (some G') x.gen).map (·.key) = _; rw [kog]; exact r3⟩
    · intro g hg
      obtain ⟨G, hG, hc, hp, w⟩ := h.trig g hg
      by_cases e : g = g0
      · subst e; rw [h1] at hG; cases hG
        exact ⟨G', by simp [upd], h3.trans hc, hp, w⟩
      · exact ⟨G, by simp [upd, e, hG], hc, hp, w⟩
    · intro g G hG hg
      by_cases e : g = g0
      · subst e; simp [upd] at hG; subst hG
        rw [h3]; exact h.gone g G0 h1 hg
      · exact h.gone g G (by simpa [upd, e] using hG) hg
    · intro g1 hg1 g2 hg2 hk
      apply h.keys g1 hg1 g2 hg2
      have := hk
      simp only [St.keyOfGen] at this
      rw [kog g1, kog g2] at this; exact this
    · intro g hle
      have e : g ≠ g0 := fun e => by subst e; exact Nat.lt_irrefl _ (Nat.lt_of_lt_of_le (gen_lt h h1) hle)
      exact ⟨by simpa [upd, e] using (h.fresh g hle).1, (h.fresh g hle).2⟩
    · intro g hg
      obtain ⟨r1, G, hG, r2⟩ := h.inited g hg
      by_cases e : g = g0
      · subst e; rw [h1] at hG; cases hG
        exact ⟨r1, G', by simp [upd], h5 r2⟩
      · exact ⟨r1, G, by simp [upd, e, hG], r2⟩
  | init g0 G0 h1 h2 h3 =>
    have hgt : g0 ∈ s.trigs := by simpa using h1
    have hni : g0 ∉ s.inited := fun hm => by
      obtain ⟨_, G', hG', r⟩ := h.inited g0 hm
      rw [h2] at hG'; cases hG'; rw [h3] at r; cases r
    have kog := keyOfGen_upd_same_key s g0 G0 { G0 with startReturned := true } h2 rfl
    refine ⟨?_, h.unreg, ?_, ?_, ?_, ?_, ?_, List.nodup_cons.mpr ⟨hni, h.initedNodup⟩, h.shut, h.nodupT, h.nodupB⟩
    · intro j hj
      obtain ⟨x, hx, r1, r2, r3⟩ := h.subOf j hj
      exact ⟨x, hx, r1, r2, by show (upd s.gens g0 _ x.gen).map (·.key) = _; rw [kog]; exact r3⟩
    · intro g hg
      obtain ⟨G, hG, hc, hp, w⟩ := h.trig g hg
      by_cases e : g = g0
      · subst e; rw [h2] at hG; cases hG
        exact ⟨{ G0 with startReturned := true }, by simp [upd], hc, hp, w⟩
      · exact ⟨G, by simp [upd, e, hG], hc, hp, w⟩
    · intro g G hG hg
      by_cases e : g = g0
      · subst e; exact absurd hgt hg
      · exact h.gone g G (by simpa [upd, e] using hG) hg
    · intro g1 hg1 g2 hg2 hk
      apply h.keys g1 hg1 g2 hg2
      have := hk
      simp only [St.keyOfGen] at this
      rw [kog g1, kog g2] at this; exact this
    · intro g hle
      have e : g ≠ g0 := fun e => by subst e; exact Nat.lt_irrefl _ (Nat.lt_of_lt_of_le (gen_lt h h2) hle)
      exact ⟨by simpa [upd, e] using (h.fresh g hle).1, (h.fresh g hle).2⟩
    · intro g hg
      by_cases e : g = g0
      · subst e; exact ⟨hgt, { G0 with startReturned := true }, by simp [upd], rfl⟩
      · have hg' : g ∈ s.inited := by
          rcases List.mem_cons.mp hg with e' | hg'
          · exact absurd e' e
          · exact hg'
        obtain ⟨r1, G, hG, r2⟩ := h.inited g hg'
        exact ⟨r1, G, by simp [upd, e, hG], r2⟩
  | setSub j y y' h1 h2 h3 h4 =>
    refine ⟨?_, ?_, ?_, h.gone, h.keys, h.fresh, h.inited, h.initedNodup, h.shut, h.nodupT, h.nodupB⟩
    · intro i hi
      obtain ⟨x, hx, r1, r2, r3⟩ := h.subOf i hi
      by_cases e : i = j
      · subst e; rw [h1] at hx; cases hx
        exact ⟨y', by simp [upd], h4.trans r1, h2.gen ▸ r2, by rw [h2.gen, h2.key]; exact r3⟩
      · exact ⟨x, by simp [upd, e, hx], r1, r2, r3⟩
    · intro i x hx hi
      by_cases e : i = j
      · subst e; simp [upd] at hx; subst hx
        rw [h4]; exact h.unreg i y h1 hi
      · exact h.unreg i x (by simpa [upd, e] using hx) hi
    · intro g hg
      obtain ⟨G, hG, hc, hp, w, hw, hwg⟩ := h.trig g hg
      refine ⟨G, hG, hc, hp, w, hw, ?_⟩
      by_cases e : w = j
      · subst e; simp only [St.genOf, h1, Option.map] at hwg; simp [St.genOf, upd, h2.gen]; simpa using hwg
      · simpa [St.genOf, upd, e] using hwg
  | detach g hlt =>
    have genOf' : ∀ i, (markRemoved s.subs (s.members g) i).map (·.gen) = s.genOf i := fun i => markRemoved_gen _ _ i
    have memb : ∀ i, i ∈ s.members g ↔ (i ∈ s.byID ∧ s.genOf i = some g) := by
      intro i; simp [St.members, List.mem_filter]
    have byID' : ∀ i, i ∈ s.byID.filter (fun i => !(s.genOf i == some g)) ↔ (i ∈ s.byID ∧ s.genOf i ≠ some g) := by
      intro i; simp [List.mem_filter]
    refine ⟨?_, ?_, ?_, ?_, ?_, ?_, ?_, h.initedNodup.erase g, ?_, h.nodupT.erase g, h.nodupB.filter _⟩
    · intro i hi
      obtain ⟨hi1, hi2⟩ := (byID' i).mp hi
      obtain ⟨x, hx, r1, r2, r3⟩ := h.subOf i hi1
      have hnm : i ∉ s.members g := fun hm => hi2 ((memb i).mp hm).2
      have hxg : x.gen ≠ g := fun e => hi2 (by simp [St.genOf, hx, e])
      refine ⟨x, ?_, r1, (List.mem_erase_of_ne hxg).mpr r2, r3⟩
      show markRemoved s.subs (s.members g) i = some x
      rw [markRemoved_apply]; simp [hnm, hx]
    · intro i x' hx' hi
      cases hx : s.subs i with
      | none =>
        have : markRemoved s.subs (s.members g) i = some x' := hx'
        rw [markRemoved_apply, hx] at this; split at this <;> simp at this
      | some x =>
        obtain ⟨y, hy, _, _, _, hr⟩ := markRemoved_substep s.subs (s.members g) i x hx
        have : y = x' := by
          have : markRemoved s.subs (s.members g) i = some x' := hx'
          rw [hy] at this; exact Option.some.inj this
        subst this
        by_cases hb : i ∈ s.byID
        · have hg' : s.genOf i = some g := by
            apply Classical.byContradiction; intro hne
            exact hi ((byID' i).mpr ⟨hb, hne⟩)
          exact hr.mpr (Or.inr ((memb i).mpr ⟨hb, hg'⟩))
        · exact hr.mpr (Or.inl (h.unreg i x hx hb))
    · intro g' hg'
      have hg1 : g' ∈ s.trigs := List.mem_of_mem_erase hg'
      have hne : g' ≠ g := fun e => by subst e; exact List.Nodup.not_mem_erase h.nodupT hg'
      obtain ⟨G, hG, hc, hp, w, hw, hwg⟩ := h.trig g' hg1
      refine ⟨G, hG, hc, ?_, w, (byID' w).mpr ⟨hw, fun e => hne (Option.some.inj (hwg.symm.trans e))⟩, ?_⟩
      · intro hm
        rcases List.mem_cons.mp hm with e | hm
        · exact hne e
        · exact hp hm
      · show (markRemoved s.subs (s.members g) w).map (·.gen) = some g'
        rw [genOf']; exact hwg
    · intro g' G hG hg'
      by_cases e : g' = g
      · subst e; exact Or.inr (List.mem_cons_self ..)
      · have : g' ∉ s.trigs := fun hm => hg' ((List.mem_erase_of_ne e).mpr hm)
        rcases h.gone g' G hG this with r | r
        · exact Or.inl r
        · exact Or.inr (List.mem_cons_of_mem _ r)
    · intro g1 hg1 g2 hg2 hk
      exact h.keys g1 (List.mem_of_mem_erase hg1) g2 (List.mem_of_mem_erase hg2) hk
    · intro g' hle
      refine ⟨(h.fresh g' hle).1, ?_⟩
      intro hm
      rcases List.mem_cons.mp hm with e | hm
      · subst e; exact Nat.lt_irrefl _ (Nat.lt_of_lt_of_le hlt hle)
      · exact (h.fresh g' hle).2 hm
    · intro g' hg'
      have hg1 : g' ∈ s.inited := List.mem_of_mem_erase hg'
      have hne : g' ≠ g := fun e => by subst e; exact List.Nodup.not_mem_erase h.initedNodup hg'
      obtain ⟨r1, r2⟩ := h.inited g' hg1
      exact ⟨(List.mem_erase_of_ne hne).mpr r1, r2⟩
    · intro hs
      have := h.shut hs
      show s.trigs.erase g = []
      rw [this]; rfl
  | removeOne i g h1 h2 =>
    have hi : i ∈ s.byID := by simpa using h1
    obtain ⟨xi, hxi, ri1, ri2, ri3⟩ := h.subOf i hi
    have hxg : xi.gen = g := by simp [St.genOf, hxi] at h2; exact h2
    have hgt : g ∈ s.trigs := hxg ▸ ri2
    have genOf' : ∀ j, (markRemoved s.subs [i] j).map (·.gen) = s.genOf j := fun j => markRemoved_gen _ _ j
    have other : ∀ j, j ≠ i → markRemoved s.subs [i] j = s.subs j := by
      intro j hj; rw [markRemoved_apply]; simp [hj]
    have unreg' : ∀ j x', markRemoved s.subs [i] j = some x' → j ∉ s.byID.erase i → x'.removed = true := by
      intro j x' hx' hj
      by_cases e : j = i
      · subst e
        obtain ⟨y, hy, _, _, _, hr⟩ := markRemoved_substep s.subs [j] j xi hxi
        rw [hy] at hx'; cases hx'
        exact hr.mpr (Or.inr (List.mem_singleton.mpr rfl))
      · rw [other j e] at hx'
        exact h.unreg j x' hx' (fun hm => hj ((List.mem_erase_of_ne e).mpr hm))
    have subOf' : ∀ j ∈ s.byID.erase i, ∃ x, markRemoved s.subs [i] j = some x ∧ x.removed = false ∧ x.gen ∈ s.trigs ∧
        s.keyOfGen x.gen = some x.key ∧ j ≠ i := by
      intro j hj
      have hne : j ≠ i := fun e => by subst e; exact List.Nodup.not_mem_erase h.nodupB hj
      obtain ⟨x, hx, r1, r2, r3⟩ := h.subOf j (List.mem_of_mem_erase hj)
      exact ⟨x, by rw [other j hne]; exact hx, r1, r2, r3, hne⟩
    unfold removeOne
    split
    · next hany =>
      refine ⟨?_, unreg', ?_, h.gone, h.keys, h.fresh, h.inited, h.initedNodup, h.shut, h.nodupT, h.nodupB.erase i⟩
      · intro j hj
        obtain ⟨x, a, b, c, d, _⟩ := subOf' j hj
        exact ⟨x, a, b, c, d⟩
      · intro g' hg'
        obtain ⟨G, hG, hc, hp, w, hw, hwg⟩ := h.trig g' hg'
        by_cases e : w = i
        · subst e
          have : g' = g := Option.some.inj (hwg.symm.trans h2)
          subst this
          obtain ⟨j, hj, hjg⟩ := List.any_eq_true.mp hany
          exact ⟨G, hG, hc, hp, j, hj, by show (markRemoved s.subs [w] j).map (·.gen) = some g'; rw [genOf']; simpa using hjg⟩
        · exact ⟨G, hG, hc, hp, w, (List.mem_erase_of_ne e).mpr hw, by show (markRemoved s.subs [i] w).map (·.gen) = some g'; rw [genOf']; exact hwg⟩
    · next hany =>
      have noOther : ∀ j ∈ s.byID.erase i, s.genOf j ≠ some g := by
        intro j hj e
        apply hany
        exact List.any_eq_true.mpr ⟨j, hj, by simp [e]⟩
      refine ⟨?_, unreg', ?_, ?_, ?_, ?_, ?_, h.initedNodup.erase g, ?_, h.nodupT.erase g, h.nodupB.erase i⟩
      · intro j hj
        obtain ⟨x, a, b, c, d, hne⟩ := subOf' j hj
        have hxj : s.subs j = some x := by rw [other j hne] at a; exact a
        have : x.gen ≠ g := fun e => noOther j hj (by simp [St.genOf, hxj, e])
        exact ⟨x, a, b, (List.mem_erase_of_ne this).mpr c, d⟩
      · intro g' hg'
        have hg1 : g' ∈ s.trigs := List.mem_of_mem_erase hg'
        have hne : g' ≠ g := fun e => by subst e; exact List.Nodup.not_mem_erase h.nodupT hg'
        obtain ⟨G, hG, hc, hp, w, hw, hwg⟩ := h.trig g' hg1
        have hwi : w ≠ i := fun e => by subst e; exact hne (Option.some.inj (hwg.symm.trans h2))
        refine ⟨G, hG, hc, ?_, w, (List.mem_erase_of_ne hwi).mpr hw, by show (markRemoved s.subs [i] w).map (·.gen) = some g'; rw [genOf']; exact hwg⟩
        intro hm
        rcases List.mem_cons.mp hm with e | hm
        · exact hne e
        · exact hp hm
      · intro g' G hG hg'
        by_cases e : g' = g
        · subst e; exact Or.inr (List.mem_cons_self ..)
        · have : g' ∉ s.trigs := fun hm => hg' ((List.mem_erase_of_ne e).mpr hm)
          rcases h.gone g' G hG this with r | r
          · exact Or.inl r
          · exact Or.inr (List.mem_cons_of_mem _ r)
      · intro g1 hg1 g2 hg2 hk
        exact h.keys g1 (List.mem_of_mem_erase hg1) g2 (List.mem_of_mem_erase hg2) hk
      · intro g' hle
        refine ⟨(h.fresh g' hle).1, ?_⟩
        intro hm
        rcases List.mem_cons.mp hm with e | hm
        · subst e; exact Nat.lt_irrefl _ (Nat.lt_of_lt_of_le (trig_lt h hgt) hle)
        · exact (h.fresh g' hle).2 hm
      · intro g' hg'
        have hg1 : g' ∈ s.inited := List.mem_of_mem_erase hg'
        have hne : g' ≠ g := fun e => by subst e; exact List.Nodup.not_mem_erase h.initedNodup hg'
        obtain ⟨r1, r2⟩ := h.inited g' hg1
        exact ⟨(List.mem_erase_of_ne hne).mpr r1, r2⟩
      · intro hs
        have := h.shut hs
        show s.trigs.erase g = []
        rw [this]; rfl
  | close j y h1 h2 =>
    refine ⟨?_, ?_, ?_, h.gone, h.keys, h.fresh, h.inited, h.initedNodup, h.shut, h.nodupT, h.nodupB⟩
    · intro i hi
      obtain ⟨x, hx, r1, r2, r3⟩ := h.subOf i hi
      by_cases e : i = j
      · subst e; rw [h2] at hx; cases hx
        exact ⟨{ y with closed := y.closed + 1 }, by simp [upd], r1, r2, r3⟩
      · exact ⟨x, by simp [upd, e, hx], r1, r2, r3⟩
    · intro i x hx hi
      by_cases e : i = j
      · subst e; simp [upd] at hx; subst hx
        exact h.unreg i y h2 hi
      · exact h.unreg i x (by simpa [upd, e] using hx) hi
    · intro g hg
      obtain ⟨G, hG, hc, hp, w, hw, hwg⟩ := h.trig g hg
      refine ⟨G, hG, hc, hp, w, hw, ?_⟩
      by_cases e : w = j
      · subst e; simp only [St.genOf, h2, Option.map] at hwg; simp [St.genOf, upd]; simpa using hwg
      · simpa [St.genOf, upd, e] using hwg
  | cancel g0 G0 h1 h2 =>
    have hm0 : g0 ∈ s.pendCancel := by simpa using h1
    have kog := keyOfGen_upd_same_key s g0 G0 { G0 with cancelled := true } h2 rfl
    refine ⟨?_, h.unreg, ?_, ?_, ?_, ?_, ?_, h.initedNodup, h.shut, h.nodupT, h.nodupB⟩
    · intro j hj
      obtain ⟨x, hx, r1, r2, r3⟩ := h.subOf j hj
      exact ⟨x, hx, r1, r2, by show (upd s.gens g0 _ x.gen).map (·.key) = _; rw [kog]; exact r3⟩
    · intro g hg
      obtain ⟨G, hG, hc, hp, w⟩ := h.trig g hg
      have e : g ≠ g0 := fun e => by subst e; exact hp hm0
      exact ⟨G, by simp [upd, e, hG], hc, fun hm => hp (List.mem_of_mem_erase hm), w⟩
    · intro g G hG hg
      by_cases e : g = g0
      · subst e; simp [upd] at hG; subst hG; exact Or.inl rfl
      · rcases h.gone g G (by simpa [upd, e] using hG) hg with r | r
        · exact Or.inl r
        · exact Or.inr ((List.mem_erase_of_ne e).mpr r)
    · intro g1 hg1 g2 hg2 hk
      apply h.keys g1 hg1 g2 hg2
      have := hk
      simp only [St.keyOfGen] at this
      rw [kog g1, kog g2] at this; exact this
    · intro g hle
      have e : g ≠ g0 := fun e => by subst e; exact Nat.lt_irrefl _ (Nat.lt_of_lt_of_le (gen_lt h h2) hle)
      exact ⟨by simpa [upd, e] using (h.fresh g hle).1, fun hm => (h.fresh g hle).2 (List.mem_of_mem_erase hm)⟩
    · intro g hg
      obtain ⟨r1, G, hG, r2⟩ := h.inited g hg
      by_cases e : g = g0
      · subst e; rw [h2] at hG; cases hG
        exact ⟨r1, { G0 with cancelled := true }, by simp [upd], r2⟩
      · exact ⟨r1, G, by simp [upd, e, hG], r2⟩
  | shut h1 =>
    exact ⟨h.subOf, h.unreg, h.trig, h.gone, h.keys, h.fresh, h.inited, h.initedNodup, fun _ => h1, h.nodupT, h.nodupB⟩

theorem regInv_reach {s : St} (h : Reach s) : RegInv s :=
  reach_induct regInv_init (fun _ _ hs hp => regInv_prim hs hp) h

end GqlVerif.Subs
