/-
  Proofs.C02 — lemmas about the renderer model (Plan.Render).
-/
import GqlVerif.Plan.Render
set_option linter.unusedSimpArgs false
set_option linter.unusedVariables false
namespace GqlVerif.Render
open GqlVerif

def b2n (b : Bool) : Nat := if b then 1 else 0

/-- "errors only grow, and a failure adds at least one" for a single walk step -/
def Reports (st : St) (r : R) : Prop := st.errs.length + b2n r.err ≤ r.st.errs.length

theorem preItems_reports (f : Json → St → R) (b : Bool)
    (hf : ∀ x s, Reports s (f x s)) : ∀ xs i st acc,
    st.errs.length + b2n (preItems f b xs i st acc).1 ≤ (preItems f b xs i st acc).2.2.errs.length := by
  intro xs
  induction xs with
  | nil => intro i st acc; simp [preItems, b2n]
  | cons x xs ih =>
    intro i st acc
    simp only [preItems]
    have h := hf x (st.pushIdx i)
    unfold Reports at h
    have hpush : (st.pushIdx i).errs = st.errs := rfl
    rw [hpush] at h
    generalize f x (st.pushIdx i) = r at *
    cases he : r.err
    · simp only [he, b2n, Bool.false_eq_true, if_false] at h ⊢
      have := ih (i + 1) { r.st with path := st.path } (r.c :: acc)
      simp only [b2n] at this
      omega
    · simp only [he, b2n, if_true] at h ⊢
      split
      · have := ih (i + 1) { r.st with path := st.path } (Json.null :: acc)
        simp only [b2n] at this
        omega
      · simp; omega

mutual
theorem preNode_reports : ∀ (n : Node) (c : Json) (st : St), Reports st (preNode n c st)
  | .null, c, st => by simp [preNode, Reports, b2n]
  | .staticString _, c, st => by simp [preNode, Reports, b2n]
  | .emptyObject, c, st => by simp [preNode, Reports, b2n]
  | .emptyArray, c, st => by simp [preNode, Reports, b2n]
  | .scalar kind path nullable, c, st => by
    simp only [preNode, Reports]
    repeat' split
    all_goals simp [St.addErr, b2n]
  | .enum path nullable _ values inaccessible, c, st => by
    simp only [preNode, Reports]
    repeat' split
    all_goals (simp [St.addErr, b2n]; try (split <;> omega))
  | .array path nullable item, c, st => by
    simp only [preNode, Reports]
    split
    · split <;> simp [St.addErr, b2n]
    · split <;> simp [St.addErr, b2n]
    · rename_i xs hget
      have := preItems_reports (fun x s => preNode item x s)
        ((item.kind == .object || item.kind == .array) && item.nullable)
        (fun x s => preNode_reports item x s) xs 0 (st.push path) []
      have hpush : (st.push path).errs = st.errs := rfl
      rw [hpush] at this
      generalize preItems (fun x s => preNode item x s) ((item.kind == .object || item.kind == .array) && item.nullable) xs 0
        (st.push path) [] = res at *
      cases he : res.1
      · simp only [he, b2n, Bool.false_eq_true, if_false] at this ⊢
        simp; omega
      · simp only [he, b2n, if_true] at this ⊢
        split <;> simp <;> omega
    · simp [St.addErr, St.push, b2n]
  | .object path nullable typeName src possible inaccessibleT unresolvable fields, c, st => by
    simp only [preNode, Reports]
    split
    · simp [St.addErr, b2n]
    · split
      · split <;> simp [St.addErr, b2n]
      · split <;> simp [St.addErr, b2n]
      · rename_i kvs hget
        split
        · simp [St.addErr, St.push, b2n]; split <;> omega
        · have := preFields_reports fields (.obj kvs)
            { (st.push path) with typeNames := typenameOf (.obj kvs) :: st.typeNames }
          unfold Reports at this
          generalize preFields fields (Json.obj kvs) _ = r at this ⊢
          change st.errs.length + b2n r.err ≤ r.st.errs.length at this
          cases he : r.err
          · simp only [he, b2n, Bool.false_eq_true, if_false] at this ⊢
            simp; omega
          · simp only [he, b2n, if_true] at this ⊢
            split <;> simp <;> omega
      · simp [St.addErr, St.push, b2n]
theorem preFields_reports : ∀ (fs : Fields) (v : Json) (st : St), Reports st (preFields fs v st)
  | .nil, v, st => by simp [preFields, Reports, b2n]
  | .cons _ guard value rest, v, st => by
    simp only [preFields]
    split
    · exact preFields_reports rest v st
    · have h1 := preNode_reports value v st
      split
      · rename_i herr
        unfold Reports at h1 ⊢
        simp only [herr, b2n] at h1 ⊢
        exact h1
      · rename_i herr
        have h2 := preFields_reports rest (preNode value v st).c (preNode value v st).st
        unfold Reports at h1 h2 ⊢
        simp only [b2n] at h1 h2 ⊢
        have : st.errs.length ≤ (preNode value v st).st.errs.length := by
          split at h1 <;> omega
        omega
end

end GqlVerif.Render
