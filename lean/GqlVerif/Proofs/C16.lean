/-
  Proofs.C16 — helper lemmas for Props.C16 (kept apart from the property statements).
-/
import GqlVerif.Misc.CacheControl
set_option linter.unusedSimpArgs false
namespace GqlVerif.CacheControl

/-- lifetime the header grants: s-maxage, else max-age, else the configured default -/
def specLifetime (cc : CC) (d : Int) : Int :=
  match cc.sMaxAge with
  | some v => Int.ofNat v * second
  | none => match cc.maxAge with
    | some v => Int.ofNat v * second
    | none => d

theorem second_pos : (0 : Int) < second := by decide

theorem ttlOf_safe (cc : CC) (d t : Int) (h : ttlOf cc d = some t) :
    cc.pub = true ∧ cc.noStore = false ∧ cc.noCache = false ∧
      cc.priv = false ∧ t = specLifetime cc d ∧ 0 < t := by
  rcases cc with ⟨ma, sma, ns, nc, pb, pr⟩
  cases ns <;> cases nc <;> cases pb <;> cases pr <;> simp [ttlOf] at h
  simp [specLifetime]
  cases sma with
  | some v =>
    simp at h ⊢
    obtain ⟨hv, rfl⟩ := h
    have : (0:Int) < (v : Int) := by omega
    exact ⟨rfl, Int.mul_pos this second_pos⟩
  | none =>
    cases ma with
    | some v =>
      simp at h ⊢
      obtain ⟨hv, rfl⟩ := h
      have : (0:Int) < (v : Int) := by omega
      exact ⟨rfl, Int.mul_pos this second_pos⟩
    | none =>
      simp at h ⊢
      obtain ⟨hv, rfl⟩ := h
      exact ⟨rfl, hv⟩

theorem ttlOf_complete (cc : CC) (d : Int) (hpub : cc.pub = true) (hns : cc.noStore = false)
    (hnc : cc.noCache = false) (hpr : cc.priv = false) (hpos : 0 < specLifetime cc d) :
    ttlOf cc d = some (specLifetime cc d) := by
  rcases cc with ⟨ma, sma, ns, nc, pb, pr⟩
  simp at hpub hns hnc hpr
  subst hpub hns hnc hpr
  cases sma with
  | some v =>
    simp [ttlOf, specLifetime] at hpos ⊢
    intro hv; subst hv; simp at hpos
  | none =>
    cases ma with
    | some v =>
      simp [ttlOf, specLifetime] at hpos ⊢
      intro hv; subst hv; simp at hpos
    | none =>
      simp [ttlOf, specLifetime] at hpos ⊢
      omega

/-- Directive names of a token stream, defined independently of the parser: an identifier token is a
    directive name iff it is not the token right after an `=`. -/
def dirNames (prevEq : Bool) : List Tok → List Bytes
  | [] => []
  | .ident n :: r => if prevEq then dirNames false r else n :: dirNames false r
  | .equals :: r => dirNames true r
  | _ :: r => dirNames false r

/-- the kinds of the directives named in a token stream -/
def dirKinds (toks : List Tok) : List Dir := (dirNames false toks).map fun n => classify (lower n)

structure Flags where (noStore pub noCache priv : Bool) deriving DecidableEq
def CC.flags (cc : CC) : Flags := ⟨cc.noStore, cc.pub, cc.noCache, cc.priv⟩
def Flags.add (f : Flags) : Dir → Flags
  | .noStore => { f with noStore := true }
  | .pub => { f with pub := true }
  | .noCache => { f with noCache := true }
  | .priv => { f with priv := true }
  | _ => f
def Flags.addAll (f : Flags) (ks : List Dir) : Flags := ks.foldl Flags.add f

theorem apply_flags (n : Bytes) (a : Arg) (cc0 cc1 : CC) (h : applyDirective n a cc0 = some cc1) :
    cc1.flags = cc0.flags.add (classify (lower n)) := by
  unfold applyDirective at h
  cases hc : classify (lower n) <;> simp only [hc] at h
  · split at h
    · simp at h; subst h; simp [Flags.add, CC.flags]
    · split at h
      · simp at h
      · simp at h; subst h; simp [Flags.add, CC.flags]
  · split at h
    · simp at h; subst h; simp [Flags.add, CC.flags]
    · split at h
      · simp at h
      · simp at h; subst h; simp [Flags.add, CC.flags]
  all_goals (simp at h; subst h; simp [Flags.add, CC.flags])

theorem dirNames_true_eq (r : List Tok) (h : ∀ (lit : Bytes) (r' : List Tok), ¬ r = Tok.ident lit :: r') :
    dirNames true r = dirNames false r := by
  cases r with
  | nil => simp [dirNames]
  | cons t r' => cases t <;> simp_all [dirNames]

theorem parse_flags (toks : List Tok) (cc0 cc : CC) (h : parseToks toks cc0 = some cc) :
    cc.flags = cc0.flags.addAll (dirKinds toks) := by
  unfold dirKinds
  fun_induction parseToks toks cc0 <;> simp_all [dirNames, Flags.addAll]
  all_goals (rw [apply_flags _ _ _ _ ‹applyDirective _ _ _ = some _›])
  rw [dirNames_true_eq _ ‹∀ (lit : Bytes) (r : List Tok), ¬ _ = Tok.ident lit :: r›]

theorem addAll_spec (ks : List Dir) (f : Flags) :
    f.addAll ks = ⟨f.noStore || ks.contains .noStore, f.pub || ks.contains .pub,
                   f.noCache || ks.contains .noCache, f.priv || ks.contains .priv⟩ := by
  induction ks generalizing f with
  | nil => simp [Flags.addAll]
  | cons k ks ih =>
    simp only [Flags.addAll, List.foldl_cons] at ih ⊢
    rw [ih]
    cases k <;> simp [Flags.add, List.contains_cons] <;> (try decide) <;>
      simp [Bool.or_comm, Bool.or_assoc, Bool.or_left_comm]

theorem classify_eq (x : Bytes) :
    (classify x = .noStore ↔ x = s "no-store") ∧ (classify x = .pub ↔ x = s "public") ∧
    (classify x = .noCache ↔ x = s "no-cache") ∧ (classify x = .priv ↔ x = s "private") ∧
    (classify x = .maxAge ↔ x = s "max-age") ∧ (classify x = .sMaxAge ↔ x = s "s-maxage") := by
  refine ⟨⟨?_, ?_⟩, ⟨?_, ?_⟩, ⟨?_, ?_⟩, ⟨?_, ?_⟩, ⟨?_, ?_⟩, ⟨?_, ?_⟩⟩
  all_goals first
    | (intro h; subst h; decide)
    | (intro h; unfold classify at h; repeat' split at h
       all_goals simp_all)

end GqlVerif.CacheControl
