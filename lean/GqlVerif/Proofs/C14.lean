/-
  Helper lemmas for C14: a field error (denial) completes to null or propagates, in every type position and with any fuel.
-/
import GqlVerif.Gql.Exec
namespace GqlVerif.Exec

/-- completing an error value never yields a non-null value, and reports at least one error -/
theorem complete_err (s : Schema) (u : Universe) (op : Op) (vars : List (String × Json)) (m : String) (sels : List Sel) :
    ∀ (t : TRef) (fuel : Nat),
      ((complete s u op vars fuel t (.err m) sels).1 = some .null ∨ (complete s u op vars fuel t (.err m) sels).1 = none) ∧
      (complete s u op vars fuel t (.err m) sels).2 ≠ [] := by
  intro t
  induction t with
  | named n => intro fuel; cases fuel <;> simp [complete]
  | list t _ => intro fuel; cases fuel <;> simp [complete]
  | nonNull t ih =>
    intro fuel
    cases fuel with
    | zero => simp [complete]
    | succ fuel =>
      have h := ih fuel
      simp only [complete]
      split
      · rename_i e heq
        refine ⟨Or.inr rfl, ?_⟩
        split
        · simp
        · rename_i hne; simpa using hne
      · rename_i other hne
        exact h

/-- what completing an error value yields, as a function of the type and the fuel only -/
def errShape : TRef → Nat → Option Json
  | _, 0 => some .null
  | .named _, _ + 1 => some .null
  | .list _, _ + 1 => some .null
  | .nonNull t, fuel + 1 => match errShape t fuel with
    | some .null => none
    | other => other

theorem complete_err_fst (s : Schema) (u : Universe) (op : Op) (vars : List (String × Json)) (m : String) (sels : List Sel) :
    ∀ (t : TRef) (fuel : Nat), (complete s u op vars fuel t (.err m) sels).1 = errShape t fuel := by
  intro t
  induction t with
  | named n => intro fuel; cases fuel <;> simp [complete, errShape]
  | list t _ => intro fuel; cases fuel <;> simp [complete, errShape]
  | nonNull t ih =>
    intro fuel
    cases fuel with
    | zero => simp [complete, errShape]
    | succ fuel =>
      have h := ih fuel
      simp only [complete, errShape]
      rw [← h]
      rcases hp : complete s u op vars fuel t (.err m) sels with ⟨v, e⟩
      cases v with
      | none => simp
      | some j => cases j <;> simp

end GqlVerif.Exec
