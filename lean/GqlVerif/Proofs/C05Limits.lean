/-
  Proofs.C05Limits — lemmas about the `TokenizeWithLimits` model.
-/
import GqlVerif.Gql.Lex
set_option linter.unusedSimpArgs false
set_option linter.unusedVariables false
namespace GqlVerif.Lex

/-- brace delta of one token -/
def delta : Kw → Int
  | .lbrace => 1
  | .rbrace => -1
  | _ => 0

/-- net brace nesting of a token list -/
def net : List (Kw × Bool) → Int
  | [] => 0
  | (k, _) :: r => delta k + net r

/-- an error result of one step is never `.ok` -/
theorem limStep_inr (D F : Int) (k : Kw) (isDef : Bool) (st : LimSt) (e : LimRes)
    (h : limStep D F k isDef st = .inr e) : ∀ d f, e ≠ .ok d f := by
  intro d f
  unfold limStep at h
  split at h
  · split at h
    · simp at h; subst h; simp
    · simp at h
  · simp at h
  · simp at h
  · split at h
    · simp at h
    · split at h
      · simp at h; subst h; simp
      · simp at h
  · simp at h

theorem limStep_inl_depth (D F : Int) (hD : 0 < D) (k : Kw) (isDef : Bool) (st st' : LimSt)
    (h : limStep D F k isDef st = .inl st') (hp : 0 ≤ st.peak) :
    st.globalDepth + delta k ≤ st'.globalDepth ∧ 0 ≤ st'.peak ∧ (k = .lbrace → st'.globalDepth ≤ D) := by
  unfold limStep at h
  split at h
  · split at h
    · simp at h
    · rename_i hne
      simp at h; subst h
      simp at hne
      have := hne hD
      simp [delta]
      refine ⟨?_, by omega⟩
      split <;> omega
  · simp at h; subst h; simp [delta]; omega
  · simp at h; subst h; simp [delta]; omega
  · split at h
    · simp at h; subst h; simp [delta]; omega
    · split at h
      · simp at h
      · simp at h; subst h; simp [delta]; omega
  · rename_i h1 h2 h3 h4
    simp at h; subst h
    have : delta k = 0 := by
      cases k <;> simp_all [delta]
    simp [this]
    refine ⟨hp, ?_⟩
    intro hk; exact absurd hk h1

theorem limRun_depth (D F : Int) (hD : 0 < D) : ∀ (toks : List (Kw × Bool)) (st : LimSt) (n d : Int) (f : Nat),
    limRun D F toks st = .ok d f → n ≤ st.globalDepth → 0 ≤ st.peak → n ≤ D →
    ∀ pre, pre <+: toks → n + net pre ≤ D := by
  intro toks
  induction toks with
  | nil =>
    intro st n d f _ _ _ hn pre hpre
    have : pre = [] := List.prefix_nil.mp hpre
    subst this; simp [net]; omega
  | cons x r ih =>
    intro st n d f hrun hg hp hn pre hpre
    obtain ⟨k, isDef⟩ := x
    cases pre with
    | nil => simp [net]; omega
    | cons y pre' =>
      have hc := List.cons_prefix_cons.mp hpre
      obtain ⟨rfl, hpre'⟩ := hc
      unfold limRun at hrun
      cases hstep : limStep D F k isDef st with
      | inr e =>
        simp [hstep] at hrun
        exact absurd hrun (limStep_inr D F k isDef st e hstep d f)
      | inl st' =>
        simp [hstep] at hrun
        obtain ⟨h1, h2, h3⟩ := limStep_inl_depth D F hD k isDef st st' hstep hp
        have hnD : n + delta k ≤ D := by
          by_cases hk : k = .lbrace
          · have := h3 hk; omega
          · have : delta k ≤ 0 := by cases k <;> simp_all [delta]
            omega
        have := ih st' (n + delta k) d f hrun (by omega) h2 hnD pre' hpre'
        simp [net]; omega

/-- the tokenizer's own notion of "field": an identifier inside braces that is not the name after a
    spread and not one of the four definition keywords at top level -/
def fieldCount : List (Kw × Bool) → Int → Bool → Nat
  | [], _, _ => 0
  | (k, isDef) :: r, l, sp =>
    match k with
    | .lbrace => fieldCount r (l + 1) false
    | .rbrace => fieldCount r (l - 1) false
    | .spread => fieldCount r l true
    | .ident =>
      if isDef && l ≤ 0 then fieldCount r 0 false
      else (if l > 0 && !sp then 1 else 0) + fieldCount r l false
    | _ => fieldCount r l sp

theorem limStep_inl_fields (D F : Int) (k : Kw) (isDef : Bool) (st st' : LimSt) (r : List (Kw × Bool))
    (h : limStep D F k isDef st = .inl st') :
    st.fields + fieldCount ((k, isDef) :: r) st.localDepth st.lastWasSpread =
      st'.fields + fieldCount r st'.localDepth st'.lastWasSpread ∧
    (0 < F → (st.fields : Int) ≤ F → (st'.fields : Int) ≤ F) := by
  unfold limStep at h
  split at h
  · split at h
    · simp at h
    · simp at h; subst h; simp [fieldCount]
  · simp at h; subst h; simp [fieldCount]
  · simp at h; subst h; simp [fieldCount]
  · split at h
    · rename_i hc
      simp at h; subst h
      simp [fieldCount, hc]
    · rename_i hc
      split at h
      · simp at h
      · rename_i hlim
        simp at h; subst h
        simp only [fieldCount, hc, Bool.false_eq_true, if_false]
        simp at hlim
        constructor
        · unfold countedFields; split <;> omega
        · intro hF _
          have := hlim hF
          simpa using this
  · rename_i h1 h2 h3 h4
    simp at h; subst h
    constructor
    · cases k <;> simp_all [fieldCount]
    · intro _ h; exact h

theorem limRun_fields (D F : Int) : ∀ (toks : List (Kw × Bool)) (st : LimSt) (d : Int) (f : Nat),
    limRun D F toks st = .ok d f →
    f = st.fields + fieldCount toks st.localDepth st.lastWasSpread ∧ (0 < F → (st.fields : Int) ≤ F → (f : Int) ≤ F) := by
  intro toks
  induction toks with
  | nil =>
    intro st d f h
    simp [limRun] at h
    simp [fieldCount, h.2]
  | cons x r ih =>
    intro st d f hrun
    obtain ⟨k, isDef⟩ := x
    unfold limRun at hrun
    cases hstep : limStep D F k isDef st with
    | inr e =>
      simp [hstep] at hrun
      exact absurd hrun (limStep_inr D F k isDef st e hstep d f)
    | inl st' =>
      simp [hstep] at hrun
      obtain ⟨e1, e2⟩ := limStep_inl_fields D F k isDef st st' r hstep
      obtain ⟨i1, i2⟩ := ih st' d f hrun
      exact ⟨by rw [i1, e1], fun hF hle => i2 hF (e2 hF hle)⟩

end GqlVerif.Lex
