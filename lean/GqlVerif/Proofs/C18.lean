/-
  Helper lemmas for C18: invariants of the multiplexing client — one connection per key, no connection without a
  registration — for every action sequence.
-/
import GqlVerif.Proto.WsClient
namespace GqlVerif.WsClient

def registered (st : St) (r : Reg) : Prop := ∃ cn ∈ st.conns, r ∈ cn.regs

structure Inv (st : St) : Prop where
  keysNodup : (st.conns.map (·.key)).Nodup
  cidsNodup : (st.conns.map (·.cid)).Nodup
  nonEmpty : ∀ cn ∈ st.conns, cn.regs ≠ []
  cidsBelow : ∀ cn ∈ st.conns, cn.cid < st.nextConn

theorem inv_init : Inv {} := ⟨by simp, by simp, by simp, by simp⟩

theorem map_key_update (conns : List Conn) (f : Conn → Conn) (hf : ∀ c, (f c).key = c.key) :
    (conns.map f).map (·.key) = conns.map (·.key) := by
  simp [List.map_map, Function.comp, hf]

theorem map_cid_update (conns : List Conn) (f : Conn → Conn) (hf : ∀ c, (f c).cid = c.cid) :
    (conns.map f).map (·.cid) = conns.map (·.cid) := by
  simp [List.map_map, Function.comp, hf]

theorem nodup_map_filter {α β : Type} (f : α → β) (p : α → Bool) (l : List α) (h : (l.map f).Nodup) :
    ((l.filter p).map f).Nodup := by
  exact List.Nodup.sublist (List.Sublist.map f List.filter_sublist) h

theorem removeReg_inv (st : St) (c id : Nat) (h : Inv st) : Inv { st with conns := removeReg st.conns c id } := by
  have hk : ∀ x : Conn, (if x.cid == c then { x with regs := x.regs.filter (·.id != id) } else x).key = x.key := by
    intro x; split <;> rfl
  have hc : ∀ x : Conn, (if x.cid == c then { x with regs := x.regs.filter (·.id != id) } else x).cid = x.cid := by
    intro x; split <;> rfl
  refine ⟨?_, ?_, ?_, ?_⟩
  · show ((removeReg st.conns c id).map Conn.key).Nodup
    unfold removeReg
    apply nodup_map_filter
    rw [map_key_update _ _ hk]; exact h.keysNodup
  · show ((removeReg st.conns c id).map Conn.cid).Nodup
    unfold removeReg
    apply nodup_map_filter
    rw [map_cid_update _ _ hc]; exact h.cidsNodup
  · intro cn hcn
    have hcn' : cn ∈ removeReg st.conns c id := hcn
    unfold removeReg at hcn'
    simp only [List.mem_filter, List.mem_map] at hcn'
    obtain ⟨⟨x, hx, rfl⟩, hkeep⟩ := hcn'
    by_cases hxc : x.cid == c
    · simp only [hxc, if_true] at hkeep ⊢
      intro he
      simp [he] at hkeep
    · have hxc' : (x.cid == c) = false := by simpa using hxc
      simp only [hxc', Bool.false_eq_true, if_false]
      exact h.nonEmpty x hx
  · intro cn hcn
    have hcn' : cn ∈ removeReg st.conns c id := hcn
    unfold removeReg at hcn'
    simp only [List.mem_filter, List.mem_map] at hcn'
    obtain ⟨⟨x, hx, rfl⟩, _⟩ := hcn'
    show (if x.cid == c then { x with regs := x.regs.filter (·.id != id) } else x).cid < st.nextConn
    rw [hc x]; exact h.cidsBelow x hx

theorem addReg_keys (conns : List Conn) (c : Nat) (r : Reg) : (addReg conns c r).map Conn.key = conns.map Conn.key := by
  unfold addReg
  apply map_key_update
  intro x; split <;> rfl

theorem addReg_cids (conns : List Conn) (c : Nat) (r : Reg) : (addReg conns c r).map Conn.cid = conns.map Conn.cid := by
  unfold addReg
  apply map_cid_update
  intro x; split <;> rfl

theorem mem_addReg (conns : List Conn) (c : Nat) (r : Reg) (y : Conn) (hy : y ∈ addReg conns c r) :
    ∃ x ∈ conns, y.cid = x.cid ∧ (y.regs = x.regs ∨ y.regs = x.regs ++ [r]) := by
  unfold addReg at hy
  simp only [List.mem_map] at hy
  obtain ⟨x, hx, rfl⟩ := hy
  refine ⟨x, hx, ?_, ?_⟩
  · split <;> rfl
  · split
    · exact Or.inr rfl
    · exact Or.inl rfl

theorem step_inv (st : St) (a : Act) (h : Inv st) : Inv (step st a) := by
  cases a with
  | subscribe s k =>
    simp only [step]
    split
    · rename_i cn hfind
      refine ⟨?_, ?_, ?_, ?_⟩
      · show ((addReg st.conns cn.cid ⟨st.nextId, s⟩).map Conn.key).Nodup
        rw [addReg_keys]; exact h.keysNodup
      · show ((addReg st.conns cn.cid ⟨st.nextId, s⟩).map Conn.cid).Nodup
        rw [addReg_cids]; exact h.cidsNodup
      · intro y hy
        obtain ⟨x, hx, _, hr⟩ := mem_addReg _ _ _ y hy
        rcases hr with hr | hr
        · rw [hr]; exact h.nonEmpty x hx
        · rw [hr]; simp
      · intro y hy
        obtain ⟨x, hx, hc, _⟩ := mem_addReg _ _ _ y hy
        show y.cid < st.nextConn
        rw [hc]; exact h.cidsBelow x hx
    · rename_i hfind
      have hnone : ∀ x ∈ st.conns, x.key ≠ k := by
        intro x hx hxk
        have := List.find?_eq_none.mp hfind x hx
        simp [hxk] at this
      refine ⟨?_, ?_, ?_, ?_⟩
      · show ((st.conns ++ [_]).map Conn.key).Nodup
        rw [List.map_append, List.nodup_append]
        refine ⟨h.keysNodup, by simp, ?_⟩
        intro a ha b hb hab
        simp only [List.map_cons, List.map_nil, List.mem_singleton] at hb
        subst hb
        simp only [List.mem_map] at ha
        obtain ⟨x, hx, rfl⟩ := ha
        exact hnone x hx hab
      · show ((st.conns ++ [_]).map Conn.cid).Nodup
        rw [List.map_append, List.nodup_append]
        refine ⟨h.cidsNodup, by simp, ?_⟩
        intro a ha b hb hab
        simp only [List.map_cons, List.map_nil, List.mem_singleton] at hb
        subst hb
        simp only [List.mem_map] at ha
        obtain ⟨x, hx, rfl⟩ := ha
        have := h.cidsBelow x hx
        omega
      · intro y hy
        have hy' : y ∈ st.conns ++ [_] := hy
        rcases List.mem_append.mp hy' with hy' | hy'
        · exact h.nonEmpty y hy'
        · simp only [List.mem_singleton] at hy'; subst hy'; simp
      · intro y hy
        have hy' : y ∈ st.conns ++ [_] := hy
        show y.cid < st.nextConn + 1
        rcases List.mem_append.mp hy' with hy' | hy'
        · have := h.cidsBelow y hy'; omega
        · simp only [List.mem_singleton] at hy'; subst hy'; simp
  | upstream c id k =>
    simp only [step]
    split
    · rename_i r hr
      by_cases hk : k.terminal = true
      · simp only [hk, if_true]
        exact removeReg_inv { st with log := st.log ++ [(r.sub, Event.msg k)] } c id
          ⟨h.keysNodup, h.cidsNodup, h.nonEmpty, h.cidsBelow⟩
      · have hk' : k.terminal = false := by simpa using hk
        simp only [hk', Bool.false_eq_true, if_false]
        exact ⟨h.keysNodup, h.cidsNodup, h.nonEmpty, h.cidsBelow⟩
    · exact h
  | unsubscribe s =>
    simp only [step]
    split
    · exact removeReg_inv st _ _ h
    · exact h
  | drop c =>
    simp only [step]
    split
    · refine ⟨nodup_map_filter _ _ _ h.keysNodup, nodup_map_filter _ _ _ h.cidsNodup, ?_, ?_⟩
      · intro y hy
        have hy' : y ∈ st.conns.filter _ := hy
        exact h.nonEmpty y (List.mem_filter.mp hy').1
      · intro y hy
        have hy' : y ∈ st.conns.filter _ := hy
        exact h.cidsBelow y (List.mem_filter.mp hy').1
    · exact h

theorem run_inv (st : St) (acts : List Act) (h : Inv st) : Inv (run st acts) := by
  induction acts generalizing st with
  | nil => exact h
  | cons a acts ih => exact ih (step st a) (step_inv st a h)

end GqlVerif.WsClient
