/-
  Proofs.C08Bridge — the decision sequence (Plan.SkipSched) of a dependency-respecting schedule of a fetch tree is `WO`.
-/
import GqlVerif.Plan.SkipSched
import GqlVerif.Proofs.C08
import GqlVerif.Proofs.C08Skip
namespace GqlVerif.Sched
open GqlVerif.Plan.Skip

theorem startOrder_events (t : FTree) : startOrder (events t) = ids t := by
  induction t with
  | empty => rfl
  | single i => rfl
  | seq a b iha ihb => simp [startOrder, events, ids, List.filterMap_append] at *; rw [iha, ihb]
  | par a b iha ihb => simp [startOrder, events, ids, List.filterMap_append] at *; rw [iha, ihb]

theorem events_nodup (t : FTree) (h : (ids t).Nodup) : (events t).Nodup := by
  have mem_ids : ∀ (t : FTree) e, e ∈ events t → (match e with | .start i => i | .done i => i) ∈ ids t := by
    intro t
    induction t with
    | empty => intro e he; simp [events] at he
    | single i => intro e he; simp [events] at he; rcases he with rfl | rfl <;> simp [ids]
    | seq a b iha ihb =>
      intro e he; simp only [events, List.mem_append] at he; simp only [ids, List.mem_append]
      rcases he with he | he
      · exact Or.inl (iha e he)
      · exact Or.inr (ihb e he)
    | par a b iha ihb =>
      intro e he; simp only [events, List.mem_append] at he; simp only [ids, List.mem_append]
      rcases he with he | he
      · exact Or.inl (iha e he)
      · exact Or.inr (ihb e he)
  induction t with
  | empty => simp [events]
  | single i => simp [events]
  | seq a b iha ihb =>
    simp only [ids] at h
    have := List.nodup_append.mp h
    simp only [events]
    refine List.nodup_append.mpr ⟨iha this.1, ihb this.2.1, ?_⟩
    intro x hx y hy hxy
    subst hxy
    exact this.2.2 _ (mem_ids a x hx) _ (mem_ids b x hy) rfl
  | par a b iha ihb =>
    simp only [ids] at h
    have := List.nodup_append.mp h
    simp only [events]
    refine List.nodup_append.mpr ⟨iha this.1, ihb this.2.1, ?_⟩
    intro x hx y hy hxy
    subst hxy
    exact this.2.2 _ (mem_ids a x hx) _ (mem_ids b x hy) rfl

theorem hb_start_done (t : FTree) (i : Nat) (h : i ∈ ids t) : HB t (.start i) (.done i) := by
  induction t with
  | empty => simp [ids] at h
  | single j => simp [ids] at h; subst h; exact .single
  | seq a b iha ihb =>
    simp only [ids, List.mem_append] at h
    rcases h with h | h
    · exact .seqL (iha h)
    · exact .seqR (ihb h)
  | par a b iha ihb =>
    simp only [ids, List.mem_append] at h
    rcases h with h | h
    · exact .parL (iha h)
    · exact .parR (ihb h)

theorem done_mem_ids (t : FTree) (b : Nat) (h : Ev.done b ∈ events t) : b ∈ ids t := by
  induction t with
  | empty => simp [events] at h
  | single j => simp [events] at h; simp [ids, h]
  | seq x y ihx ihy =>
    simp only [events, List.mem_append] at h; simp only [ids, List.mem_append]
    exact h.imp ihx ihy
  | par x y ihx ihy =>
    simp only [events, List.mem_append] at h; simp only [ids, List.mem_append]
    exact h.imp ihx ihy

theorem before_idx {tr : List Ev} {x y : Ev} (h : Before tr x y) :
    ∃ (p q : Nat), p < q ∧ tr[p]? = some x ∧ tr[q]? = some y := by
  obtain ⟨l₁, l₂, l₃, rfl⟩ := h
  refine ⟨l₁.length, l₁.length + 1 + l₂.length, by omega, ?_, ?_⟩
  · simp
  · have : l₁ ++ x :: l₂ ++ y :: l₃ = (l₁ ++ x :: l₂) ++ y :: l₃ := by simp
    rw [this, List.getElem?_append_right (by simp; omega)]
    simp
    have : l₁.length + 1 + l₂.length - (l₁.length + (l₂.length + 1)) = 0 := by omega
    rw [this]; rfl

theorem idx_unique {tr : List Ev} (hn : tr.Nodup) {p q : Nat} {x : Ev} (hp : tr[p]? = some x) (hq : tr[q]? = some x) : p = q := by
  have hlt : p < tr.length := by
    rcases Nat.lt_or_ge p tr.length with h | h
    · exact h
    · rw [List.getElem?_eq_none h] at hp; cases hp
  exact (List.getElem?_inj hlt hn).mp (hp.trans hq.symm)

/-- the decision sequence of a schedule in which every dependency is merged before its reader is prepared is a legal
    linearisation in the sense of Plan.Skip -/
theorem decisions_WO' (deps : Nat → List Nat) (known : List Nat) (t : FTree) (tr : List Ev)
    (hnd : (ids t).Nodup)
    (hsafe : ∀ i, i ∈ ids t → ∀ d, d ∈ deps i → d ∈ known → Before tr (.done d) (.start i))
    (hl : Linearization t tr) :
    WO (decisions deps known tr) := by
  have htn : tr.Nodup := (hl.perm.nodup_iff).mpr (events_nodup t hnd)
  have hso : (startOrder tr).Perm (ids t) := by
    have := hl.perm.filterMap startId
    rw [show List.filterMap startId (events t) = ids t from startOrder_events t] at this
    exact this
  have hstart : ∀ i, Ev.start i ∈ tr → i ∈ ids t := by
    intro i hi
    apply hso.mem_iff.mp
    exact List.mem_filterMap.mpr ⟨_, hi, rfl⟩
  -- no dependency cycle inside a schedule
  have nocycle : ∀ a b, Ev.start a ∈ tr → b ∈ deps a → b ∈ known →
      ∀ (p q : Nat), tr[p]? = some (Ev.start a) → tr[q]? = some (Ev.start b) → q < p := by
    intro a b ha hb hk p q hp hq
    have hai := hstart a ha
    obtain ⟨p1, q1, h1, e1, e1'⟩ := before_idx (hsafe a hai b hb hk)            -- done b < start a
    have hbi : b ∈ ids t := done_mem_ids t b (hl.perm.mem_iff.mp (List.mem_of_getElem? e1))
    obtain ⟨p2, q2, h2, e2, e2'⟩ := before_idx (hl.respects _ _ (hb_start_done t b hbi))  -- start b < done b
    have := idx_unique htn e1' hp
    have := idx_unique htn e2' e1
    have := idx_unique htn e2 hq
    omega
  constructor
  · unfold decisions
    rw [List.pairwise_reverse, List.pairwise_map]
    unfold startOrder
    rw [List.pairwise_filterMap, List.pairwise_iff_getElem]
    intro i j hi hj hij a ha b hb
    have ea : tr[i]? = some (Ev.start a) := by
      rw [List.getElem?_eq_getElem hi]; cases hx : tr[i] <;> simp [startId, hx] at ha ⊢; exact ha
    have eb : tr[j]? = some (Ev.start b) := by
      rw [List.getElem?_eq_getElem hj]; cases hx : tr[j] <;> simp [startId, hx] at hb ⊢; exact hb
    refine ⟨?_, ?_⟩
    · intro hab
      simp only at hab
      subst hab
      have := idx_unique htn ea eb
      omega
    · intro hmem
      simp only [List.mem_filter, List.contains_eq_mem, decide_eq_true_eq] at hmem
      have := nocycle a b (List.mem_of_getElem? ea) hmem.1 hmem.2 i j ea eb
      omega
  · intro f hf
    unfold decisions at hf
    simp only [List.mem_reverse, List.mem_map] at hf
    obtain ⟨i, hi, rfl⟩ := hf
    simp only [List.mem_filter, List.contains_eq_mem, decide_eq_true_eq]
    rintro ⟨hd, hk⟩
    obtain ⟨e, he, hs⟩ := List.mem_filterMap.mp hi
    have : e = Ev.start i := by cases e <;> simp [startId] at hs; rw [hs]
    subst this
    obtain ⟨p, hp⟩ := List.getElem?_of_mem he
    have := nocycle i i he hd hk p p hp hp
    omega

end GqlVerif.Sched

namespace GqlVerif.Sched
open GqlVerif.Plan.Skip
theorem decisions_perm (deps : Nat → List Nat) (known : List Nat) (t : FTree) (tr₁ tr₂ : List Ev)
    (h₁ : Linearization t tr₁) (h₂ : Linearization t tr₂) :
    (decisions deps known tr₁).Perm (decisions deps known tr₂) := by
  unfold decisions startOrder
  have p : (tr₁.filterMap startId).Perm (tr₂.filterMap startId) := (h₁.perm.trans h₂.perm.symm).filterMap startId
  exact (List.reverse_perm _).trans ((p.map _).trans (List.reverse_perm _).symm)
end GqlVerif.Sched
