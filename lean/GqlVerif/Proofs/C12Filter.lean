/-
  Proofs.C12Filter — facts about the filter decision (Misc.SubFilter).
-/
import GqlVerif.Misc.SubFilter
namespace GqlVerif.SubFilter
open GqlVerif

theorem passesAll_iff (event vars : List (String × Json)) : ∀ (fs : List Filter),
    passesAll event vars fs = true ↔ ∀ f ∈ fs, passes event vars f = true
  | [] => by simp [passesAll]
  | f :: fs => by simp [passesAll, passesAll_iff event vars fs]

theorem passesAny_iff (event vars : List (String × Json)) : ∀ (fs : List Filter),
    passesAny event vars fs = true ↔ ∃ f ∈ fs, passes event vars f = true
  | [] => by simp [passesAny]
  | f :: fs => by simp [passesAny, passesAny_iff event vars fs]

theorem inPasses_iff (event vars : List (String × Json)) (field : String) (values : List FV) :
    inPasses event vars field values = true ↔
      ∃ fv, lookup event field = some fv ∧ ∃ v ∈ values, ∃ j, valueOf vars v = some j ∧ matchesValue fv j = true := by
  unfold inPasses
  cases h : lookup event field with
  | none => simp
  | some fv =>
    simp only [List.any_eq_true, Option.some.injEq, exists_eq_left']
    constructor
    · rintro ⟨v, hv, hm⟩
      cases hj : valueOf vars v with
      | none => simp [hj] at hm
      | some j => simp [hj] at hm; exact ⟨v, hv, j, hj, hm⟩
    · rintro ⟨v, hv, j, hj, hm⟩
      exact ⟨v, hv, by simp [hj, hm]⟩

end GqlVerif.SubFilter
