/-
  Proofs.C12Ord — the ordering invariant of Proto.Subs: the data messages written to one subscriber carry the
  subscriber's own generation, strictly increasing event numbers, only events that pass its filter, and never an
  event number above the trigger's last event.  Proved over `step` directly (the primitive decomposition of
  Proofs.C12Prim deliberately forgets what is appended to a log).
-/
import GqlVerif.Proofs.C12
set_option linter.unusedSimpArgs false
set_option linter.unusedVariables false
namespace GqlVerif.Subs

/-- the data calls of a writer log: (generation, event number), oldest first -/
def dataCalls (log : List Call) : List (Nat × Nat) :=
  log.filterMap fun c => match c with | .data g n => some (g, n) | _ => none

theorem dataCalls_append_data (log : List Call) (g n : Nat) : dataCalls (log ++ [.data g n]) = dataCalls log ++ [(g, n)] := by
  simp [dataCalls, List.filterMap_append]

theorem dataCalls_append_other (log : List Call) (c : Call) (h : ∀ g n, c ≠ .data g n) : dataCalls (log ++ [c]) = dataCalls log := by
  cases c with
  | data g n => exact absurd rfl (h g n)
  | _ => simp [dataCalls, List.filterMap_append]

/-- the part of a subscriber record the ordering facts depend on -/
def CoreEq (x x' : Sub) : Prop := dataCalls x'.log = dataCalls x.log ∧ x'.gen = x.gen ∧ x'.filter = x.filter

theorem CoreEq.refl (x : Sub) : CoreEq x x := ⟨rfl, rfl, rfl⟩
theorem CoreEq.trans {x y z : Sub} (a : CoreEq x y) (b : CoreEq y z) : CoreEq x z :=
  ⟨b.1.trans a.1, b.2.1.trans a.2.1, b.2.2.trans a.2.2⟩

theorem CoreEq.passes {x x' : Sub} (h : CoreEq x x') (n : Nat) : x'.passes n = x.passes n := by
  unfold Sub.passes; rw [h.2.2]

theorem CoreEq.write (x : Sub) (c : Call) (h : ∀ g n, c ≠ .data g n) : CoreEq x (x.write c) := by
  unfold Sub.write
  split
  · exact CoreEq.refl x
  · exact ⟨dataCalls_append_other _ _ h, rfl, rfl⟩

/-- subscriber tables that agree on the ordering-relevant part -/
def SubsQuiet (f f' : Nat → Option Sub) : Prop :=
  ∀ i, match f i, f' i with
    | some x, some x' => CoreEq x x'
    | none, none => True
    | _, _ => False

theorem SubsQuiet.refl (f : Nat → Option Sub) : SubsQuiet f f := by
  intro i; cases h : f i <;> simp [CoreEq.refl]

theorem SubsQuiet.trans {f g h : Nat → Option Sub} (a : SubsQuiet f g) (b : SubsQuiet g h) : SubsQuiet f h := by
  intro i
  have ha := a i; have hb := b i
  cases hf : f i <;> cases hg : g i <;> cases hh : h i <;> simp_all
  exact ha.trans hb

theorem SubsQuiet.upd {f : Nat → Option Sub} {i : Nat} {x x' : Sub} (h : f i = some x) (hc : CoreEq x x') :
    SubsQuiet f (upd f i (some x')) := by
  intro j
  by_cases hj : j = i
  · subst hj; simp [h, hc]
  · simp [Subs.upd, hj]; cases hf : f j <;> simp [CoreEq.refl]

theorem SubsQuiet.markRemoved (f : Nat → Option Sub) (is : List Nat) : SubsQuiet f (markRemoved f is) := by
  intro i
  rw [markRemoved_apply]
  cases hf : f i with
  | none => by_cases hc : is.contains i = true <;> simp [hc]
  | some x =>
    by_cases hc : is.contains i = true
    · simp only [hc, if_true, Option.map_some]; exact ⟨rfl, rfl, rfl⟩
    · simp only [hc, Bool.false_eq_true, if_false]; exact CoreEq.refl x

theorem SubsQuiet.writeAll (f : Nat → Option Sub) (is : List Nat) (c : Call) (h : ∀ g n, c ≠ .data g n) :
    SubsQuiet f (writeAll f is c) := by
  induction is generalizing f with
  | nil => exact SubsQuiet.refl f
  | cons i is ih =>
    unfold Subs.writeAll
    simp only [List.foldl_cons]
    cases hx : f i with
    | none => simpa [Subs.writeAll, hx] using ih f
    | some x =>
      have h1 : SubsQuiet f (Subs.upd f i (some (x.write c))) := SubsQuiet.upd hx (CoreEq.write x c h)
      have h2 := ih (Subs.upd f i (some (x.write c)))
      exact h1.trans (by simpa [Subs.writeAll] using h2)

/-- a fan-out in progress may only shrink (or end) without being noticed by the ordering facts -/
def FanLe (a b : Option (Kind × List Nat)) : Prop :=
  b = none ∨ ∃ k rest rest', a = some (k, rest) ∧ b = some (k, rest') ∧ (∀ i ∈ rest', i ∈ rest) ∧ (rest.Nodup → rest'.Nodup)

theorem FanLe.refl (a : Option (Kind × List Nat)) : FanLe a a := by
  cases a with
  | none => exact Or.inl rfl
  | some p => exact Or.inr ⟨p.1, p.2, p.2, rfl, rfl, fun _ h => h, id⟩

theorem FanLe.trans {a b c : Option (Kind × List Nat)} (h1 : FanLe a b) (h2 : FanLe b c) : FanLe a c := by
  rcases h2 with h2 | ⟨k, r, r', hb, hc, hs, hn⟩
  · exact Or.inl h2
  · rcases h1 with h1 | ⟨k1, r1, r1', ha, hb', hs1, hn1⟩
    · rw [h1] at hb; cases hb
    · rw [hb'] at hb; cases hb
      exact Or.inr ⟨k, r1, r', ha, hc, fun i hi => hs1 i (hs i hi), fun h => hn (hn1 h)⟩

/-- generation tables that agree on the last event number, with fan-outs that at most shrank -/
def GensQuiet (f f' : Nat → Option Gen) : Prop :=
  ∀ g, match f g, f' g with
    | some G, some G' => G'.lastEvent = G.lastEvent ∧ FanLe G.fan G'.fan
    | none, none => True
    | _, _ => False

theorem GensQuiet.refl (f : Nat → Option Gen) : GensQuiet f f := by
  intro g; cases h : f g <;> simp [FanLe.refl]

theorem GensQuiet.trans {f g h : Nat → Option Gen} (a : GensQuiet f g) (b : GensQuiet g h) : GensQuiet f h := by
  intro i
  have ha := a i; have hb := b i
  cases hf : f i <;> cases hg : g i <;> cases hh : h i <;> simp_all
  exact ha.2.trans hb.2

theorem GensQuiet.upd {f : Nat → Option Gen} {g : Nat} {G G' : Gen} (h : f g = some G)
    (hl : G'.lastEvent = G.lastEvent) (hf : FanLe G.fan G'.fan) : GensQuiet f (upd f g (some G')) := by
  intro j
  by_cases hj : j = g
  · subst hj; simp [h, hl, hf]
  · simp [Subs.upd, hj]; cases hx : f j <;> simp [FanLe.refl]

/-! ### the invariant -/

/-- ordering facts of one subscriber record -/
structure SubOrd (s : St) (i : Nat) (x : Sub) : Prop where
  lt : x.gen < s.nextGen
  gen : ∀ p ∈ dataCalls x.log, p.1 = x.gen
  sorted : ((dataCalls x.log).map (·.2)).Pairwise (· < ·)
  pass : ∀ p ∈ dataCalls x.log, x.passes p.2 = true
  le : ∀ G, s.gens x.gen = some G → ∀ p ∈ dataCalls x.log, p.2 ≤ G.lastEvent
  fan : ∀ G n rest, s.gens x.gen = some G → G.fan = some (.data n, rest) → i ∈ rest → ∀ p ∈ dataCalls x.log, p.2 < n

structure OrdInv (s : St) : Prop where
  sub : ∀ i x, s.subs i = some x → SubOrd s i x
  fan : ∀ g G k rest, s.gens g = some G → G.fan = some (k, rest) →
    rest.Nodup ∧ (∀ n, k = .data n → n = G.lastEvent) ∧
      ∀ i ∈ rest, ∃ x, s.subs i = some x ∧ x.gen = g ∧ ∀ n, k = .data n → x.passes n = true

theorem ordInv_init : OrdInv St.init := by
  refine ⟨?_, ?_⟩ <;> simp [St.init]

/-- steps that do not append data, do not move `lastEvent` and at most shrink fan-outs keep the invariant -/
theorem ord_quiet {s s' : St} (h : OrdInv s) (hn : s'.nextGen = s.nextGen)
    (hs : SubsQuiet s.subs s'.subs) (hg : GensQuiet s.gens s'.gens) : OrdInv s' := by
  have gen_back : ∀ g G', s'.gens g = some G' → ∃ G, s.gens g = some G ∧ G'.lastEvent = G.lastEvent ∧ FanLe G.fan G'.fan := by
    intro g G' hG'
    have := hg g
    cases hG : s.gens g with
    | none => simp [hG, hG'] at this
    | some G => simp only [hG, hG'] at this; exact ⟨G, rfl, this.1, this.2⟩
  have sub_back : ∀ i x', s'.subs i = some x' → ∃ x, s.subs i = some x ∧ CoreEq x x' := by
    intro i x' hx'
    have := hs i
    cases hx : s.subs i with
    | none => simp [hx, hx'] at this
    | some x => simp only [hx, hx'] at this; exact ⟨x, rfl, this⟩
  have sub_fwd : ∀ i x, s.subs i = some x → ∃ x', s'.subs i = some x' ∧ CoreEq x x' := by
    intro i x hx
    have := hs i
    cases hx' : s'.subs i with
    | none => simp [hx, hx'] at this
    | some x' => simp only [hx, hx'] at this; exact ⟨x', rfl, this⟩
  constructor
  · intro i x' hx'
    obtain ⟨x, hx, hc⟩ := sub_back i x' hx'
    have ho := h.sub i x hx
    obtain ⟨hd, hgen, hfil⟩ := hc
    refine ⟨by rw [hgen, hn]; exact ho.lt, ?_, ?_, ?_, ?_, ?_⟩
    · rw [hd, hgen]; exact ho.gen
    · rw [hd]; exact ho.sorted
    · intro p hp; rw [hd] at hp; rw [CoreEq.passes ⟨hd, hgen, hfil⟩]; exact ho.pass p hp
    · intro G' hG' p hp
      rw [hgen] at hG'; rw [hd] at hp
      obtain ⟨G, hG, hl, _⟩ := gen_back _ G' hG'
      rw [hl]; exact ho.le G hG p hp
    · intro G' n rest' hG' hfan
      rw [hgen] at hG'
      obtain ⟨G, hG, hl, hf⟩ := gen_back _ G' hG'
      rcases hf with hf | ⟨k, rest, r', ha, hb, hsub, _⟩
      · rw [hf] at hfan; cases hfan
      · rw [hb] at hfan; cases hfan
        intro hi p hp
        rw [hd] at hp
        exact ho.fan G n rest hG ha (hsub i hi) p hp
  · intro g G' k rest' hG' hfan
    obtain ⟨G, hG, hl, hf⟩ := gen_back g G' hG'
    rcases hf with hf | ⟨k0, rest, r', ha, hb, hsub, hnd⟩
    · rw [hf] at hfan; cases hfan
    · rw [hb] at hfan; cases hfan
      obtain ⟨h1, hle, h2⟩ := h.fan g G k rest hG ha
      refine ⟨hnd h1, fun n hk => by rw [hl]; exact hle n hk, fun i hi => ?_⟩
      obtain ⟨x, hx, hxg, hp⟩ := h2 i (hsub i hi)
      obtain ⟨x', hx', hc⟩ := sub_fwd i x hx
      exact ⟨x', hx', by rw [hc.2.1]; exact hxg, fun n hk => by rw [CoreEq.passes hc]; exact hp n hk⟩

/-! ### quiet steps -/

structure Quiet (s s' : St) : Prop where
  n : s'.nextGen = s.nextGen
  subs : SubsQuiet s.subs s'.subs
  gens : GensQuiet s.gens s'.gens

theorem Quiet.refl (s : St) : Quiet s s := ⟨rfl, SubsQuiet.refl _, GensQuiet.refl _⟩
theorem Quiet.trans {s t u : St} (a : Quiet s t) (b : Quiet t u) : Quiet s u :=
  ⟨b.n.trans a.n, a.subs.trans b.subs, a.gens.trans b.gens⟩

theorem ord_of_quiet {s s' : St} (h : OrdInv s) (q : Quiet s s') : OrdInv s' := ord_quiet h q.n q.subs q.gens

theorem quiet_detach (s : St) (g : Nat) : Quiet s (detach s g) :=
  ⟨rfl, SubsQuiet.markRemoved _ _, GensQuiet.refl _⟩

theorem quiet_removeOne (s : St) (i g : Nat) : Quiet s (removeOne s i g) := by
  unfold removeOne
  split <;> exact ⟨rfl, SubsQuiet.markRemoved _ _, GensQuiet.refl _⟩

theorem quiet_unsub (s : St) (i : Nat) : Quiet s (unsub s i) := by
  unfold unsub
  split
  · split
    · exact quiet_removeOne s i _
    · exact Quiet.refl s
  · exact Quiet.refl s

theorem quiet_foldl_unsub (l : List Nat) (s : St) : Quiet s (l.foldl unsub s) := by
  induction l generalizing s with
  | nil => exact Quiet.refl s
  | cons i l ih => exact (quiet_unsub s i).trans (ih _)

theorem quiet_foldl_detach (l : List Nat) (s : St) : Quiet s (l.foldl detach s) := by
  induction l generalizing s with
  | nil => exact Quiet.refl s
  | cons g l ih => exact (quiet_detach s g).trans (ih _)

theorem quiet_setGen (s : St) (g : Nat) (G G' : Gen) (h : s.gens g = some G) (hl : G'.lastEvent = G.lastEvent)
    (hf : FanLe G.fan G'.fan) : Quiet s { s with gens := upd s.gens g (some G') } :=
  ⟨rfl, SubsQuiet.refl _, GensQuiet.upd h hl hf⟩

theorem quiet_setSub (s : St) (i : Nat) (x x' : Sub) (h : s.subs i = some x) (hc : CoreEq x x') :
    Quiet s { s with subs := upd s.subs i (some x') } :=
  ⟨rfl, SubsQuiet.upd h hc, GensQuiet.refl _⟩

theorem quiet_writeAll (s : St) (is : List Nat) (c : Call) (h : ∀ g n, c ≠ .data g n) :
    Quiet s { s with subs := writeAll s.subs is c } :=
  ⟨rfl, SubsQuiet.writeAll _ _ _ h, GensQuiet.refl _⟩

/-! ### the steps that are not quiet -/

/-- the invariant only looks at the subscriber table, the generation table and the generation counter -/
theorem ord_congr {s s' : St} (h : OrdInv s) (h1 : s'.subs = s.subs) (h2 : s'.gens = s.gens) (h3 : s'.nextGen = s.nextGen) :
    OrdInv s' :=
  ord_quiet h h3 (by rw [h1]; exact SubsQuiet.refl _) (by rw [h2]; exact GensQuiet.refl _)

/-- a new subscriber record without data calls -/
theorem ord_add_sub {s : St} (h : OrdInv s) (i : Nat) (x : Sub) (hi : s.subs i = none) (hx : x.log = [])
    (hlt : x.gen < s.nextGen) : OrdInv { s with subs := upd s.subs i (some x) } := by
  constructor
  · intro j y hy
    by_cases hj : j = i
    · subst hj
      simp only [upd_same, Option.some.injEq] at hy
      subst hy
      refine ⟨hlt, ?_, ?_, ?_, ?_, ?_⟩ <;> simp [hx, dataCalls]
    · simp only [upd_other _ _ _ _ hj] at hy
      have ho := h.sub j y hy
      exact ⟨ho.lt, ho.gen, ho.sorted, ho.pass, ho.le, ho.fan⟩
  · intro g G k rest hG hf
    obtain ⟨h1, h2, h3⟩ := h.fan g G k rest hG hf
    refine ⟨h1, h2, fun j hj => ?_⟩
    obtain ⟨y, hy, hyg, hyp⟩ := h3 j hj
    have hji : j ≠ i := by intro he; rw [he, hi] at hy; cases hy
    exact ⟨y, by simp [upd_other _ _ _ _ hji, hy], hyg, hyp⟩

/-- a new generation: nobody belongs to it yet -/
theorem ord_add_gen {s : St} (h : OrdInv s) (G : Gen) (hf : G.fan = none) :
    OrdInv { s with gens := upd s.gens s.nextGen (some G), nextGen := s.nextGen + 1 } := by
  constructor
  · intro j y hy
    have ho := h.sub j y hy
    have hne : y.gen ≠ s.nextGen := Nat.ne_of_lt ho.lt
    refine ⟨Nat.lt_succ_of_lt ho.lt, ho.gen, ho.sorted, ho.pass, ?_, ?_⟩
    · intro G' hG'; simp only [upd_other _ _ _ _ hne] at hG'; exact ho.le G' hG'
    · intro G' n rest hG'; simp only [upd_other _ _ _ _ hne] at hG'; exact ho.fan G' n rest hG'
  · intro g G' k rest hG' hfan
    by_cases hg : g = s.nextGen
    · subst hg
      simp only [upd_same, Option.some.injEq] at hG'
      subst hG'
      rw [hf] at hfan; cases hfan
    · simp only [upd_other _ _ _ _ hg] at hG'
      exact h.fan g G' k rest hG' hfan

theorem mem_members {s : St} {g i : Nat} (h : i ∈ s.members g) : ∃ x, s.subs i = some x ∧ x.gen = g := by
  simp only [St.members, List.mem_filter, St.genOf] at h
  cases hx : s.subs i with
  | none => simp [hx] at h
  | some x => simp [hx] at h; exact ⟨x, rfl, h.2⟩

/-- the start of a data fan-out: a larger event number, the targets are members that pass -/
theorem ord_fanBegin_data {s : St} (h : OrdInv s) (hnd : s.byID.Nodup) (g : Nat) (G : Gen) (n : Nat) (only : Option Nat)
    (hG : s.gens g = some G) (hn : n > G.lastEvent) (G' : Gen) (hl : G'.lastEvent = n)
    (hf : G'.fan = some (.data n, s.selected g n only)) :
    OrdInv { s with gens := upd s.gens g (some G') } := by
  constructor
  · intro j y hy
    have ho := h.sub j y hy
    by_cases hyg : y.gen = g
    · refine ⟨ho.lt, ho.gen, ho.sorted, ho.pass, ?_, ?_⟩
      · intro G2 hG2 p hp
        simp only [hyg, upd_same, Option.some.injEq] at hG2
        subst hG2
        have := ho.le G (by rw [hyg]; exact hG) p hp
        omega
      · intro G2 n2 rest hG2 hfan _ p hp
        simp only [hyg, upd_same, Option.some.injEq] at hG2
        subst hG2
        rw [hf] at hfan; cases hfan
        have := ho.le G (by rw [hyg]; exact hG) p hp
        omega
    · refine ⟨ho.lt, ho.gen, ho.sorted, ho.pass, ?_, ?_⟩
      · intro G2 hG2; simp only [upd_other _ _ _ _ hyg] at hG2; exact ho.le G2 hG2
      · intro G2 n2 rest hG2; simp only [upd_other _ _ _ _ hyg] at hG2; exact ho.fan G2 n2 rest hG2
  · intro g2 G2 k rest hG2 hfan
    by_cases hg : g2 = g
    · subst hg
      simp only [upd_same, Option.some.injEq] at hG2
      subst hG2
      rw [hf] at hfan; cases hfan
      refine ⟨(hnd.filter _).filter _, fun n2 hk => by cases hk; exact hl.symm, fun i hi => ?_⟩
      simp only [St.selected, List.mem_filter] at hi
      obtain ⟨x, hx, hxg⟩ := mem_members hi.1
      refine ⟨x, hx, hxg, fun n2 hk => ?_⟩
      cases hk
      have := hi.2
      simp only [hx, Bool.and_eq_true] at this
      exact this.2.1
    · simp only [upd_other _ _ _ _ hg] at hG2
      exact h.fan g2 G2 k rest hG2 hfan

/-- the start of a Complete / Error fan-out -/
theorem ord_fanBegin_ctl {s : St} (h : OrdInv s) (hnd : s.byID.Nodup) (g : Nat) (G : Gen) (k : Kind)
    (hk : ∀ n, k ≠ .data n) (hG : s.gens g = some G) (G' : Gen) (hl : G'.lastEvent = G.lastEvent)
    (hf : G'.fan = some (k, s.members g)) :
    OrdInv { s with gens := upd s.gens g (some G') } := by
  constructor
  · intro j y hy
    have ho := h.sub j y hy
    by_cases hyg : y.gen = g
    · refine ⟨ho.lt, ho.gen, ho.sorted, ho.pass, ?_, ?_⟩
      · intro G2 hG2 p hp
        simp only [hyg, upd_same, Option.some.injEq] at hG2
        subst hG2
        rw [hl]; exact ho.le G (by rw [hyg]; exact hG) p hp
      · intro G2 n2 rest hG2 hfan
        simp only [hyg, upd_same, Option.some.injEq] at hG2
        subst hG2
        rw [hf] at hfan; cases hfan
        exact absurd rfl (hk n2)
    · refine ⟨ho.lt, ho.gen, ho.sorted, ho.pass, ?_, ?_⟩
      · intro G2 hG2; simp only [upd_other _ _ _ _ hyg] at hG2; exact ho.le G2 hG2
      · intro G2 n2 rest hG2; simp only [upd_other _ _ _ _ hyg] at hG2; exact ho.fan G2 n2 rest hG2
  · intro g2 G2 k2 rest hG2 hfan
    by_cases hg : g2 = g
    · subst hg
      simp only [upd_same, Option.some.injEq] at hG2
      subst hG2
      rw [hf] at hfan; cases hfan
      refine ⟨hnd.filter _, fun n2 hk2 => absurd hk2 (hk n2), fun i hi => ?_⟩
      obtain ⟨x, hx, hxg⟩ := mem_members hi
      exact ⟨x, hx, hxg, fun n2 hk2 => absurd hk2 (hk n2)⟩
    · simp only [upd_other _ _ _ _ hg] at hG2
      exact h.fan g2 G2 k2 rest hG2 hfan

/-- one data message appended to a subscriber that is not (any more) a target of its trigger's fan-out -/
theorem ord_append_data {s : St} (h : OrdInv s) (i : Nat) (x x' : Sub) (G : Gen) (n : Nat)
    (hx : s.subs i = some x) (hG : s.gens x.gen = some G) (hle : n ≤ G.lastEvent) (hp : x.passes n = true)
    (hlt : ∀ p ∈ dataCalls x.log, p.2 < n) (hout : ∀ k rest, G.fan = some (k, rest) → i ∉ rest)
    (hlog : x'.log = x.log ++ [.data x.gen n]) (hgen : x'.gen = x.gen) (hfil : x'.filter = x.filter) :
    OrdInv { s with subs := upd s.subs i (some x') } := by
  have hdc : dataCalls x'.log = dataCalls x.log ++ [(x.gen, n)] := by rw [hlog, dataCalls_append_data]
  have hpass : ∀ m, x'.passes m = x.passes m := fun m => by unfold Sub.passes; rw [hfil]
  constructor
  · intro j y hy
    by_cases hj : j = i
    · subst hj
      simp only [upd_same, Option.some.injEq] at hy
      subst hy
      have ho := h.sub j x hx
      refine ⟨by rw [hgen]; exact ho.lt, ?_, ?_, ?_, ?_, ?_⟩
      · intro p hp'
        rw [hdc] at hp'; rw [hgen]
        rcases List.mem_append.mp hp' with hp' | hp'
        · exact ho.gen p hp'
        · simp at hp'; rw [hp']
      · rw [hdc, List.map_append, List.pairwise_append]
        refine ⟨ho.sorted, by simp, ?_⟩
        intro a ha b hb
        simp at hb; subst hb
        obtain ⟨p, hp', rfl⟩ := List.mem_map.mp ha
        exact hlt p hp'
      · intro p hp'
        rw [hdc] at hp'; rw [hpass]
        rcases List.mem_append.mp hp' with hp' | hp'
        · exact ho.pass p hp'
        · simp at hp'; rw [hp']; exact hp
      · intro G2 hG2 p hp'
        rw [hgen] at hG2; rw [hG] at hG2; cases hG2
        rw [hdc] at hp'
        rcases List.mem_append.mp hp' with hp' | hp'
        · exact ho.le G hG p hp'
        · simp at hp'; rw [hp']; exact hle
      · intro G2 n2 rest hG2 hfan hi
        rw [hgen] at hG2; rw [hG] at hG2; cases hG2
        exact absurd hi (hout _ _ hfan)
    · simp only [upd_other _ _ _ _ hj] at hy
      have ho := h.sub j y hy
      exact ⟨ho.lt, ho.gen, ho.sorted, ho.pass, ho.le, ho.fan⟩
  · intro g G2 k rest hG2 hf
    obtain ⟨h1, h2, h3⟩ := h.fan g G2 k rest hG2 hf
    refine ⟨h1, h2, fun j hj => ?_⟩
    obtain ⟨y, hy, hyg, hyp⟩ := h3 j hj
    by_cases hji : j = i
    · subst hji
      rw [hx] at hy; cases hy
      exact ⟨x', by simp, by rw [hgen]; exact hyg, fun m hk => by rw [hpass]; exact hyp m hk⟩
    · exact ⟨y, by simp [upd_other _ _ _ _ hji, hy], hyg, hyp⟩

theorem lookup_mem {s : St} {key g : Nat} (h : s.lookup key = some g) : g ∈ s.trigs := by
  unfold St.lookup at h
  exact List.mem_of_find?_eq_some h

theorem fanLe_erase (k : Kind) (rest : List Nat) (i : Nat) : FanLe (some (k, rest)) (some (k, rest.erase i)) :=
  Or.inr ⟨k, rest, rest.erase i, rfl, rfl, fun _ h => List.mem_of_mem_erase h, fun h => h.erase i⟩

/-! ### every step keeps the invariant -/

theorem ord_step {s s' : St} (hb : Basic s) (hc : CloseInv s) (h : OrdInv s) (a : Act) (hs : step s a = some s') :
    OrdInv s' := by
  cases a with
  | subscribe i key conn filter hbeat =>
    simp only [step] at hs
    split at hs; · cases hs
    split at hs; · cases hs
    next hsh hsub =>
    have hnone : s.subs i = none := by
      cases hx : s.subs i with
      | none => rfl
      | some _ => simp [hx] at hsub
    split at hs
    · next g hg =>
      cases hs
      have hlt : g < s.nextGen := hb.2 g (lookup_mem hg)
      exact ord_congr (ord_add_sub h i { key := key, conn := conn, gen := g, filter := filter, hb := hbeat } hnone rfl hlt)
        rfl rfl rfl
    · next hg =>
      cases hs
      have h1 := ord_add_gen h ({ key := key } : Gen) rfl
      have h2 := ord_add_sub h1 i { key := key, conn := conn, gen := s.nextGen, filter := filter, hb := hbeat }
        hnone rfl (Nat.lt_succ_self _)
      exact ord_congr h2 rfl rfl rfl
  | startCall g =>
    simp only [step] at hs
    split at hs
    · next G hG =>
      split at hs
      · cases hs; exact ord_of_quiet h (quiet_setGen s g G _ hG rfl (FanLe.refl _))
      · cases hs
    · cases hs
  | startOk g =>
    simp only [step] at hs
    split at hs
    · next G hG =>
      split at hs
      · split at hs
        · cases hs
          exact ord_congr (ord_of_quiet h (quiet_setGen s g G { G with startReturned := true } hG rfl (FanLe.refl _))) rfl rfl rfl
        · cases hs; exact ord_of_quiet h (quiet_setGen s g G _ hG rfl (FanLe.refl _))
      · cases hs
    · cases hs
  | startFail g sel =>
    simp only [step] at hs
    split at hs
    · next G hG =>
      split at hs
      · have q1 := quiet_writeAll s sel .errorReport (by intro g n; simp)
        have q2 : Quiet { s with subs := writeAll s.subs sel .errorReport }
            { s with subs := writeAll s.subs sel .errorReport, gens := upd s.gens g (some { G with startReturned := true }) } :=
          quiet_setGen _ g G _ hG rfl (FanLe.refl _)
        split at hs
        · cases hs; exact ord_of_quiet h ((q1.trans q2).trans (quiet_detach _ g))
        · cases hs; exact ord_of_quiet h (q1.trans q2)
      · cases hs
    · cases hs
  | fanBegin g k only =>
    simp only [step] at hs
    split at hs
    · next G hG =>
      split at hs
      · next hguard =>
        cases k with
        | data n =>
          simp only at hs
          split at hs
          · next hn => cases hs; exact ord_fanBegin_data h hc.nodup g G n only hG hn _ rfl rfl
          · cases hs
        | complete => cases hs; exact ord_fanBegin_ctl h hc.nodup g G .complete (by intro n; simp) hG _ rfl rfl
        | error => cases hs; exact ord_fanBegin_ctl h hc.nodup g G .error (by intro n; simp) hG _ rfl rfl
      · cases hs
    · cases hs
  | fanOne g i fails =>
    simp only [step] at hs
    split at hs
    · next G hG =>
      split at hs
      · next k rest hfan =>
        split at hs
        · next hmem =>
          split at hs
          · next x hx =>
            cases hs
            have hi : i ∈ rest := by simpa using hmem
            obtain ⟨hnd, hlast, hmem'⟩ := h.fan g G k rest hG hfan
            obtain ⟨x0, hx0, hxg, hxp⟩ := hmem' i hi
            rw [hx] at hx0; cases hx0
            -- first the fan-out loses its target (quiet), then the write happens
            have q1 : Quiet s { s with gens := upd s.gens g (some { G with fan := some (k, rest.erase i) }) } :=
              quiet_setGen s g G _ hG rfl (by rw [hfan]; exact fanLe_erase k rest i)
            have h1 := ord_of_quiet h q1
            have hquietWrite : ∀ x' : Sub, CoreEq x x' →
                OrdInv { s with subs := upd s.subs i (some x'), gens := upd s.gens g (some { G with fan := some (k, rest.erase i) }) } := by
              intro x' hce
              have q2 : Quiet { s with gens := upd s.gens g (some { G with fan := some (k, rest.erase i) }) }
                  { s with subs := upd s.subs i (some x'), gens := upd s.gens g (some { G with fan := some (k, rest.erase i) }) } :=
                quiet_setSub _ i x x' hx hce
              exact ord_of_quiet h1 q2
            unfold fanWrite
            split
            · exact hquietWrite x (CoreEq.refl x)
            · cases k with
              | complete => exact hquietWrite _ ⟨dataCalls_append_other _ _ (by intro g n; simp), rfl, rfl⟩
              | error => exact hquietWrite _ ⟨dataCalls_append_other _ _ (by intro g n; simp), rfl, rfl⟩
              | data n =>
                simp only
                split
                · exact hquietWrite _ ⟨dataCalls_append_other _ _ (by intro g n; simp), rfl, rfl⟩
                · have hlt := (h.sub i x hx).fan G n rest (by rw [hxg]; exact hG) hfan hi
                  have := ord_append_data (s := { s with gens := upd s.gens g (some { G with fan := some (.data n, rest.erase i) }) })
                    h1 i x { x with log := x.log ++ [.data g n], wrote := true } { G with fan := some (.data n, rest.erase i) } n
                    hx (by simp [hxg]) (by simp [hlast n rfl]) (hxp n rfl) hlt
                    (by intro k2 r2 hf2; simp at hf2; rw [← hf2.2]; exact List.Nodup.not_mem_erase hnd)
                    (by simp [hxg]) rfl rfl
                  exact this
          · cases hs
        · cases hs
      · cases hs
    · cases hs
  | fanEnd g =>
    simp only [step] at hs
    split at hs
    · next G hG =>
      split at hs
      · cases hs; exact ord_of_quiet h (quiet_setGen s g G _ hG rfl (Or.inl rfl))
      · cases hs
    · cases hs
  | done g =>
    simp only [step] at hs
    split at hs
    · next G hG =>
      split at hs
      · have q1 : Quiet s { s with gens := upd s.gens g (some { G with done := true }) } :=
          quiet_setGen s g G _ hG rfl (FanLe.refl _)
        split at hs
        · cases hs; exact ord_of_quiet h (q1.trans (quiet_detach _ g))
        · cases hs; exact ord_of_quiet h q1
      · cases hs
    · cases hs
  | unsubscribe i =>
    simp only [step] at hs
    split at hs
    · cases hs
    · cases hs; exact ord_of_quiet h (quiet_unsub s i)
  | removeClient conn =>
    simp only [step] at hs
    split at hs
    · cases hs
    · cases hs; exact ord_of_quiet h (quiet_foldl_unsub _ s)
  | heartbeat i =>
    simp only [step] at hs
    split at hs
    · next x hx =>
      split at hs
      · cases hs; exact ord_of_quiet h (quiet_setSub s i x _ hx (CoreEq.write x _ (by intro g n; simp)))
      · cases hs
    · cases hs
  | hookFail i =>
    simp only [step] at hs
    split at hs
    · next x hx =>
      split at hs
      · cases hs
      · cases hs
        exact ord_of_quiet h ((quiet_setSub s i x _ hx (CoreEq.write x _ (by intro g n; simp))).trans (quiet_unsub _ i))
    · cases hs
  | close i =>
    simp only [step] at hs
    split at hs
    · split at hs
      · next x hx =>
        cases hs
        exact ord_congr (ord_of_quiet h (quiet_setSub s i x { x with closed := x.closed + 1 } hx ⟨rfl, rfl, rfl⟩)) rfl rfl rfl
      · cases hs
    · cases hs
  | cancel g =>
    simp only [step] at hs
    split at hs
    · split at hs
      · next G hG =>
        cases hs
        exact ord_congr (ord_of_quiet h (quiet_setGen s g G { G with cancelled := true } hG rfl (FanLe.refl _))) rfl rfl rfl
      · cases hs
    · cases hs
  | cancelCtx i =>
    simp only [step] at hs
    split at hs
    · next x hx => cases hs; exact ord_of_quiet h (quiet_setSub s i x { x with ctxDone := true } hx ⟨rfl, rfl, rfl⟩)
    · cases hs
  | shutdown =>
    simp only [step] at hs
    split at hs
    · cases hs
    · cases hs
      exact ord_congr (ord_of_quiet h (quiet_foldl_detach s.trigs s)) rfl rfl rfl

theorem ord_run {s s' : St} (hb : Basic s) (hc : CloseInv s) (h : OrdInv s) (as : List Act) (hr : run s as = some s') :
    OrdInv s' := by
  induction as generalizing s with
  | nil => simp only [run] at hr; cases hr; exact h
  | cons a as ih =>
    simp only [run] at hr
    split at hr
    · next t ht =>
      have p := step_prims hb a ht
      exact ih (basic_prims hb p) (Prims.preserve (P := CloseInv) (fun _ _ hs hp => closeInv_prim hs hp) p hc)
        (ord_step hb hc h a ht) hr
    · cases hr

theorem ord_reach {s : St} (h : Reach s) : OrdInv s := by
  obtain ⟨as, has⟩ := h
  exact ord_run basic_init closeInv_init ordInv_init as has

end GqlVerif.Subs
