/-
  Proofs.C08 — soundness of the schedule validator w.r.t. the happens-before semantics of fetch trees.
-/
import GqlVerif.Plan.Sched
set_option linter.unusedSimpArgs false
set_option linter.unusedVariables false
namespace GqlVerif.Sched

theorem events_of_id (t : FTree) (i : Nat) (h : i ∈ ids t) : Ev.start i ∈ events t ∧ Ev.done i ∈ events t := by
  induction t with
  | empty => simp [ids] at h
  | single j => simp [ids] at h; subst h; simp [events]
  | seq a b iha ihb =>
    simp only [ids, List.mem_append] at h
    simp only [events, List.mem_append]
    rcases h with h | h
    · exact ⟨Or.inl (iha h).1, Or.inl (iha h).2⟩
    · exact ⟨Or.inr (ihb h).1, Or.inr (ihb h).2⟩
  | par a b iha ihb =>
    simp only [ids, List.mem_append] at h
    simp only [events, List.mem_append]
    rcases h with h | h
    · exact ⟨Or.inl (iha h).1, Or.inl (iha h).2⟩
    · exact ⟨Or.inr (ihb h).1, Or.inr (ihb h).2⟩

/-- what a successful `walk` establishes -/
theorem walk_spec (deps : Nat → List Nat) (known : List Nat) (t : FTree) :
    ∀ before is, walk deps known t before = some is →
      is = ids t ∧ (∀ i, i ∈ ids t → i ∈ known) ∧
      ∀ i, i ∈ ids t → ∀ d, d ∈ deps i → d ∈ known → d ∈ before ∨ HB t (.done d) (.start i) := by
  induction t with
  | empty =>
    intro before is h
    simp [walk] at h; subst h
    simp [ids]
  | single j =>
    intro before is h
    simp only [walk] at h
    split at h
    · rename_i hc
      simp at h; subst h
      simp only [Bool.and_eq_true, List.all_eq_true] at hc
      refine ⟨rfl, ?_, ?_⟩
      · intro i hi; simp [ids] at hi; subst hi; simpa using hc.1
      · intro i hi d hd hk
        simp [ids] at hi; subst hi
        have := hc.2 d hd
        simp at this
        rcases this with h1 | h1
        · exact absurd hk h1
        · exact Or.inl h1
    · simp at h
  | seq a b iha ihb =>
    intro before is h
    simp only [walk] at h
    split at h
    · simp at h
    · rename_i ia ha
      split at h
      · simp at h
      · rename_i ib hb
        simp at h; subst h
        obtain ⟨ea, ka, da⟩ := iha before ia ha
        obtain ⟨eb, kb, db⟩ := ihb (ia ++ before) ib hb
        refine ⟨by simp [ids, ea, eb], ?_, ?_⟩
        · intro i hi
          simp only [ids, List.mem_append] at hi
          rcases hi with hi | hi
          · exact ka i hi
          · exact kb i hi
        · intro i hi d hd hk
          simp only [ids, List.mem_append] at hi
          rcases hi with hi | hi
          · rcases da i hi d hd hk with h1 | h1
            · exact Or.inl h1
            · exact Or.inr (.seqL h1)
          · rcases db i hi d hd hk with h1 | h1
            · simp only [List.mem_append] at h1
              rcases h1 with h1 | h1
              · rw [ea] at h1
                exact Or.inr (.seqAcross (events_of_id a d h1).2 (events_of_id b i hi).1)
              · exact Or.inl h1
            · exact Or.inr (.seqR h1)
  | par a b iha ihb =>
    intro before is h
    simp only [walk] at h
    split at h
    · simp at h
    · rename_i ia ha
      split at h
      · simp at h
      · rename_i ib hb
        simp at h; subst h
        obtain ⟨ea, ka, da⟩ := iha before ia ha
        obtain ⟨eb, kb, db⟩ := ihb before ib hb
        refine ⟨by simp [ids, ea, eb], ?_, ?_⟩
        · intro i hi
          simp only [ids, List.mem_append] at hi
          rcases hi with hi | hi
          · exact ka i hi
          · exact kb i hi
        · intro i hi d hd hk
          simp only [ids, List.mem_append] at hi
          rcases hi with hi | hi
          · rcases da i hi d hd hk with h1 | h1
            · exact Or.inl h1
            · exact Or.inr (.parL h1)
          · rcases db i hi d hd hk with h1 | h1
            · exact Or.inl h1
            · exact Or.inr (.parR h1)

end GqlVerif.Sched
