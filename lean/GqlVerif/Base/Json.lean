/-
  Base.Json — JSON values with raw number text, a strict RFC 8259 parser and a serialiser.
  Core Lean only (no Mathlib) so that the driver links as a `lean_exe`.
-/
namespace GqlVerif

inductive Json where
  | null
  | bool (b : Bool)
  | num (raw : String)
  | str (s : String)
  | arr (xs : List Json)
  | obj (kvs : List (String × Json))
  deriving Repr, Inhabited

namespace Json

mutual
def beq : Json → Json → Bool
  | .null, .null => true
  | .bool a, .bool b => a == b
  | .num a, .num b => a == b
  | .str a, .str b => a == b
  | .arr a, .arr b => beqList a b
  | .obj a, .obj b => beqKvs a b
  | _, _ => false
def beqList : List Json → List Json → Bool
  | [], [] => true
  | x :: xs, y :: ys => beq x y && beqList xs ys
  | _, _ => false
def beqKvs : List (String × Json) → List (String × Json) → Bool
  | [], [] => true
  | (k, x) :: xs, (l, y) :: ys => k == l && beq x y && beqKvs xs ys
  | _, _ => false
end

instance : BEq Json := ⟨beq⟩

/-! ### Serialisation -/

def hexDigit (n : Nat) : Char :=
  if n < 10 then Char.ofNat (48 + n) else Char.ofNat (87 + n)

def escapeChar (c : Char) : List Char :=
  if c == '"' then ['\\', '"']
  else if c == '\\' then ['\\', '\\']
  else if c == '\n' then ['\\', 'n']
  else if c == '\r' then ['\\', 'r']
  else if c == '\t' then ['\\', 't']
  else if c.toNat < 0x20 then
    ['\\', 'u', '0', '0', hexDigit (c.toNat / 16), hexDigit (c.toNat % 16)]
  else [c]

def escapeString (s : String) : String :=
  String.ofList (['"'] ++ s.toList.flatMap escapeChar ++ ['"'])

mutual
def render : Json → String
  | .null => "null"
  | .bool true => "true"
  | .bool false => "false"
  | .num r => r
  | .str s => escapeString s
  | .arr xs => "[" ++ renderList xs ++ "]"
  | .obj kvs => "{" ++ renderKvs kvs ++ "}"
def renderList : List Json → String
  | [] => ""
  | [x] => render x
  | x :: xs => render x ++ "," ++ renderList xs
def renderKvs : List (String × Json) → String
  | [] => ""
  | [(k, v)] => escapeString k ++ ":" ++ render v
  | (k, v) :: kvs => escapeString k ++ ":" ++ render v ++ "," ++ renderKvs kvs
end

/-! ### Strict parser (RFC 8259) over `List Char` with fuel -/

def isWs (c : Char) : Bool := c == ' ' || c == '\t' || c == '\n' || c == '\r'

def skipWs : List Char → List Char
  | c :: cs => if isWs c then skipWs cs else c :: cs
  | [] => []

def hexVal (c : Char) : Option Nat :=
  let n := c.toNat
  if 48 ≤ n ∧ n ≤ 57 then some (n - 48)
  else if 97 ≤ n ∧ n ≤ 102 then some (n - 87)
  else if 65 ≤ n ∧ n ≤ 70 then some (n - 55)
  else none

def hex4 : List Char → Option (Nat × List Char)
  | a :: b :: c :: d :: r => do
    let a ← hexVal a; let b ← hexVal b; let c ← hexVal c; let d ← hexVal d
    some (((a * 16 + b) * 16 + c) * 16 + d, r)
  | _ => none

/-- body of a string after the opening quote; `acc` is reversed. Lone surrogates become U+FFFD
    (as Go's encoding/json does). -/
def parseStrBody : Nat → List Char → List Char → Option (String × List Char)
  | 0, _, _ => none
  | _ + 1, [], _ => none
  | fuel + 1, c :: cs, acc =>
    if c == '"' then some (String.ofList acc.reverse, cs)
    else if c == '\\' then
      match cs with
      | '"' :: r => parseStrBody fuel r ('"' :: acc)
      | '\\' :: r => parseStrBody fuel r ('\\' :: acc)
      | '/' :: r => parseStrBody fuel r ('/' :: acc)
      | 'b' :: r => parseStrBody fuel r (Char.ofNat 8 :: acc)
      | 'f' :: r => parseStrBody fuel r (Char.ofNat 12 :: acc)
      | 'n' :: r => parseStrBody fuel r ('\n' :: acc)
      | 'r' :: r => parseStrBody fuel r ('\r' :: acc)
      | 't' :: r => parseStrBody fuel r ('\t' :: acc)
      | 'u' :: r =>
        match hex4 r with
        | none => none
        | some (u, r') =>
          if 0xD800 ≤ u ∧ u < 0xDC00 then
            match r' with
            | '\\' :: 'u' :: r'' =>
              match hex4 r'' with
              | some (l, r3) =>
                if 0xDC00 ≤ l ∧ l < 0xE000 then
                  parseStrBody fuel r3 (Char.ofNat (0x10000 + (u - 0xD800) * 0x400 + (l - 0xDC00)) :: acc)
                else parseStrBody fuel r' (Char.ofNat 0xFFFD :: acc)
              | none => none
            | _ => parseStrBody fuel r' (Char.ofNat 0xFFFD :: acc)
          else if 0xDC00 ≤ u ∧ u < 0xE000 then parseStrBody fuel r' (Char.ofNat 0xFFFD :: acc)
          else parseStrBody fuel r' (Char.ofNat u :: acc)
      | _ => none
    else if c.toNat < 0x20 then none
    else parseStrBody fuel cs (c :: acc)

def takeDigits : List Char → List Char × List Char
  | c :: cs => if c.isDigit then let (d, r) := takeDigits cs; (c :: d, r) else ([], c :: cs)
  | [] => ([], [])

/-- number token per RFC 8259; returns raw text -/
def parseNumber (cs : List Char) : Option (String × List Char) :=
  let (sign, r0) := match cs with | '-' :: r => (['-'], r) | r => ([], r)
  let (ip, r1) := takeDigits r0
  if ip.isEmpty then none
  else if ip.length > 1 ∧ ip.head? == some '0' then none
  else
    let fracR : Option (List Char × List Char) := match r1 with
      | '.' :: r => let (fp, r2) := takeDigits r; if fp.isEmpty then none else some ('.' :: fp, r2)
      | r => some ([], r)
    match fracR with
    | none => none
    | some (fp, r2) =>
      let expR : Option (List Char × List Char) := match r2 with
        | e :: r =>
          if e == 'e' || e == 'E' then
            let (sg, r3) := match r with
              | '+' :: r' => (['+'], r') | '-' :: r' => (['-'], r') | r' => ([], r')
            let (ep, r4) := takeDigits r3
            if ep.isEmpty then none else some (e :: sg ++ ep, r4)
          else some ([], e :: r)
        | [] => some ([], [])
      match expR with
      | none => none
      | some (ep, r4) => some (String.ofList (sign ++ ip ++ fp ++ ep), r4)

mutual
def parseValue : Nat → List Char → Option (Json × List Char)
  | 0, _ => none
  | fuel + 1, cs =>
    match skipWs cs with
    | 'n' :: 'u' :: 'l' :: 'l' :: r => some (.null, r)
    | 't' :: 'r' :: 'u' :: 'e' :: r => some (.bool true, r)
    | 'f' :: 'a' :: 'l' :: 's' :: 'e' :: r => some (.bool false, r)
    | '"' :: r =>
      match parseStrBody (r.length + 1) r [] with
      | some (s, r') => some (.str s, r')
      | none => none
    | '[' :: r =>
      match skipWs r with
      | ']' :: r' => some (.arr [], r')
      | r' => parseElems fuel r' []
    | '{' :: r =>
      match skipWs r with
      | '}' :: r' => some (.obj [], r')
      | r' => parseMembers fuel r' []
    | r =>
      match parseNumber r with
      | some (n, r') => some (.num n, r')
      | none => none
def parseElems : Nat → List Char → List Json → Option (Json × List Char)
  | 0, _, _ => none
  | fuel + 1, cs, acc =>
    match parseValue fuel cs with
    | none => none
    | some (v, r) =>
      match skipWs r with
      | ',' :: r' => parseElems fuel r' (v :: acc)
      | ']' :: r' => some (.arr (v :: acc).reverse, r')
      | _ => none
def parseMembers : Nat → List Char → List (String × Json) → Option (Json × List Char)
  | 0, _, _ => none
  | fuel + 1, cs, acc =>
    match skipWs cs with
    | '"' :: r =>
      match parseStrBody (r.length + 1) r [] with
      | none => none
      | some (k, r1) =>
        match skipWs r1 with
        | ':' :: r2 =>
          match parseValue fuel r2 with
          | none => none
          | some (v, r3) =>
            match skipWs r3 with
            | ',' :: r4 => parseMembers fuel r4 ((k, v) :: acc)
            | '}' :: r4 => some (.obj ((k, v) :: acc).reverse, r4)
            | _ => none
        | _ => none
    | _ => none
end

/-- strict parse of a complete document -/
def parse (s : String) : Option Json :=
  let cs := s.toList
  match parseValue (2 * cs.length + 4) cs with
  | some (v, r) => if (skipWs r).isEmpty then some v else none
  | none => none

/-! ### Accessors -/

def get? : Json → String → Option Json
  | .obj kvs, k => (kvs.find? (·.1 == k)).map (·.2)
  | _, _ => none

def getD (j : Json) (k : String) : Json := (j.get? k).getD .null

def asStr? : Json → Option String | .str s => some s | _ => none
def asArr? : Json → Option (List Json) | .arr xs => some xs | _ => none
def asBool? : Json → Option Bool | .bool b => some b | _ => none
def asNat? : Json → Option Nat | .num r => r.toNat? | _ => none
def asInt? : Json → Option Int
  | .num r => r.toInt?
  | _ => none
def isNull : Json → Bool | .null => true | _ => false

def strD (j : Json) (k : String) : String := ((j.get? k).bind asStr?).getD ""
def natD (j : Json) (k : String) : Nat := ((j.get? k).bind asNat?).getD 0
def intD (j : Json) (k : String) : Int := ((j.get? k).bind asInt?).getD 0
def boolD (j : Json) (k : String) : Bool := ((j.get? k).bind asBool?).getD false
def arrD (j : Json) (k : String) : List Json := ((j.get? k).bind asArr?).getD []

def ofNat (n : Nat) : Json := .num (toString n)
def ofInt (n : Int) : Json := .num (toString n)
def ofStrs (xs : List String) : Json := .arr (xs.map .str)

end Json

/-! ### Hex byte strings (protocol encoding of arbitrary bytes) -/

def hexToBytes : List Char → List UInt8
  | a :: b :: r =>
    match Json.hexVal a, Json.hexVal b with
    | some x, some y => UInt8.ofNat (x * 16 + y) :: hexToBytes r
    | _, _ => []
  | _ => []

def bytesToHex (bs : List UInt8) : String :=
  String.ofList (bs.flatMap fun b => [Json.hexDigit (b.toNat / 16), Json.hexDigit (b.toNat % 16)])

def bytesOfHex (s : String) : List UInt8 := hexToBytes s.toList

end GqlVerif
