/-
  Gql.Value — argument literals and their JSON form (v2/pkg/ast/ast_value.go writeJSONValue / ValueToJSON).

  `Lit` is a parsed literal as the AST holds it: numbers as sign + raw digits, enum names, single-line strings as
  the raw bytes between the quotes (escapes untouched), block strings as the BlockStringValue the document
  computes, lists, input objects, variables.  `writeJSON` is the model of the code, byte for byte.
  `JTree` is a structured JSON text; `render` prints it.  `toTree` builds the tree `writeJSON` renders, and `value`
  gives trees and literals a common meaning (`GVal`), so that "the JSON denotes the literal's GraphQL value" is a
  statement about trees, with no JSON parser in the trusted base of the theorem.
-/
namespace GqlVerif.Value

mutual
  inductive Lit where
    | null
    | bool (b : Bool)
    | int (neg : Bool) (raw : List Nat)
    | float (neg : Bool) (raw : List Nat)
    | enum (name : List Nat)
    | str (content : List Nat)           -- raw bytes between the quotes
    | block (value : List Nat)           -- bytes of BlockStringValue()
    | list (xs : Lits)
    | obj (fs : Fields)
    | var (name : List Nat)
  inductive Lits where
    | nil
    | cons (x : Lit) (xs : Lits)
  inductive Fields where
    | nil
    | cons (name : List Nat) (v : Lit) (fs : Fields)
end

/-- what jsonparser.Get finds for a variable name in the variables object: the raw value text and whether it is a
    string (then the text is the content without quotes) -/
structure VarVal where
  raw : List Nat
  isString : Bool

abbrev Env := List Nat → Option VarVal

def q : Nat := 34        -- '"'
def bs : Nat := 92       -- '\\'
def strNull : List Nat := [110, 117, 108, 108]
def strTrue : List Nat := [116, 114, 117, 101]
def strFalse : List Nat := [102, 97, 108, 115, 101]

def wrap (b : List Nat) : List Nat := q :: b ++ [q]

def hexDigit (n : Nat) : Nat := if n < 10 then 48 + n else 87 + n

/-- Go's json.Encoder (SetEscapeHTML(false)) on a string given as UTF-8 bytes (valid UTF-8 assumed) -/
def goEncodeBytes : List Nat → List Nat
  | [] => []
  | c :: cs =>
    (if c = q then [bs, q]
     else if c = bs then [bs, bs]
     else if c = 10 then [bs, 110]
     else if c = 13 then [bs, 114]
     else if c = 9 then [bs, 116]
     else if c = 8 then [bs, 98]
     else if c = 12 then [bs, 102]
     else if c < 32 ∨ c = 127 then [bs, 117, 48, 48, hexDigit (c / 16), hexDigit (c % 16)]
     else [c]) ++ goEncodeBytes cs

/-- the repaired copy of a single-line string body: raw control characters (GraphQL allows TAB) are escaped, everything
    else — including the escape sequences, which GraphQL shares with JSON — is copied -/
def escapeControls : List Nat → List Nat
  | [] => []
  | c :: cs => (if c = 9 then [bs, 116] else if c < 32 then [bs, 117, 48, 48, hexDigit (c / 16), hexDigit (c % 16)] else [c]) ++ escapeControls cs

mutual
  def writeJSON (env : Env) : Lit → List Nat
    | .null => strNull
    | .bool b => if b then strTrue else strFalse
    | .int neg raw => (if neg then [45] else []) ++ raw
    | .float neg raw => (if neg then [45] else []) ++ raw
    | .enum name => wrap name
    | .str content => wrap (escapeControls content)
    | .block value => wrap (goEncodeBytes value)
    | .list xs => 91 :: writeList env xs true ++ [93]
    | .obj fs => 123 :: writeFields env fs false ++ [125]
    | .var name =>
      match env name with
      | none => strNull
      | some v => if v.isString then wrap v.raw else v.raw
  def writeList (env : Env) : Lits → Bool → List Nat
    | .nil, _ => []
    | .cons x xs, first => (if first then [] else [44]) ++ writeJSON env x ++ writeList env xs false
  /-- `rendered`: a field has been written before (the comma logic of the code: `ii > 0 && hasRenderedFields`) -/
  def writeFields (env : Env) : Fields → Bool → List Nat
    | .nil, _ => []
    | .cons name v fs, rendered =>
      match v with
      | .var vn =>
        match env vn with
        | none => writeFields env fs rendered        -- an omitted variable leaves the field out
        | some _ => (if rendered then [44] else []) ++ wrap name ++ [58] ++ writeJSON env v ++ writeFields env fs true
      | _ => (if rendered then [44] else []) ++ wrap name ++ [58] ++ writeJSON env v ++ writeFields env fs true
end

/-! ### structured JSON and meaning -/

inductive JTree where
  | null
  | bool (b : Bool)
  | num (text : List Nat)                 -- a JSON number text
  | strBody (body : List Nat)             -- a JSON string given by its body (between the quotes, escapes in place)
  | raw (text : List Nat)                 -- a JSON value text spliced from the client's variables
  | arr (xs : List JTree)
  | obj (fs : List (List Nat × JTree))

mutual
  def render : JTree → List Nat
    | .null => strNull
    | .bool b => if b then strTrue else strFalse
    | .num t => t
    | .strBody b => wrap b
    | .raw t => t
    | .arr xs => 91 :: renderList xs true ++ [93]
    | .obj fs => 123 :: renderFields fs true ++ [125]
  def renderList : List JTree → Bool → List Nat
    | [], _ => []
    | x :: xs, first => (if first then [] else [44]) ++ render x ++ renderList xs false
  def renderFields : List (List Nat × JTree) → Bool → List Nat
    | [], _ => []
    | (n, v) :: fs, first => (if first then [] else [44]) ++ wrap n ++ [58] ++ render v ++ renderFields fs false
end

mutual
  /-- the JSON tree `writeJSON` renders -/
  def toTree (env : Env) : Lit → JTree
    | .null => .null
    | .bool b => .bool b
    | .int neg raw => .num ((if neg then [45] else []) ++ raw)
    | .float neg raw => .num ((if neg then [45] else []) ++ raw)
    | .enum name => .strBody name
    | .str content => .strBody (escapeControls content)
    | .block value => .strBody (goEncodeBytes value)
    | .list xs => .arr (toTrees env xs)
    | .obj fs => .obj (toFields env fs)
    | .var name =>
      match env name with
      | none => .null
      | some v => if v.isString then .strBody v.raw else .raw v.raw
  def toTrees (env : Env) : Lits → List JTree
    | .nil => []
    | .cons x xs => toTree env x :: toTrees env xs
  def toFields (env : Env) : Fields → List (List Nat × JTree)
    | .nil => []
    | .cons name v fs =>
      match v with
      | .var vn =>
        match env vn with
        | none => toFields env fs
        | some _ => (name, toTree env v) :: toFields env fs
      | _ => (name, toTree env v) :: toFields env fs
end

/-! ### string bodies: GraphQL and JSON read the same escapes -/

def isHex (c : Nat) : Bool := (48 ≤ c && c ≤ 57) || (65 ≤ c && c ≤ 70) || (97 ≤ c && c ≤ 102)
def hexVal (c : Nat) : Nat := if c ≤ 57 then c - 48 else if c ≤ 70 then c - 55 else c - 87

/-- decoded form of a string body: a list of units, `inl byte` for a literal byte, `inr code` for a \uXXXX escape
    (UTF-16 code unit; pairing of surrogates is the same on both sides and left to the consumer) -/
abbrev Units := List (Nat ⊕ Nat)

def simpleEscape (c : Nat) : Option Nat :=
  if c = 34 then some 34 else if c = 92 then some 92 else if c = 47 then some 47
  else if c = 98 then some 8 else if c = 102 then some 12 else if c = 110 then some 10
  else if c = 114 then some 13 else if c = 116 then some 9 else none

/-- a string body as JSON reads it (RFC 8259): no raw control characters, no raw quote, the eight simple escapes and \uXXXX -/
def jsonUnits : List Nat → Option Units
  | [] => some []
  | c :: cs =>
    if c = bs then
      match cs with
      | 117 :: a :: b :: c' :: d :: rest =>
        if isHex a && isHex b && isHex c' && isHex d then
          (jsonUnits rest).map (.inr (((hexVal a * 16 + hexVal b) * 16 + hexVal c') * 16 + hexVal d) :: ·)
        else none
      | e :: rest =>
        match simpleEscape e with
        | some v => (jsonUnits rest).map (.inl v :: ·)
        | none => none
      | [] => none
    else if c < 32 ∨ c = q then none
    else (jsonUnits cs).map (.inl c :: ·)
termination_by l => l.length
decreasing_by all_goals simp_wf <;> omega

/-- a single-line string body as GraphQL reads it (October 2021): like JSON, but a raw TAB is a legal source character -/
def gqlUnits : List Nat → Option Units
  | [] => some []
  | c :: cs =>
    if c = bs then
      match cs with
      | 117 :: a :: b :: c' :: d :: rest =>
        if isHex a && isHex b && isHex c' && isHex d then
          (gqlUnits rest).map (.inr (((hexVal a * 16 + hexVal b) * 16 + hexVal c') * 16 + hexVal d) :: ·)
        else none
      | e :: rest =>
        match simpleEscape e with
        | some v => (gqlUnits rest).map (.inl v :: ·)
        | none => none
      | [] => none
    else if (c < 32 ∧ c ≠ 9) ∨ c = q then none
    else (gqlUnits cs).map (.inl c :: ·)
termination_by l => l.length
decreasing_by all_goals simp_wf <;> omega

/-- meaning of values: numbers by their text (the code copies the text, so equality of texts is what is needed),
    strings by their decoded units -/
inductive GVal where
  | null
  | bool (b : Bool)
  | num (text : List Nat)
  | str (u : Units)
  | enum (name : List Nat)     -- JSON has no enums: an enum value travels as the string of its name
  | bad                        -- an undecodable string
  | raw (text : List Nat)      -- the client's own JSON text for a variable
  | list (xs : List GVal)
  | obj (fs : List (List Nat × GVal))

def strVal (o : Option Units) : GVal := match o with | some u => .str u | none => .bad

mutual
  def treeValue : JTree → GVal
    | .null => .null
    | .bool b => .bool b
    | .num t => .num t
    | .strBody b => strVal (jsonUnits b)
    | .raw t => .raw t
    | .arr xs => .list (treeValues xs)
    | .obj fs => .obj (treeFieldValues fs)
  def treeValues : List JTree → List GVal
    | [] => []
    | x :: xs => treeValue x :: treeValues xs
  def treeFieldValues : List (List Nat × JTree) → List (List Nat × GVal)
    | [] => []
    | (n, v) :: fs => (n, treeValue v) :: treeFieldValues fs
end

/-- the units a block string value has: its bytes -/
def bytesUnits (b : List Nat) : Units := b.map .inl

mutual
  /-- the GraphQL value of a literal under the client's variables -/
  def litValue (env : Env) : Lit → GVal
    | .null => .null
    | .bool b => .bool b
    | .int neg raw => .num ((if neg then [45] else []) ++ raw)
    | .float neg raw => .num ((if neg then [45] else []) ++ raw)
    | .enum name => strVal (jsonUnits name)
    | .str content => strVal (gqlUnits content)
    | .block value => .str (bytesUnits value)
    | .list xs => .list (litValues env xs)
    | .obj fs => .obj (litFieldValues env fs)
    | .var name =>
      match env name with
      | none => .null                       -- inside a list an omitted variable is null
      | some v => if v.isString then strVal (jsonUnits v.raw) else .raw v.raw
  def litValues (env : Env) : Lits → List GVal
    | .nil => []
    | .cons x xs => litValue env x :: litValues env xs
  def litFieldValues (env : Env) : Fields → List (List Nat × GVal)
    | .nil => []
    | .cons name v fs =>
      match v with
      | .var vn =>
        match env vn with
        | none => litFieldValues env fs       -- an omitted variable leaves the input field out
        | some _ => (name, litValue env v) :: litFieldValues env fs
      | _ => (name, litValue env v) :: litFieldValues env fs
end

end GqlVerif.Value
