/-
  Gql.Coerce — model of v2/pkg/variablesvalidation/variablesvalidation.go (`VariablesValidator.Validate /
  ValidateWithRemap`) and the kind-level input-coercion specification it is compared with.
  The Go visitor keeps one mutable `err` that later errors overwrite; the model threads it explicitly.
-/
import GqlVerif.Base.Json
namespace GqlVerif.Coerce
open GqlVerif

inductive GType where
  | named (n : String)
  | list (t : GType)
  | nonNull (t : GType)
  deriving Repr, Inhabited, DecidableEq

/-- `ResolveTypeNameBytes`: innermost named type -/
def GType.baseName : GType → String
  | .named n => n
  | .list t => t.baseName
  | .nonNull t => t.baseName

/-- `PrintType` -/
def GType.print : GType → String
  | .named n => n
  | .list t => "[" ++ t.print ++ "]"
  | .nonNull t => t.print ++ "!"

structure InputField where
  name : String
  type : GType
  hasDefault : Bool
  deriving Repr, Inhabited

inductive TypeDef where
  | scalar (name : String)
  | enum (name : String) (values : List (String × Bool))   -- (value, @inaccessible)
  | input (name : String) (oneOf : Bool) (fields : List InputField)
  | other (name : String)  -- object / interface / union: found by name, nothing is checked
  deriving Repr, Inhabited

def TypeDef.name : TypeDef → String
  | .scalar n => n | .enum n _ => n | .input n _ _ => n | .other n => n

structure Schema where
  types : List TypeDef
  deriving Repr, Inhabited

def Schema.find? (S : Schema) (n : String) : Option TypeDef := S.types.find? (·.name == n)

inductive PathItem where
  | obj (name : String)
  | arr (i : Nat)
  deriving Repr

/-- `renderPath`: items joined with "."; an array item renders as "[i]" (its name is empty) -/
def renderItem : PathItem → String
  | .obj n => n
  | .arr i => "[" ++ toString i ++ "]"

def renderPath (p : List PathItem) : String := ".".intercalate (p.map renderItem)

inductive ErrClass where
  | required | invalidNull | invalidObjectType | requiredField
  | nestedScalar (typeName : String) | nestedInputList | nestedInput | nestedEnum
  | fieldNotDefined | enumNotExist | oneOfCount (n : Nat) | oneOfNull
  | fuel   -- model artefact: recursion budget exhausted (never produced with `fuelFor`, see Props.C06)
  deriving Repr, DecidableEq

def ErrClass.tag : ErrClass → String
  | .required => "required" | .invalidNull => "invalidNull" | .invalidObjectType => "invalidObjectType"
  | .requiredField => "requiredField" | .nestedScalar t => "nestedScalar:" ++ t | .nestedInputList => "nestedInputList"
  | .nestedInput => "nestedInput" | .nestedEnum => "nestedEnum" | .fieldNotDefined => "fieldNotDefined"
  | .enumNotExist => "enumNotExist" | .oneOfCount n => "oneOfCount:" ++ toString n | .oneOfNull => "oneOfNull"
  | .fuel => "fuel"

structure Err where
  cls : ErrClass
  var : String                  -- client-visible variable name (after remap)
  path : Option String          -- the ` at "…"` part of the message, when present
  echoesContent : Bool          -- does the message contain bytes taken from the variable's value?
  deriving Repr

structure Opts where
  disableExposingContent : Bool := false
  deriving Repr

structure Ctx where
  S : Schema
  var : String
  opts : Opts
  deriving Repr

inductive JKind where | null | object | array | string | number | tru | fls deriving DecidableEq, Repr
def kindOf : Json → JKind
  | .null => .null | .obj _ => .object | .arr _ => .array | .str _ => .string | .num _ => .number
  | .bool true => .tru | .bool false => .fls

/-- path suffix used by most messages: present iff the path is longer than the variable itself -/
def atPath (path : List PathItem) : Option String :=
  if path.length > 1 then some (renderPath path) else none

def mkErr (c : Ctx) (cls : ErrClass) (path : Option String) (contentInMessage : Bool) : Err :=
  ⟨cls, c.var, path, contentInMessage && !c.opts.disableExposingContent⟩

def isNullOrAbsent : Option Json → Bool
  | none => true
  | some .null => true
  | _ => false

def outOfFuel (c : Ctx) : Option Err := some ⟨.fuel, c.var, none, false⟩

mutual
/-- `traverseNamedTypeNode` (path is kept reversed) -/
def namedNode (c : Ctx) : Nat → Json → String → List PathItem → Option Err → Option Err
  | 0, _, _, _, _ => outOfFuel c
  | fuel + 1, j, typeName, rpath, err =>
    if err.isSome then err
    else match c.S.find? typeName with
      | none => err
      | some (.other _) => err
      | some (.input _ oneOf fields) =>
        match j with
        | .obj kvs =>
          let r := fieldsLoop c fuel (.obj kvs) fields rpath err
          if r.2 = false then r.1      -- `return` from inside the field loop: later checks are skipped
          else
            -- unknown keys (first one in document order); this check does not look at `err`
            match kvs.find? (fun kv => !(fields.any (·.name == kv.1))) with
            | some _ => some (mkErr c .fieldNotDefined (some (renderPath rpath.reverse)) true)
            | none =>
              if oneOf then
                if kvs.length != 1 then some (mkErr c (.oneOfCount kvs.length) (atPath rpath.reverse) true)
                else if kvs.any (fun kv => kv.2.isNull) then some (mkErr c .oneOfNull (atPath rpath.reverse) true)
                else r.1
              else r.1
        | _ => some (mkErr c .invalidObjectType none true)
      | some (.scalar _) =>
        let bad := some (mkErr c (.nestedScalar typeName) (atPath rpath.reverse) true)
        if typeName == "String" then (if kindOf j != .string then bad else err)
        else if typeName == "Int" then (if kindOf j != .number then bad else err)
        else if typeName == "Float" then (if kindOf j != .number then bad else err)
        else if typeName == "Boolean" then (if kindOf j != .tru && kindOf j != .fls then bad else err)
        else if typeName == "ID" then (if kindOf j != .string && kindOf j != .number then bad else err)
        else err
      | some (.enum _ values) =>
        match j with
        | .str s =>
          match values.find? (·.1 == s) with
          | some (_, false) => err
          | _ => some (mkErr c .enumNotExist (atPath rpath.reverse) true)
        | _ => some (mkErr c .nestedEnum (atPath rpath.reverse) true)

/-- the loop over the defined input fields; the Bool says whether the loop ran to completion
    (`false` = the Go code returned from the function because `err` was already set) -/
def fieldsLoop (c : Ctx) : Nat → Json → List InputField → List PathItem → Option Err → Option Err × Bool
  | 0, _, _, _, _ => (outOfFuel c, false)
  | _ + 1, _, [], _, err => (err, true)
  | fuel + 1, j, f :: fs, rpath, err =>
    if err.isSome then (err, false)
    else
      let err' := fieldType c fuel f (j.get? f.name) f.type (.obj f.name :: rpath) err
      fieldsLoop c fuel j fs rpath err'

/-- `traverseFieldDefinitionType` -/
def fieldType (c : Ctx) : Nat → InputField → Option Json → GType → List PathItem → Option Err → Option Err
  | 0, _, _, _, _, _ => outOfFuel c
  | fuel + 1, f, j, t, rpath, err =>
    match t with
    | .nonNull inner =>
      if isNullOrAbsent j then
        if (match inner with | .named n => n == "Upload" | _ => false) then err
        else if f.hasDefault then err
        else
          -- error, then the recursion on the inner type returns immediately (value is null/absent)
          some (mkErr c .requiredField none true)
      else fieldType c fuel f j inner rpath err
    | .list inner =>
      match j with
      | none => err
      | some .null => err
      | some (.arr xs) => fieldElems c fuel f xs 0 inner rpath err
      | some _ =>
        -- the node kind handed down is that of the enclosing input object, so the message is
        -- always the input-object/list one
        some (mkErr c .nestedInputList (atPath rpath.reverse) true)
    | .named n =>
      match j with
      | none => err
      | some .null => err
      | some v => namedNode c fuel v n rpath err

def fieldElems (c : Ctx) : Nat → InputField → List Json → Nat → GType → List PathItem → Option Err → Option Err
  | 0, _, _, _, _, _, _ => outOfFuel c
  | _ + 1, _, [], _, _, _, err => err
  | fuel + 1, f, x :: xs, i, t, rpath, err =>
    let err' := fieldType c fuel f (some x) t (.arr i :: rpath) err
    fieldElems c fuel f xs (i + 1) t rpath err'
end

mutual
/-- `traverseOperationType` on the operation's own type reference -/
def opType (c : Ctx) : Nat → Option Json → GType → List PathItem → Option Err → Option Err
  | 0, _, _, _, _ => outOfFuel c
  | fuel + 1, j, t, rpath, err =>
    match t with
    | .nonNull inner =>
      match j with
      | none => some (mkErr c .required none false)
      | some .null =>
        if t.baseName != "Upload" then some (mkErr c .invalidNull none false)
        else opType c fuel j inner rpath err
      | some _ => opType c fuel j inner rpath err
    | .list inner =>
      match j with
      | none => err
      | some .null => err
      | some (.arr xs) => opElems c fuel xs 0 inner rpath err
      | some _ => some (mkErr c .invalidObjectType none true)
    | .named n =>
      match j with
      | none => err
      | some .null => err
      | some v => namedNode c fuel v n rpath err

def opElems (c : Ctx) : Nat → List Json → Nat → GType → List PathItem → Option Err → Option Err
  | 0, _, _, _, _, _ => outOfFuel c
  | _ + 1, [], _, _, _, err => err
  | fuel + 1, x :: xs, i, t, rpath, err =>
    let err' := opType c fuel (some x) t (.arr i :: rpath) err
    opElems c fuel xs (i + 1) t rpath err'
end

structure VarDef where
  name : String
  type : GType
  deriving Repr, Inhabited

mutual
def jsonSize : Json → Nat
  | .arr xs => 1 + jsonSizeList xs
  | .obj kvs => 1 + jsonSizeKvs kvs
  | _ => 1
def jsonSizeList : List Json → Nat
  | [] => 0
  | x :: xs => jsonSize x + jsonSizeList xs
def jsonSizeKvs : List (String × Json) → Nat
  | [] => 0
  | (_, v) :: kvs => jsonSize v + jsonSizeKvs kvs
end

def typeDepth : GType → Nat
  | .named _ => 1
  | .list t => typeDepth t + 1
  | .nonNull t => typeDepth t + 1

def schemaWidth (S : Schema) : Nat :=
  S.types.foldl (fun n t => match t with
    | .input _ _ fs => max n (fs.length + (fs.foldl (fun m f => max m (typeDepth f.type)) 0))
    | _ => n) 0

/-- enough fuel for every call chain: each JSON node is visited under at most
    (type wrappers + field loop) steps -/
def fuelFor (S : Schema) (t : GType) (j : Json) : Nat :=
  (jsonSize j + 2) * (schemaWidth S + typeDepth t + 6) + 16

/-- `EnterVariableDefinition` for one variable, then the fold over all definitions (`err` persists
    across variables; the Go walker visits every definition). `remap` maps operation variable
    names to client-visible names. -/
def validateVar (S : Schema) (opts : Opts) (vars : Json) (remap : List (String × String)) (d : VarDef)
    (err : Option Err) : Option Err :=
  let name := match remap.find? (·.1 == d.name) with | some (_, m) => m | none => d.name
  let v := vars.get? name
  let c : Ctx := ⟨S, name, opts⟩
  opType c (fuelFor S d.type (v.getD .null)) v d.type [.obj name] err

def validate (S : Schema) (opts : Opts) (defs : List VarDef) (vars : Json) (remap : List (String × String)) : Option Err :=
  defs.foldl (fun e d => validateVar S opts vars remap d e) none

/-! ### Specification: GraphQL input coercion of JSON variable values, as inference rules.

`strict = true` is the reading of the GraphQL specification (§3 input coercion, applied after list
coercion has been performed by normalisation); `strict = false` additionally admits exactly the
kind-level leniencies of the implementation (known findings C06-*): `Int`/`ID` accept any JSON number,
an explicit `null` is accepted for a non-null input field that has a default, a named type that is not
an input type of the schema is not checked, `Upload` may be null. -/

def digitsOnly (cs : List Char) : Bool := !cs.isEmpty && cs.all Char.isDigit

/-- integral decimal literal without fraction/exponent -/
def isIntegralRaw (raw : String) : Bool :=
  match raw.toList with
  | '-' :: r => digitsOnly r
  | r => digitsOnly r

def natOfDigits (cs : List Char) : Nat := cs.foldl (fun n c => n * 10 + (c.toNat - 48)) 0

def isInt32Raw (raw : String) : Bool :=
  match raw.toList with
  | '-' :: r => digitsOnly r && natOfDigits r ≤ 2147483648
  | r => digitsOnly r && natOfDigits r ≤ 2147483647

def scalarOk (strict : Bool) (n : String) (j : Json) : Bool :=
  if n == "String" then kindOf j == .string
  else if n == "Int" then kindOf j == .number && (!strict || (match j with | .num r => isInt32Raw r | _ => false))
  else if n == "Float" then kindOf j == .number
  else if n == "Boolean" then kindOf j == .tru || kindOf j == .fls
  else if n == "ID" then kindOf j == .string ||
    (kindOf j == .number && (!strict || (match j with | .num r => isIntegralRaw r | _ => false)))
  else true

/-- the three judgments: a present non-null value against a named type; an input field's type
    against the (possibly absent) value; a variable's declared type against the (possibly absent) value -/
inductive J where
  | named (n : String) (j : Json)
  | field (f : InputField) (t : GType) (j : Option Json)
  | op (t : GType) (j : Option Json)

inductive Co (S : Schema) (strict : Bool) : J → Prop where
  -- named types
  | undefinedType {n j} : S.find? n = none → strict = false → Co S strict (.named n j)
  | otherType {n m j} : S.find? n = some (.other m) → strict = false → Co S strict (.named n j)
  | scalar {n m j} : S.find? n = some (.scalar m) → scalarOk strict n j = true → Co S strict (.named n j)
  | enumValue {n m values s s'} : S.find? n = some (.enum m values) →
      values.find? (·.1 == s) = some (s', false) → Co S strict (.named n (.str s))
  | inputObject {n m oneOf fields kvs} : S.find? n = some (.input m oneOf fields) →
      (∀ f, f ∈ fields → Co S strict (.field f f.type ((Json.obj kvs).get? f.name))) →
      (∀ kv, kv ∈ kvs → fields.any (·.name == kv.1) = true) →
      (oneOf = true → kvs.length = 1 ∧ ∀ kv, kv ∈ kvs → kv.2.isNull = false) →
      Co S strict (.named n (.obj kvs))
  -- input fields
  | fieldAbsentDefault {f t} : f.hasDefault = true → Co S strict (.field f (.nonNull t) none)
  | fieldNullDefault {f t j} : strict = false → f.hasDefault = true → isNullOrAbsent j = true →
      Co S strict (.field f (.nonNull t) j)
  | fieldUploadNull {f j} : strict = false → isNullOrAbsent j = true →
      Co S strict (.field f (.nonNull (.named "Upload")) j)
  | fieldNonNull {f t j} : isNullOrAbsent j = false → Co S strict (.field f t j) →
      Co S strict (.field f (.nonNull t) j)
  | fieldNullableListNone {f t j} : isNullOrAbsent j = true → Co S strict (.field f (.list t) j)
  | fieldNullableNamedNone {f n j} : isNullOrAbsent j = true → Co S strict (.field f (.named n) j)
  | fieldList {f t xs} : (∀ x, x ∈ xs → Co S strict (.field f t (some x))) →
      Co S strict (.field f (.list t) (some (.arr xs)))
  | fieldNamed {f n v} : v.isNull = false → Co S strict (.named n v) → Co S strict (.field f (.named n) (some v))
  -- variables (the operation's own type)
  | opNonNull {t v} : v.isNull = false → Co S strict (.op t (some v)) → Co S strict (.op (.nonNull t) (some v))
  | opUploadNull {t} : strict = false → (GType.nonNull t).baseName = "Upload" → Co S strict (.op t (some .null)) →
      Co S strict (.op (.nonNull t) (some .null))
  | opNullableListNone {t j} : isNullOrAbsent j = true → Co S strict (.op (.list t) j)
  | opNullableNamedNone {n j} : isNullOrAbsent j = true → Co S strict (.op (.named n) j)
  | opList {t xs} : (∀ x, x ∈ xs → Co S strict (.op t (some x))) → Co S strict (.op (.list t) (some (.arr xs)))
  | opNamed {n v} : v.isNull = false → Co S strict (.named n v) → Co S strict (.op (.named n) (some v))

end GqlVerif.Coerce
