/-
  Gql.Lex — byte-for-byte model of v2/pkg/lexer/lexer.go (`Lexer.Read`) and of
  v2/pkg/astparser/tokenizer.go (`Tokenize`, `TokenizeWithLimits`).
  Loops are structural recursion on a fuel argument; the top level passes `size + 1`, and
  `Props.C05.lex_progress` shows every non-EOF `read` consumes at least one byte.
-/
namespace GqlVerif.Lex

abbrev Input := Array UInt8

/-- `readRune`/`peekRune(false)` convention: byte 0 is the EOF sentinel (also returned past the end) -/
def byteAt (inp : Input) (pos : Nat) : UInt8 := if h : pos < inp.size then inp[pos] else 0

inductive Kw where
  | undefined | ident | comment | eof
  | colon | bang | lt | tab | space | comma | atSign | dot | spread | pipe | slash | equals | sub | and | quote
  | dollar | string | blockstring | integer | float
  | lparen | rparen | lbrack | rbrack | lbrace | rbrace
  deriving Repr, DecidableEq, Inhabited

/-- numeric value of `keyword.Keyword` (iota order) -/
def Kw.toNat : Kw → Nat
  | .undefined => 0 | .ident => 1 | .comment => 2 | .eof => 3
  | .colon => 4 | .bang => 5 | .lt => 6 | .tab => 7 | .space => 8 | .comma => 9 | .atSign => 10 | .dot => 11
  | .spread => 12 | .pipe => 13 | .slash => 14 | .equals => 15 | .sub => 16 | .and => 17 | .quote => 18
  | .dollar => 19 | .string => 20 | .blockstring => 21 | .integer => 22 | .float => 23
  | .lparen => 24 | .rparen => 25 | .lbrack => 26 | .rbrack => 27 | .lbrace => 28 | .rbrace => 29

structure Tok where
  kw : Kw
  start : Nat
  stop : Nat
  deriving Repr, DecidableEq, Inhabited

/-- `byteIsWhitespace`: SP TAB CR LF COMMA -/
def isWs (b : UInt8) : Bool := b == 32 || b == 9 || b == 13 || b == 10 || b == 44
def isDigit (b : UInt8) : Bool := 48 ≤ b && b ≤ 57
/-- `runeIsIdent`: [a-zA-Z0-9_-] -/
def isIdent (b : UInt8) : Bool :=
  (97 ≤ b && b ≤ 122) || (65 ≤ b && b ≤ 90) || (48 ≤ b && b ≤ 57) || b == 45 || b == 95

/-- `matchSingleRuneToken` (EOF handled by the caller) -/
def single (b : UInt8) : Option Kw :=
  if b == 124 then some .pipe else if b == 61 then some .equals else if b == 64 then some .atSign
  else if b == 58 then some .colon else if b == 33 then some .bang else if b == 40 then some .lparen
  else if b == 41 then some .rparen else if b == 123 then some .lbrace else if b == 125 then some .rbrace
  else if b == 91 then some .lbrack else if b == 93 then some .rbrack else if b == 38 then some .and
  else if b == 45 then some .sub else if b == 36 then some .dollar else none

/-- first position ≥ pos holding a non-whitespace byte (or `size`) -/
def skipWs (inp : Input) : Nat → Nat → Nat
  | 0, pos => pos
  | fuel + 1, pos =>
    if pos < inp.size then
      if isWs (byteAt inp pos) then skipWs inp fuel (pos + 1) else pos
    else pos

/-- scan while `p` holds -/
def scanWhile (inp : Input) (p : UInt8 → Bool) : Nat → Nat → Nat
  | 0, pos => pos
  | fuel + 1, pos =>
    if pos < inp.size then
      if p (byteAt inp pos) then scanWhile inp p fuel (pos + 1) else pos
    else pos

/-- `peekRune(true)` from `pos`: first non-whitespace byte, 0 if none -/
def peekNonWs (inp : Input) (pos : Nat) : UInt8 := byteAt inp (skipWs inp (inp.size - pos + 1) pos)

/-- `readComment` loop; `stop` = literal end so far; returns (stop, new position) -/
def commentLoop (inp : Input) : Nat → Nat → Nat → Nat × Nat
  | 0, pos, stop => (stop, pos)
  | fuel + 1, pos, stop =>
    if pos < inp.size then
      let b := byteAt inp pos
      if b == 0 then (stop, pos + 1)
      else if b == 13 || b == 10 then
        if peekNonWs inp (pos + 1) != 35 then (stop, pos + 1)
        else commentLoop inp fuel (pos + 1) stop
      else commentLoop inp fuel (pos + 1) (pos + 1)
    else (stop, pos)

/-- `readSingleLineString` loop; returns (literal end, new position) -/
def stringLoop (inp : Input) : Nat → Nat → Bool → Nat × Nat
  | 0, pos, _ => (pos, pos)
  | fuel + 1, pos, escaped =>
    if pos < inp.size then
      let b := byteAt inp pos
      if b == 32 || b == 9 then stringLoop inp fuel (pos + 1) false
      else if b == 0 then (pos + 1, pos + 1)
      else if b == 34 then
        if escaped then stringLoop inp fuel (pos + 1) false
        else (pos, pos + 1)
      else if b == 13 || b == 10 then
        -- a line terminator ends the string, escaped or not; a backslash with nothing left to escape is not part of the value
        (if escaped then pos - 1 else pos, pos + 1)
      else if b == 92 then stringLoop inp fuel (pos + 1) (!escaped)
      else stringLoop inp fuel (pos + 1) false
    else (pos, pos)

structure BS where
  escaped : Bool := false
  quoteCount : Nat := 0
  wsCount : Nat := 0
  reached : Bool := false
  leading : Nat := 0
  deriving Repr

/-- `readBlockString` loop from content start `s0`; returns (literal start, literal end, new position) -/
def blockLoop (inp : Input) (s0 : Nat) : Nat → Nat → BS → Nat × Nat × Nat
  | 0, pos, st => (s0 + st.leading, pos - st.wsCount, pos)
  | fuel + 1, pos, st =>
    if pos < inp.size then
      let b := byteAt inp pos
      if b == 32 || b == 9 || b == 13 || b == 10 then
        blockLoop inp s0 fuel (pos + 1) { st with escaped := false, quoteCount := 0, wsCount := st.wsCount + 1 }
      else if b == 0 then (s0 + st.leading, (pos + 1) - st.wsCount, pos + 1)
      else if b == 34 then
        if st.escaped then blockLoop inp s0 fuel (pos + 1) { st with escaped := false }
        else if st.quoteCount + 1 == 3 then (s0 + st.leading, (pos + 1 - 3) - st.wsCount, pos + 1)
        else blockLoop inp s0 fuel (pos + 1) { st with quoteCount := st.quoteCount + 1 }
      else if b == 92 then
        blockLoop inp s0 fuel (pos + 1) { st with escaped := !st.escaped, quoteCount := 0, wsCount := 0 }
      else
        let st' := if st.reached then st else { st with reached := true, leading := st.wsCount }
        blockLoop inp s0 fuel (pos + 1) { st' with escaped := false, quoteCount := 0, wsCount := 0 }
    else (s0 + st.leading, pos - st.wsCount, pos)

/-- `readDigit`/`readFloat` after the first digit at `p`; returns (keyword, new position) -/
def numberEnd (inp : Input) (p1 : Nat) : Kw × Nat :=
  let fuel := inp.size + 1
  let q := scanWhile inp isDigit fuel p1
  let r := byteAt inp q
  let hasExp := r == 101 || r == 69
  let isFloat := r == 46 || hasExp
  if isFloat && q < inp.size then
    let q1 := q + 1
    if hasExp then
      -- IntegerPart ExponentPart: an optional sign follows the exponent indicator
      let sg0 := byteAt inp q1
      let q1' := if (sg0 == 45 || sg0 == 43) && q1 < inp.size then q1 + 1 else q1
      (.float, scanWhile inp isDigit fuel q1')
    else
    let q2 := scanWhile inp isDigit fuel q1
      let e := byteAt inp q2
      let q3 := if (e == 101 || e == 69) && q2 < inp.size then q2 + 1 else q2
      let sg := byteAt inp q3
      let q4 := if (sg == 45 || sg == 43) && q3 < inp.size then q3 + 1 else q3
      (.float, scanWhile inp isDigit fuel q4)
  else (.integer, q)

/-- `Lexer.Read` at position `pos`: the token and the position after it -/
def read (inp : Input) (pos : Nat) : Tok × Nat :=
  let fuel := inp.size + 1
  let p := skipWs inp fuel pos
  if p < inp.size then
    let b := byteAt inp p
    if b == 0 then (⟨.eof, p, p + 1⟩, p + 1)
    else match single b with
      | some k => (⟨k, p, p + 1⟩, p + 1)
      | none =>
        if b == 35 then
          let (stop, q) := commentLoop inp fuel (p + 1) (p + 1)
          (⟨.comment, p, stop⟩, q)
        else if b == 34 then
          if p + 3 ≤ inp.size && byteAt inp (p + 1) == 34 && byteAt inp (p + 2) == 34 then
            let (s, e, q) := blockLoop inp (p + 3) fuel (p + 3) {}
            (⟨.blockstring, s, e⟩, q)
          else
            let (e, q) := stringLoop inp fuel (p + 1) false
            (⟨.string, p + 1, e⟩, q)
        else if b == 46 then
          if p + 3 ≤ inp.size && byteAt inp (p + 1) == 46 && byteAt inp (p + 2) == 46 then (⟨.spread, p, p + 3⟩, p + 3)
          else (⟨.dot, p, p + 1⟩, p + 1)
        else if isDigit b then
          let (k, q) := numberEnd inp (p + 1)
          (⟨k, p, q⟩, q)
        else
          let q := scanWhile inp isIdent fuel (p + 1)
          (⟨.ident, p, q⟩, q)
  else (⟨.eof, p, p⟩, p)

/-- `Tokenizer.Tokenize`: all tokens up to (excluding) the first EOF -/
def tokenizeFrom (inp : Input) : Nat → Nat → List Tok
  | 0, _ => []
  | fuel + 1, pos =>
    let (t, q) := read inp pos
    if t.kw == .eof then [] else t :: tokenizeFrom inp fuel q

def tokenize (inp : Input) : List Tok := tokenizeFrom inp (inp.size + 1) 0

/-! ### TokenizeWithLimits -/

def sliceOf (inp : Input) (t : Tok) : List UInt8 := (inp.extract t.start t.stop).toList

def asciiBytes (x : String) : List UInt8 := x.toList.map fun c => UInt8.ofNat c.toNat

/-- the four identifiers that `TokenizeWithLimits` treats as the start of a new definition -/
def isDefKeyword (lit : List UInt8) : Bool :=
  lit == asciiBytes "fragment" || lit == asciiBytes "query" || lit == asciiBytes "mutation" ||
  lit == asciiBytes "subscription"

structure LimSt where
  globalDepth : Int := 0
  localDepth : Int := 0
  peak : Int := 0
  fields : Nat := 0
  lastWasSpread : Bool := false
  deriving Repr, DecidableEq

inductive LimRes where
  | ok (depth : Int) (fields : Nat)
  | depthExceeded (depth : Int) (fields : Nat)
  | fieldsExceeded (depth : Int) (fields : Nat)
  deriving Repr, DecidableEq

/-- the field counter after an identifier that is not a definition keyword -/
def countedFields (st : LimSt) : Nat :=
  if st.localDepth > 0 && !st.lastWasSpread then st.fields + 1 else st.fields

/-- one token of the `TokenizeWithLimits` loop; `Sum.inr` = stop with an error -/
def limStep (maxDepth maxFields : Int) (kw : Kw) (isDef : Bool) (st : LimSt) : LimSt ⊕ LimRes :=
  match kw with
  | .lbrace =>
    if maxDepth > 0 && st.globalDepth + 1 > maxDepth then
      .inr (.depthExceeded (st.globalDepth + 1 + st.peak) st.fields)
    else
      .inl { st with globalDepth := st.globalDepth + 1, localDepth := st.localDepth + 1,
                     peak := if st.localDepth + 1 > st.peak then st.localDepth + 1 else st.peak,
                     lastWasSpread := false }
  | .rbrace => .inl { st with globalDepth := st.globalDepth - 1, localDepth := st.localDepth - 1, lastWasSpread := false }
  | .spread => .inl { st with lastWasSpread := true }
  | .ident =>
    if isDef && st.localDepth ≤ 0 then   -- inside a selection set the four words are ordinary names
      .inl { st with globalDepth := st.globalDepth + st.peak, localDepth := 0, peak := 0, lastWasSpread := false }
    else if maxFields > 0 && (countedFields st : Int) > maxFields then
      .inr (.fieldsExceeded (st.globalDepth + st.peak) (countedFields st))
    else .inl { st with fields := countedFields st, lastWasSpread := false }
  | _ => .inl st

def limRun (maxDepth maxFields : Int) : List (Kw × Bool) → LimSt → LimRes
  | [], st => .ok (st.globalDepth + st.peak) st.fields
  | (k, d) :: r, st =>
    match limStep maxDepth maxFields k d st with
    | .inr e => e
    | .inl st' => limRun maxDepth maxFields r st'

def limInput (inp : Input) : List (Kw × Bool) :=
  (tokenize inp).map fun t => (t.kw, t.kw == .ident && isDefKeyword (sliceOf inp t))

/-- `TokenizeWithLimits(limits, input)` -/
def tokenizeWithLimits (inp : Input) (maxDepth maxFields : Int) : LimRes :=
  limRun maxDepth maxFields (limInput inp) {}

end GqlVerif.Lex
