/-
  Gql.Valid — a reference validator for executable documents: the rules of section 5 of the GraphQL specification
  that concern one operation and the fragments it reaches.  Total and fuel-indexed (fuel bounds nesting depth and
  fragment chains; the driver supplies far more than any generated document needs).

  Rules: fields exist on their parent type; leaf / composite selection shape; arguments known, unique, required ones
  given, values coercible to the argument type; fragments known, on composite types, acyclic, spread only where
  possible, uniquely named; variables uniquely named, of input types, defined when used, used when defined, used only
  in allowed positions, defaults coercible; directives known, in allowed locations, with their required arguments, not
  repeated; fields with the same response name mergeable (FieldsInSetCanMerge / SameResponseShape).
-/
namespace GqlVerif.Valid

inductive TRef where
  | named (n : String)
  | list (t : TRef)
  | nonNull (t : TRef)
  deriving Repr, Inhabited, BEq, DecidableEq

def TRef.base : TRef → String
  | .named n => n
  | .list t => t.base
  | .nonNull t => t.base

def TRef.isNonNull : TRef → Bool
  | .nonNull _ => true
  | _ => false

def TRef.nullable : TRef → TRef
  | .nonNull t => t
  | t => t

inductive V where
  | int (raw : String) | float (raw : String) | str (raw : String) | bool (b : Bool) | null
  | enum (v : String)
  | var (n : String)
  | list (xs : List V)
  | obj (fs : List (String × V))
  deriving Inhabited

structure ArgDef where
  name : String
  type : TRef
  hasDefault : Bool := false
  deriving Inhabited

structure FieldDef where
  name : String
  type : TRef
  args : List ArgDef := []
  deriving Inhabited

structure TypeDef where
  name : String
  kind : String                       -- OBJECT INTERFACE UNION SCALAR ENUM INPUT_OBJECT
  fields : List FieldDef := []
  possible : List String := []        -- objects of an interface / union (an object: itself)
  enumValues : List String := []
  inputFields : List ArgDef := []
  deriving Inhabited

structure DirDef where
  name : String
  locations : List String
  args : List ArgDef := []
  repeatable : Bool := false
  deriving Inhabited

structure Schema where
  types : List TypeDef
  directives : List DirDef
  query : String := "Query"
  mutation : String := "Mutation"
  subscription : String := "Subscription"

structure Dir where
  name : String
  args : List (String × V)
  deriving Inhabited

inductive Sel where
  | field (alias name : String) (args : List (String × V)) (dirs : List Dir) (sels : List Sel)
  | inline (typeCond : Option String) (dirs : List Dir) (sels : List Sel)
  | spread (name : String) (dirs : List Dir)
  deriving Inhabited

structure Frag where
  name : String
  typeCond : String
  dirs : List Dir := []
  sels : List Sel

structure VarDef where
  name : String
  type : TRef
  default : Option V := none

structure Op where
  kind : String := "query"
  vars : List VarDef := []
  dirs : List Dir := []
  sels : List Sel
  frags : List Frag := []

def Schema.type? (s : Schema) (n : String) : Option TypeDef := s.types.find? (·.name == n)

def isComposite (k : String) : Bool := k == "OBJECT" || k == "INTERFACE" || k == "UNION"
def isInputKind (k : String) : Bool := k == "SCALAR" || k == "ENUM" || k == "INPUT_OBJECT"

def nodupStr (l : List String) : Bool :=
  match l with
  | [] => true
  | x :: xs => !xs.contains x && nodupStr xs

/-- possible object types of a composite type -/
def possibleOf (s : Schema) (n : String) : List String :=
  match s.type? n with
  | some t => if t.kind == "OBJECT" then [t.name] else t.possible
  | none => []

def spreadPossible (s : Schema) (parent cond : String) : Bool :=
  (possibleOf s parent).any fun p => (possibleOf s cond).contains p

/-! ### values -/

/-- AreTypesCompatible(variableType, locationType) -/
def typesCompatible : TRef → TRef → Bool
  | .nonNull v, .nonNull l => typesCompatible v l
  | .nonNull v, l => typesCompatible v l
  | _, .nonNull _ => false
  | .list v, .list l => typesCompatible v l
  | .list _, _ => false
  | _, .list _ => false
  | .named a, .named b => a == b

/-- IsVariableUsageAllowed -/
def varUsageAllowed (varType : TRef) (varHasDefault : Bool) (locType : TRef) (locHasDefault : Bool) : Bool :=
  match locType, varType with
  | .nonNull l, .nonNull _ => typesCompatible varType (.nonNull l)
  | .nonNull l, v => (varHasDefault || locHasDefault) && typesCompatible v l
  | l, v => typesCompatible v l

/-- is a literal / variable admissible where a value of type t is expected -/
def valueOk (s : Schema) (vars : List VarDef) : Nat → TRef → Bool → V → Bool
  | 0, _, _, _ => false
  | fuel + 1, t, locHasDefault, v =>
    match v with
    | .var n =>
      (match vars.find? (·.name == n) with
       | some vd => varUsageAllowed vd.type vd.default.isSome t locHasDefault
       | none => true)                      -- undefined variables are the business of another rule
    | .null => !t.isNonNull
    | _ =>
      match t.nullable with
      | .list it =>
        (match v with
         | .list xs => xs.all fun x => valueOk s vars fuel it false x
         | single => valueOk s vars fuel it false single)        -- a single value coerces to a list of one
      | .nonNull _ => false
      | .named n =>
        match s.type? n with
        | none => false
        | some td =>
          if td.kind == "ENUM" then (match v with | .enum e => td.enumValues.contains e | _ => false)
          else if td.kind == "INPUT_OBJECT" then
            (match v with
             | .obj fs =>
               nodupStr (fs.map (·.1)) &&
               fs.all (fun (k, x) => match td.inputFields.find? (·.name == k) with
                 | some fd => valueOk s vars fuel fd.type fd.hasDefault x
                 | none => false) &&
               td.inputFields.all (fun fd => !(fd.type.isNonNull && !fd.hasDefault) || fs.any (·.1 == fd.name))
             | _ => false)
          else if td.kind == "SCALAR" then
            (if n == "Int" then (match v with | .int _ => true | _ => false)
             else if n == "Float" then (match v with | .int _ => true | .float _ => true | _ => false)
             else if n == "String" then (match v with | .str _ => true | _ => false)
             else if n == "Boolean" then (match v with | .bool _ => true | _ => false)
             else if n == "ID" then (match v with | .str _ => true | .int _ => true | _ => false)
             else (match v with | .enum _ => false | _ => true))
          else false

def argsOk (s : Schema) (vars : List VarDef) (defs : List ArgDef) (args : List (String × V)) : Bool :=
  nodupStr (args.map (·.1)) &&
  args.all (fun (k, v) => match defs.find? (·.name == k) with
    | some d => valueOk s vars 32 d.type d.hasDefault v
    | none => false) &&
  defs.all (fun d => !(d.type.isNonNull && !d.hasDefault) ||
    (match args.find? (·.1 == d.name) with | some (_, .null) => false | some _ => true | none => false))

def dirsOk (s : Schema) (vars : List VarDef) (loc : String) (dirs : List Dir) : Bool :=
  dirs.all (fun d => match s.directives.find? (·.name == d.name) with
    | some dd => dd.locations.contains loc && argsOk s vars dd.args d.args
    | none => false) &&
  nodupStr ((dirs.filter fun d => match s.directives.find? (·.name == d.name) with | some dd => !dd.repeatable | none => true).map (·.name))

/-! ### selections -/

def checkSels (s : Schema) (op : Op) : Nat → String → List Sel → Bool
  | 0, _, _ => false
  | fuel + 1, parent, sels =>
    match s.type? parent with
    | none => false
    | some pt =>
      isComposite pt.kind &&
      sels.all fun sel =>
        match sel with
        | .field _ name args dirs sub =>
          dirsOk s op.vars "FIELD" dirs &&
          (if name == "__typename" then args.isEmpty && sub.isEmpty
           else match (if pt.kind == "UNION" then none else pt.fields.find? (·.name == name)) with
            | none => false
            | some fd =>
              argsOk s op.vars fd.args args &&
              (match s.type? fd.type.base with
               | none => false
               | some rt =>
                 if isComposite rt.kind then !sub.isEmpty && checkSels s op fuel rt.name sub
                 else sub.isEmpty))
        | .inline cond dirs sub =>
          dirsOk s op.vars "INLINE_FRAGMENT" dirs && !sub.isEmpty &&
          (match cond with
           | none => checkSels s op fuel parent sub
           | some c => (match s.type? c with
             | some ct => isComposite ct.kind && spreadPossible s parent c && checkSels s op fuel c sub
             | none => false))
        | .spread name dirs =>
          dirsOk s op.vars "FRAGMENT_SPREAD" dirs &&
          (match op.frags.find? (·.name == name) with
           | some f => (match s.type? f.typeCond with
             | some ct => isComposite ct.kind && spreadPossible s parent f.typeCond
             | none => false)
           | none => false)

/-- names of the fragments spread (directly) in a selection list -/
def spreadsIn : Nat → List Sel → List String
  | 0, _ => []
  | fuel + 1, sels => sels.flatMap fun sel =>
    match sel with
    | .field _ _ _ _ sub => spreadsIn fuel sub
    | .inline _ _ sub => spreadsIn fuel sub
    | .spread n _ => [n]

/-- fragments reachable from a list of fragment names -/
def reach (op : Op) : Nat → List String → List String → List String
  | 0, _, seen => seen
  | _ + 1, [], seen => seen
  | fuel + 1, n :: rest, seen =>
    if seen.contains n then reach op fuel rest seen
    else match op.frags.find? (·.name == n) with
      | some f => reach op fuel (spreadsIn 64 f.sels ++ rest) (n :: seen)
      | none => reach op fuel rest seen

def reachable (op : Op) : List String := reach op 4096 (spreadsIn 64 op.sels) []

/-- does fragment `target` occur on a spread path starting from the fragments in `todo`? -/
def reachesFrag (op : Op) (target : String) : Nat → List String → List String → Bool
  | 0, _, _ => true
  | _ + 1, [], _ => false
  | fuel + 1, n :: rest, seen =>
    if n == target then true
    else if seen.contains n then reachesFrag op target fuel rest seen
    else match op.frags.find? (·.name == n) with
      | some f => reachesFrag op target fuel (spreadsIn 64 f.sels ++ rest) (n :: seen)
      | none => reachesFrag op target fuel rest seen

def fragsAcyclic (op : Op) : Bool :=
  (reachable op).all fun n => match op.frags.find? (·.name == n) with
    | some f => !reachesFrag op n 4096 (spreadsIn 64 f.sels) []
    | none => true

/-- (fragment name uniqueness is a rule about definitions that normalization discards; it is not judged) -/
def fragsOk (s : Schema) (op : Op) : Bool :=
  fragsAcyclic op &&
  (reachable op).all fun n => match op.frags.find? (·.name == n) with
    | some f => dirsOk s op.vars "FRAGMENT_DEFINITION" f.dirs && !f.sels.isEmpty && checkSels s op 64 f.typeCond f.sels
    | none => false

/-! ### variables -/

def varsInV : Nat → V → List String
  | 0, _ => []
  | fuel + 1, v => match v with
    | .var n => [n]
    | .list xs => xs.flatMap (varsInV fuel)
    | .obj fs => fs.flatMap fun (_, x) => varsInV fuel x
    | _ => []

def varsInDirs (dirs : List Dir) : List String := dirs.flatMap fun d => d.args.flatMap fun (_, v) => varsInV 32 v

def varsInSels : Nat → List Sel → List String
  | 0, _ => []
  | fuel + 1, sels => sels.flatMap fun sel =>
    match sel with
    | .field _ _ args dirs sub => args.flatMap (fun (_, v) => varsInV 32 v) ++ varsInDirs dirs ++ varsInSels fuel sub
    | .inline _ dirs sub => varsInDirs dirs ++ varsInSels fuel sub
    | .spread _ dirs => varsInDirs dirs

def usedVars (op : Op) : List String :=
  varsInDirs op.dirs ++ varsInSels 64 op.sels ++
  (reachable op).flatMap fun n => match op.frags.find? (·.name == n) with
    | some f => varsInDirs f.dirs ++ varsInSels 64 f.sels
    | none => []

def varsOk (s : Schema) (op : Op) : Bool :=
  nodupStr (op.vars.map (·.name)) &&
  op.vars.all (fun vd => (match s.type? vd.type.base with | some t => isInputKind t.kind | none => false) &&
    (match vd.default with | some d => valueOk s [] 32 vd.type false d | none => true)) &&
  (usedVars op).all (fun n => op.vars.any (·.name == n)) &&
  op.vars.all (fun vd => (usedVars op).contains vd.name)

/-! ### field selection merging -/

structure FieldAt where
  parent : String
  key : String
  name : String
  args : List (String × V)
  type : Option TRef
  sels : List Sel

/-- CollectFields for validation: every field of the selection set with the parent type it is selected on -/
def fieldsOf (s : Schema) (op : Op) : Nat → String → List String → List Sel → List FieldAt
  | 0, _, _, _ => []
  | fuel + 1, parent, visited, sels => sels.flatMap fun sel =>
    match sel with
    | .field alias name args _ sub =>
      let ft := if name == "__typename" then some (TRef.nonNull (.named "String"))
        else (s.type? parent).bind fun pt => (pt.fields.find? (·.name == name)).map (·.type)
      [⟨parent, if alias == "" then name else alias, name, args, ft, sub⟩]
    | .inline cond _ sub => fieldsOf s op fuel (cond.getD parent) visited sub
    | .spread n _ =>
      if visited.contains n then []
      else match op.frags.find? (·.name == n) with
        | some f => fieldsOf s op fuel f.typeCond (n :: visited) f.sels
        | none => []

def vEq : Nat → V → V → Bool
  | 0, _, _ => false
  | fuel + 1, a, b => match a, b with
    | .int x, .int y => x == y
    | .float x, .float y => x == y
    | .str x, .str y => x == y
    | .bool x, .bool y => x == y
    | .null, .null => true
    | .enum x, .enum y => x == y
    | .var x, .var y => x == y
    | .list xs, .list ys => xs.length == ys.length && (xs.zip ys).all fun (x, y) => vEq fuel x y
    | .obj xs, .obj ys => xs.length == ys.length && (xs.zip ys).all fun ((k, x), (l, y)) => k == l && vEq fuel x y
    | _, _ => false

def argsEq (a b : List (String × V)) : Bool :=
  a.length == b.length && a.all fun (k, v) => match b.find? (·.1 == k) with | some (_, w) => vEq 32 v w | none => false

/-- SameResponseShape on the declared types -/
def sameShape (s : Schema) : TRef → TRef → Bool
  | .nonNull a, .nonNull b => sameShape s a b
  | .nonNull _, _ => false
  | _, .nonNull _ => false
  | .list a, .list b => sameShape s a b
  | .list _, _ => false
  | _, .list _ => false
  | .named a, .named b =>
    match s.type? a, s.type? b with
    | some ta, some tb => if isComposite ta.kind && isComposite tb.kind then true else a == b
    | _, _ => false

def isObject (s : Schema) (n : String) : Bool := match s.type? n with | some t => t.kind == "OBJECT" | none => false

/-- FieldsInSetCanMerge, applied to the collected fields of one (merged) selection set -/
def canMerge (s : Schema) (op : Op) : Nat → List FieldAt → Bool
  | 0, _ => false
  | fuel + 1, fs =>
    fs.all fun a => fs.all fun b =>
      if a.key != b.key then true
      else
        (match a.type, b.type with
         | some ta, some tb => sameShape s ta tb
         | _, _ => true) &&
        (if a.parent == b.parent || !isObject s a.parent || !isObject s b.parent then
           a.name == b.name && argsEq a.args b.args &&
           (a.sels.isEmpty || b.sels.isEmpty ||
             (match a.type, b.type with
              | some ta, some tb =>
                canMerge s op fuel (fieldsOf s op 32 ta.base [] a.sels ++ fieldsOf s op 32 tb.base [] b.sels)
              | _, _ => true))
         else
           (a.sels.isEmpty || b.sels.isEmpty ||
             (match a.type, b.type with
              | some ta, some tb => shapesMerge s op fuel (fieldsOf s op 32 ta.base [] a.sels ++ fieldsOf s op 32 tb.base [] b.sels)
              | _, _ => true)))
where
  /-- for fields that can never be selected on the same object only the response shapes must agree, recursively -/
  shapesMerge (s : Schema) (op : Op) : Nat → List FieldAt → Bool
    | 0, _ => false
    | fuel + 1, fs => fs.all fun a => fs.all fun b =>
      if a.key != b.key then true
      else
        (match a.type, b.type with
         | some ta, some tb => sameShape s ta tb &&
            (a.sels.isEmpty || b.sels.isEmpty ||
              shapesMerge s op fuel (fieldsOf s op 32 ta.base [] a.sels ++ fieldsOf s op 32 tb.base [] b.sels))
         | _, _ => true)

def rootType (s : Schema) (op : Op) : String :=
  if op.kind == "mutation" then s.mutation else if op.kind == "subscription" then s.subscription else s.query

def opLocation (op : Op) : String :=
  if op.kind == "mutation" then "MUTATION" else if op.kind == "subscription" then "SUBSCRIPTION" else "QUERY"

/-- the verdicts of the rule groups, by name -/
def verdicts (s : Schema) (op : Op) : List (String × Bool) :=
  [("selections", !op.sels.isEmpty && checkSels s op 64 (rootType s op) op.sels),
   ("operation_directives", dirsOk s op.vars (opLocation op) op.dirs),
   ("fragments", fragsOk s op),
   ("variables", varsOk s op),
   ("merging", canMerge s op 24 (fieldsOf s op 64 (rootType s op) [] op.sels))]

def valid (s : Schema) (op : Op) : Bool := (verdicts s op).all (·.2)

end GqlVerif.Valid
