/-
  Gql.Exec — reference execution of a GraphQL operation (GraphQL specification, section 6: CollectFields,
  ExecuteSelectionSet, CompleteValue with non-null propagation) over a data universe.

  The same executor gives the meaning of a client operation against the supergraph (what a single server owning all
  the data returns) and the meaning of a subgraph request against a subgraph schema (the federation entry point
  `_entities(representations:)` resolves each representation to the entity with that key; fields a subgraph computes
  from `@requires` inputs are computed from the representation it was sent, not from the universe).
-/
import GqlVerif.Base.Json
namespace GqlVerif.Exec
open GqlVerif

inductive TRef where
  | named (n : String)
  | list (t : TRef)
  | nonNull (t : TRef)
  deriving Repr, Inhabited

structure FieldDef where
  name : String
  type : TRef
  argDefaults : List (String × Json) := []     -- arguments that have a default value
  deriving Inhabited

structure TypeDef where
  name : String
  kind : String                                  -- OBJECT INTERFACE UNION SCALAR ENUM INPUT_OBJECT
  fields : List FieldDef := []
  possible : List String := []                   -- object types of an interface / union
  keys : List String := []                       -- key fields (flattened) of an entity in this (sub)graph
  deriving Inhabited

structure Schema where
  types : List TypeDef
  query : String := "Query"
  mutation : String := "Mutation"
  isSubgraph : Bool := false     -- a subgraph knows @requires inputs only from the representation it is sent
  failed : List (String × String) := []   -- (type, field) coordinates whose only source is unavailable (fault reference)
  denied : List (String × String) := []   -- (type, field) coordinates the authorizer denies (C14)

def Schema.type? (s : Schema) (n : String) : Option TypeDef := s.types.find? (·.name == n)

/-- argument / variable values -/
inductive Val where
  | var (n : String)
  | lit (j : Json)                                -- scalars; enum values as strings
  | list (xs : List Val)
  | obj (fs : List (String × Val))
  deriving Inhabited

structure Dir where
  name : String
  ifArg : Val
  deriving Inhabited

inductive Sel where
  | field (alias name : String) (args : List (String × Val)) (dirs : List Dir) (sels : List Sel)
  | inline (typeCond : Option String) (dirs : List Dir) (sels : List Sel)
  | spread (name : String) (dirs : List Dir)
  deriving Inhabited

structure Frag where
  name : String
  typeCond : String
  sels : List Sel

structure Op where
  kind : String := "query"
  sels : List Sel
  frags : List Frag := []
  varDefaults : List (String × Json) := []

/-- universe values -/
inductive FVal where
  | scalar (j : Json)
  | ref (i : Nat) (overlay : Option Json)          -- a node, optionally with the representation it was addressed by
  | list (xs : List FVal)
  | null
  | err (msg : String)
  | computed (src : List String)                   -- a value computed from other fields of the same entity (@requires)
  deriving Inhabited

structure Node where
  type : String
  fields : List (String × FVal)
  deriving Inhabited

structure Universe where
  nodes : Array Node

/-! ### values of arguments -/

def lookupKV {α : Type} (l : List (String × α)) (k : String) : Option α := (l.find? (·.1 == k)).map (·.2)

/-- `none` = the value is absent (an omitted variable without default); fuel bounds the nesting of the value -/
def evalValF (vars : List (String × Json)) (defaults : List (String × Json)) : Nat → Val → Option Json
  | 0, _ => none
  | fuel + 1, v =>
    match v with
    | .var n => match lookupKV vars n with
      | some j => some j
      | none => lookupKV defaults n
    | .lit j => some j
    | .list xs => some (.arr (xs.map fun x => (evalValF vars defaults fuel x).getD .null))
    | .obj fs => some (.obj (fs.filterMap fun (k, v) => (evalValF vars defaults fuel v).map fun j => (k, j)))

def evalVal (vars : List (String × Json)) (defaults : List (String × Json)) (v : Val) : Option Json := evalValF vars defaults 64 v

def dirsAllow (vars defaults : List (String × Json)) (dirs : List Dir) : Bool :=
  dirs.all fun d =>
    let c := match evalVal vars defaults d.ifArg with | some (.bool b) => b | _ => false
    if d.name == "skip" then !c else if d.name == "include" then c else true

/-! ### CollectFields -/

structure Collected where
  key : String
  name : String
  args : List (String × Val)
  sels : List Sel
  deriving Inhabited

def fragApplies (s : Schema) (objType : String) (cond : Option String) : Bool :=
  match cond with
  | none => true
  | some c => c == objType || (match s.type? c with | some t => t.possible.contains objType | none => false)

def addCollected (acc : List Collected) (c : Collected) : List Collected :=
  if acc.any (·.key == c.key) then acc.map fun x => if x.key == c.key then { x with sels := x.sels ++ c.sels } else x
  else acc ++ [c]

def collect (s : Schema) (op : Op) (vars : List (String × Json)) (objType : String) :
    Nat → List String → List Sel → List Collected → List Collected × List String
  | 0, visited, _, acc => (acc, visited)
  | _ + 1, visited, [], acc => (acc, visited)
  | fuel + 1, visited, sel :: rest, acc =>
    match sel with
    | .field alias name args dirs sels =>
      if dirsAllow vars op.varDefaults dirs then
        collect s op vars objType fuel visited rest (addCollected acc ⟨if alias == "" then name else alias, name, args, sels⟩)
      else collect s op vars objType fuel visited rest acc
    | .inline cond dirs sels =>
      if dirsAllow vars op.varDefaults dirs && fragApplies s objType cond then
        let (acc', visited') := collect s op vars objType fuel visited sels acc
        collect s op vars objType fuel visited' rest acc'
      else collect s op vars objType fuel visited rest acc
    | .spread name dirs =>
      if dirsAllow vars op.varDefaults dirs && !visited.contains name then
        match op.frags.find? (·.name == name) with
        | some f =>
          if fragApplies s objType (some f.typeCond) then
            let (acc', visited') := collect s op vars objType fuel (name :: visited) f.sels acc
            collect s op vars objType fuel visited' rest acc'
          else collect s op vars objType fuel (name :: visited) rest acc
        | none => collect s op vars objType fuel visited rest acc
      else collect s op vars objType fuel visited rest acc

/-! ### resolvers: the universe, with the generic meaning of the arguments the layouts use -/

def jsonEq (a b : Json) : Bool := a.render == b.render

def scalarText : FVal → String
  | .scalar j => match j with | .str s => s | other => other.render
  | .null => "null"
  | _ => "?"

def keyArgNames : List String := ["id", "upc", "code", "sku"]

/-- the value of a field of a node before arguments are applied; computed fields read their inputs from the
    representation the entity was addressed by (subgraph) or from the node itself (monolith) -/
def baseValue (sub : Bool) (failed : List (String × String)) (u : Universe) (i : Nat) (overlay : Option Json) (field : String) : FVal :=
  match u.nodes[i]? with
  | none => .null
  | some node =>
    if field == "__typename" then .scalar (.str node.type)
    else match lookupKV node.fields field with
      | some (.computed src) =>
        if src.any (fun f => failed.contains (node.type, f)) then .err "an input of the computed field is unavailable" else
        let parts := src.map fun f =>
          match overlay.bind (·.get? f) with
          | some j => (match j with | .str s => s | other => other.render)
          | none =>
            if sub || overlay.isSome then "MISSING"   -- a subgraph only knows what the representation tells it
            else match lookupKV node.fields f with
              | some (.computed src2) =>     -- an input that is itself computed (a chain of @requires)
                "c(" ++ ",".intercalate (src2.map fun g => scalarText ((lookupKV node.fields g).getD .null)) ++ ")"
              | other => scalarText (other.getD .null)
        .scalar (.str ("c(" ++ ",".intercalate parts ++ ")"))
      | some v => v
      | none => .null

def applyArgs (u : Universe) (args : List (String × Json)) (v : FVal) : FVal :=
  let v1 : FVal := match v, lookupKV args "term" with
    | .list xs, some (.str t) => FVal.list (xs.filter fun x => match x with
        | .ref i _ => (match u.nodes[i]? with
          | some n => (match lookupKV n.fields "tag" with | some (.scalar (.str s)) => s == t | _ => false)
          | none => false)
        | _ => false)
    | other, _ => other
  let v2 : FVal := match keyArgNames.filterMap (fun k => (lookupKV args k).map fun j => (k, j)) with
    | (k, j) :: _ =>
      (match v1 with
       | .list xs => ((xs.find? fun x => match x with
          | .ref i _ => (match u.nodes[i]? with
            | some n => (match lookupKV n.fields k with | some (.scalar s) => jsonEq s j | _ => false)
            | none => false)
          | _ => false).getD .null)
       | other => other)
    | [] => v1
  match v2, lookupKV args "first" with
  | .list xs, some (.num r) => FVal.list (xs.take (r.toNat?.getD xs.length))
  | other, _ => other

/-- `_entities(representations:)`: each representation addresses the node of its __typename whose key fields equal
    the representation's -/
def resolveEntities (s : Schema) (u : Universe) (reps : Json) : FVal :=
  match reps with
  | .arr rs => FVal.list (rs.map fun r =>
      let tn := r.strD "__typename"
      let keys := match s.type? tn with | some t => t.keys | none => []
      match (List.range u.nodes.size).find? fun i => match u.nodes[i]? with
        | some n => n.type == tn && !keys.isEmpty && keys.all fun k => match lookupKV n.fields k, r.get? k with
            | some (.scalar a), some b => jsonEq a b
            | _, _ => false
        | none => false with
      | some i => FVal.ref i (some r)
      | none => FVal.null)
  | _ => FVal.null

/-! ### execution -/

abbrev Errs := List String

/-- the declared type of a field of objType (`__typename` is String!) -/
def fieldType (s : Schema) (objType name : String) : TRef :=
  if name == "__typename" then .nonNull (.named "String")
  else match (s.type? objType).bind fun (t : TypeDef) => t.fields.find? (fun (fd : FieldDef) => fd.name == name) with
    | some fd => fd.type
    | none => .named "String"

/-- the argument values given in the operation (variables resolved; absent variables leave the argument out) -/
def givenArgs (op : Op) (vars : List (String × Json)) (c : Collected) : List (String × Json) :=
  c.args.filterMap fun (k, v) => (evalVal vars op.varDefaults v).map fun j => (k, j)

def schemaArgDefaults (s : Schema) (objType name : String) : List (String × Json) :=
  match (s.type? objType).bind fun (t : TypeDef) => t.fields.find? (fun (fd : FieldDef) => fd.name == name) with
  | some fd => fd.argDefaults
  | none => []

/-- coerced argument values: the given ones, then the schema defaults of those not given -/
def fieldArgs (s : Schema) (op : Op) (vars : List (String × Json)) (objType : String) (c : Collected) : List (String × Json) :=
  givenArgs op vars c ++ (schemaArgDefaults s objType c.name).filter fun (k, _) => !(givenArgs op vars c).any (·.1 == k)

mutual
  /-- ExecuteSelectionSet; `none` = a non-null field failed: the object itself becomes null -/
  def execSels (s : Schema) (u : Universe) (op : Op) (vars : List (String × Json)) (fuel : Nat) (objType : String)
      (i : Nat) (overlay : Option Json) (sels : List Sel) : Option (List (String × Json)) × Errs :=
    match fuel with
    | 0 => (some [], ["out of fuel"])
    | fuel + 1 =>
    (collect s op vars objType 4096 [] sels []).1.foldl (fun (acc : Option (List (String × Json)) × Errs) c =>
      match acc.1 with
      | none => acc
      | some out =>
        match execField s u op vars fuel objType i overlay c with
        | (some j, e) => (some (out ++ [(c.key, j)]), acc.2 ++ e)
        | (none, e) => (none, acc.2 ++ e)) (some [], [])

  /-- ExecuteField: the value of one collected field of an object of type objType; a denied coordinate is a field error -/
  def execField (s : Schema) (u : Universe) (op : Op) (vars : List (String × Json)) (fuel : Nat) (objType : String)
      (i : Nat) (overlay : Option Json) (c : Collected) : Option Json × Errs :=
    match fuel with
    | 0 => (some .null, ["out of fuel"])
    | fuel + 1 =>
    complete s u op vars fuel (fieldType s objType c.name)
      (if c.name == "_entities" then resolveEntities s u ((lookupKV (fieldArgs s op vars objType c) "representations").getD .null)
       else if s.denied.contains (objType, c.name) then .err "Unauthorized"
       else if s.failed.contains (objType, c.name) then .err "the subgraph that owns this field failed"
       else applyArgs u (fieldArgs s op vars objType c) (baseValue s.isSubgraph s.failed u i overlay c.name))
      c.sels

  /-- CompleteValue; `none` = null in a non-null position (propagates to the parent) -/
  def complete (s : Schema) (u : Universe) (op : Op) (vars : List (String × Json)) (fuel : Nat) (t : TRef) (v : FVal)
      (sels : List Sel) : Option Json × Errs :=
    match fuel with
    | 0 => (some .null, ["out of fuel"])
    | fuel + 1 =>
    match t with
    | .nonNull t' =>
      match complete s u op vars fuel t' v sels with
      | (some .null, e) => (none, if e.isEmpty then ["Cannot return null for non-nullable field"] else e)
      | other => other
    | .list t' =>
      match v with
      | .list xs =>
        let r := xs.foldl (fun (acc : Option (List Json) × Errs) x =>
          match acc.1 with
          | none => acc
          | some out =>
            let (j, e) := complete s u op vars fuel t' x sels
            match j with
            | some j' => (some (out ++ [j']), acc.2 ++ e)
            | none => (none, acc.2 ++ e)) (some [], [])
        (match r.1 with
         | some out => (some (.arr out), r.2)
         | none => (some .null, r.2))
      | .err m => (some .null, [m])
      | _ => (some .null, [])
    | .named n =>
      match v with
      | .null => (some .null, [])
      | .err m => (some .null, [m])
      | .scalar j => (some j, [])
      | .computed _ => (some .null, [])
      | .list _ => (some .null, ["list for a named type"])
      | .ref i overlay =>
        match u.nodes[i]? with
        | none => (some .null, [])
        | some node =>
          -- an abstract type (n) resolves to the runtime type of the node
          match execSels s u op vars fuel node.type i overlay sels with
          | (some fs, e) => (some (.obj fs), e)
          | (none, e) => (some .null, e)
end

structure Response where
  data : Json
  errors : Errs

/-- the root node of the universe is node 0 (its type is the query / mutation / subscription root type; a subscription
    operation is given the meaning of one event: the response to the event the source emits for its root field) -/
def execute (s : Schema) (u : Universe) (op : Op) (vars : List (String × Json)) : Response :=
  let root := if op.kind == "mutation" then s.mutation else if op.kind == "subscription" then "Subscription" else s.query
  match execSels s u op vars 256 root 0 none op.sels with
  | (some fs, e) => ⟨.obj fs, e⟩
  | (none, e) => ⟨.null, e⟩

end GqlVerif.Exec
