/-
  Cache.RespCache — model of the entity response cache bookkeeping in v2/pkg/engine/resolve/response_cache.go:
  `responseCacheCollect` (which entities of an `_entities` answer are handed to the cache, under which keys),
  `responseCacheFlush` / `SetMany` (last write wins) and `responseCacheLookup` (all-or-nothing lookup of a batch and the
  synthesized `_entities` array).  Keys and values are strings; an entity value is `none` when the subgraph answered null (or
  anything that is not an object) at that position.
-/
namespace GqlVerif.RespCache

/-- the cache content: newest entry first, `get` returns the newest entry of a key -/
abbrev Store := List (String × String)

def Store.get (s : Store) (k : String) : Option String := (s.find? (·.1 == k)).map (·.2)

/-- `SetMany`: when the same key occurs twice the last one wins -/
def setMany (s : Store) (items : List (String × String)) : Store := items.reverse ++ s

/-- `responseCacheCollect` after the storability checks passed: `none` = the collection error "unexpected number of
    _entities values"; otherwise one item per OBJECT value, under the key of ITS position -/
def collect (keys : List String) (vals : List (Option String)) : Option (List (String × String)) :=
  if vals.length ≠ keys.length then none
  else some ((keys.zip vals).filterMap fun kv => kv.2.map fun v => (kv.1, v))

/-- the distinct keys of a batch (the keys of the map `GetMany` answers with) -/
def dedup : List String → List String
  | [] => []
  | k :: ks => if ks.contains k then dedup ks else k :: dedup ks

/-- `GetMany` answers with a map: a key asked twice is found once -/
def foundCount (s : Store) (keys : List String) : Nat := ((dedup keys).filter fun k => (s.get k).isSome).length

def allSome {α : Type} : List (Option α) → Option (List α)
  | [] => some []
  | none :: _ => none
  | some x :: xs => (allSome xs).map (x :: ·)

/-- the value a hit may use: found and not empty -/
def usable (s : Store) (k : String) : Option String :=
  match s.get k with
  | some v => if v.isEmpty then none else some v
  | none => none

/-- `responseCacheLookup`: a hit only when every key is found with a non-empty value; the synthesized `_entities` array
    holds the values in key order -/
def lookup (s : Store) (keys : List String) : Option (List String) :=
  if keys.isEmpty then none
  else if foundCount s keys ≠ keys.length then none
  else allSome (keys.map (usable s))

end GqlVerif.RespCache
