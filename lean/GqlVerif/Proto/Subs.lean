/-
  Proto.Subs — transition system for subscription triggers and delivery in
  v2/pkg/engine/resolve/resolve.go (addSubscription, subscriptionUpdater.*, handleTrigger*,
  executeSubscriptionUpdate, removeSubscriptionLocked / detachTriggerLocked / removeClient /
  shutdownResolver, markTriggerInitialized, doneTriggerFromUpdater).

  Granularity: one action = one lock region of the Go code.  The registry (r.triggers,
  r.subscriptionsByID, trigger.subscriptions) is mutated only under Resolver.mu, so every registry
  mutation is one action; closing the `completed` channels and cancelling trigger contexts happen
  afterwards, outside the lock, and are separate actions (`close`, `cancel`) fed from the pending
  lists.  A fan-out (Update / UpdateSubscription / Complete / Error) is `fanBegin` (guard, snapshot and
  filter under trig.mu with updater.mu held), one `fanOne` per selected subscriber (the write under that
  subscriber's writeMu, which re-checks `removed`; the writes of one fan-out run in parallel, so they
  can happen in any order) and `fanEnd` (release updater.mu).  Everything else can interleave anywhere
  between these.  Subscribers, connections and trigger keys are natural numbers (unbounded); a key
  stands for hash(input, forwarded headers), assumed collision free; generations number the successive
  triggers created.
-/
namespace GqlVerif.Subs

inductive Kind where
  | data (n : Nat)      -- event number n of the generation (Update or UpdateSubscription)
  | complete
  | error
  deriving DecidableEq, Repr

inductive Call where
  | data (g n : Nat)    -- Write+Flush of the response for event n of generation g
  | heartbeat
  | error
  | complete
  | errorReport         -- AsyncErrorWriter.WriteError: Start / startup hook failure, or the event could not be rendered
  deriving DecidableEq, Repr

structure Sub where
  key : Nat
  conn : Nat
  gen : Nat
  filter : Option (List Nat) := none   -- `some rs`: only events n with n % 5 ∈ rs pass SkipEvent
  hb : Bool := false            -- ExecutionOptions.SendHeartbeat
  removed : Bool := false       -- the `removed` atomic
  closed : Nat := 0             -- number of close(completed) executed (2 = Go panic)
  wrote : Bool := false         -- lastWriteTime ≠ 0 (a data write was flushed)
  ctxDone : Bool := false       -- the subscriber's own request context is cancelled (not yet unsubscribed)
  log : List Call := []         -- writer calls, oldest first
  deriving Repr

structure Gen where
  key : Nat
  done : Bool := false          -- updater.done
  cancelled : Bool := false     -- the trigger context has been cancelled
  started : Nat := 0            -- number of Source.Start calls for this trigger
  startReturned : Bool := false
  lastEvent : Nat := 0
  fan : Option (Kind × List Nat) := none   -- fan-out in progress: kind, subscribers still to be written to
  deriving Repr

structure St where
  subs : Nat → Option Sub
  gens : Nat → Option Gen
  byID : List Nat := []           -- registered subscribers (r.subscriptionsByID = ⋃ trigger.subscriptions)
  trigs : List Nat := []          -- registered generations (r.triggers)
  inited : List Nat := []         -- registered generations whose `initialized` flag is set
  nextGen : Nat := 0
  shutdown : Bool := false
  pendClose : List Nat := []      -- toClose lists not yet processed by closeSubs
  pendCancel : List Nat := []     -- trigger cancel functions not yet called
  subInc : Nat := 0
  subDec : Nat := 0
  trigInc : Nat := 0
  trigDec : Nat := 0

def St.init : St := { subs := fun _ => none, gens := fun _ => none }

def upd {α : Type} (f : Nat → α) (k : Nat) (v : α) : Nat → α := fun x => if x = k then v else f x
@[simp] theorem upd_same {α : Type} (f : Nat → α) (k : Nat) (v : α) : upd f k v k = v := by simp [upd]
@[simp] theorem upd_other {α : Type} (f : Nat → α) (k x : Nat) (v : α) (h : x ≠ k) : upd f k v x = f x := by
  simp [upd, h]

def St.genOf (s : St) (i : Nat) : Option Nat := (s.subs i).map (·.gen)
def St.keyOfGen (s : St) (g : Nat) : Option Nat := (s.gens g).map (·.key)

/-- r.triggers[key] -/
def St.lookup (s : St) (key : Nat) : Option Nat := s.trigs.find? fun g => s.keyOfGen g == some key

/-- trigger.subscriptions of generation g -/
def St.members (s : St) (g : Nat) : List Nat := s.byID.filter fun i => s.genOf i == some g

def Sub.passes (x : Sub) (n : Nat) : Bool :=
  match x.filter with
  | none => true
  | some rs => rs.contains (n % 5)

/-- the subscribers an event of generation g is delivered to: registered members of g (only one of them for
    UpdateSubscription) whose filter lets event n pass and whose request context is alive -/
def St.selected (s : St) (g n : Nat) (only : Option Nat) : List Nat :=
  (s.members g).filter fun i =>
    (match only with | none => true | some j => i == j) &&
    (match s.subs i with | some x => x.passes n && !x.ctxDone | none => false)

/-- `removed.CompareAndSwap(false, true)` for every listed subscriber; returns the ones that flipped -/
def markRemoved (subs : Nat → Option Sub) (is : List Nat) : Nat → Option Sub := fun i =>
  if is.contains i then (subs i).map fun x => { x with removed := true } else subs i

/-- the CAS on `removed` would succeed -/
def live (subs : Nat → Option Sub) (i : Nat) : Bool :=
  match subs i with
  | some x => !x.removed
  | none => false

def flipped (subs : Nat → Option Sub) (is : List Nat) : List Nat := is.filter (live subs)

/-- append a writer call unless `removed` is set (the check under writeMu) -/
def Sub.write (x : Sub) (c : Call) : Sub := if x.removed then x else { x with log := x.log ++ [c] }

/-- one writer call to each listed subscriber, in list order -/
def writeAll (subs : Nat → Option Sub) (is : List Nat) (c : Call) : Nat → Option Sub :=
  is.foldl (fun f i => match f i with | some x => upd f i (some (x.write c)) | none => f) subs

def callOf (g : Nat) : Kind → Call
  | .data n => .data g n
  | .complete => .complete
  | .error => .error

/-- the write of one fan-out to one subscriber, under its writeMu: nothing if `removed`; for a data event the rendered
    response (or, when rendering into the writer fails, an error report); for Complete / Error the control message -/
def fanWrite (g : Nat) (k : Kind) (fails : Bool) (x : Sub) : Sub :=
  if x.removed then x
  else match k with
    | .data n => if fails then { x with log := x.log ++ [.errorReport] } else { x with log := x.log ++ [.data g n], wrote := true }
    | .complete => { x with log := x.log ++ [.complete] }
    | .error => { x with log := x.log ++ [.error] }

inductive Act where
  | subscribe (i key conn : Nat) (filter : Option (List Nat)) (hb : Bool)   -- addSubscription; i is a fresh id
  | startCall (g : Nat)                   -- the trigger goroutine calls Source.Start
  | startOk (g : Nat)                     -- Start returned nil → markTriggerInitialized
  | startFail (g : Nat) (sel : List Nat)  -- Start / the startup hook failed: error to `sel`, tear down
  | fanBegin (g : Nat) (k : Kind) (only : Option Nat)  -- Update/Complete/Error (only = none) or UpdateSubscription
  | fanOne (g i : Nat) (fails : Bool)     -- the write to subscriber i (fails: rendering into the writer failed, an error report is written instead)
  | fanEnd (g : Nat)
  | done (g : Nat)                        -- updater.Done
  | unsubscribe (i : Nat)                 -- UnsubscribeSubscription (client, flush failure, CloseSubscription)
  | removeClient (conn : Nat)             -- UnsubscribeClient
  | heartbeat (i : Nat)                   -- a heartbeat write to one subscriber (updater.Heartbeat or the periodic loop)
  | hookFail (i : Nat)                    -- startup hook of a joining subscriber failed: error, then unsubscribe
  | close (i : Nat)                       -- closeSubs: close(completed) under writeMu
  | cancel (g : Nat)                      -- the trigger's cancel function is called
  | cancelCtx (i : Nat)                   -- the client's request context is cancelled
  | shutdown
  deriving Repr

/-- `detachTriggerLocked` for generation g, plus the reporter calls of its caller -/
def detach (s : St) (g : Nat) : St :=
  { s with subs := markRemoved s.subs (s.members g),
           byID := s.byID.filter (fun i => !(s.genOf i == some g)),
           trigs := s.trigs.erase g,
           inited := s.inited.erase g,
           pendClose := flipped s.subs (s.members g) ++ s.pendClose,
           pendCancel := g :: s.pendCancel,
           subDec := s.subDec + (s.members g).length,
           trigDec := s.trigDec + (if s.inited.contains g then 1 else 0) }

/-- `removeSubscriptionLocked` for subscriber i of generation g, plus the reporter calls -/
def removeOne (s : St) (i g : Nat) : St :=
  if (s.byID.erase i).any (fun j => s.genOf j == some g) then
    { s with subs := markRemoved s.subs [i], byID := s.byID.erase i,
             pendClose := flipped s.subs [i] ++ s.pendClose, subDec := s.subDec + 1 }
  else
    -- the trigger's last subscriber: the trigger is unregistered and its cancel function returned
    { s with subs := markRemoved s.subs [i], byID := s.byID.erase i,
             trigs := s.trigs.erase g, inited := s.inited.erase g,
             pendClose := flipped s.subs [i] ++ s.pendClose, pendCancel := g :: s.pendCancel,
             subDec := s.subDec + 1,
             trigDec := s.trigDec + (if s.inited.contains g then 1 else 0) }

def unsub (s : St) (i : Nat) : St :=
  if s.byID.contains i then
    match s.genOf i with
    | some g => removeOne s i g
    | none => s
  else s

def step (s : St) : Act → Option St
  | .subscribe i key conn filter hb =>
    if s.shutdown then none
    else if (s.subs i).isSome then none
    else
      match s.lookup key with
      | some g =>
        some { s with subs := upd s.subs i (some { key := key, conn := conn, gen := g, filter := filter, hb := hb }),
                      byID := i :: s.byID, subInc := s.subInc + 1 }
      | none =>
        some { s with subs := upd s.subs i (some { key := key, conn := conn, gen := s.nextGen, filter := filter, hb := hb }),
                      gens := upd s.gens s.nextGen (some { key := key }),
                      byID := i :: s.byID, trigs := s.nextGen :: s.trigs, nextGen := s.nextGen + 1,
                      subInc := s.subInc + 1 }
  | .startCall g =>
    match s.gens g with
    | some G =>
      if G.started = 0 ∧ G.startReturned = false then
        some { s with gens := upd s.gens g (some { G with started := 1 }) }
      else none
    | none => none
  | .startOk g =>
    match s.gens g with
    | some G =>
      if G.started = 1 ∧ G.startReturned = false then
        if s.trigs.contains g then
          some { s with gens := upd s.gens g (some { G with startReturned := true }),
                        inited := g :: s.inited, trigInc := s.trigInc + 1 }
        else some { s with gens := upd s.gens g (some { G with startReturned := true }) }
      else none
    | none => none
  | .startFail g sel =>
    match s.gens g with
    | some G =>
      if G.startReturned = false ∧ sel.all (fun i => (s.members g).contains i) then
        if s.trigs.contains g then
          some (detach { s with subs := writeAll s.subs sel .errorReport,
                                gens := upd s.gens g (some { G with startReturned := true }) } g)
        else
          some { s with subs := writeAll s.subs sel .errorReport,
                        gens := upd s.gens g (some { G with startReturned := true }) }
      else none
    | none => none
  | .fanBegin g k only =>
    match s.gens g with
    | some G =>
      -- guard `s.done || s.ctx.Err() != nil`; updater.mu serialises the fan-outs of one updater
      if G.done = false ∧ G.cancelled = false ∧ G.fan = none then
        match k with
        | .data n =>
          if n > G.lastEvent then
            some { s with gens := upd s.gens g (some { G with
              lastEvent := n,
              fan := some (k, s.selected g n only) }) }
          else none
        | _ => some { s with gens := upd s.gens g (some { G with fan := some (k, s.members g) }) }
      else none
    | none => none
  | .fanOne g i fails =>
    match s.gens g with
    | some G =>
      match G.fan with
      | some (k, rest) =>
        if rest.contains i then
          match s.subs i with
          | some x =>
            some { s with subs := upd s.subs i (some (fanWrite g k fails x)),
                          gens := upd s.gens g (some { G with fan := some (k, rest.erase i) }) }
          | none => none
        else none
      | none => none
    | none => none
  | .fanEnd g =>
    match s.gens g with
    | some G =>
      match G.fan with
      | some (_, []) => some { s with gens := upd s.gens g (some { G with fan := none }) }
      | _ => none
    | none => none
  | .done g =>
    match s.gens g with
    | some G =>
      if G.done = false ∧ G.fan = none then      -- Done takes updater.mu: never during a fan-out
        if s.trigs.contains g then
          some (detach { s with gens := upd s.gens g (some { G with done := true }) } g)
        else some { s with gens := upd s.gens g (some { G with done := true }) }
      else none
    | none => none
  | .unsubscribe i => if s.shutdown then none else some (unsub s i)
  | .removeClient conn =>
    if s.shutdown then none
    else some ((s.byID.filter fun i => match s.subs i with | some x => x.conn == conn | none => false).foldl unsub s)
  | .heartbeat i =>
    match s.subs i with
    | some x =>
      -- targets come from a snapshot of a registered trigger, which may be stale: `removed` decides
      if x.hb = true ∧ x.wrote = false ∧ x.ctxDone = false then some { s with subs := upd s.subs i (some (x.write .heartbeat)) }
      else none
    | none => none
  | .hookFail i =>
    match s.subs i with
    | some x => if s.shutdown then none else some (unsub { s with subs := upd s.subs i (some (x.write .errorReport)) } i)
    | none => none
  | .close i =>
    if s.pendClose.contains i then
      match s.subs i with
      | some x => some { s with subs := upd s.subs i (some { x with closed := x.closed + 1 }), pendClose := s.pendClose.erase i }
      | none => none
    else none
  | .cancel g =>
    if s.pendCancel.contains g then
      match s.gens g with
      | some G => some { s with gens := upd s.gens g (some { G with cancelled := true }), pendCancel := s.pendCancel.erase g }
      | none => none
    else none
  | .cancelCtx i =>
    match s.subs i with
    | some x => some { s with subs := upd s.subs i (some { x with ctxDone := true }) }
    | none => none
  | .shutdown =>
    if s.shutdown then none
    else some { (s.trigs.foldl detach s) with shutdown := true }

def run (s : St) : List Act → Option St
  | [] => some s
  | a :: as => match step s a with
    | some s' => run s' as
    | none => none

def Reach (s : St) : Prop := ∃ as, run St.init as = some s

end GqlVerif.Subs
