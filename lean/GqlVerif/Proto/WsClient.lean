/-
  Proto.WsClient — the upstream multiplexing client (subscriptionclient: WSTransport + wsConnection), as a state
  machine over abstract option keys, connections, upstream subscription ids and subscribers.

  One action per critical section of the implementation:
    subscribe s k      getOrDial finds a live connection for key k (or creates one: dial + init succeeded) and registers
                       subscriber s under a fresh upstream id                        (WSTransport.Subscribe)
    upstream c m       the read loop of connection c reads message m = (id, kind) and dispatches it  (wsConnection.dispatch)
    unsubscribe s      the cancel function of s: the handler is removed; the last one closes the connection (idle period 0)
    drop c             the connection fails (read error, pong overdue): every registered handler gets a connection error
  SSE is the degenerate case of one subscription per connection (a fresh key per subscribe).
-/
namespace GqlVerif.WsClient

inductive Kind where
  | data (n : Nat)
  | error
  | complete
  deriving DecidableEq, Repr, Inhabited

def Kind.terminal : Kind → Bool
  | .data _ => false
  | _ => true

/-- what a subscriber's handler receives -/
inductive Event where
  | msg (k : Kind)
  | connError
  deriving DecidableEq, Repr, Inhabited

structure Reg where
  id : Nat            -- upstream subscription id (unique per transport)
  sub : Nat           -- subscriber
  deriving DecidableEq, Repr, Inhabited

structure Conn where
  cid : Nat
  key : Nat
  regs : List Reg
  deriving Repr, Inhabited

structure St where
  conns : List Conn := []
  nextConn : Nat := 0
  nextId : Nat := 0
  log : List (Nat × Event) := []        -- (subscriber, event) in delivery order
  dials : Nat := 0                      -- connections ever opened
  deriving Repr, Inhabited

inductive Act where
  | subscribe (s k : Nat)
  | upstream (c id : Nat) (k : Kind)
  | unsubscribe (s : Nat)
  | drop (c : Nat)
  deriving Repr, Inhabited

def delivered (st : St) (s : Nat) : List Event := (st.log.filter (·.1 == s)).map (·.2)

/-- remove the registration with upstream id `id` from connection `c`; an emptied connection is closed (idle period 0) -/
def removeReg (conns : List Conn) (c id : Nat) : List Conn :=
  (conns.map fun cn => if cn.cid == c then { cn with regs := cn.regs.filter (·.id != id) } else cn).filter
    fun cn => !(cn.cid == c && cn.regs.isEmpty)

def addReg (conns : List Conn) (cid : Nat) (r : Reg) : List Conn :=
  conns.map fun x => if x.cid == cid then { x with regs := x.regs ++ [r] } else x

def step (st : St) : Act → St
  | .subscribe s k =>
    match st.conns.find? (·.key == k) with
    | some cn =>
      { st with conns := addReg st.conns cn.cid ⟨st.nextId, s⟩, nextId := st.nextId + 1 }
    | none =>
      { st with conns := st.conns ++ [⟨st.nextConn, k, [⟨st.nextId, s⟩]⟩], nextConn := st.nextConn + 1,
                nextId := st.nextId + 1, dials := st.dials + 1 }
  | .upstream c id k =>
    match (st.conns.find? (·.cid == c)).bind fun cn => cn.regs.find? (·.id == id) with
    | some r =>
      { st with log := st.log ++ [(r.sub, .msg k)],
                conns := if k.terminal then removeReg st.conns c id else st.conns }
    | none => st                          -- no handler under that id: dropped
  | .unsubscribe s =>
    match st.conns.findSome? fun cn => (cn.regs.find? (·.sub == s)).map fun r => (cn.cid, r.id) with
    | some (c, id) => { st with conns := removeReg st.conns c id }
    | none => st
  | .drop c =>
    match st.conns.find? (·.cid == c) with
    | some cn => { st with log := st.log ++ cn.regs.map (fun r => (r.sub, Event.connError)),
                           conns := st.conns.filter (·.cid != c) }
    | none => st

def run (st : St) (acts : List Act) : St := acts.foldl step st

end GqlVerif.WsClient
