/-
  Proto.DeferTree — the defer tree of the resolver: which other defer groups' fields the renderer may seek into while it
  renders one group (`Resolvable.isDeferAncestor`, used by `collectDeferFields`).

  Defer ids are positive; `parent g = 0` means g is a top-level defer.
-/
namespace GqlVerif.Proto.DeferTree

/-- `isDeferAncestor(fieldDeferID, parentID)`: walk the parent chain from `parentID` upwards (the loop of the
    implementation; `fuel` bounds the walk, `anc` below supplies enough of it for a well-formed tree) -/
def isAncestor (parent : Nat → Nat) : Nat → Nat → Nat → Bool
  | 0, _, _ => false
  | fuel + 1, f, p => if p == 0 then false else if f == p then true else isAncestor parent fuel f (parent p)

def anc (parent : Nat → Nat) (f p : Nat) : Bool := isAncestor parent (p + 1) f p

/-- the enclosing defers of a field: `InChain parent p a` — `a` is `p` or an enclosing defer of `p` -/
inductive InChain (parent : Nat → Nat) : Nat → Nat → Prop where
  | self {p} (h : p ≠ 0) : InChain parent p p
  | up {p a} (h : p ≠ 0) : InChain parent (parent p) a → InChain parent p a

/-- enclosing defers carry smaller ids (the planner numbers defers in document order) -/
def WF (parent : Nat → Nat) : Prop := ∀ p, p ≠ 0 → parent p < p

/-- a delivery order of the defer groups: a nested group is delivered after the group that encloses it
    (the defer tree is `Sequence(parent, Parallel(children…))`) -/
def Valid (parent : Nat → Nat) (ord : List Nat) : Prop :=
  ∀ l₁ g l₂, ord = l₁ ++ g :: l₂ → g ≠ 0 ∧ (parent g = 0 ∨ parent g ∈ l₁)

end GqlVerif.Proto.DeferTree
