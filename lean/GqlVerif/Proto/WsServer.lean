/-
  Proto.WsServer — the WebSocket subscription server of execution/subscription: the two protocol handlers
  (websocket/protocol_graphql_transport_ws.go, websocket/protocol_graphql_ws.go), the read loop
  (handler.go UniversalProtocolHandler.Handle) and the operation engine (engine.go ExecutorEngine with its
  id registry subscriptionCancellations), as one transition system.

  Client frames are modelled after decoding (`Frame`): what Go's json.Unmarshal into the message struct yields.
  An operation instance is one goroutine started by ExecutorEngine.StartOperation; executors are environment:
  `execBegin / execFlush / execEnd` say what the executor does, the model says what the server then sends.
  Outputs are the frames written to the transport client, in order; nothing is written after the connection was
  closed (the transport client refuses writes on a closed connection).
-/
namespace GqlVerif.WsServer

inductive Proto where
  | transport   -- graphql-transport-ws
  | legacy      -- graphql-ws (subscriptions-transport-ws)
  deriving DecidableEq, Repr

/-- what the scripted executor pool makes of an operation payload -/
inductive OpKind where
  | sub         -- subscription operation
  | query       -- query / mutation
  | poolErr     -- ExecutorPool.Get fails (invalid operation)
  deriving DecidableEq, Repr

/-- a decoded client frame -/
inductive Frame where
  | empty                                       -- a zero-length message: the read loop does not hand it to the protocol
  | syntaxErr                                   -- not a JSON text
  | typeErr                                     -- JSON, but not decodable into the message struct
  | msg (type id : String) (hasPayload : Bool) (rejectInit : Bool) (payloadRaw : String)
        (op : Option OpKind)                    -- op: what the payload decodes to as an operation (none = undecodable)
  deriving DecidableEq, Repr

inductive Out where
  | ack
  | pong (payload : String)
  | heartbeat                 -- transport: pong with the heartbeat payload
  | ka                        -- legacy keep alive
  | next (id : String) (tag : Nat)       -- transport `next` / legacy `data`
  | error (id : String)
  | complete (id : String)
  | connectionError
  | close (code : Nat)
  deriving DecidableEq, Repr

inductive Phase where
  | idle | running | exited
  deriving DecidableEq, Repr

structure Inst where
  id : String
  isSub : Bool
  cancelled : Bool := false
  phase : Phase := .idle
  runs : Nat := 0
  deriving DecidableEq, Repr

structure St where
  proto : Proto
  initialized : Bool := false
  timerLive : Bool := true          -- the init timer is started when the connection opens (transport only)
  heartbeats : Nat := 0             -- transport: 0/1 heartbeat goroutine; legacy: one keep-alive goroutine per accepted init
  closed : Option Nat := none       -- close code of the first DisconnectWithReason
  exited : Bool := false            -- the read loop has returned (TerminateAllSubscriptions + context cancel done)
  reg : List (String × Nat) := []   -- subCancellations: id ↦ operation instance
  insts : List Inst := []
  out : List Out := []              -- oldest first
  starts : List (String × Bool) := []   -- every StartOperation that registered an id, with `initialized` at that time
  deriving Repr

def St.init (p : Proto) : St := { proto := p, timerLive := p == .transport }

def St.emit (s : St) (o : Out) : St := if s.closed.isSome then s else { s with out := s.out ++ [o] }

def St.closeWith (s : St) (code : Nat) : St :=
  if s.closed.isSome then s else { s with out := s.out ++ [.close code], closed := some code }

def setAt (l : List Inst) (k : Nat) (f : Inst → Inst) : List Inst :=
  l.zipIdx.map fun (x, i) => if i = k then f x else x

def regLookup (reg : List (String × Nat)) (id : String) : Option Nat := (reg.find? fun p => p.1 == id).map (·.2)
def regErase (reg : List (String × Nat)) (id : String) : List (String × Nat) := reg.filter fun p => p.1 != id

/-- subCancellations.Cancel(id): cancel the context of whatever instance is registered under the id, forget the id -/
def St.cancelId (s : St) (id : String) : St :=
  match regLookup s.reg id with
  | some k => { s with reg := regErase s.reg id, insts := setAt s.insts k fun x => { x with cancelled := true } }
  | none => s

def St.cancelAll (s : St) : St :=
  { s with reg := [], insts := s.insts.zipIdx.map fun (x, i) => if s.reg.any (fun p => p.2 == i) then { x with cancelled := true } else x }

def St.setPhase (s : St) (k : Nat) (p : Phase) : St := { s with insts := setAt s.insts k fun y => { y with phase := p } }

/-- ExecutorEngine.StartOperation -/
def St.engineStart (s : St) (id : String) (op : Option OpKind) : St :=
  match op with
  | none => s
  | some .poolErr => s
  | some k =>
    if (regLookup s.reg id).isSome then
      -- the executor obtained from the pool is never run (instance numbers follow ExecutorPool.Get)
      match s.proto with
      | .transport => { s.closeWith 4409 with insts := s.insts ++ [{ id := id, isSub := k == .sub, phase := .exited }] }
      | .legacy => { s.emit (.error id) with insts := s.insts ++ [{ id := id, isSub := k == .sub, phase := .exited }] }
    else
      { s with reg := (id, s.insts.length) :: s.reg, insts := s.insts ++ [{ id := id, isSub := k == .sub }],
               starts := s.starts ++ [(id, s.initialized)] }

/-- ExecutorEngine.StopSubscription: cancel, then emit `complete` for the id — registered or not -/
def St.engineStop (s : St) (id : String) : St := (s.cancelId id).emit (.complete id)

def recvTransport (s : St) : Frame → St
  | .empty => s
  | .syntaxErr => s.closeWith 4400
  | .typeErr => s
  | .msg ty id hasPayload rejectInit raw op =>
    if ty = "connection_init" then
      if s.initialized then
        -- 4429; Handle then still calls startHeartbeat
        { s.closeWith 4429 with heartbeats := 1 }
      else if hasPayload && rejectInit then s.closeWith 4401
      else if s.timerLive then { { s with timerLive := false }.emit .ack with initialized := true, heartbeats := 1 }
      else { s.closeWith 1011 with initialized := true, heartbeats := 1 }
    else if ty = "ping" then s.emit (.pong raw)
    else if ty = "pong" then s
    else if ty = "subscribe" then
      if !s.initialized then s.closeWith 4401
      else s.engineStart id op
    else if ty = "complete" then s.engineStop id
    else s.closeWith 4400

def recvLegacy (s : St) : Frame → St
  | .empty => s
  | .syntaxErr => s.emit (.error "")
  | .typeErr => s
  | .msg ty id hasPayload rejectInit _ op =>
    if ty = "connection_init" then
      if hasPayload && rejectInit then (s.emit .connectionError).cancelAll
      else { s.emit .ack with heartbeats := s.heartbeats + 1 }
    else if ty = "start" then s.engineStart id op
    else if ty = "stop" then s.engineStop id
    else if ty = "connection_terminate" then s.cancelAll
    else s.emit .connectionError

inductive Act where
  | recv (f : Frame)                        -- the read loop hands one client frame to the protocol handler
  | execBegin (k : Nat)                     -- instance k calls Executor.Execute
  | execFlush (k : Nat) (tag : Nat)         -- the executor flushes a result during Execute (subscriptions stream this way)
  | execEnd (k : Nat) (ok : Bool) (tag : Option Nat)  -- Execute returns (error / nil with a buffered result / nil)
  | instExit (k : Nat)                      -- a cancelled subscription instance leaves its loop
  | initTimeout                             -- the connection-init timer fires
  | tick                                    -- a heartbeat / keep-alive timer fires
  | clientGone                              -- the client closes the connection
  | exit                                    -- the read loop ends (connection closed): terminate everything
  deriving Repr

def step (s : St) : Act → Option St
  | .recv f =>
    if s.closed.isSome || s.exited then none
    else some (match s.proto with
      | .transport => recvTransport s f
      | .legacy => recvLegacy s f)
  | .execBegin k =>
    match s.insts[k]? with
    | some x =>
      -- the first execution is unconditional; later ones start when the update interval elapses (a cancelled
      -- context normally wins the select, but both can be ready: the model allows the extra execution)
      if x.phase = .idle && (x.isSub || x.runs = 0) then
        some { s with insts := setAt s.insts k fun y => { y with phase := .running, runs := y.runs + 1 } }
      else none
    | none => none
  | .execFlush k tag =>
    match s.insts[k]? with
    | some x =>
      if x.phase = .running then
        -- only subscriptions install a flush callback
        if x.isSub then some (s.emit (.next x.id tag)) else some s
      else none
    | none => none
  | .execEnd k ok tag =>
    match s.insts[k]? with
    | some x =>
      if x.phase = .running then
        if x.isSub then
          if !ok then some ((s.setPhase k .idle).emit (.error x.id))
          else match tag with
            | some t => some ((s.setPhase k .idle).emit (.next x.id t))
            | none => some (s.setPhase k .idle)
        else
          -- non-subscription: one result, then the deferred Cancel(id) — by id
          if !ok then some (((s.setPhase k .exited).emit (.error x.id)).cancelId x.id)
          else some ((((s.setPhase k .exited).emit (.next x.id (tag.getD 0))).emit (.complete x.id)).cancelId x.id)
      else none
    | none => none
  | .instExit k =>
    match s.insts[k]? with
    | some x =>
      if x.phase = .idle && x.isSub && x.cancelled && x.runs > 0 then
        some { s with insts := setAt s.insts k fun y => { y with phase := .exited } }
      else none
    | none => none
  | .initTimeout =>
    if s.proto = .transport && s.timerLive then some ({ s with timerLive := false }.closeWith 4408) else none
  | .tick =>
    if s.heartbeats > 0 && !s.exited then
      some (s.emit (match s.proto with | .transport => .heartbeat | .legacy => .ka))
    else none
  | .clientGone => if s.closed.isSome then none else some { s with closed := some 0 }
  | .exit =>
    if s.closed.isSome && !s.exited then some { s.cancelAll with exited := true, insts := s.cancelAll.insts.map fun x => { x with cancelled := true } }
    else none

def run (s : St) : List Act → Option St
  | [] => some s
  | a :: as => match step s a with
    | some s' => run s' as
    | none => none

def Reach (p : Proto) (s : St) : Prop := ∃ as, run (St.init p) as = some s

end GqlVerif.WsServer
