/-
  Proto.DeferLock — the render / flush region of a deferred group (`Resolver.resolveDeferSingle`).

  Every group runs   Lock · render … render · Flush · Unlock   (the unlock is deferred, the flush is the returned
  expression, so it happens before the unlock).  All groups write into ONE buffered writer; `Flush` sends whatever the
  buffer holds as one frame.  Groups of a Parallel node run concurrently.
-/
namespace GqlVerif.Proto.DeferLock

inductive Act where
  | acq (g : Nat)    -- dc.db.Lock()
  | rend (g : Nat)   -- one write of the group's payload into the shared writer
  | flush (g : Nat)  -- dc.writer.Flush()
  | rel (g : Nat)    -- the deferred dc.db.Unlock()
  deriving Repr, DecidableEq

structure St where
  lock : Option Nat := none
  buf : List Nat := []                -- fragments in the writer's buffer, tagged with the group that wrote them
  out : List (List Nat) := []         -- frames sent
  pc : Nat → Nat := fun _ => 0        -- per group: 0 not started, 1 holds the lock and renders, 2 flushed, 3 done

def setPc (pc : Nat → Nat) (g v : Nat) : Nat → Nat := fun x => if x = g then v else pc x

/-- one step; `none` = the action is not enabled (the lock is taken, or it is not this group's next instruction) -/
def step (s : St) : Act → Option St
  | .acq g => if s.pc g = 0 ∧ s.lock = none then some { s with lock := some g, pc := setPc s.pc g 1 } else none
  | .rend g => if s.pc g = 1 then some { s with buf := s.buf ++ [g] } else none
  | .flush g => if s.pc g = 1 then some { s with out := s.out ++ [s.buf], buf := [], pc := setPc s.pc g 2 } else none
  | .rel g => if s.pc g = 2 then some { s with lock := none, pc := setPc s.pc g 3 } else none

def run (s : St) : List Act → Option St
  | [] => some s
  | a :: as => match step s a with
    | some s' => run s' as
    | none => none

/-- a frame is the payload of one group -/
def Homogeneous (fr : List Nat) : Prop := ∃ g, ∀ x ∈ fr, x = g

/-- the variant in which the flush happens after the unlock (what "render under the lock, flush later" would be) -/
def stepLate (s : St) : Act → Option St
  | .acq g => if s.pc g = 0 ∧ s.lock = none then some { s with lock := some g, pc := setPc s.pc g 1 } else none
  | .rend g => if s.pc g = 1 then some { s with buf := s.buf ++ [g] } else none
  | .rel g => if s.pc g = 1 then some { s with lock := none, pc := setPc s.pc g 2 } else none
  | .flush g => if s.pc g = 2 then some { s with out := s.out ++ [s.buf], buf := [], pc := setPc s.pc g 3 } else none

def runLate (s : St) : List Act → Option St
  | [] => some s
  | a :: as => match stepLate s a with
    | some s' => runLate s' as
    | none => none

end GqlVerif.Proto.DeferLock
