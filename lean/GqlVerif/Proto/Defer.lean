/-
  Proto.Defer — the incremental delivery stream of @defer: an acceptor for well-formed streams (pending / incremental /
  completed / hasNext) and the reconstruction of the final data from the initial payload and the incremental payloads.
-/
import GqlVerif.Base.Json
namespace GqlVerif.Defer
open GqlVerif

inductive PathElem where
  | key (k : String)
  | idx (i : Nat)
  deriving DecidableEq, Repr

structure Inc where
  id : String
  subPath : List PathElem
  data : Json

structure Frame where
  hasData : Bool                               -- the initial payload carries `data`
  pending : List (String × List PathElem)
  incremental : List Inc
  completed : List String
  hasNext : Bool

structure State where
  announced : List (String × List PathElem) := []
  done : List String := []

/-- the ids announced up to and including frame f (a payload may announce an id and deliver for it at once) -/
def annIds (s : State) (f : Frame) : List String := (s.announced ++ f.pending).map (·.1)

/-- one frame is admissible in state s: nothing is delivered or completed for an id that is not announced or that is
    already completed; no id is completed twice or announced twice -/
def frameOK (s : State) (f : Frame) : Bool :=
  f.incremental.all (fun i => (annIds s f).contains i.id && !s.done.contains i.id) &&
  f.completed.all (fun id => (annIds s f).contains id && !s.done.contains id) &&
  decide f.completed.Nodup && decide (annIds s f).Nodup

def stepState (s : State) (f : Frame) : State :=
  { announced := s.announced ++ f.pending, done := s.done ++ f.completed }

def finalState (s : State) (fs : List Frame) : State := fs.foldl stepState s

def allDone (s : State) : Bool := s.announced.all fun p => s.done.contains p.1

/-- the stream acceptor: every frame is admissible; hasNext is true on every frame but the last and false on the last;
    at the end every announced id is completed -/
def acceptFrom (s : State) : List Frame → Bool
  | [] => false
  | f :: [] => frameOK s f && !f.hasNext && allDone (stepState s f)
  | f :: g :: rest => frameOK s f && f.hasNext && acceptFrom (stepState s f) (g :: rest)

/-- … and the first frame is the initial payload: it carries data and delivers nothing incrementally -/
def accept (fs : List Frame) : Bool :=
  match fs with
  | [] => false
  | f :: _ => f.hasData && f.incremental.isEmpty && acceptFrom {} fs

/-! ### reconstruction -/

mutual
  /-- deep merge of an incremental object into the data at that position -/
  def mergeJson : Nat → Json → Json → Json
    | 0, a, _ => a
    | fuel + 1, .obj a, .obj b => .obj (mergeKvs fuel a b)
    | fuel + 1, .arr a, .arr b => .arr (mergeList fuel a b)
    | _ + 1, _, b => b
  def mergeKvs : Nat → List (String × Json) → List (String × Json) → List (String × Json)
    | 0, a, _ => a
    | _ + 1, a, [] => a
    | fuel + 1, a, (k, v) :: rest =>
      let a' := if a.any (·.1 == k) then a.map fun (k', v') => if k' == k then (k', mergeJson fuel v' v) else (k', v') else a ++ [(k, v)]
      mergeKvs fuel a' rest
  def mergeList : Nat → List Json → List Json → List Json
    | 0, a, _ => a
    | fuel + 1, x :: xs, y :: ys => mergeJson fuel x y :: mergeList fuel xs ys
    | _ + 1, [], ys => ys
    | _ + 1, xs, [] => xs
end

def setAtList (l : List Json) (i : Nat) (f : Json → Json) : List Json := l.zipIdx.map fun (x, j) => if j = i then f x else x

/-- apply `f` to the value at `path` -/
def updateAt : List PathElem → (Json → Json) → Json → Json
  | [], f, j => f j
  | .key k :: rest, f, .obj kvs => .obj (kvs.map fun (k', v) => if k' == k then (k', updateAt rest f v) else (k', v))
  | .idx i :: rest, f, .arr xs => .arr (setAtList xs i (updateAt rest f))
  | _, _, j => j

def applyFrame (s : State) (data : Json) (f : Frame) : Json :=
  f.incremental.foldl (fun d i =>
    match ((s.announced ++ f.pending).find? (·.1 == i.id)) with
    | some (_, path) => updateAt (path ++ i.subPath) (fun old => mergeJson 64 old i.data) d
    | none => d) data

/-- the data a client ends up with after applying every incremental payload at its announced path -/
def reconstruct (initial : Json) (fs : List Frame) : Json :=
  (fs.foldl (fun (acc : State × Json) f => (stepState acc.1 f, applyFrame acc.1 acc.2 f)) ({}, initial)).2

end GqlVerif.Defer
