/-
  Proto.SingleFlight — labelled transition systems for the two request de-duplication protocols of
  v2/pkg/engine/resolve: the inbound single flight (inbound_request_singleflight.go + the role
  decision in Resolver.ArenaResolveGraphQLResponse) and the subgraph single flight
  (subgraph_request_singleflight.go + Loader.loadByContext).

  Participants are natural numbers (unbounded).  One key is modelled: entries for different keys never
  interact (every map operation is per key); generations `g` number the successive entries stored
  under the key.  Each action is one atomic step of the Go code between two synchronisation points
  (sync.Map LoadOrStore/Delete, atomic follower counter, channel close, select).
-/
namespace GqlVerif.SingleFlight

/-- where an error handed to a follower comes from -/
inductive ErrSrc where
  | upstream               -- the shared work itself failed (the follower would have hit it alone too)
  | cancelOf (t : Nat)     -- participant t's own context was cancelled
  deriving DecidableEq, Repr

inductive Pc where
  | idle
  | looked (g : Nat)        -- LoadOrStore returned the existing entry g; AddFollower not yet executed
  | waiting (g : Nat)       -- registered as follower of g; blocked in select {Done, ctx.Done}
  | leader (g : Nat)        -- stored entry g; resolving the operation
  | okDeleted (g : Nat)     -- FinishOk: Delete executed
  | okChecked (g : Nat)     -- FinishOk: HasFollowers evaluated (data copied iff it was true)
  | errDeleted (g : Nat)    -- FinishErr: Delete executed and Err stored
  | doneLeader (g : Nat)    -- leader returned
  | gotData (g : Nat)       -- follower returned the bytes published in entry g
  | gotErr (g : Nat) (e : ErrSrc)  -- follower returned the error stored in entry g
  | ownCancel               -- follower returned its own context error
  | solo                    -- registered too late (no data published): resolves on its own, shares nothing
  deriving DecidableEq, Repr

structure Entry where
  creator : Nat
  followers : Nat := 0
  dataSet : Bool := false
  err : Option ErrSrc := none
  closed : Nat := 0          -- number of close(Done) executed (2 = Go panic "close of closed channel")
  deriving Repr

structure St where
  pcs : Nat → Pc
  cur : Option Nat            -- the generation currently stored in the map under the key
  entries : Nat → Option Entry
  nextGen : Nat

def St.init : St := ⟨fun _ => .idle, none, fun _ => none, 0⟩

def upd {α : Type} (f : Nat → α) (k : Nat) (v : α) : Nat → α := fun x => if x = k then v else f x

@[simp] theorem upd_same {α : Type} (f : Nat → α) (k : Nat) (v : α) : upd f k v k = v := by simp [upd]
@[simp] theorem upd_other {α : Type} (f : Nat → α) (k x : Nat) (v : α) (h : x ≠ k) : upd f k v x = f x := by
  simp [upd, h]

inductive Act where
  | arrive (t : Nat)                    -- GetOrCreate: LoadOrStore
  | addFollower (t : Nat)               -- request.AddFollower()
  | wake (t : Nat)                      -- select: <-request.Done
  | cancelWait (t : Nat)                -- select: <-ctx.Done()
  | finishOkDelete (t : Nat)            -- FinishOk: shard.m.Delete
  | finishOkCheck (t : Nat)             -- FinishOk: if HasFollowers { copy }
  | finishOkClose (t : Nat)             -- FinishOk: close(Done)
  | finishErrDelete (t : Nat) (e : ErrSrc)  -- FinishErr: Delete; req.Err = err
  | finishErrClose (t : Nat)            -- FinishErr: close(Done)
  deriving Repr

/-- one step of the inbound protocol (`none` = the action is not enabled) -/
def step (s : St) : Act → Option St
  | .arrive t =>
    if s.pcs t = .idle then
      match s.cur with
      | none =>
        let g := s.nextGen
        some { s with pcs := upd s.pcs t (.leader g), cur := some g,
                      entries := upd s.entries g (some { creator := t }), nextGen := g + 1 }
      | some g => some { s with pcs := upd s.pcs t (.looked g) }
    else none
  | .addFollower t =>
    match s.pcs t with
    | .looked g =>
      match s.entries g with
      | some e => some { s with pcs := upd s.pcs t (.waiting g),
                                entries := upd s.entries g (some { e with followers := e.followers + 1 }) }
      | none => none
    | _ => none
  | .wake t =>
    match s.pcs t with
    | .waiting g =>
      match s.entries g with
      | some e =>
        if e.closed > 0 then
          match e.err with
          | some src => some { s with pcs := upd s.pcs t (.gotErr g src) }
          | none =>
            if e.dataSet then some { s with pcs := upd s.pcs t (.gotData g) }
            else some { s with pcs := upd s.pcs t .solo }
        else none
      | none => none
    | _ => none
  | .cancelWait t =>
    match s.pcs t with
    | .waiting _ => some { s with pcs := upd s.pcs t .ownCancel }
    | _ => none
  | .finishOkDelete t =>
    match s.pcs t with
    | .leader g => some { s with pcs := upd s.pcs t (.okDeleted g), cur := none }
    | _ => none
  | .finishOkCheck t =>
    match s.pcs t with
    | .okDeleted g =>
      match s.entries g with
      | some e => some { s with pcs := upd s.pcs t (.okChecked g),
                                entries := upd s.entries g (some { e with dataSet := e.dataSet || decide (e.followers > 0) }) }
      | none => none
    | _ => none
  | .finishOkClose t =>
    match s.pcs t with
    | .okChecked g =>
      match s.entries g with
      | some e => some { s with pcs := upd s.pcs t (.doneLeader g),
                                entries := upd s.entries g (some { e with closed := e.closed + 1 }) }
      | none => none
    | _ => none
  | .finishErrDelete t src =>
    match s.pcs t with
    | .leader g =>
      -- the error the leader publishes is the shared work's failure or its OWN cancellation
      if src = .upstream ∨ src = .cancelOf t then
        match s.entries g with
        | some e => some { s with pcs := upd s.pcs t (.errDeleted g), cur := none,
                                  entries := upd s.entries g (some { e with err := some src }) }
        | none => none
      else none
    | _ => none
  | .finishErrClose t =>
    match s.pcs t with
    | .errDeleted g =>
      match s.entries g with
      | some e => some { s with pcs := upd s.pcs t (.doneLeader g),
                                entries := upd s.entries g (some { e with closed := e.closed + 1 }) }
      | none => none
    | _ => none

def run (s : St) : List Act → Option St
  | [] => some s
  | a :: as => match step s a with
    | some s' => run s' as
    | none => none

/-- reachable states: any number of participants, any interleaving -/
def Reach (s : St) : Prop := ∃ as, run St.init as = some s

/-- the leader-side program counters that still own entry g (have not closed it yet) -/
def Pc.owns (p : Pc) (g : Nat) : Bool :=
  p == .leader g || p == .okDeleted g || p == .okChecked g || p == .errDeleted g

end GqlVerif.SingleFlight
