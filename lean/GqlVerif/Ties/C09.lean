/-
  Ties.C09 — regenerated call skeletons of the engine's plan-cache lookup (what the cache key is computed from), of the post-processor option wiring in NewExecutionEngine, of the dependency rewiring after fetch de-duplication and of the merged-fetch result handling.
  Snapshot ties: each regenerated list (re-extracted from /repo on every run) must equal the list the model was
  written against; a source edit to one of these functions breaks the corresponding theorem at `lake build`.
-/
import GqlVerif.Gql.Exec
import GqlVerif.Generated.C09
namespace GqlVerif.Ties.C09
open GqlVerif.Generated.C09

theorem getCachedPlan_tie : getCachedPlan =
    ["pool.Hash64.Get",
     "hash.Reset",
     "pool.Hash64.Put",
     "astprinter.Print",
     "if err!=nil",
     "report.AddInternalError",
     "return",
     "hash.Sum64",
     "if ok",
     "e.executionPlanCache.Get",
     "if ok",
     "return",
     "plan.NewPlanner",
     "planner.Plan",
     "if report.HasErrors()",
     "report.HasErrors",
     "return",
     "e.executionPlanCache.Add",
     "return"] := by decide +kernel

theorem newExecutionEngine_tie : newExecutionEngine =
    ["lru.New",
     "if err!=nil",
     "return",
     "introspection_datasource.NewIntrospectionConfigFactory",
     "if err!=nil",
     "return",
     "if ok",
     "return",
     "if engineConfig.plannerConfig.RelaxSubgraphOperationFieldSelectionMergingNullability",
     "append",
     "if engineConfig.plannerConfig.EnableMultiFetch",
     "postprocess.EnableMultiFetch",
     "append",
     "if engineConfig.enableScheduleFetches",
     "postprocess.EnableScheduleFetches",
     "append",
     "return",
     "resolve.New"] := by decide +kernel

theorem replaceDependsOnFetchID_tie : replaceDependsOnFetchID =
    ["replaceDependsOnFetchID",
     "if deps[]==oldId",
     "if !replaced",
     "if info==nil",
     "if info.CoordinateDependencies[].DependsOn[].FetchID==oldId"] := by decide +kernel

theorem mergeEntryResults_tie : mergeEntryResults =
    ["if err!=nil&&firstErr==nil",
     "l.mergeResult",
     "goerrors.Join",
     "l.callOnFinished",
     "return"] := by decide +kernel

end GqlVerif.Ties.C09
