/-
  Ties.C18 — connection sharing (getOrDial, connKey), registration, dispatch, removal and shutdown of the upstream multiplexing client: the critical sections the model's actions stand for
  Snapshot ties: each regenerated list (re-extracted from /repo on every run) must equal the list the model was
  written against; a source edit to one of these functions breaks the corresponding theorem at `lake build`.
-/
import GqlVerif.Proto.WsClient
import GqlVerif.Generated.C18
namespace GqlVerif.Ties.C18
open GqlVerif.Generated.C18

theorem getOrDial_tie : getOrDial =
    ["connKey",
     "t.mu.Lock",
     "if ok&&!conn.isClosed()",
     "t.mu.Unlock",
     "return",
     "if ok",
     "t.mu.Unlock",
     "select",
     "recv:ctx.Done()",
     "return",
     "recv:result.done",
     "if result.err!=nil",
     "return",
     "return",
     "make",
     "t.mu.Unlock",
     "t.dial",
     "t.mu.Lock",
     "delete",
     "if err==nil",
     "t.mu.Unlock",
     "return"] := by decide +kernel

theorem transportSubscribe_tie : transportSubscribe =
    ["t.getOrDial",
     "if err!=nil",
     "return",
     "if err!=nil&&errors.Is()&&attempt<3",
     "return"] := by decide +kernel

theorem removeConn_tie : removeConn =
    ["t.mu.Lock",
     "defer:t.mu.Unlock",
     "if t.conns[]==conn",
     "delete"] := by decide +kernel

theorem connKey_tie : connKey =
    ["defer:pool.Hash64.Put",
     "h.WriteString",
     "h.WriteString",
     "h.WriteString",
     "h.WriteString",
     "if len()>0",
     "len",
     "h.WriteString",
     "if len()>0",
     "len",
     "if err==nil",
     "json.Marshal",
     "h.Write",
     "return",
     "h.Sum64"] := by decide +kernel

theorem connSubscribe_tie : connSubscribe =
    ["c.subsMu.Lock",
     "if c.closed.Load()||c.closing.Load()",
     "c.closed.Load",
     "c.closing.Load",
     "c.subsMu.Unlock",
     "return",
     "if exists",
     "c.subsMu.Unlock",
     "return",
     "c.subsMu.Unlock",
     "defer:subscribeCancel",
     "if err!=nil",
     "c.protocol.Subscribe",
     "c.log.Error",
     "c.removeSub",
     "return",
     "c.log.Debug",
     "c.unsubscribe",
     "return"] := by decide +kernel

theorem removeSub_tie : removeSub =
    ["c.subsMu.Lock",
     "delete",
     "len",
     "c.subsMu.Unlock",
     "if isEmpty",
     "if c.idleTimeout>0",
     "time.AfterFunc",
     "c.closeIfEmpty"] := by decide +kernel

theorem unsubscribe_tie : unsubscribe =
    ["c.subsMu.Lock",
     "c.subsMu.Unlock",
     "if !exists",
     "return",
     "c.log.Debug",
     "defer:cancel",
     "c.protocol.Unsubscribe",
     "c.removeSub"] := by decide +kernel

theorem dispatch_tie : dispatch =
    ["c.subsMu.RLock",
     "c.subsMu.RUnlock",
     "if !exists",
     "return",
     "handler",
     "if msg.Type==protocol.MessageComplete||msg.Type==protocol.MessageError",
     "c.removeSub"] := by decide +kernel

theorem shutdown_tie : shutdown =
    ["if !c.closed.CompareAndSwap()",
     "c.closed.CompareAndSwap",
     "return",
     "c.log.Debug",
     "c.conn.Close",
     "c.subsMu.Lock",
     "make",
     "c.subsMu.Unlock",
     "handler",
     "c.cancel",
     "if c.onEmpty!=nil",
     "c.onEmpty"] := by decide +kernel

theorem readLoop_tie : readLoop =
    ["defer:c.shutdown",
     "if c.closed.Load()",
     "c.closed.Load",
     "return",
     "c.protocol.Read",
     "if err!=nil",
     "c.log.Debug",
     "c.shutdown",
     "return",
     "c.log.Debug",
     "if ok",
     "c.lastPongAt.Store",
     "c.log.Debug",
     "c.dispatch"] := by decide +kernel

end GqlVerif.Ties.C18
