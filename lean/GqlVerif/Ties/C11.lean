/-
  Ties.C11 — regenerated synchronisation skeletons of GetOrCreate / FinishOk / FinishErr / GetOrCreateItem / Finish / loadByContext and of the caller's role decision in ArenaResolveGraphQLResponse; the steps of Proto.SingleFlight.step are exactly these operations in this order.
  Snapshot ties: each regenerated list (re-extracted from /repo on every run) must equal the list the model was
  written against; a source edit to one of these functions breaks the corresponding theorem at `lake build`.
-/
import GqlVerif.Proto.SingleFlight
import GqlVerif.Generated.C11
namespace GqlVerif.Ties.C11
open GqlVerif.Generated.C11

theorem getOrCreate_tie : getOrCreate =
    ["if ctx.ExecutionOptions.DisableInboundRequestDeduplication",
     "return",
     "if !response.SingleFlightAllowed()",
     "return",
     "if ctx.SubgraphHeadersBuilder!=nil",
     "shard.m.LoadOrStore",
     "if shared",
     "request.AddFollower",
     "select",
     "recv:request.Done",
     "if request.Err!=nil",
     "return",
     "if request.Data==nil",
     "return",
     "return",
     "recv:ctx.ctx.Done()",
     "return",
     "return"] := by decide +kernel

theorem finishOk_tie : finishOk =
    ["if req==nil",
     "shard.m.Delete",
     "if req.HasFollowers()",
     "req.HasFollowers",
     "copy",
     "close(req.Done)"] := by decide +kernel

theorem finishErr_tie : finishErr =
    ["if req==nil",
     "shard.m.Delete",
     "close(req.Done)"] := by decide +kernel

theorem getOrCreateItem_tie : getOrCreateItem =
    ["shard.items.LoadOrStore",
     "return",
     "return"] := by decide +kernel

theorem finishItem_tie : finishItem =
    ["shard.items.Delete",
     "close(item.loaded)"] := by decide +kernel

theorem loadByContext_tie : loadByContext =
    ["if l.info!=nil",
     "if !l.singleFlightAllowed()",
     "l.singleFlightAllowed",
     "l.loadByContextDirect",
     "l.singleFlight.GetOrCreateItem",
     "if res.singleFlightStats!=nil",
     "if shared",
     "select",
     "recv:item.loaded",
     "recv:ctx.Done()",
     "if item.err!=nil",
     "if rc!=nil",
     "if item.responseHeaders!=nil",
     "defer:l.singleFlight.Finish",
     "l.loadByContextDirect",
     "if err!=nil",
     "if rc!=nil",
     "if rc.Response!=nil&&rc.Response.Header!=nil"] := by decide +kernel

theorem arenaResolve_tie : arenaResolve =
    ["r.inboundRequestSingleFlight.GetOrCreate",
     "if err!=nil",
     "if inflight!=nil&&inflight.Data!=nil",
     "if ctx.SetDeduplicationData!=nil&&inflight.SharedData!=nil",
     "writer.Write",
     "if err!=nil",
     "r.inboundRequestSingleFlight.FinishErr",
     "if !ctx.ExecutionOptions.SkipLoader",
     "if err!=nil",
     "r.inboundRequestSingleFlight.FinishErr",
     "loader.LoadGraphQLResponseData",
     "if err!=nil",
     "r.inboundRequestSingleFlight.FinishErr",
     "resolvable.Resolve",
     "if err!=nil",
     "r.inboundRequestSingleFlight.FinishErr",
     "writer.Write",
     "if inflight!=nil&&ctx.GetDeduplicationData!=nil",
     "r.inboundRequestSingleFlight.FinishOk"] := by decide +kernel

theorem inboundAllowed_tie : inboundAllowed =
    ["if g==nil",
     "return",
     "if g.Info==nil",
     "return",
     "if g.Info.OperationType==ast.OperationTypeQuery",
     "return",
     "return"] := by decide +kernel

theorem subgraphAllowed_tie : subgraphAllowed =
    ["if l.ctx.ExecutionOptions.DisableSubgraphRequestDeduplication",
     "return",
     "if fetchItem==nil",
     "return",
     "if fetchItem.Fetch==nil",
     "return",
     "if info==nil",
     "return",
     "if info.OperationType==ast.OperationTypeQuery",
     "return",
     "return"] := by decide +kernel

end GqlVerif.Ties.C11
