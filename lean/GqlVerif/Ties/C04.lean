/-
  Ties.C04 — the rule set of the default operation validator, the order of normalization and validation in the execution engine's admission sequence, and three rule visitors the known findings are anchored in
  Snapshot ties: each regenerated list (re-extracted from /repo on every run) must equal the list the model was
  written against; a source edit to one of these functions breaks the corresponding theorem at `lake build`.
-/
import GqlVerif.Gql.Valid
import GqlVerif.Generated.C04
namespace GqlVerif.Ties.C04
open GqlVerif.Generated.C04

theorem defaultRules_tie : defaultRules =
    ["AllVariablesUsed",
     "validator.RegisterRule",
     "AllVariableUsesDefined",
     "validator.RegisterRule",
     "DocumentContainsExecutableOperation",
     "validator.RegisterRule",
     "OperationNameUniqueness",
     "validator.RegisterRule",
     "LoneAnonymousOperation",
     "validator.RegisterRule",
     "SubscriptionSingleRootField",
     "validator.RegisterRule",
     "FieldSelections",
     "validator.RegisterRule",
     "FieldSelectionMerging",
     "validator.RegisterRule",
     "KnownArguments",
     "validator.RegisterRule",
     "Values",
     "validator.RegisterRule",
     "ArgumentUniqueness",
     "validator.RegisterRule",
     "RequiredArguments",
     "validator.RegisterRule",
     "Fragments",
     "validator.RegisterRule",
     "DirectivesAreDefined",
     "validator.RegisterRule",
     "DirectivesAreInValidLocations",
     "validator.RegisterRule",
     "VariableUniqueness",
     "validator.RegisterRule",
     "DirectivesAreUniquePerLocation",
     "validator.RegisterRule",
     "VariablesAreInputTypes",
     "validator.RegisterRule"] := by decide +kernel

theorem admissionSequence_tie : admissionSequence =
    ["astnormalization.WithRemoveFragmentDefinitions",
     "astnormalization.WithRemoveUnusedVariables",
     "astnormalization.WithInlineFragmentSpreads",
     "astnormalization.WithEnableDefer",
     "astvalidation.DeferStreamOnValidOperations",
     "astvalidation.DeferStreamHaveUniqueLabels",
     "astvalidation.DirectivesAreInValidLocations",
     "astvalidation.StreamAppliedToListFieldsOnly",
     "astnormalization.WithPrevalidationRules",
     "operation.Normalize",
     "operation.ValidateForSchema",
     "astnormalization.WithExtractVariables",
     "operation.Normalize",
     "astnormalization.NewVariablesMapper",
     "astnormalization.NewVariablesMapper().NormalizeOperation",
     "variablesvalidation.NewVariablesValidator",
     "validator.ValidateWithRemap"] := by decide +kernel

theorem requiredArgumentsEnterField_tie : requiredArgumentsEnterField =
    ["r.operation.FieldNameBytes",
     "r.definition.NodeFieldDefinitionArgumentsDefinitions",
     "if r.definition.InputValueDefinitionArgumentIsOptional()",
     "r.definition.InputValueDefinitionArgumentIsOptional",
     "r.definition.InputValueDefinitionNameBytes",
     "r.operation.FieldArgument",
     "if !exists",
     "r.StopWithExternalErr",
     "return",
     "if r.operation.ArgumentValue().Kind==ast.ValueKindNull",
     "r.operation.ArgumentValue",
     "r.StopWithExternalErr",
     "return"] := by decide +kernel

theorem allVariableUsesDefinedEnterArgument_tie : allVariableUsesDefinedEnterArgument =
    ["if a.operation.Arguments[].Value.Kind!=ast.ValueKindVariable",
     "return",
     "if a.Ancestors[].Kind!=ast.NodeKindOperationDefinition",
     "return",
     "a.operation.VariableValueNameBytes",
     "if bytes.Equal()",
     "a.operation.VariableDefinitionNameBytes",
     "bytes.Equal",
     "return",
     "a.operation.ArgumentNameBytes",
     "a.StopWithExternalErr"] := by decide +kernel

theorem knownArgumentsEnterArgument_tie : knownArgumentsEnterArgument =
    ["v.ArgumentInputValueDefinition",
     "if exists",
     "return",
     "v.Ancestor",
     "v.AncestorNameBytes",
     "v.operation.ArgumentNameBytes",
     "v.definition.ObjectTypeDefinitionNameBytes",
     "v.Report.AddExternalError",
     "v.Report.AddExternalError"] := by decide +kernel

end GqlVerif.Ties.C04
