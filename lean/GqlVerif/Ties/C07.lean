/-
  Ties.C07 — regenerated call skeletons of the loader's failure handling: mergeResult, preparePhase, loadPhase, the errored-dependency bookkeeping, the fetch-level error renderers and the tainted-object check.
  Snapshot ties: each regenerated list (re-extracted from /repo on every run) must equal the list the model was
  written against; a source edit to one of these functions breaks the corresponding theorem at `lake build`.
-/
import GqlVerif.Gql.Exec
import GqlVerif.Generated.C07
namespace GqlVerif.Ties.C07
open GqlVerif.Generated.C07

theorem mergeResult_tie : mergeResult =
    ["if res.err!=nil",
     "return",
     "l.renderErrorsFailedToFetch",
     "if res.authorizationRejected",
     "l.renderAuthorizationRejectedErrors",
     "if err!=nil",
     "return",
     "l.setSkipErrors",
     "return",
     "if res.rateLimitRejected",
     "l.renderRateLimitRejectedErrors",
     "if err!=nil",
     "return",
     "l.setSkipErrors",
     "return",
     "if res.fetchSkipped",
     "return",
     "if len()==0",
     "return",
     "l.renderErrorsFailedToFetch",
     "res.parsedResponse",
     "if err!=nil",
     "if (res.statusCode>0&&res.statusCode<200)||res.statusCode>=300",
     "return",
     "l.renderErrorsStatusFallback",
     "return",
     "l.renderErrorsFailedToFetch",
     "if l.allowCustomExtensionProperties&&res.multi==nil",
     "if astjson.ValueIsNonNull()&&extensions.Type()==astjson.TypeObject",
     "if res.postProcessing.SelectResponseDataPath!=nil",
     "if res.postProcessing.SelectResponseErrorsPath!=nil",
     "if astjson.ValueIsNonNull()",
     "if hasErrors",
     "if l.validateRequiredExternalFields&&res.postProcessing.SelectResponseDataPath!=nil",
     "getTaintedIndices",
     "if len()>0",
     "l.renderErrorsFailedDeps",
     "if err!=nil",
     "return",
     "l.mergeErrors",
     "if err!=nil",
     "return",
     "if res.postProcessing.SelectResponseDataPath!=nil&&astjson.ValueIsNull()",
     "if res.multi==nil&&isEmptyEntityFetch()",
     "isEmptyEntityFetch",
     "return",
     "if !hasErrors&&((res.statusCode>0&&res.statusCode<200)||res.statusCode>=300)",
     "return",
     "l.renderErrorsStatusFallback",
     "if !hasErrors&&!l.apolloCompatibilitySuppressFetchErrors",
     "return",
     "l.renderErrorsFailedToFetch",
     "if hasErrors&&l.apolloCompatibilityValueCompletionInExtensions",
     "l.recordErroredFetchIDLocked",
     "return",
     "if len()==0",
     "if responseData.Type()!=astjson.TypeObject",
     "return",
     "l.renderErrorsFailedToFetch",
     "return",
     "if len()==1&&res.batchStats==nil",
     "astjson.MergeValuesWithPath",
     "if err!=nil",
     "return",
     "if slices.Contains()",
     "l.taintedObjs.add",
     "return",
     "if res.emptyAliasIsBenign()",
     "return",
     "if batch==nil",
     "return",
     "l.renderErrorsFailedToFetch",
     "if res.batchStats!=nil",
     "if len()!=len()",
     "return",
     "l.renderErrorsFailedToFetch",
     "astjson.MergeValuesWithPath",
     "if mErr!=nil",
     "return",
     "if slices.Contains()",
     "l.taintedObjs.add",
     "return",
     "if batchCount!=itemCount",
     "return",
     "l.renderErrorsFailedToFetch",
     "astjson.MergeValuesWithPath",
     "if err!=nil",
     "return",
     "if slices.Contains()",
     "l.taintedObjs.add",
     "return"] := by decide +kernel

theorem preparePhase_tie : preparePhase =
    ["if l.shouldSkipErroredDependencyLocked()",
     "l.shouldSkipErroredDependencyLocked",
     "return",
     "l.selectItemsForPath",
     "return",
     "return",
     "return",
     "return",
     "return"] := by decide +kernel

theorem loadPhase_tie : loadPhase =
    ["if prepared.skipLoad",
     "return",
     "if l.responseCacheLookup()",
     "l.responseCacheLookup",
     "if prepared.trace!=nil",
     "return",
     "l.executeSourceLoad",
     "if prepared.res.err!=nil",
     "l.recordErroredFetchID",
     "return"] := by decide +kernel

theorem shouldSkipErroredDependency_tie : shouldSkipErroredDependency =
    ["if item==nil||item.Fetch==nil||len()==0",
     "return",
     "if dependencies==nil",
     "return",
     "if ok",
     "l.recordErroredFetchIDLocked",
     "return",
     "return"] := by decide +kernel

theorem recordErroredFetchID_tie : recordErroredFetchID =
    ["if item==nil||item.Fetch==nil",
     "return",
     "item.Fetch.Dependencies",
     "if dependencies==nil",
     "return",
     "if l.erroredFetchIDs==nil",
     "make"] := by decide +kernel

theorem renderErrorsFailedToFetch_tie : renderErrorsFailedToFetch =
    ["l.recordErroredFetchIDLocked",
     "l.recordSubgraphError",
     "l.renderSubgraphBaseError",
     "if err!=nil",
     "return",
     "return"] := by decide +kernel

theorem renderErrorsStatusFallback_tie : renderErrorsStatusFallback =
    ["l.recordErroredFetchIDLocked",
     "if statusText!=\"\"",
     "l.recordSubgraphError",
     "if err!=nil",
     "return",
     "return"] := by decide +kernel

theorem isTainted_tie : isTainted =
    ["if ok",
     "return",
     "if depth>maximumDepthOfTaintedTraversal",
     "return",
     "if t.isTainted()",
     "t.isTainted",
     "return",
     "if !found&&t.isTainted()",
     "t.isTainted",
     "return",
     "return"] := by decide +kernel

end GqlVerif.Ties.C07
