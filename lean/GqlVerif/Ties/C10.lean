/-
  Ties.C10 — the defer render/flush lock region, the per-defer field selection, descriptor paths and the merge rules the stream model and the harness' guards are written against
  Snapshot ties: each regenerated list (re-extracted from /repo on every run) must equal the list the model was
  written against; a source edit to one of these functions breaks the corresponding theorem at `lake build`.
-/
import GqlVerif.Proto.Defer
import GqlVerif.Generated.C10
namespace GqlVerif.Ties.C10
open GqlVerif.Generated.C10

theorem resolveDeferSingle_tie : resolveDeferSingle =
    ["NewLoader",
     "groupLoader.Init",
     "if fetchErr!=nil",
     "groupLoader.ResolveFetchNode",
     "dc.db.Lock",
     "defer:dc.db.Unlock",
     "groupLoader.appendSubgraphErrorsToContext",
     "if err!=nil",
     "dc.resolvable.ResolveDeferError",
     "return",
     "return",
     "dc.writer.Flush",
     "dc.db.Lock",
     "defer:dc.db.Unlock",
     "dc.db.Get",
     "groupLoader.appendSubgraphErrorsToContext",
     "dc.resolvable.ResolveDeferBatch",
     "if err!=nil",
     "return",
     "return",
     "dc.writer.Flush"] := by decide +kernel

theorem resolveDeferTree_tie : resolveDeferTree =
    ["r.resolveDeferSingle",
     "return",
     "r.resolveDeferSingle",
     "if err!=nil",
     "return",
     "pruneDeadDefers",
     "if pruned==nil",
     "if err!=nil",
     "r.resolveDeferTree",
     "return",
     "return",
     "r.resolveDeferTree",
     "if err!=nil&&ctx.ctx.Err()!=nil",
     "return",
     "return",
     "g.Go",
     "return",
     "g.Wait",
     "return"] := by decide +kernel

theorem collectDeferFields_tie : collectDeferFields =
    ["if r.shouldSkipFieldByTypeCondition()",
     "r.shouldSkipFieldByTypeCondition",
     "if r.currentDefer==nil",
     "if obj.Fields[].Defer!=nil",
     "if obj.Fields[].Defer==nil",
     "if !r.fieldNodeKindAllowsSeek()",
     "r.fieldNodeKindAllowsSeek",
     "if obj.Fields[].Defer.DeferID!=r.currentDefer.ID",
     "if !r.isDeferAncestor()",
     "r.isDeferAncestor",
     "if !r.fieldNodeKindAllowsSeek()",
     "r.fieldNodeKindAllowsSeek",
     "return"] := by decide +kernel

theorem isDeferAncestor_tie : isDeferAncestor =
    ["if parentID==0",
     "return",
     "if fieldDeferID==parentID",
     "return"] := by decide +kernel

theorem liveChildDescriptors_tie : liveChildDescriptors =
    ["if d.ParentID==parentID&&r.deferAnchorAlive()",
     "r.deferAnchorAlive",
     "if live==nil",
     "return"] := by decide +kernel

theorem outermostListFieldIndex_tie : outermostListFieldIndex =
    ["if len()==0",
     "return",
     "if ancestor.Kind!=ast.NodeKindField",
     "c.operation.FieldNameBytes",
     "c.definition.NodeFieldDefinitionByName",
     "if !ok",
     "return",
     "if c.definition.TypeIsList()",
     "c.definition.FieldDefinitionType",
     "c.definition.TypeIsList",
     "return",
     "c.definition.FieldDefinitionTypeNameBytes",
     "c.definition.NodeByName",
     "if !ok",
     "return",
     "return"] := by decide +kernel

theorem deferPath_tie : deferPath =
    ["if len()<=1",
     "return",
     "if item.Kind!=ast.FieldName",
     "append",
     "if len()==0",
     "return",
     "c.outermostListFieldIndex",
     "if listIdx>=0&&listIdx+1<len()",
     "return"] := by decide +kernel

theorem mergeFieldsDeferConds_tie : mergeFieldsDeferConds =
    [["!leftDeferExists&&!rightDeferExists"],
     ["leftDeferExists&&!rightDeferExists"],
     ["!leftDeferExists"],
     []] := by decide +kernel

theorem extractDeferFetches_tie : extractDeferFetches =
    ["if d.disable",
     "return",
     "d.fetchGroups",
     "maps.Keys",
     "slices.Sorted",
     "append",
     "d.dropDescriptorsWithoutFetchGroup"] := by decide +kernel

theorem dropDescriptors_tie : dropDescriptors =
    ["if len()==0",
     "return",
     "if !ok",
     "if ok",
     "if !ok",
     "if len()!=len()"] := by decide +kernel

theorem sameDefer_tie : sameDefer =
    ["if left.Defer==nil||right.Defer==nil",
     "return",
     "return"] := by decide +kernel

theorem fieldsCanMerge_tie : fieldsCanMerge =
    ["if !bytes.Equal()",
     "return",
     "if left.Value.NodeKind()!=right.Value.NodeKind()",
     "return",
     "if !m.sameDefer()",
     "m.sameDefer",
     "return",
     "if !m.sameOnTypeNames()",
     "m.sameOnTypeNames",
     "return",
     "if m.nodeIsScalar()&&!m.sameParentOnTypeNames()",
     "m.nodeIsScalar",
     "m.sameParentOnTypeNames",
     "return",
     "return"] := by decide +kernel

theorem uniqueLabelConds_tie : uniqueLabelConds =
    [["ast.ValueKindBoolean"],
     ["ast.ValueKindVariable"]] := by decide +kernel

end GqlVerif.Ties.C10
