/-
  Ties.C05 — regenerated facts of lexer.go / tokenizer.go / keyword.go equal the model's constants.
-/
import GqlVerif.Gql.Lex
import GqlVerif.Generated.C05
namespace GqlVerif.Ties.C05
open GqlVerif.Lex GqlVerif.Generated.C05

/-- `byteIsWhitespace` -/
theorem whitespace_tie : ∀ n, n < 256 → isWs (UInt8.ofNat n) = whitespaceBytes.flatten.contains n := by
  decide +kernel

/-- `matchSingleRuneToken`: EOF sentinel first (handled by `read` as `b == 0`), then exactly the bytes of `single` -/
theorem single_tie : ∀ n, n < 256 →
    ((single (UInt8.ofNat n)).isSome || n == 0) = singleRuneBytes.flatten.contains n := by
  decide +kernel

/-- keyword of each single-rune token, in the order of the Go switch:
    EOF PIPE EQUALS AT COLON BANG LPAREN RPAREN LBRACE RBRACE LBRACK RBRACK AND SUB DOLLAR -/
theorem single_kw_tie :
    (singleRuneBytes.flatten.drop 1).map (fun n => (single (UInt8.ofNat n)).map Kw.toNat) =
      [some 13, some 15, some 10, some 4, some 5, some 24, some 25, some 28, some 29, some 26, some 27,
       some 17, some 16, some 19] := by decide +kernel

/-- dispatch of `Read` after the single-rune tokens: `#`, `"`, `.` -/
theorem dispatch_tie : readDispatch = [[35], [34], [46]] := by decide +kernel
theorem comment_tie : commentCases = [[0], [13, 10]] := by decide +kernel
theorem blockstring_tie : blockStringCases = [[32, 9, 13, 10], [0], [34], [92]] := by decide +kernel
theorem string_tie : stringCases = [[32, 9], [0], [34], [13, 10], [92]] := by decide +kernel
theorem ident_tie : identConds =
    [["r>='a'&&r<='z'"], ["r>='A'&&r<='Z'"], ["r>='0'&&r<='9'"], ["r==runes.SUB"], ["r==runes.UNDERSCORE"], []] := by decide +kernel
theorem digit_tie : digitConds = [["r>='0'&&r<='9'"], []] := by decide +kernel
/-- `keyword.Keyword` iota values equal `Kw.toNat` -/
theorem keyword_tie : keywordValues.map (·.2) =
    [Kw.undefined, .ident, .comment, .eof, .colon, .bang, .lt, .tab, .space, .comma, .atSign, .dot, .spread,
     .pipe, .slash, .equals, .sub, .and, .quote, .dollar, .string, .blockstring, .integer, .float,
     .lparen, .rparen, .lbrack, .rbrack, .lbrace, .rbrace].map Kw.toNat := by decide +kernel
theorem limits_outer_tie : limitsOuterCases =
    [["keyword.EOF"], ["keyword.LBRACE"], ["keyword.RBRACE"], ["keyword.SPREAD"], ["keyword.IDENT"]] := by decide +kernel
theorem limits_keywords_tie : limitsKeywordCases =
    [["identkeyword.FRAGMENT", "identkeyword.QUERY", "identkeyword.MUTATION", "identkeyword.SUBSCRIPTION"]] := by decide +kernel
theorem limits_conditions_tie : limitsConditions =
    ["if limitDepth&&globalDepth>limits.MaxDepth", "if localDepth>localDepthPeak",
     "if localDepth>0&&!lastWasSpread", "if limitFields&&fieldsCount>limits.MaxFields"] := by decide +kernel
end GqlVerif.Ties.C05
