/-
  Ties.C19 — regenerated message-type switches of both protocol handlers and event emitters, the wire names of the message types, the close codes passed to NewCloseReason, and the call skeletons of Handle / handleInit / handleSubscribe / handleComplete / the init timer / the heartbeat, the message readers, the read loop and the engine (StartOperation, StopSubscription, TerminateAllSubscriptions, duplicate-id check, subscription loop, non-subscription operation).
  Snapshot ties: each regenerated list (re-extracted from /repo on every run) must equal the list the model was
  written against; a source edit to one of these functions breaks the corresponding theorem at `lake build`.
-/
import GqlVerif.Proto.WsServer
import GqlVerif.Generated.C19
namespace GqlVerif.Ties.C19
open GqlVerif.Generated.C19

theorem transportTypeSwitch_tie : transportTypeSwitch =
    [["GraphQLTransportWSMessageTypeConnectionInit"],
     ["GraphQLTransportWSMessageTypePing"],
     ["GraphQLTransportWSMessageTypePong"],
     ["GraphQLTransportWSMessageTypeSubscribe"],
     ["GraphQLTransportWSMessageTypeComplete"],
     []] := by decide +kernel

theorem legacyTypeSwitch_tie : legacyTypeSwitch =
    [["GraphQLWSMessageTypeConnectionInit"],
     ["GraphQLWSMessageTypeStart"],
     ["GraphQLWSMessageTypeStop"],
     ["GraphQLWSMessageTypeConnectionTerminate"],
     []] := by decide +kernel

theorem transportEmitSwitch_tie : transportEmitSwitch =
    [["subscription.EventTypeOnSubscriptionCompleted"],
     ["subscription.EventTypeOnSubscriptionData"],
     ["subscription.EventTypeOnNonSubscriptionExecutionResult"],
     ["subscription.EventTypeOnError"],
     ["subscription.EventTypeOnConnectionOpened"],
     ["subscription.EventTypeOnDuplicatedSubscriberID"],
     []] := by decide +kernel

theorem legacyEmitSwitch_tie : legacyEmitSwitch =
    [["subscription.EventTypeOnSubscriptionCompleted"],
     ["subscription.EventTypeOnSubscriptionData"],
     ["subscription.EventTypeOnNonSubscriptionExecutionResult"],
     ["subscription.EventTypeOnError"],
     ["subscription.EventTypeOnDuplicatedSubscriberID"],
     ["subscription.EventTypeOnConnectionError"],
     []] := by decide +kernel

theorem transportCloseCodes_tie : transportCloseCodes =
    ["4409", "4400", "4400", "4401", "4400", "4408", "4429", "4401"] := by decide +kernel

theorem transportTypeNames_tie : transportTypeNames =
    [("GraphQLTransportWSMessageTypeConnectionInit", "connection_init"), ("GraphQLTransportWSMessageTypeConnectionAck", "connection_ack"), ("GraphQLTransportWSMessageTypePing", "ping"), ("GraphQLTransportWSMessageTypePong", "pong"), ("GraphQLTransportWSMessageTypeSubscribe", "subscribe"), ("GraphQLTransportWSMessageTypeNext", "next"), ("GraphQLTransportWSMessageTypeError", "error"), ("GraphQLTransportWSMessageTypeComplete", "complete")] := by decide +kernel

theorem legacyTypeNames_tie : legacyTypeNames =
    [("GraphQLWSMessageTypeConnectionInit", "connection_init"), ("GraphQLWSMessageTypeConnectionAck", "connection_ack"), ("GraphQLWSMessageTypeConnectionError", "connection_error"), ("GraphQLWSMessageTypeConnectionTerminate", "connection_terminate"), ("GraphQLWSMessageTypeConnectionKeepAlive", "ka"), ("GraphQLWSMessageTypeStart", "start"), ("GraphQLWSMessageTypeStop", "stop"), ("GraphQLWSMessageTypeData", "data"), ("GraphQLWSMessageTypeError", "error"), ("GraphQLWSMessageTypeComplete", "complete")] := by decide +kernel

theorem transportHandle_tie : transportHandle =
    ["if !p.connectionAcknowledged&&!p.connectionInitTimerStarted",
     "p.startConnectionInitTimer",
     "p.reader.Read",
     "if err!=nil",
     "if errors.As()",
     "errors.As",
     "NewCloseReason",
     "p.closeConnectionWithReason",
     "return",
     "p.logger.Error",
     "return",
     "p.handleInit",
     "if err!=nil",
     "p.logger.Error",
     "NewCloseReason",
     "p.closeConnectionWithReason",
     "return",
     "p.startHeartbeat",
     "p.handlePing",
     "return",
     "return",
     "p.handleSubscribe",
     "return",
     "p.handleComplete",
     "NewCloseReason",
     "p.closeConnectionWithReason",
     "return"] := by decide +kernel

theorem transportHandleInit_tie : transportHandleInit =
    ["if p.connectionInitialized",
     "NewCloseReason",
     "p.closeConnectionWithReason",
     "return",
     "if p.initFunc!=nil&&len()>0",
     "if err!=nil",
     "p.initFunc",
     "return",
     "if p.stopConnectionInitTimer()",
     "p.stopConnectionInitTimer",
     "p.eventHandler.HandleWriteEvent",
     "p.closeConnectionWithReason",
     "return"] := by decide +kernel

theorem transportHandleSubscribe_tie : transportHandleSubscribe =
    ["if !p.connectionInitialized",
     "NewCloseReason",
     "p.closeConnectionWithReason",
     "return",
     "p.reader.DeserializeSubscribePayload",
     "if err!=nil",
     "return",
     "if err!=nil",
     "return",
     "return",
     "engine.StartOperation"] := by decide +kernel

theorem transportHandleComplete_tie : transportHandleComplete =
    ["return",
     "engine.StopSubscription"] := by decide +kernel

theorem transportStartTimer_tie : transportStartTimer =
    ["if p.connectionInitTimerStarted",
     "return",
     "NewCloseReason",
     "p.closeConnectionWithReason",
     "go:subscription.TimeOutChecker"] := by decide +kernel

theorem transportStartHeartbeat_tie : transportStartHeartbeat =
    ["if p.heartbeatStarted",
     "return",
     "go:p.heartbeat",
     "p.heartbeat"] := by decide +kernel

theorem transportEmit_tie : transportEmit =
    ["g.HandleWriteEvent",
     "g.HandleWriteEvent",
     "return",
     "if g.OnConnectionOpened!=nil",
     "g.OnConnectionOpened",
     "return",
     "NewCloseReason",
     "g.Writer.Client.DisconnectWithReason",
     "if err!=nil",
     "g.logger.Error",
     "return",
     "return",
     "g.HandleWriteEvent"] := by decide +kernel

theorem transportRead_tie : transportRead =
    ["json.Unmarshal",
     "if err!=nil",
     "return",
     "return"] := by decide +kernel

theorem legacyHandle_tie : legacyHandle =
    ["p.reader.Read",
     "if err!=nil",
     "if errors.As()",
     "errors.As",
     "p.writeEventHandler.HandleWriteEvent",
     "return",
     "p.logger.Error",
     "return",
     "p.handleInit",
     "if err!=nil",
     "p.writeEventHandler.HandleWriteEvent",
     "return",
     "engine.TerminateAllSubscriptions",
     "go:p.handleKeepAlive",
     "p.handleKeepAlive",
     "return",
     "engine.StartOperation",
     "return",
     "engine.StopSubscription",
     "return",
     "engine.TerminateAllSubscriptions",
     "p.writeEventHandler.HandleWriteEvent",
     "return"] := by decide +kernel

theorem legacyHandleInit_tie : legacyHandleInit =
    ["if p.initFunc!=nil&&len()>0",
     "if err!=nil",
     "p.initFunc",
     "return",
     "p.writeEventHandler.HandleWriteEvent",
     "return"] := by decide +kernel

theorem legacyRead_tie : legacyRead =
    ["json.Unmarshal",
     "if err!=nil",
     "return",
     "return"] := by decide +kernel

theorem engineStartOperation_tie : engineStartOperation =
    ["e.executorPool.Get",
     "if err!=nil",
     "return",
     "if err!=nil",
     "e.handleOnBeforeStart",
     "eventHandler.Emit",
     "return",
     "if err!=nil",
     "e.checkForDuplicateSubscriberID",
     "return",
     "if executor.OperationType()==ast.OperationTypeSubscription",
     "executor.OperationType",
     "go:e.startSubscription",
     "e.startSubscription",
     "return",
     "go:e.handleNonSubscriptionOperation",
     "e.handleNonSubscriptionOperation",
     "return"] := by decide +kernel

theorem engineStopSubscription_tie : engineStopSubscription =
    ["e.subCancellations.Cancel",
     "eventHandler.Emit",
     "return"] := by decide +kernel

theorem engineTerminateAll_tie : engineTerminateAll =
    ["if e.subCancellations.Len()==0",
     "e.subCancellations.Len",
     "return",
     "e.subCancellations.Cancel",
     "eventHandler.Emit",
     "return"] := by decide +kernel

theorem engineCheckDuplicate_tie : engineCheckDuplicate =
    ["e.subCancellations.AddWithParent",
     "if errors.Is()",
     "eventHandler.Emit",
     "return",
     "if subsErr!=nil",
     "eventHandler.Emit",
     "return",
     "return"] := by decide +kernel

theorem engineStartSubscription_tie : engineStartSubscription =
    ["defer:func",
     "executor.SetContext",
     "e.bufferPool.Get",
     "buf.Reset",
     "defer:e.bufferPool.Put",
     "e.executeSubscription",
     "buf.Reset",
     "select",
     "recv:ctx.Done()",
     "return",
     "recv:time.After()",
     "e.executeSubscription"] := by decide +kernel

theorem engineExecuteSubscription_tie : engineExecuteSubscription =
    ["e.logger.Debug",
     "eventHandler.Emit",
     "buf.SetFlushCallback",
     "defer:buf.SetFlushCallback",
     "executor.Execute",
     "if err!=nil",
     "e.logger.Error",
     "eventHandler.Emit",
     "return",
     "if buf.Len()>0",
     "buf.Len",
     "buf.Bytes",
     "e.logger.Debug",
     "eventHandler.Emit"] := by decide +kernel

theorem engineHandleNonSubscription_tie : engineHandleNonSubscription =
    ["defer:func",
     "executor.SetContext",
     "e.bufferPool.Get",
     "buf.Reset",
     "defer:e.bufferPool.Put",
     "executor.Execute",
     "if err!=nil",
     "e.logger.Error",
     "eventHandler.Emit",
     "return",
     "buf.Bytes",
     "e.logger.Debug",
     "buf.Bytes",
     "eventHandler.Emit"] := by decide +kernel

theorem readLoop_tie : readLoop =
    ["defer:func",
     "u.protocol.EventHandler",
     "u.protocol.EventHandler().Emit",
     "if !u.client.IsConnected()",
     "u.client.IsConnected",
     "u.logger.Debug",
     "return",
     "u.client.ReadBytesFromClient",
     "if errors.Is()",
     "u.logger.Debug",
     "return",
     "if err!=nil",
     "u.logger.Error",
     "if !u.isReadTimeOutTimerRunning",
     "go:TimeOutChecker",
     "u.protocol.EventHandler",
     "u.protocol.EventHandler().Emit",
     "if u.isReadTimeOutTimerRunning&&u.readTimeOutCancel!=nil",
     "u.readTimeOutCancel",
     "if len()>0",
     "u.protocol.Handle",
     "if err!=nil",
     "if errors.As()",
     "errors.As",
     "u.logger.Debug",
     "u.logger.Error",
     "select",
     "recv:ctxWithCancel.Done()",
     "return"] := by decide +kernel

end GqlVerif.Ties.C19
