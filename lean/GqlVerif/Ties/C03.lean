/-
  Ties.C03 — the normalization rewrites (fragment inlining, field de-duplication, @skip/@include removal, variable extraction and default handling, unused-variable deletion, fragment merging) whose semantic counterparts Props.C03 states
  Snapshot ties: each regenerated list (re-extracted from /repo on every run) must equal the list the model was
  written against; a source edit to one of these functions breaks the corresponding theorem at `lake build`.
-/
import GqlVerif.Gql.Exec
import GqlVerif.Generated.C03
namespace GqlVerif.Ties.C03
open GqlVerif.Generated.C03

theorem replaceFragmentSpread_tie : replaceFragmentSpread =
    ["f.definition.NodeNameBytes",
     "f.operation.FragmentSpreadNameBytes",
     "f.operation.FragmentDefinitionRef",
     "if !exists",
     "f.operation.FragmentSpreadNameBytes",
     "f.StopWithExternalErr",
     "return",
     "f.operation.FragmentDefinitionTypeName",
     "f.definition.NodeByName",
     "if !exists",
     "f.StopWithExternalErr",
     "return",
     "bytes.Equal",
     "if fragmentNode.Kind==ast.NodeKindInterfaceTypeDefinition&&f.EnclosingTypeDefinition.Kind==ast.NodeKindObjectTypeDefinition",
     "f.definition.NodeImplementsInterface",
     "f.definition.NodeImplementsInterfaceFields",
     "if fragmentNode.Kind==ast.NodeKindInterfaceTypeDefinition&&f.EnclosingTypeDefinition.Kind==ast.NodeKindInterfaceTypeDefinition",
     "f.definition.InterfacesIntersect",
     "if fragmentNode.Kind==ast.NodeKindUnionTypeDefinition",
     "f.definition.NodeIsUnionMember",
     "if f.EnclosingTypeDefinition.Kind==ast.NodeKindInterfaceTypeDefinition",
     "f.definition.NodeImplementsInterface",
     "f.definition.NodeImplementsInterfaceFields",
     "if f.EnclosingTypeDefinition.Kind==ast.NodeKindInterfaceTypeDefinition&&fragmentNode.Kind==ast.NodeKindUnionTypeDefinition",
     "f.definition.UnionNodeIntersectsInterfaceNode",
     "if f.EnclosingTypeDefinition.Kind==ast.NodeKindUnionTypeDefinition&&fragmentNode.Kind==ast.NodeKindInterfaceTypeDefinition",
     "f.definition.UnionNodeIntersectsInterfaceNode",
     "if f.EnclosingTypeDefinition.Kind==ast.NodeKindUnionTypeDefinition",
     "f.definition.NodeIsUnionMember",
     "f.operation.ReplaceFragmentSpreadWithInlineFragment",
     "return",
     "return"] := by decide +kernel

theorem inlineEnterSelectionSet_tie : inlineEnterSelectionSet =
    ["if f.operation.Selections[].Kind!=ast.SelectionKindFragmentSpread",
     "if f.replaceFragmentSpread()",
     "f.replaceFragmentSpread",
     "f.RevisitNode",
     "return"] := by decide +kernel

theorem dedupEnterSelectionSet_tie : dedupEnterSelectionSet =
    ["if len()<2",
     "return",
     "if d.operation.Selections[].Kind!=ast.SelectionKindField",
     "if d.operation.Fields[].HasSelections",
     "if a==b",
     "if a>b",
     "if d.operation.Selections[].Kind!=ast.SelectionKindField",
     "if d.operation.Fields[].HasSelections",
     "if d.operation.FieldsAreEqualFlat()",
     "d.operation.FieldsAreEqualFlat",
     "d.operation.MergeFieldsDefer",
     "d.operation.RemoveFromSelectionSet",
     "d.RevisitNode",
     "return"] := by decide +kernel

theorem handleSkip_tie : handleSkip =
    ["if len()!=1",
     "return",
     "if !bytes.Equal()",
     "d.operation.ArgumentNameBytes",
     "bytes.Equal",
     "return",
     "d.operation.ArgumentValue",
     "d.operation.GetBooleanValue",
     "if !valid",
     "return",
     "if !d.keepNodes&&skip",
     "d.removeParentNode",
     "d.operation.RemoveDirectiveFromNode"] := by decide +kernel

theorem handleInclude_tie : handleInclude =
    ["if len()!=1",
     "return",
     "if !bytes.Equal()",
     "d.operation.ArgumentNameBytes",
     "bytes.Equal",
     "return",
     "d.operation.ArgumentValue",
     "d.operation.GetBooleanValue",
     "if !valid",
     "return",
     "if d.keepNodes||include",
     "d.operation.RemoveDirectiveFromNode",
     "d.removeParentNode"] := by decide +kernel

theorem removeParentNode_tie : removeParentNode =
    ["if len()<2",
     "return",
     "d.operation.RemoveNodeFromSelectionSetNode",
     "if !removed",
     "return",
     "if grandParent.Kind!=ast.NodeKindSelectionSet",
     "return",
     "if d.operation.SelectionSetIsEmpty()",
     "d.operation.SelectionSetIsEmpty"] := by decide +kernel

theorem extractEnterArgument_tie : extractEnterArgument =
    ["if len()==0||v.Ancestors[].Kind!=ast.NodeKindOperationDefinition",
     "return",
     "if v.Ancestors[].Kind==ast.NodeKindDirective",
     "return",
     "v.Walker.ArgumentInputValueDefinition",
     "if !ok",
     "return",
     "v.uploadFinder.FindUploads",
     "if err!=nil",
     "v.StopWithInternalErr",
     "return",
     "v.uploadFinder.Reset",
     "if v.operation.Arguments[].Value.Kind==ast.ValueKindVariable",
     "if len()>0",
     "append",
     "return",
     "v.operation.ValueToJSON",
     "if err!=nil",
     "v.StopWithInternalErr",
     "return",
     "if exists",
     "v.variableExists",
     "v.operation.Input.AppendInputBytes",
     "v.operation.AddVariableValue",
     "return",
     "v.operation.GenerateUnusedVariableDefinitionName",
     "sjson.SetRawBytes",
     "if err!=nil",
     "v.StopWithInternalErr",
     "return",
     "if len()>0",
     "if uploadsMapping[].NewUploadPath!=\"\"",
     "append",
     "append",
     "append",
     "v.operation.Input.AppendInputBytes",
     "append",
     "v.ArgumentInputValueDefinition",
     "if !ok",
     "return",
     "v.importer.ImportType",
     "append",
     "append"] := by decide +kernel

theorem extractVariableExists_tie : extractVariableExists =
    ["if !v.extractedVariablesContainsKey()",
     "v.extractedVariablesContainsKey",
     "return",
     "if dataType==jsonparser.String",
     "if bytes.Equal()",
     "bytes.Equal",
     "return",
     "jsonparser.ObjectEach",
     "if exists",
     "v.operation.VariableDefinitionByNameAndOperation",
     "return"] := by decide +kernel

theorem deleteUnusedLeaveOperation_tie : deleteUnusedLeaveOperation =
    ["d.operation.VariableDefinitionNameString",
     "if slices.Contains()",
     "if !slices.Contains()",
     "append",
     "sjson.DeleteBytes",
     "if err!=nil",
     "d.Walker.StopWithInternalErr",
     "return",
     "if len()==0",
     "return",
     "if slices.Contains()",
     "append",
     "if len()==0"] := by decide +kernel

theorem mergeFieldsCanMerge_tie : mergeFieldsCanMerge =
    ["f.operation.FieldNameBytes",
     "f.operation.FieldNameBytes",
     "f.operation.FieldAliasBytes",
     "f.operation.FieldAliasBytes",
     "if !bytes.Equal()||!bytes.Equal()",
     "bytes.Equal",
     "bytes.Equal",
     "return",
     "f.operation.FieldDirectives",
     "f.operation.FieldDirectives",
     "return",
     "f.operation.DirectiveSetsAreEqual"] := by decide +kernel

theorem mergeFragmentsCanBeMerged_tie : mergeFragmentsCanBeMerged =
    ["f.operation.InlineFragmentTypeConditionName",
     "f.operation.InlineFragmentTypeConditionName",
     "if !bytes.Equal()",
     "bytes.Equal",
     "return",
     "f.operation.InlineFragmentDirectives",
     "f.operation.InlineFragmentDirectives",
     "return",
     "f.operation.DirectiveSetsAreEqual"] := by decide +kernel

theorem couldInline_tie : couldInline =
    ["if m.operation.InlineFragmentHasDirectives()",
     "m.operation.InlineFragmentHasDirectives",
     "return",
     "if !m.operation.InlineFragmentHasTypeCondition()",
     "m.operation.InlineFragmentHasTypeCondition",
     "return",
     "m.operation.InlineFragmentTypeConditionName",
     "m.definition.NodeNameBytes",
     "if bytes.Equal()",
     "bytes.Equal",
     "return",
     "if !m.definition.TypeDefinitionContainsImplementsInterface()",
     "m.definition.TypeDefinitionContainsImplementsInterface",
     "return",
     "m.operation.InlineFragmentSelectionSet",
     "if !exists",
     "return",
     "m.operation.SelectionSetInlineFragmentSelections",
     "if len()==0",
     "return",
     "m.operation.InlineFragmentTypeConditionName",
     "bytes.Equal",
     "m.definition.TypeDefinitionContainsImplementsInterface",
     "if !isCompatibleFragmentType",
     "return",
     "return"] := by decide +kernel

theorem removeSelfAliasing_tie : removeSelfAliasing =
    ["if !r.operation.Fields[].Alias.IsDefined",
     "return",
     "if !bytes.Equal()",
     "r.operation.FieldNameBytes",
     "r.operation.FieldAliasBytes",
     "bytes.Equal",
     "return",
     "r.operation.RemoveFieldAlias"] := by decide +kernel

theorem defaultEnterVariableDefinition_tie : defaultEnterVariableDefinition =
    ["if !v.operation.VariableDefinitionHasDefaultValue()",
     "v.operation.VariableDefinitionHasDefaultValue",
     "return",
     "v.operation.VariableDefinitionNameString",
     "append",
     "jsonparser.Get",
     "if err==nil",
     "return",
     "v.operation.VariableDefinitionDefaultValue",
     "v.operation.ValueToJSON",
     "if err!=nil",
     "return",
     "v.operation.TypeIsList",
     "if isListVariable&&len()>0&&valueBytes[]!='['",
     "v.operation.TypeNumberOfListWraps",
     "append",
     "append",
     "sjson.SetRawBytes",
     "if err!=nil",
     "v.StopWithInternalErr",
     "return"] := by decide +kernel

end GqlVerif.Ties.C03
