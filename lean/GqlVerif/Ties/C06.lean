/-
  Ties.C06 — regenerated facts of variablesvalidation.go: the kind switch, the built-in scalar names
  and the ordered conditions of the traversal functions that the model mirrors.
-/
import GqlVerif.Gql.Coerce
import GqlVerif.Generated.C06
namespace GqlVerif.Ties.C06
open GqlVerif.Generated.C06

theorem namedKinds_tie : namedKinds =
    [["ast.NodeKindInputObjectTypeDefinition"], ["ast.NodeKindScalarTypeDefinition"], ["ast.NodeKindEnumTypeDefinition"]] := by decide +kernel
/-- the scalar names `scalarOk` / `namedNode` test, in order -/
theorem scalarNames_tie : scalarNames = [["String"], ["Int"], ["Float"], ["Boolean"], ["ID"]] := by decide +kernel
theorem namedConds_tie : namedConds =
    ["if v.err!=nil", "if !ok", "if jsonValue.Type()!=astjson.TypeObject", "if v.err!=nil",
     "if inputValueDefinitionRef==-1", "if v.violatesOneOfConstraint()",
     "if jsonValue.Type()!=astjson.TypeString", "if jsonValue.Type()!=astjson.TypeNumber",
     "if jsonValue.Type()!=astjson.TypeNumber",
     "if jsonValue.Type()!=astjson.TypeTrue&&jsonValue.Type()!=astjson.TypeFalse",
     "if jsonValue.Type()!=astjson.TypeString&&jsonValue.Type()!=astjson.TypeNumber",
     "if jsonValue.Type()!=astjson.TypeString", "if !hasValue||isInaccessible"] := by decide +kernel
theorem opConds_tie : opConds =
    ["if v.operation.TypeIsNonNull()", "if jsonValue==nil",
     "if jsonValue.Type()==astjson.TypeNull&&varTypeName.String()!=\"Upload\"&&!v.opts.ApolloRouterCompatibilityFlags.SkipNullVariablesError",
     "if jsonValue==nil||jsonValue.Type()==astjson.TypeNull", "if v.operation.TypeIsList()",
     "if jsonValue.Type()!=astjson.TypeArray"] := by decide +kernel
theorem fieldConds_tie : fieldConds =
    ["if v.definition.TypeIsNonNull()", "if jsonValue==nil||jsonValue.Type()==astjson.TypeNull",
     "if bytes.Equal()", "if v.definition.InputValueDefinitionHasDefaultValue()",
     "if jsonValue==nil||jsonValue.Type()==astjson.TypeNull", "if v.definition.TypeIsList()",
     "if jsonValue.Type()!=astjson.TypeArray", "if len()==0"] := by decide +kernel
theorem oneOfConds_tie : oneOfConds =
    ["if !def.HasDirectives", "if !hasOneOfDirective", "if totalFieldCount!=1", "if len()>1",
     "if val.Type()==astjson.TypeNull", "if nullFieldName==nil", "if len()>1"] := by decide +kernel
theorem enterConds_tie : enterConds =
    ["if v.variablesMap!=nil", "if isMapped", "v.variables.Get", "v.variables.Get", "v.traverseOperationType"] := by decide +kernel
theorem validateSkeleton_tie : validateSkeleton =
    ["astjson.ParseBytes", "if v.visitor.err!=nil", "return", "v.walker.Walk", "if report.HasErrors()",
     "return", "return"] := by decide +kernel
end GqlVerif.Ties.C06
