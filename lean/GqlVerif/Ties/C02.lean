/-
  Ties.C02 — regenerated condition/call skeletons of the renderer's walk functions (resolvable.go) that
  the model Plan.Render mirrors.  The expected lists below were reviewed against the model when written;
  a source edit to any of these functions changes the regenerated list and breaks the tie.
-/
import GqlVerif.Plan.Render
import GqlVerif.Generated.C02
namespace GqlVerif.Ties.C02
open GqlVerif.Generated.C02

theorem stringConds_tie : stringConds =
    ["if astjson.ValueIsNull()",
     "if s.Nullable",
     "if value.Type()!=astjson.TypeString",
     "if r.render()",
     "if s.IsTypeName",
     "if bytes.Equal()",
     "if s.UnescapeResponseJson",
     "if !gjson.ValidBytes()"] := by decide +kernel

theorem boolConds_tie : boolConds =
    ["if astjson.ValueIsNull()",
     "if b.Nullable",
     "if value.Type()!=astjson.TypeTrue&&value.Type()!=astjson.TypeFalse",
     "if r.render()"] := by decide +kernel

theorem intConds_tie : intConds =
    ["if astjson.ValueIsNull()",
     "if i.Nullable",
     "if value.Type()!=astjson.TypeNumber",
     "if r.render()"] := by decide +kernel

theorem floatConds_tie : floatConds =
    ["if astjson.ValueIsNull()",
     "if f.Nullable",
     "if !r.render()",
     "if value.Type()!=astjson.TypeNumber",
     "if r.render()",
     "if r.options.ApolloCompatibilityTruncateFloatValues",
     "if floatValue==float64()"] := by decide +kernel

theorem bigIntConds_tie : bigIntConds =
    ["if astjson.ValueIsNull()",
     "if b.Nullable",
     "if r.render()"] := by decide +kernel

theorem scalarConds_tie : scalarConds =
    ["if astjson.ValueIsNull()",
     "if s.Nullable",
     "if r.render()"] := by decide +kernel

theorem enumConds_tie : enumConds =
    ["if astjson.ValueIsNull()",
     "if e.Nullable",
     "if value.Type()!=astjson.TypeString",
     "if !e.isValidValue()",
     "if !r.render()",
     "if r.options.ApolloCompatibilityValueCompletionInExtensions",
     "if e.Nullable",
     "if !e.isAccessibleValue()",
     "if !r.render()",
     "if e.Nullable",
     "if r.render()"] := by decide +kernel

theorem arrayConds_tie : arrayConds =
    ["if astjson.ValueIsNull()",
     "if r.unreachedAuthWalk",
     "if r.inUnreachedSubtree",
     "if arr.Nullable",
     "if value.Type()!=astjson.TypeArray",
     "if r.render()",
     "if len()==0&&r.unreachedAuthWalk&&!r.inUnreachedSubtree",
     "if r.render()&&r.options.EnableCostControl",
     "if arrayValue.Type()==astjson.TypeNull",
     "if b!=nil",
     "if ok",
     "if typeName!=\"\"",
     "if stats.TypeNames==nil",
     "if r.render()&&arr.SkipItem!=nil",
     "if skip",
     "if r.render()&&i!=0&&hasPrintedValue",
     "if err",
     "if (itemKind==NodeKindObject||itemKind==NodeKindArray)&&arr.Item.NodeNullable()",
     "value.SetArrayItem",
     "if arr.Nullable&&len()>0",
     "astjson.SetNull",
     "if r.render()"] := by decide +kernel

theorem objectConds_tie : objectConds =
    ["if obj.Unresolvable",
     "if !r.render()",
     "if len()>0",
     "r.err",
     "r.walkNull",
     "if value==nil||value.Type()==astjson.TypeNull",
     "if r.unreachedAuthWalk",
     "if r.inUnreachedSubtree",
     "if obj.Nullable",
     "r.walkNull",
     "r.err",
     "if value.Type()!=astjson.TypeObject",
     "r.err",
     "if typeName==nil&&obj.isAbstract()",
     "if !r.render()",
     "if r.options.ApolloCompatibilityValueCompletionInExtensions",
     "if !obj.Nullable",
     "r.err",
     "r.walkNull",
     "if typeName!=nil&&len()>0",
     "if !ok",
     "if !r.render()",
     "if r.options.ApolloCompatibilityValueCompletionInExtensions",
     "if inaccessible",
     "if !obj.Nullable",
     "r.err",
     "r.walkNull",
     "if r.render()&&r.options.EnableCostControl",
     "if r.render()&&!isRoot",
     "if !r.deferMode",
     "if r.walkFields()",
     "r.walkFields",
     "if r.render()&&!isRoot",
     "if len()>0",
     "if !r.enableDeferRender",
     "if r.enableRender&&r.deferIncrementalItemWritten",
     "if r.currentDefer!=nil",
     "r.walkFields",
     "if startedRender",
     "if r.currentDefer!=nil",
     "if !r.enableRender&&hasErrors",
     "if hasErrors",
     "if r.currentDefer!=nil&&len()>0",
     "if r.walkFields()",
     "r.walkFields",
     "if r.render()&&!isRoot"] := by decide +kernel

theorem fieldsConds_tie : fieldsConds =
    ["if filter.enabled",
     "if filter.passThrough",
     "if !ok",
     "if !ok",
     "if r.shouldSkipFieldByTypeCondition()",
     "if !r.render()",
     "if skip",
     "if obj.Fields[].Value.NodeNullable()",
     "if field!=nil",
     "astjson.SetNull",
     "if obj.Nullable&&len()>0",
     "astjson.SetNull",
     "if r.render()",
     "if addComma",
     "r.walkNode",
     "if err",
     "if r.render()",
     "if obj.Nullable",
     "if obj.Nullable",
     "if len()>0",
     "astjson.SetNull"] := by decide +kernel

theorem resolveSkeleton_tie : resolveSkeleton =
    ["if r.ctx.ExecutionOptions.SkipLoader",
     "if r.hasExtensions()",
     "if r.authorization.preFetchEnabled()",
     "r.walkObject",
     "if r.authorizationError!=nil",
     "if r.hasErrors()",
     "r.printErrors",
     "if hasErrors",
     "r.printData",
     "if r.hasExtensions()",
     "if r.deferMode"] := by decide +kernel

theorem abstractConds_tie : abstractConds =
    ["if len()>1",
     "return",
     "if len()==1",
     "return",
     "return"] := by decide +kernel

end GqlVerif.Ties.C02
