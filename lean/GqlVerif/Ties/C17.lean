/-
  Ties.C17 — regenerated call skeletons of the introspection generator's visitor callbacks (types, fields, input values, union members, enum values, directives, root operation types, TypeRef, deprecationReason), of the JSON converter's import functions and of the engine's introspection config factory.
  Snapshot ties: each regenerated list (re-extracted from /repo on every run) must equal the list the model was
  written against; a source edit to one of these functions breaks the corresponding theorem at `lake build`.
-/
import GqlVerif.Misc.Introspection
import GqlVerif.Generated.C17
namespace GqlVerif.Ties.C17
open GqlVerif.Generated.C17

theorem genObject_tie : genObject =
    ["NewFullType",
     "i.definition.ObjectTypeDefinitionNameString",
     "i.definition.ObjectTypeDescriptionNameString",
     "i.definition.TypeNameString",
     "append"] := by decide +kernel

theorem genObjectLeave_tie : genObjectLeave =
    ["if strings.HasPrefix()",
     "strings.HasPrefix",
     "return",
     "i.data.Schema.AddType"] := by decide +kernel

theorem genField_tie : genField =
    ["NewField",
     "i.definition.FieldDefinitionNameString",
     "i.definition.FieldDefinitionDescriptionString",
     "i.definition.FieldDefinitionType",
     "i.TypeRef",
     "if i.definition.FieldDefinitionHasDirectives()",
     "i.definition.FieldDefinitionHasDirectives",
     "i.definition.FieldDefinitionDirectiveByName",
     "if exists",
     "i.deprecationReason"] := by decide +kernel

theorem genInputValue_tie : genInputValue =
    ["if i.definition.InputValueDefinitionHasDefaultValue()",
     "i.definition.InputValueDefinitionHasDefaultValue",
     "i.definition.InputValueDefinitionDefaultValue",
     "i.definition.PrintValueBytes",
     "if err!=nil",
     "i.StopWithInternalErr",
     "return",
     "i.definition.InputValueDefinitionNameString",
     "i.definition.InputValueDefinitionDescriptionString",
     "i.definition.InputValueDefinitionType",
     "i.TypeRef",
     "if i.definition.InputValueDefinitionHasDirectives()",
     "i.definition.InputValueDefinitionHasDirectives",
     "i.definition.InputValueDefinitionDirectiveByName",
     "if exists",
     "i.deprecationReason",
     "append",
     "append",
     "append"] := by decide +kernel

theorem genInterface_tie : genInterface =
    ["NewFullType",
     "i.definition.InterfaceTypeDefinitionNameString",
     "i.definition.InterfaceTypeDefinitionDescriptionString",
     "i.definition.InterfaceTypeDefinitionNameBytes",
     "if i.definition.ObjectTypeDefinitionImplementsInterface()",
     "i.definition.ObjectTypeDefinitionImplementsInterface",
     "i.definition.ObjectTypeDefinitionNameString",
     "append",
     "i.definition.Input.ByteSliceString",
     "if i.currentType.Name==interfaceTypeExtensionName",
     "i.definition.TypeNameString",
     "append",
     "i.definition.TypeNameString",
     "append"] := by decide +kernel

theorem genUnionMember_tie : genUnionMember =
    ["i.definition.TypeNameString",
     "append"] := by decide +kernel

theorem genEnumValue_tie : genEnumValue =
    ["i.definition.EnumValueDefinitionNameString",
     "i.definition.EnumValueDefinitionDescriptionString",
     "if i.definition.EnumValueDefinitionHasDirectives()",
     "i.definition.EnumValueDefinitionHasDirectives",
     "i.definition.EnumValueDefinitionDirectiveByName",
     "if exists",
     "i.deprecationReason",
     "append"] := by decide +kernel

theorem genDirective_tie : genDirective =
    ["if strings.HasPrefix()",
     "strings.HasPrefix",
     "return",
     "append"] := by decide +kernel

theorem genRoot_tie : genRoot =
    ["i.definition.Input.ByteSliceString",
     "i.definition.Input.ByteSliceString",
     "i.definition.Input.ByteSliceString"] := by decide +kernel

theorem genLeaveDocument_tie : genLeaveDocument =
    ["if i.queryTypeName!=\"\"",
     "i.data.Schema.TypeByName",
     "if i.mutationTypeName!=\"\"",
     "i.data.Schema.TypeByName",
     "if i.subscriptionTypeName!=\"\"",
     "i.data.Schema.TypeByName"] := by decide +kernel

theorem genTypeRef_tie : genTypeRef =
    ["i.definition.TypeNameBytes",
     "i.definition.Index.FirstNodeByNameBytes",
     "if !exists",
     "return",
     "return",
     "i.TypeRef",
     "return",
     "i.TypeRef",
     "return",
     "return"] := by decide +kernel

theorem genDeprecationReason_tie : genDeprecationReason =
    ["i.definition.DirectiveArgumentValueByName",
     "if exists",
     "i.stringContent",
     "return",
     "i.definition.DirectiveDefinitionArgumentDefaultValueString",
     "if defaultValue!=\"\"",
     "return",
     "return"] := by decide +kernel

theorem convObject_tie : convObject =
    ["j.importFields",
     "if err!=nil",
     "return",
     "make",
     "j.importType",
     "j.doc.ImportObjectTypeDefinition",
     "return"] := by decide +kernel

theorem convInterface_tie : convInterface =
    ["j.importFields",
     "if err!=nil",
     "return",
     "make",
     "j.importType",
     "j.doc.ImportInterfaceTypeDefinitionWithDirectives",
     "return"] := by decide +kernel

theorem convDirective_tie : convDirective =
    ["j.importInputFields",
     "if err!=nil",
     "return",
     "j.doc.ImportDirectiveDefinition",
     "return"] := by decide +kernel

theorem convEnum_tie : convEnum =
    ["make",
     "if fullType.EnumValues[].IsDeprecated",
     "j.importDeprecatedDirective",
     "append",
     "j.doc.ImportEnumValueDefinition",
     "j.doc.ImportEnumTypeDefinition"] := by decide +kernel

theorem convUnion_tie : convUnion =
    ["make",
     "j.importType",
     "j.doc.ImportUnionTypeDefinition",
     "return"] := by decide +kernel

theorem convType_tie : convType =
    ["return",
     "j.importType",
     "j.doc.AddListType",
     "return",
     "j.importType",
     "j.doc.AddNonNullType",
     "return",
     "j.doc.AddNamedType"] := by decide +kernel

theorem configFactory_tie : configFactory =
    ["introspection.NewGenerator",
     "gen.Generate",
     "if report.HasErrors()",
     "return",
     "return"] := by decide +kernel

end GqlVerif.Ties.C17
