/-
  Ties.C08 — regenerated skeletons of the loader's tree walk (the happens-before semantics `HB` of
  Plan.Sched is the reading of exactly these functions) and of `validateSchedule`.
-/
import GqlVerif.Plan.Sched
import GqlVerif.Plan.Skip
import GqlVerif.Generated.C08
namespace GqlVerif.Ties.C08
open GqlVerif.Generated.C08

/-- `resolveFetchNodeWithCtx`: Single → resolveSingle, Sequence → resolveSerial, Parallel → resolveParallel -/
theorem nodeKinds_tie : nodeKinds =
    [["FetchTreeNodeKindSingle"], ["FetchTreeNodeKindSequence"], ["FetchTreeNodeKindParallel"], []] := by decide +kernel
theorem nodeDispatch_tie : nodeDispatch = ["l.resolveSingle", "l.resolveSerial", "l.resolveParallel"] := by decide +kernel

/-- `resolveSerial`: children in order, stop at the first error (HB.seqAcross) -/
theorem serial_tie : serialSkeleton = ["l.resolveFetchNodeWithCtx", "if err!=nil", "return", "return"] := by decide +kernel

/-- `resolveParallel`: one `g.Go` per child, `g.Wait` before returning (HB.parL/parR only; the node
    finishes after all children, which gives HB.seqAcross for a following sibling) -/
theorem parallel_tie : parallelSkeleton =
    ["return", "l.resolveFetchNodeWithCtx", "g.Go", "if err!=nil", "g.Wait", "return", "return"] := by decide +kernel

/-- `resolveSingle`: prepare → load → merge (HB.single), cache flush after the merge -/
theorem single_tie : singleSkeleton =
    ["l.preparePhase", "l.loadPhase", "l.mergePhase", "l.responseCacheFlush"] := by decide +kernel

/-- prepare and merge hold the data lock for their whole body (atomicity of `start` / `done`) -/
theorem prepareLock_tie : prepareLock =
    ["l.dataBuffer.Lock", "defer:l.dataBuffer.Unlock", "l.shouldSkipErroredDependencyLocked", "l.selectItemsForPath"] := by decide +kernel
theorem mergeLock_tie : mergeLock =
    ["l.dataBuffer.Lock", "defer:l.dataBuffer.Unlock", "l.mergeMultiEntityResult", "l.mergeResult", "l.callOnFinished"] := by decide +kernel

/-- failed requests (Plan.Skip): the load phase runs outside the data lock, so it records a failed request through
    the locking wrapper; `shouldSkipErroredDependencyLocked` (called from the locked prepare phase, see
    `prepareLock_tie`) is `hit`'s first disjunct and records the skipped fetch itself -/
theorem loadRecordsFailure_tie : loadRecordsFailure =
    ["if prepared.skipLoad", "if l.responseCacheLookup()", "if prepared.trace!=nil", "l.executeSourceLoad",
     "if prepared.res.err!=nil", "l.recordErroredFetchID"] := by decide +kernel
theorem recordLock_tie : recordLock =
    ["l.dataBuffer.Lock", "defer:l.dataBuffer.Unlock", "l.recordErroredFetchIDLocked"] := by decide +kernel
theorem skipGuards_tie : skipGuards =
    ["if item == nil || item.Fetch == nil || len(l.erroredFetchIDs) == 0", "if dependencies == nil",
     "range _, dependencyID := dependencies.DependsOnFetchIDs", "if ok", "l.erroredFetchIDs[dependencyID]"] := by decide +kernel
theorem recordGuards_tie : recordGuards =
    ["if item == nil || item.Fetch == nil", "if dependencies == nil", "if l.erroredFetchIDs == nil",
     "l.erroredFetchIDs[dependencies.FetchID]"] := by decide +kernel

/-- `validateSchedule` (mirrored by `Sched.walk` / `Sched.validate`) -/
theorem validateKinds_tie : validateKinds =
    [["resolve.FetchTreeNodeKindSingle"], ["resolve.FetchTreeNodeKindParallel"], ["resolve.FetchTreeNodeKindSequence"], []] := by decide +kernel
theorem validateConds_tie : validateConds =
    ["if node==nil", "if !ok", "if !known", "if !ok", "if err!=nil", "if err!=nil", "if err!=nil", "if count>1", "if seen[]==0"] := by decide +kernel

end GqlVerif.Ties.C08
