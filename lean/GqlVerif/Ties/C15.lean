/-
  Ties.C15 — regenerated value-kind switch and call skeleton of Document.writeJSONValue, the control-character escaper, the block string value functions and the lexer's number reader (readDigit / readFloat).
  Snapshot ties: each regenerated list (re-extracted from /repo on every run) must equal the list the model was
  written against; a source edit to one of these functions breaks the corresponding theorem at `lake build`.
-/
import GqlVerif.Gql.Value
import GqlVerif.Generated.C15
namespace GqlVerif.Ties.C15
open GqlVerif.Generated.C15

theorem writeJSONKinds_tie : writeJSONKinds =
    [["ValueKindNull"],
     ["ValueKindEnum"],
     ["ValueKindInteger"],
     ["ValueKindFloat"],
     ["ValueKindBoolean"],
     ["ValueKindString"],
     ["ValueKindList"],
     ["ValueKindObject"],
     ["ValueKindVariable"],
     []] := by decide +kernel

theorem writeJSONValue_tie : writeJSONValue =
    ["buf.Write",
     "d.EnumValueNameBytes",
     "quotes.WrapBytes",
     "buf.Write",
     "d.IntValueRaw",
     "if d.IntValueIsNegative()",
     "d.IntValueIsNegative",
     "buf.WriteByte",
     "buf.Write",
     "d.FloatValueRaw",
     "if d.FloatValueIsNegative()",
     "d.FloatValueIsNegative",
     "buf.WriteByte",
     "buf.Write",
     "if value.Ref==0",
     "buf.Write",
     "buf.Write",
     "if d.StringValueIsBlockString()",
     "d.StringValueIsBlockString",
     "d.BlockStringValueContentString",
     "json.NewEncoder",
     "enc.SetEscapeHTML",
     "if err!=nil",
     "enc.Encode",
     "return",
     "buf.Len",
     "buf.Truncate",
     "d.StringValueContentBytes",
     "escapeControlCharacters",
     "quotes.WrapBytes",
     "buf.Write",
     "buf.WriteByte",
     "if ii>0",
     "buf.WriteByte",
     "if err!=nil",
     "d.writeJSONValue",
     "return",
     "buf.WriteByte",
     "buf.WriteByte",
     "d.ObjectFieldValue",
     "if objFieldValue.Kind==ValueKindVariable",
     "d.Input.ByteSliceString",
     "jsonparser.Get",
     "if dataType==jsonparser.NotExist",
     "if ii>0&&hasRenderedFields",
     "buf.WriteByte",
     "d.ObjectFieldNameBytes",
     "quotes.WrapBytes",
     "buf.Write",
     "buf.WriteByte",
     "if err!=nil",
     "d.writeJSONValue",
     "return",
     "buf.WriteByte",
     "d.Input.ByteSliceString",
     "jsonparser.Get",
     "if err!=nil",
     "buf.Write",
     "return",
     "if dataType==jsonparser.String",
     "buf.WriteByte",
     "buf.Write",
     "if dataType==jsonparser.String",
     "buf.WriteByte",
     "return",
     "fmt.Errorf",
     "return"] := by decide +kernel

theorem escapeControlCharacters_tie : escapeControlCharacters =
    ["if c<0x20",
     "if clean",
     "return",
     "make",
     "append",
     "fmt.Sprintf",
     "append",
     "append",
     "return"] := by decide +kernel

theorem escapeControlCases_tie : escapeControlCases =
    [["c=='\\t'"],
     ["c<0x20"],
     []] := by decide +kernel

theorem blockStringValue_tie : blockStringValue =
    ["d.BlockStringValueContentRawBytes",
     "splitBytesIntoLines",
     "commonBlockStringIndent",
     "if commonIndent!=-1",
     "if leadingWhitespaceCount()!=len()",
     "leadingWhitespaceCount",
     "if firstLine==len()",
     "return",
     "if leadingWhitespaceCount()!=len()",
     "leadingWhitespaceCount",
     "bytes.Join",
     "return",
     "bytes.ReplaceAll"] := by decide +kernel

theorem blockStringRaw_tie : blockStringRaw =
    ["if d.Input.RawBytes[]=='\"'",
     "if d.Input.RawBytes[]=='\"'",
     "return"] := by decide +kernel

theorem lexReadDigit_tie : lexReadDigit =
    ["l.peekRune",
     "if !runeIsDigit()",
     "runeIsDigit",
     "l.readRune",
     "if isFloat",
     "l.readRune",
     "if hasExponent",
     "if sign==runes.SUB||sign==runes.ADD",
     "l.peekRune",
     "l.readRune",
     "l.readFloat",
     "return",
     "tok.SetEnd"] := by decide +kernel

theorem lexReadFloat_tie : lexReadFloat =
    ["l.peekRune",
     "if !runeIsDigit()",
     "runeIsDigit",
     "l.readRune",
     "if hasReadExponentAlready",
     "tok.SetEnd",
     "return",
     "l.peekRune",
     "if optionalExponent==runes.EXPONENT_LOWER||optionalExponent==runes.EXPONENT_UPPER",
     "l.readRune",
     "l.peekRune",
     "if optionalPlusMinus==runes.SUB||optionalPlusMinus==runes.ADD",
     "l.readRune",
     "l.peekRune",
     "if !runeIsDigit()",
     "runeIsDigit",
     "l.readRune",
     "tok.SetEnd"] := by decide +kernel

end GqlVerif.Ties.C15
