/-
  Ties.C01 — regenerated call skeletons of the response-tree field merge (traverseNode, mergeScalars, mergeParentOnTypeNames, fieldsCanMerge, mergeValues), which decides for which runtime types a planned field is rendered.
  Snapshot ties: each regenerated list (re-extracted from /repo on every run) must equal the list the model was
  written against; a source edit to one of these functions breaks the corresponding theorem at `lake build`.
-/
import GqlVerif.Gql.Exec
import GqlVerif.Generated.C01
namespace GqlVerif.Ties.C01
open GqlVerif.Generated.C01

theorem mergeTraverse_tie : mergeTraverse =
    ["if len()==1",
     "m.traverseNode",
     "return",
     "if len()>=1",
     "make",
     "copy",
     "append",
     "append",
     "m.propagateParentTypeNames",
     "if n.Fields[].OnTypeNames!=nil",
     "if i==j",
     "if n.Fields[].OnTypeNames==nil",
     "if bytes.Equal()&&m.sameDefer()",
     "bytes.Equal",
     "m.sameDefer",
     "m.mergeValues",
     "append",
     "if i>j",
     "if m.fieldsCanMerge()",
     "m.fieldsCanMerge",
     "m.mergeValues",
     "m.mergeParentOnTypeNames",
     "append",
     "if m.nodeIsScalar()",
     "m.nodeIsScalar",
     "if i==j",
     "if bytes.Equal()",
     "bytes.Equal",
     "if !m.canMergeScalars()||!m.sameDefer()",
     "m.canMergeScalars",
     "m.sameDefer",
     "m.mergeScalars",
     "append",
     "if i>j",
     "m.traverseNode",
     "m.traverseNode"] := by decide +kernel

theorem mergeScalars_tie : mergeScalars =
    ["if left.OnTypeNames==nil&&left.ParentOnTypeNames==nil",
     "return",
     "if right.OnTypeNames==nil&&right.ParentOnTypeNames==nil",
     "return",
     "append",
     "m.deduplicateOnTypeNames",
     "if left.ParentOnTypeNames==nil",
     "return",
     "if right.ParentOnTypeNames==nil",
     "return",
     "if right.ParentOnTypeNames[].Depth==left.ParentOnTypeNames[].Depth",
     "append",
     "m.deduplicateOnTypeNames",
     "append"] := by decide +kernel

theorem mergeParentOnTypeNames_tie : mergeParentOnTypeNames =
    ["if left.ParentOnTypeNames==nil",
     "return",
     "if right.ParentOnTypeNames==nil",
     "return",
     "if right.ParentOnTypeNames[].Depth==left.ParentOnTypeNames[].Depth",
     "append",
     "m.deduplicateOnTypeNames",
     "append"] := by decide +kernel

theorem fieldsCanMerge_tie : fieldsCanMerge =
    ["if !bytes.Equal()",
     "bytes.Equal",
     "return",
     "if left.Value.NodeKind()!=right.Value.NodeKind()",
     "return",
     "if !m.sameDefer()",
     "m.sameDefer",
     "return",
     "if !m.sameOnTypeNames()",
     "m.sameOnTypeNames",
     "return",
     "if m.nodeIsScalar()&&!m.sameParentOnTypeNames()",
     "m.nodeIsScalar",
     "m.sameParentOnTypeNames",
     "return",
     "return"] := by decide +kernel

theorem mergeValues_tie : mergeValues =
    ["append",
     "if l.Item.NodeKind()==resolve.NodeKindObject",
     "append"] := by decide +kernel

end GqlVerif.Ties.C01
