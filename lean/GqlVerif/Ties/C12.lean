/-
  Ties.C12 — regenerated lock/guard skeletons of every function that touches a subscription writer (done, complete, error, writeError, sendHeartbeat, executeSubscriptionUpdate, executeSubscriptionHeartbeat), of the subscriptionUpdater callbacks (mutex, done/ctx guard, identity-checked trigger lookup) and of the fan-out functions; each model action is one of these lock regions, each write re-checks removed under writeMu.
  Snapshot ties: each regenerated list (re-extracted from /repo on every run) must equal the list the model was
  written against; a source edit to one of these functions breaks the corresponding theorem at `lake build`.
-/
import GqlVerif.Proto.Subs
import GqlVerif.Generated.C12
namespace GqlVerif.Ties.C12
open GqlVerif.Generated.C12

theorem filterSkipEventGuards_tie : filterSkipEventGuards =
    ["if f == nil",
     "if f.And != nil",
     "range _, filter := f.And",
     "if err != nil",
     "if skip",
     "if f.Or != nil",
     "range _, filter := f.Or",
     "if err != nil",
     "if !skip",
     "if f.Not != nil",
     "if err != nil",
     "if f.In != nil"] := by decide +kernel

theorem fieldFilterSkipEventGuards_tie : fieldFilterSkipEventGuards =
    ["if f == nil",
     "if _err != nil",
     "if expectedDataType == jsonparser.String",
     "if err != nil",
     "if err != nil",
     "range i, _ := f.Values",
     "f.Values[i]",
     "if err != nil",
     "if !bytes.Contains(actualRawBytes, literal.LBRACK) || !bytes.Contains(actualRawBytes, literal.RBRACK)",
     "if len(f.Values[i].Segments) == 1",
     "f.Values[i]",
     "f.Values[i].Segments[0]",
     "f.Values[i]",
     "f.Values[i].Segments[0]",
     "f.Values[i]",
     "if value == nil",
     "f.Values[i].Segments[0]",
     "f.Values[i]",
     "if err != nil",
     "if valueType != jsonparser.NotExist && expectedDataType != valueType",
     "if expectedDataType == valueType",
     "if bytes.Equal(plain, actualRawBytes)",
     "if bytes.Equal(stringified, actualRawBytes)",
     "if bytes.Equal(plain, actualRawBytes)",
     "if matches == nil",
     "if bytes.Equal(plain, actualRawBytes)",
     "if len(matches) != 1 || len(matches[0]) != 2",
     "matches[0]",
     "matches[0][0]",
     "matches[0]",
     "if expectedDataType != dataType",
     "matches[0][0]",
     "matches[0]",
     "if bytes.Equal(expected, replaced)",
     "if arrayMatch"] := by decide +kernel

theorem subDone_tie : subDone =
    ["s.writeMu.Lock",
     "defer:s.writeMu.Unlock",
     "close(s.completed)"] := by decide +kernel

theorem subComplete_tie : subComplete =
    ["s.writeMu.Lock",
     "defer:s.writeMu.Unlock",
     "if s.removed.Load()",
     "s.removed.Load",
     "return",
     "s.writer.Complete"] := by decide +kernel

theorem subError_tie : subError =
    ["s.writeMu.Lock",
     "defer:s.writeMu.Unlock",
     "if s.removed.Load()",
     "s.removed.Load",
     "return",
     "s.writer.Error"] := by decide +kernel

theorem subWriteError_tie : subWriteError =
    ["s.writeMu.Lock",
     "defer:s.writeMu.Unlock",
     "if s.removed.Load()",
     "s.removed.Load",
     "return",
     "w.WriteError"] := by decide +kernel

theorem subSendHeartbeat_tie : subSendHeartbeat =
    ["s.writeMu.Lock",
     "defer:s.writeMu.Unlock",
     "if s.removed.Load()",
     "s.removed.Load",
     "return",
     "return",
     "s.writer.Heartbeat"] := by decide +kernel

theorem executeUpdate_tie : executeUpdate =
    ["if r.options.Debug",
     "if err!=nil",
     "sub.writeError",
     "if r.options.Debug",
     "if r.reporter!=nil",
     "return",
     "if err!=nil",
     "sub.writeError",
     "if r.options.Debug",
     "if r.reporter!=nil",
     "return",
     "if err!=nil",
     "loader.LoadGraphQLResponseData",
     "sub.writeError",
     "if r.options.Debug",
     "if r.reporter!=nil",
     "return",
     "sub.writeMu.Lock",
     "if sub.removed.Load()",
     "sub.removed.Load",
     "sub.writeMu.Unlock",
     "return",
     "if loader.errors!=nil",
     "if resolvable.errors==nil",
     "if err!=nil",
     "resolvable.Resolve",
     "r.errorFormatter.WriteError",
     "sub.writeMu.Unlock",
     "if r.options.Debug",
     "if r.reporter!=nil",
     "return",
     "if err!=nil",
     "sub.writer.Flush",
     "sub.writeMu.Unlock",
     "r.UnsubscribeSubscription",
     "return",
     "sub.lastWriteTime.Store",
     "sub.writeMu.Unlock",
     "if r.options.Debug",
     "if r.reporter!=nil",
     "if resolvable.WroteErrorsWithoutData()&&r.options.Debug"] := by decide +kernel

theorem executeHeartbeat_tie : executeHeartbeat =
    ["if r.options.Debug",
     "if r.ctx.Err()!=nil||sub.ctx.Context().Err()!=nil",
     "sub.ctx.Context",
     "return",
     "if err!=nil",
     "sub.sendHeartbeat",
     "r.UnsubscribeSubscription",
     "return",
     "if r.reporter!=nil"] := by decide +kernel

theorem updUpdate_tie : updUpdate =
    ["s.mu.Lock",
     "defer:s.mu.Unlock",
     "if s.done||s.ctx.Err()!=nil",
     "s.ctx.Err",
     "return",
     "if s.debug",
     "s.resolver.handleTriggerUpdate"] := by decide +kernel

theorem updUpdateSubscription_tie : updUpdateSubscription =
    ["s.mu.Lock",
     "defer:s.mu.Unlock",
     "if s.done||s.ctx.Err()!=nil",
     "s.ctx.Err",
     "return",
     "if s.debug",
     "s.resolver.handleUpdateSubscription"] := by decide +kernel

theorem updComplete_tie : updComplete =
    ["s.mu.Lock",
     "defer:s.mu.Unlock",
     "if s.done||s.ctx.Err()!=nil",
     "s.ctx.Err",
     "if s.debug",
     "return",
     "if s.debug",
     "s.resolver.handleTriggerComplete"] := by decide +kernel

theorem updError_tie : updError =
    ["s.mu.Lock",
     "defer:s.mu.Unlock",
     "if s.done||s.ctx.Err()!=nil",
     "s.ctx.Err",
     "if s.debug",
     "return",
     "if s.debug",
     "s.resolver.handleTriggerError"] := by decide +kernel

theorem updHeartbeat_tie : updHeartbeat =
    ["s.mu.Lock",
     "defer:s.mu.Unlock",
     "if s.done||s.ctx.Err()!=nil",
     "s.ctx.Err",
     "return",
     "if !ok",
     "s.resolver.getTriggerForUpdater",
     "return",
     "s.resolver.heartbeatTriggerSubscriptions"] := by decide +kernel

theorem updDone_tie : updDone =
    ["s.mu.Lock",
     "defer:s.mu.Unlock",
     "if s.done",
     "return",
     "if s.debug",
     "s.resolver.doneTriggerFromUpdater"] := by decide +kernel

theorem updCloseSubscription_tie : updCloseSubscription =
    ["s.mu.Lock",
     "defer:s.mu.Unlock",
     "if s.done||s.ctx.Err()!=nil",
     "s.ctx.Err",
     "if s.debug",
     "return",
     "if s.debug",
     "s.resolver.UnsubscribeSubscription"] := by decide +kernel

theorem getTriggerForUpdater_tie : getTriggerForUpdater =
    ["r.getTrigger",
     "if !ok||trig.updater!=updater",
     "return",
     "return"] := by decide +kernel

theorem handleUpdate_tie : handleUpdate =
    ["r.getTriggerForUpdater",
     "if !ok",
     "return",
     "if r.options.Debug",
     "trig.filterSubscriptions",
     "fe.sub.writeError",
     "if sub.removed.Load()",
     "sub.removed.Load",
     "r.executeSubscriptionUpdate",
     "wg.Go",
     "wg.Wait"] := by decide +kernel

theorem handleUpdateSubscription_tie : handleUpdateSubscription =
    ["r.getTriggerForUpdater",
     "if !ok",
     "return",
     "if r.options.Debug",
     "trig.filterSubscription",
     "if filterErr!=nil",
     "filterErr.sub.writeError",
     "if sub!=nil&&!sub.removed.Load()",
     "sub.removed.Load",
     "r.executeSubscriptionUpdate"] := by decide +kernel

theorem handleComplete_tie : handleComplete =
    ["r.getTriggerForUpdater",
     "if !ok",
     "return",
     "trig.snapshotSubscriptions",
     "if !s.removed.Load()",
     "s.removed.Load",
     "s.complete"] := by decide +kernel

theorem handleError_tie : handleError =
    ["r.getTriggerForUpdater",
     "if !ok",
     "return",
     "trig.snapshotSubscriptions",
     "if !s.removed.Load()",
     "s.removed.Load",
     "s.error"] := by decide +kernel

theorem evalFilter_tie : evalFilter =
    ["if s.ctx.ctx.Err()!=nil",
     "s.ctx.ctx.Err",
     "return",
     "s.resolve.Filter.SkipEvent",
     "if err!=nil",
     "return",
     "if skip",
     "return",
     "return"] := by decide +kernel

theorem filterSubscriptions_tie : filterSubscriptions =
    ["t.mu.Lock",
     "defer:t.mu.Unlock",
     "t.evalFilter",
     "if pending!=nil",
     "if filterErr!=nil"] := by decide +kernel

theorem closeSubs_tie : closeSubs =
    ["s.done"] := by decide +kernel

end GqlVerif.Ties.C12
