/-
  Ties.C13 — regenerated skeletons of every registry mutation (addSubscription, markTriggerInitialized, doneTriggerFromUpdater, removeClient, removeSubscriptionLocked, detachTriggerLocked, shutdownResolver, UnsubscribeSubscription, UnsubscribeClient) with their locking, reporter calls, close/cancel calls, and of the trigger key computation (prepareTrigger, graphql data source HashTriggerInput / Start).
  Snapshot ties: each regenerated list (re-extracted from /repo on every run) must equal the list the model was
  written against; a source edit to one of these functions breaks the corresponding theorem at `lake build`.
-/
import GqlVerif.Proto.Subs
import GqlVerif.Generated.C13
namespace GqlVerif.Ties.C13
open GqlVerif.Generated.C13

theorem addSubscription_tie : addSubscription =
    ["r.mu.Lock",
     "defer:r.mu.Unlock",
     "if r.shutdown",
     "return",
     "if r.options.Debug",
     "if add.ctx.ExecutionOptions.SendHeartbeat",
     "if ok",
     "if r.reporter!=nil",
     "r.reporter.SubscriptionCountInc",
     "if r.options.Debug",
     "r.registerSubscriptionLocked",
     "defer:verifYield",
     "if err!=nil",
     "r.executeStartupHooks",
     "s.writeError",
     "r.UnsubscribeSubscription",
     "return",
     "if r.options.Debug",
     "context.WithCancel",
     "r.registerSubscriptionLocked",
     "if r.reporter!=nil",
     "r.reporter.SubscriptionCountInc",
     "defer:verifYield",
     "if r.options.Debug",
     "r.executeStartupHooks",
     "if err==nil",
     "add.resolve.Trigger.Source.Start",
     "if err!=nil",
     "if r.options.Debug",
     "trig.snapshotSubscriptions",
     "sub.writeError",
     "r.doneTriggerFromUpdater",
     "return",
     "r.markTriggerInitialized",
     "if r.options.Debug",
     "return"] := by decide +kernel

theorem markTriggerInitialized_tie : markTriggerInitialized =
    ["r.mu.Lock",
     "defer:r.mu.Unlock",
     "if !ok||current!=trig",
     "return",
     "trig.initialized.Store",
     "if r.reporter!=nil",
     "r.reporter.TriggerCountInc"] := by decide +kernel

theorem doneTriggerFromUpdater_tie : doneTriggerFromUpdater =
    ["if r.options.Debug",
     "r.mu.Lock",
     "if ok&&trig.updater!=updater",
     "r.mu.Unlock",
     "return",
     "r.detachTriggerLocked",
     "if r.reporter!=nil",
     "r.reporter.SubscriptionCountDec",
     "if res.initialized",
     "r.reporter.TriggerCountDec",
     "r.mu.Unlock",
     "closeSubs",
     "if res.triggerCancel!=nil",
     "res.triggerCancel"] := by decide +kernel

theorem removeClient_tie : removeClient =
    ["r.mu.Lock",
     "defer:r.mu.Unlock",
     "if r.shutdown",
     "return",
     "if r.options.Debug",
     "r.removeSubscriptionLocked",
     "if res.triggerCancel!=nil",
     "if res.initialized",
     "if r.reporter!=nil",
     "r.reporter.SubscriptionCountDec",
     "if res.triggerDec>0",
     "r.reporter.TriggerCountDec",
     "return"] := by decide +kernel

theorem removeSubscriptionLocked_tie : removeSubscriptionLocked =
    ["if !ok",
     "return",
     "if !ok",
     "r.unregisterSubscriptionLocked",
     "return",
     "trig.mu.Lock",
     "if !ok",
     "trig.mu.Unlock",
     "r.unregisterSubscriptionLocked",
     "return",
     "if s.removed.CompareAndSwap()",
     "s.removed.CompareAndSwap",
     "delete",
     "trig.mu.Unlock",
     "r.unregisterSubscriptionLocked",
     "if empty",
     "delete",
     "trig.initialized.Load",
     "return"] := by decide +kernel

theorem detachTriggerLocked_tie : detachTriggerLocked =
    ["if !ok",
     "return",
     "trig.mu.Lock",
     "if s.removed.CompareAndSwap()",
     "s.removed.CompareAndSwap",
     "delete",
     "r.unregisterSubscriptionLocked",
     "trig.mu.Unlock",
     "delete",
     "return",
     "trig.initialized.Load"] := by decide +kernel

theorem shutdownResolver_tie : shutdownResolver =
    ["if r.options.Debug",
     "r.mu.Lock",
     "if r.shutdown",
     "r.mu.Unlock",
     "return",
     "r.detachTriggerLocked",
     "if res.triggerCancel!=nil",
     "if res.initialized",
     "if r.reporter!=nil",
     "r.reporter.SubscriptionCountDec",
     "if triggerDec>0",
     "r.reporter.TriggerCountDec",
     "r.mu.Unlock",
     "closeSubs",
     "cancel",
     "if r.options.Debug"] := by decide +kernel

theorem unsubscribeSubscription_tie : unsubscribeSubscription =
    ["r.mu.Lock",
     "if r.shutdown",
     "r.mu.Unlock",
     "return",
     "r.removeSubscriptionLocked",
     "if r.reporter!=nil",
     "r.reporter.SubscriptionCountDec",
     "if res.triggerCancel!=nil&&res.initialized",
     "r.reporter.TriggerCountDec",
     "r.mu.Unlock",
     "closeSubs",
     "if res.triggerCancel!=nil",
     "res.triggerCancel",
     "return"] := by decide +kernel

theorem unsubscribeClient_tie : unsubscribeClient =
    ["r.removeClient",
     "closeSubs",
     "cancel",
     "return"] := by decide +kernel

theorem prepareTrigger_tie : prepareTrigger =
    ["if err!=nil",
     "source.HashTriggerInput",
     "return",
     "if ctx.SubgraphHeadersBuilder!=nil",
     "ctx.SubgraphHeadersBuilder.HeadersForSubgraph",
     "if headersHash!=0",
     "binary.LittleEndian.PutUint64",
     "keyGen.Write",
     "keyGen.Sum64",
     "return"] := by decide +kernel

theorem gqlHashTriggerInput_tie : gqlHashTriggerInput =
    ["xxh.Write",
     "return"] := by decide +kernel

theorem gqlStart_tie : gqlStart =
    ["json.Unmarshal",
     "if err!=nil",
     "return",
     "if options.Body.Query==\"\"",
     "return",
     "return",
     "s.client.Subscribe"] := by decide +kernel

end GqlVerif.Ties.C13
