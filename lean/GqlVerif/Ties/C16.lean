/-
  Ties.C16 — the regenerated facts (Generated.C16, re-extracted from /repo's source on every run)
  equal the constants the hand-written model uses.  An edit to the extracted parts of the Go code
  makes one of these fail at `lake build`.
-/
import GqlVerif.Misc.CacheControl
import GqlVerif.Generated.C16
namespace GqlVerif.Ties.C16
open GqlVerif.CacheControl GqlVerif.Generated.C16

/-- `isInvalidTokenCharacter` -/
theorem invalidTok_tie : ∀ n, n < 256 →
    invalidTok (UInt8.ofNat n) = (invalidTokenChars.flatten).contains n := by decide +kernel

/-- `matchSingleRuneToken`: EOF sentinel (not a byte), `=`, `,` in this order -/
theorem singleRune_tie : singleRuneTokens = [[], [61], [44]] := by decide +kernel
/-- `readIdent` stops (without error) exactly at `,` `=` SP TAB -/
theorem identDelims_tie : identDelimiters = [[44, 61, 32, 9]] := by decide +kernel
/-- `readString` ends only at `"` (no quoted-pair) -/
theorem stringTerm_tie : stringTerminators = [[34]] := by decide +kernel
/-- the directive switch of `parseIdent`, in order, is what `classify` tests -/
theorem directiveNames_tie :
    directiveNames = [["max-age"], ["s-maxage"], ["no-store"], ["public"], ["no-cache"], ["private"]] := by decide +kernel
theorem classify_tie :
    (directiveNames.flatten.map fun n => classify (s n)) =
      [.maxAge, .sMaxAge, .noStore, .pub, .noCache, .priv] := by decide +kernel
/-- `ParseCacheControlResponse`: header name, join separator, trim cutset, empty test -/
theorem header_tie : headerStrings = ["Cache-Control", ",", "\t\r\n", ""] := by decide +kernel
/-- the order and conditions of the storage decision in `caching.TTL` (mirrored by `ttlOf`) -/
theorem ttlSkeleton_tie : ttlSkeleton =
  ["cache.ParseCacheControlResponse", "if err!=nil", "return", "if cc.NoStore", "return",
   "if cc.NoCache!=nil||cc.Private!=nil", "return", "if !cc.Public", "return",
   "if *cc.SMaxAge<=0", "return", "return", "cc.SMaxAge.AsDuration",
   "if *cc.MaxAge<=0", "return", "return", "cc.MaxAge.AsDuration",
   "if defaultTTL<=0", "return", "return"] := by decide +kernel
/-- `responseCacheCollect` (mirrored by `RespCache.collect`): the storability checks, the count check
    `len(values) != len(keys)`, one pass over the values that skips everything that is not an object, and the key of an
    item is `responseCacheKeys[i]` with `i` the position of the value in the answer -/
theorem collectGuards_tie : collectGuards =
  ["if !l.responseCacheEnabled()",
   "if len(prepared.responseCacheKeys) == 0",
   "if prepared.skipLoad || prepared.responseCacheHit",
   "if res.err != nil || len(res.out) == 0 || res.statusCode >= 400",
   "if err != nil",
   "if errorsPath == nil",
   "if astjson.ValueIsNonNull(errs) && len(errs.GetArray()) > 0",
   "if !ok",
   "if entities == nil || entities.Type() != astjson.TypeArray",
   "if len(values) != len(prepared.responseCacheKeys)",
   "range i, value := values",
   "if value.Type() != astjson.TypeObject",
   "prepared.responseCacheKeys[i]"] := by decide +kernel
/-- `responseCacheLookup` (mirrored by `RespCache.lookup`): no keys = miss, a lookup error = miss, fewer found than asked =
    miss, a missing or empty value = miss, the synthesized array takes `found[key]` in key order -/
theorem lookupGuards_tie : lookupGuards =
  ["if !l.responseCacheEnabled()",
   "if len(keys) == 0",
   "if err != nil",
   "if len(found) != len(keys)",
   "range _, key := keys",
   "found[key]",
   "if !ok || len(item.Value) == 0",
   "range i, key := keys",
   "if i > 0",
   "found[key]"] := by decide +kernel
/-- `responseCacheFlush`: writes exactly what was collected, once; a write error is reported, never returned -/
theorem flushSkeleton_tie : flushSkeleton =
  ["if !l.responseCacheEnabled()", "return", "if len()==0", "return", "if err!=nil",
   "l.ctx.responseCache.store.SetMany", "l.reportResponseCacheError"] := by decide +kernel
end GqlVerif.Ties.C16
