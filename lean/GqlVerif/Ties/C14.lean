/-
  Ties.C14 — the fetch-pruning rule, the per-field check in the validation pre-walk, the decision cache and the collection of protected coordinates the model and the harness' oracles are written against
  Snapshot ties: each regenerated list (re-extracted from /repo on every run) must equal the list the model was
  written against; a source edit to one of these functions breaks the corresponding theorem at `lake build`.
-/
import GqlVerif.Misc.Authz
import GqlVerif.Generated.C14
namespace GqlVerif.Ties.C14
open GqlVerif.Generated.C14

theorem isFetchAuthorizedFromCache_tie : isFetchAuthorizedFromCache =
    ["if l.authorization==nil||info==nil||len()==0",
     "return",
     "if !info.RootFields[].HasAuthorizationRule",
     "l.authorization.denyReason",
     "if !denied",
     "if operationType!=ast.OperationTypeQuery",
     "return",
     "if operationType==ast.OperationTypeQuery&&deniedRootFields==len()",
     "return",
     "return"] := by decide +kernel

theorem isFetchAuthorized_tie : isFetchAuthorized =
    ["if l.ctx.preFetchFieldAuthorizer!=nil",
     "l.fetchOperationType",
     "return",
     "l.isFetchAuthorizedFromCache",
     "if info.OperationType==ast.OperationTypeQuery",
     "return",
     "if l.ctx.authorizer==nil",
     "return",
     "if !info.RootFields[].HasAuthorizationRule",
     "l.ctx.authorizer.AuthorizePreFetch",
     "if err!=nil",
     "return",
     "if reject!=nil",
     "append",
     "return"] := by decide +kernel

theorem validatePreFetch_tie : validatePreFetch =
    ["if info==nil",
     "return",
     "l.isFetchAuthorized",
     "if err!=nil||!allowed",
     "return",
     "return",
     "l.rateLimitFetch"] := by decide +kernel

theorem authorizeField_tie : authorizeField =
    ["if field.Info==nil",
     "return",
     "if !field.Info.HasAuthorizationRule",
     "return",
     "if r.ctx.authorizer==nil&&!r.authorization.preFetchEnabled()",
     "r.authorization.preFetchEnabled",
     "return",
     "if len()==0",
     "return",
     "r.fieldAuthorizationCoordinate",
     "r.authorization.decide",
     "if authErr!=nil",
     "return",
     "if result!=nil",
     "r.addRejectFieldError",
     "return",
     "return"] := by decide +kernel

theorem fieldAuthorizationCoordinate_tie : fieldAuthorizationCoordinate =
    ["if !r.authorization.preFetchEnabled()&&value!=nil",
     "r.authorization.preFetchEnabled",
     "r.objectFieldTypeName",
     "return"] := by decide +kernel

theorem authDecide_tie : authDecide =
    ["authorizationDecisionID",
     "if ok",
     "return",
     "if ok",
     "return",
     "if a.ctx.authorizer==nil",
     "return",
     "a.ctx.authorizer.AuthorizeObjectField",
     "if err!=nil",
     "return",
     "if result==nil",
     "return"] := by decide +kernel

theorem authorizePreFetch_tie : authorizePreFetch =
    ["if a.ctx.preFetchFieldAuthorizer==nil||response==nil||response.Info==nil||len()==0",
     "return",
     "if exists",
     "append",
     "a.ctx.preFetchFieldAuthorizer.AuthorizeFields",
     "if err!=nil",
     "return",
     "if len()!=len()",
     "return",
     "fmt.Errorf",
     "if decision.Allowed",
     "a.seedAllow",
     "a.seedDeny",
     "return"] := by decide +kernel

theorem decisionID_tie : decisionID =
    ["return",
     "xxhash.Sum64String"] := by decide +kernel

theorem collectProcess_tie : collectProcess =
    ["if c.disable",
     "return",
     "if response==nil||response.Info==nil",
     "return",
     "c.collectFetchItem",
     "if response.Fetches!=nil",
     "c.collectFetchItem",
     "if child==nil",
     "c.collectFetchItem",
     "c.collectNode",
     "if len()==0",
     "return",
     "append",
     "if left.DataSourceID!=right.DataSourceID",
     "return",
     "if left.Coordinate.TypeName!=right.Coordinate.TypeName",
     "return",
     "return",
     "sort.Slice"] := by decide +kernel

theorem collectNode_tie : collectNode =
    ["if n==nil",
     "return",
     "if field.Info!=nil&&field.Info.HasAuthorizationRule",
     "c.addCoordinate",
     "c.collectNode",
     "if n==nil",
     "return",
     "c.collectNode"] := by decide +kernel

theorem collectFetchItem_tie : collectFetchItem =
    ["if item==nil||item.Fetch==nil",
     "return",
     "if info==nil",
     "return",
     "if !info.RootFields[].HasAuthorizationRule",
     "c.addCoordinate"] := by decide +kernel

theorem addRootField_tie : addRootField =
    ["if c.fieldIsChildNode()",
     "c.fieldIsChildNode",
     "return",
     "c.walker.EnclosingTypeDefinition.NameString",
     "c.operation.FieldNameString",
     "c.fieldHasAuthorizationRule",
     "c.planners[].ObjectFetchConfiguration",
     "if !slices.Contains()",
     "slices.Contains",
     "append"] := by decide +kernel

theorem fieldIsChildNode_tie : fieldIsChildNode =
    ["c.walker.Path.DotDelimitedString",
     "c.planners[].ParentPath",
     "strings.TrimPrefix",
     "strings.Split",
     "if segment!=\"\"&&!strings.HasPrefix()",
     "strings.HasPrefix",
     "return",
     "return"] := by decide +kernel

end GqlVerif.Ties.C14
