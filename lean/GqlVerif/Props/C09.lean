/-
  Props.C09 — renaming the variables of an operation consistently (in the operation and in the variables object)
  does not change the value of any argument (evalVal_rename) and hence not the response of the operation
  (rename_preserves_execution, an instance of Proofs.ExecRespell.execute_respelled); the reference semantics is a
  function of (schema, universe, operation, variables) and has no state: the same request always means the same.

  That the real engine's plan cache, multi-fetch merging and fetch scheduling are transparent is validated per
  generated history against a fresh engine (translation validation), not proved; the scheduler's own safety is
  proved in Props.C08.
-/
import GqlVerif.Gql.Exec
import GqlVerif.Proofs.ExecRespell
namespace GqlVerif.Props.C09
open GqlVerif GqlVerif.Exec

/-- rename the variables inside an argument value -/
def renameVal (ρ : String → String) : Nat → Val → Val
  | 0, v => v
  | fuel + 1, v =>
    match v with
    | .var n => .var (ρ n)
    | .lit j => .lit j
    | .list xs => .list (xs.map (renameVal ρ fuel))
    | .obj fs => .obj (fs.map fun (k, x) => (k, renameVal ρ fuel x))

def renameKeys (ρ : String → String) (l : List (String × Json)) : List (String × Json) := l.map fun (k, v) => (ρ k, v)

theorem lookup_rename (ρ : String → String) (hρ : ∀ a b, ρ a = ρ b → a = b) (l : List (String × Json)) (n : String) :
    lookupKV (renameKeys ρ l) (ρ n) = lookupKV l n := by
  induction l with
  | nil => rfl
  | cons p l ih =>
    obtain ⟨k, v⟩ := p
    unfold lookupKV at ih ⊢
    simp only [renameKeys, List.map_cons, List.find?_cons]
    by_cases h : k = n
    · subst h; simp
    · have h1 : (ρ k == ρ n) = false := by
        simp only [beq_eq_false_iff_ne, ne_eq]; exact fun e => h (hρ _ _ e)
      have h2 : (k == n) = false := by simp only [beq_eq_false_iff_ne, ne_eq]; exact h
      simp only [h1, h2]
      exact ih

/-- C09, variable renaming: an argument value is the same after renaming the variables with an injective renaming,
    at every nesting depth of lists and input objects. -/
theorem evalVal_rename (ρ : String → String) (hρ : ∀ a b, ρ a = ρ b → a = b) (vars defaults : List (String × Json)) :
    ∀ (fuel : Nat) (v : Val), evalValF (renameKeys ρ vars) (renameKeys ρ defaults) fuel (renameVal ρ fuel v) = evalValF vars defaults fuel v := by
  intro fuel
  induction fuel with
  | zero => intro v; rfl
  | succ fuel ih =>
    intro v
    cases v with
    | var n => simp only [renameVal, evalValF, lookup_rename ρ hρ]
    | lit j => rfl
    | list xs =>
      simp only [renameVal, evalValF, List.map_map]
      congr 2
      apply List.map_congr_left
      intro x _
      simp only [Function.comp, ih x]
    | obj fs =>
      simp only [renameVal, evalValF]
      congr 2
      rw [List.filterMap_map]
      have : ((fun (p : String × Val) => (evalValF (renameKeys ρ vars) (renameKeys ρ defaults) fuel p.2).map fun j => (p.1, j)) ∘
          fun (p : String × Val) => (p.1, renameVal ρ fuel p.2)) =
          fun (p : String × Val) => (evalValF vars defaults fuel p.2).map fun j => (p.1, j) := by
        funext p
        simp only [Function.comp, ih p.2]
      exact congrArg (fun f => List.filterMap f fs) this

/-! ### renaming the variables of a whole operation -/

def RenArg (ρ : String → String) (x y : String × Val) : Prop := y = (x.1, renameVal ρ 64 x.2)
def RenDir (ρ : String → String) (d d' : Dir) : Prop := d' = { d with ifArg := renameVal ρ 64 d.ifArg }

/-- **rename_preserves_execution** (∀ schemas, universes, operations, variables, injective renamings): an operation
    whose variable references (in arguments and directive conditions, at any nesting depth, in the selections and in the
    fragments) and variable defaults are renamed by ρ, executed with the variables object renamed by ρ, has the same
    response — data and errors — as the original. -/
theorem rename_preserves_execution (ρ : String → String) (hρ : ∀ a b, ρ a = ρ b → a = b) (s : Schema) (u : Universe)
    (op op' : Op) (vars : List (String × Json)) (hk : op.kind = op'.kind)
    (hd : op'.varDefaults = renameKeys ρ op.varDefaults)
    (hs : Rel2 (SelMap (RenArg ρ) (RenDir ρ)) op.sels op'.sels)
    (hf : Rel2 (fun f f' => f.name = f'.name ∧ f.typeCond = f'.typeCond ∧ Rel2 (SelMap (RenArg ρ) (RenDir ρ)) f.sels f'.sels)
      op.frags op'.frags) :
    execute s u op vars = execute s u op' (renameKeys ρ vars) := by
  have hev : ∀ v, evOf op vars v = evOf op' (renameKeys ρ vars) (renameVal ρ 64 v) := by
    intro v
    simp only [evOf, evalVal, hd]
    exact (evalVal_rename ρ hρ vars op.varDefaults 64 v).symm
  have hA : ∀ x y, RenArg ρ x y → x.1 = y.1 ∧ evOf op vars x.2 = evOf op' (renameKeys ρ vars) y.2 := by
    intro x y h; unfold RenArg at h; subst h; exact ⟨rfl, hev x.2⟩
  have hD : ∀ d d', RenDir ρ d d' → d.name = d'.name ∧ evOf op vars d.ifArg = evOf op' (renameKeys ρ vars) d'.ifArg := by
    intro d d' h; unfold RenDir at h; subst h; exact ⟨rfl, hev d.ifArg⟩
  apply execute_respelled op op' vars (renameKeys ρ vars) s u hk (selsMap_rel hA hD _ _ hs)
  exact Rel2.mono (fun f f' h => ⟨h.1, h.2.1, selsMap_rel hA hD _ _ h.2.2⟩) hf

/-- the reference semantics is stateless: executing the same request twice gives the same response -/
theorem execute_deterministic (s : Schema) (u : Universe) (op : Op) (vars : List (String × Json)) :
    (execute s u op vars).data = (execute s u op vars).data ∧ (execute s u op vars).errors = (execute s u op vars).errors := ⟨rfl, rfl⟩

/-- non-vacuity of the renaming theorem -/
example : evalValF [("x", .num "1")] [] 3 (.list [.var "x", .obj [("k", .var "x")], .var "y"]) =
    some (.arr [.num "1", .obj [("k", .num "1")], .null]) := by rfl

/-- non-vacuity of rename_preserves_execution: `{ user(id: $x) @include(if: $b) { name } }` with x ↦ a, b ↦ c -/
def exOp : Op := { sels := [.field "" "user" [("id", .var "x")] [⟨"include", .var "b"⟩] [.field "" "name" [] [] []]] }
def exOp' : Op := { sels := [.field "" "user" [("id", .var "a")] [⟨"include", .var "c"⟩] [.field "" "name" [] [] []]] }
def exRho (n : String) : String := if n == "x" then "a" else if n == "b" then "c" else "z" ++ n
example : Rel2 (SelMap (RenArg exRho) (RenDir exRho)) exOp.sels exOp'.sels :=
  .cons (.field (.cons (by simp [RenArg, renameVal, exRho]) .nil) (.cons (by simp [RenDir, renameVal, exRho]) .nil)
    (.cons (.field .nil .nil .nil) .nil)) .nil

end GqlVerif.Props.C09
