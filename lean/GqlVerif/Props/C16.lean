/-
  Props.C16 — property theorems for C16 (an entity is stored only from an explicitly public response,
  never with a refusal directive, with a lifetime no longer than the header's).
  Model: GqlVerif.Misc.CacheControl (tied to the Go code by correspondence + Ties.C16).
  Helper lemmas: Proofs.C16.  Property statements only in this file.
-/
import GqlVerif.Proofs.C16
import GqlVerif.Proofs.C16Resp
namespace GqlVerif.Props.C16
open GqlVerif.CacheControl

/-! ### the engine side: what is collected, written and found again (model: Cache.RespCache, tied to
    `responseCacheCollect` / `responseCacheLookup` / `responseCacheFlush` by the regenerated guard skeletons in Ties.C16 and
    validated against the engine by the cache-transparency histories of the harness) -/

/-- **stored_entity_is_the_answer_at_its_own_position** (∀ batches, ∀ answers): every item handed to the cache pairs an
    object of the `_entities` answer with the key of the SAME position of the batch — an entity is never written under
    another representation's key, wherever nulls sit in the answer. -/
theorem stored_entity_is_the_answer_at_its_own_position (keys : List String) (vals : List (Option String))
    (items : List (String × String)) (h : RespCache.collect keys vals = some items) :
    ∀ kv ∈ items, ∃ i : Nat, keys[i]? = some kv.1 ∧ vals[i]? = some (some kv.2) :=
  RespCache.collect_positional keys vals items h

/-- **cached_batch_is_answered_with_what_was_stored** (∀ stores, ∀ batches of distinct keys): a batch whose answer holds
    an object at every position is, once collected and written, found again as a whole, and the synthesized `_entities`
    array is exactly that answer — the cached response equals the response the subgraph gave. -/
theorem cached_batch_is_answered_with_what_was_stored (s : RespCache.Store) (keys vs : List String) (hn : keys.Nodup)
    (hne : keys ≠ []) (hl : vs.length = keys.length) (hv : ∀ v ∈ vs, v.isEmpty = false) :
    ∃ items, RespCache.collect keys (vs.map some) = some items ∧
      RespCache.lookup (RespCache.setMany s items) keys = some vs :=
  RespCache.roundtrip s keys vs hn hne hl hv

/-- **hit_is_positional** (∀ stores, ∀ batches): whenever a lookup hits, position `i` of the synthesized array is the
    cache's own non-empty entry for key `i`. -/
theorem hit_is_positional (s : RespCache.Store) (keys vs : List String) (h : RespCache.lookup s keys = some vs) :
    vs.length = keys.length ∧
      ∀ (i : Nat) k, keys[i]? = some k → ∃ v, vs[i]? = some v ∧ s.get k = some v ∧ v.isEmpty = false :=
  RespCache.hit_is_positional s keys vs h

/-- **partial_hit_is_a_miss** (∀ stores, ∀ batches): when only part of a batch is cached the lookup misses as a whole and
    the batch is fetched again — a partially cached batch is never answered from the cache. -/
theorem partial_hit_is_a_miss (s : RespCache.Store) (keys : List String) (k : String) (hk : k ∈ keys)
    (hs : s.get k = none) : RespCache.lookup s keys = none :=
  RespCache.partial_is_a_miss s keys k hk hs

/-- **null_entity_is_not_stored** (∀ batches of distinct keys): an entity the subgraph answered with null (or with
    anything that is not an object) is not handed to the cache under its key — a later batch that needs it misses. -/
theorem null_entity_is_not_stored (keys : List String) (vals : List (Option String)) (items : List (String × String))
    (h : RespCache.collect keys vals = some items) (hn : keys.Nodup) (i : Nat) (k : String)
    (hk : keys[i]? = some k) (hv : vals[i]? = some none) : ∀ v, (k, v) ∉ items :=
  RespCache.null_entity_is_not_stored keys vals items h hn i k hk hv

/-- non-vacuity: the answer `[e1, null, e3]` for keys `[k1, k2, k3]` stores e1 under k1 and e3 under k3 (not under k2),
    a later batch `[k1, k2]` misses, `[k1, k3]` hits with `[e1, e3]` -/
example : RespCache.collect ["k1", "k2", "k3"] [some "{1}", none, some "{3}"] = some [("k1", "{1}"), ("k3", "{3}")] := by decide
example : RespCache.lookup (RespCache.setMany [] [("k1", "{1}"), ("k3", "{3}")]) ["k1", "k2"] = none := by decide
example : RespCache.lookup (RespCache.setMany [] [("k1", "{1}"), ("k3", "{3}")]) ["k1", "k3"] = some ["{1}", "{3}"] := by decide

/-- **ttl_safe** (∀ header value lists, ∀ defaults).  `caching.TTL` says "store for t" only if the
    header parses, is explicitly `public`, has none of `no-store` / `no-cache` / `private`, and `t` is
    exactly the header lifetime (s-maxage, else max-age, else the configured default), and `t > 0`. -/
theorem ttl_safe (vs : List Bytes) (d t : Int) (h : ttl vs d = some t) :
    ∃ cc, parseHeader vs = some cc ∧ cc.pub = true ∧ cc.noStore = false ∧ cc.noCache = false ∧
      cc.priv = false ∧ t = specLifetime cc d ∧ 0 < t := by
  unfold ttl at h
  cases hp : parseHeader vs with
  | none => simp [hp] at h
  | some cc => simp [hp] at h; exact ⟨cc, rfl, ttlOf_safe cc d t h⟩

/-- **ttl_complete**: the decision is exactly that (a storable response is never refused). -/
theorem ttl_complete (vs : List Bytes) (d : Int) (cc : CC)
    (hp : parseHeader vs = some cc) (hpub : cc.pub = true) (hns : cc.noStore = false)
    (hnc : cc.noCache = false) (hpr : cc.priv = false) (hpos : 0 < specLifetime cc d) :
    ttl vs d = some (specLifetime cc d) := by
  unfold ttl; rw [hp]; exact ttlOf_complete cc d hpub hns hnc hpr hpos

/-- **flags_exact** (∀ token streams): after a successful parse the four storage-relevant flags are
    set exactly for the directive names that occur in the token stream, where "directive name" is
    defined independently of the parser (an identifier not preceded by `=`), names are compared
    case-insensitively, and occurrences with arguments (`private="x"`, `no-cache=y`, `public=1`) count.
    In particular no spelling, duplicate, argument form or position lets a refusal directive through. -/
theorem flags_exact (toks : List Tok) (cc : CC) (h : parseToks toks {} = some cc) :
    cc.noStore = (dirKinds toks).contains .noStore ∧ cc.pub = (dirKinds toks).contains .pub ∧
    cc.noCache = (dirKinds toks).contains .noCache ∧ cc.priv = (dirKinds toks).contains .priv := by
  have := parse_flags toks {} cc h
  rw [addAll_spec] at this
  simp only [CC.flags, Flags.mk.injEq, Bool.false_or] at this
  exact this

/-- **refusal_never_stored** (∀ byte strings): if the (trimmed, joined) header value lexes and any
    directive name in it is `no-store`, `no-cache` or `private` in any letter case — with or without an
    argument, anywhere in the list — nothing is stored; and if no directive name is `public`, nothing
    is stored either. -/
theorem refusal_never_stored (vs : List Bytes) (d : Int) (toks : List Tok)
    (hne : (trim (joinComma vs)).isEmpty = false)
    (hl : tokenize (trim (joinComma vs)) = some toks)
    (hr : (dirKinds toks).contains .noStore = true ∨ (dirKinds toks).contains .noCache = true ∨
          (dirKinds toks).contains .priv = true ∨ (dirKinds toks).contains .pub = false) :
    ttl vs d = none := by
  cases ht : ttl vs d with
  | none => rfl
  | some t =>
    obtain ⟨cc, hp, hpub, hns, hnc, hpr, _, _⟩ := ttl_safe vs d t ht
    unfold parseHeader at hp
    simp [hne, hl] at hp
    obtain ⟨h1, h2, h3, h4⟩ := flags_exact toks cc hp
    rw [← h1, ← h2, ← h3, ← h4] at hr
    simp [hpub, hns, hnc, hpr] at hr

/-- the names the classifier recognises are exactly the six RFC 9111 directive spellings -/
theorem classify_names (x : Bytes) :
    (classify x = .noStore ↔ x = s "no-store") ∧ (classify x = .pub ↔ x = s "public") ∧
    (classify x = .noCache ↔ x = s "no-cache") ∧ (classify x = .priv ↔ x = s "private") ∧
    (classify x = .maxAge ↔ x = s "max-age") ∧ (classify x = .sMaxAge ↔ x = s "s-maxage") :=
  classify_eq x

/-- **lifetime_bounded**: a lifetime taken from the header never exceeds 2^31-1 seconds (RFC 9111
    §1.2.2 clamping), so the duration arithmetic cannot overflow int64 nanoseconds. -/
theorem lifetime_bounded (a : Arg) (v : Nat) (h : deltaSeconds a = some v) :
    v ≤ maxInt32 ∧ Int.ofNat v * second < 2 ^ 63 := by
  have hv : v ≤ maxInt32 := by
    unfold deltaSeconds at h
    split at h
    · simp at h
    · split at h
      · simp at h
      · simp at h; subst h; exact Nat.min_le_right _ _
  refine ⟨hv, ?_⟩
  unfold maxInt32 at hv
  unfold second
  simp only [Int.ofNat_eq_natCast]
  omega

/-- no input makes the model get stuck: the decision function is total (definitional), and an
    empty / whitespace-only header stores nothing. -/
theorem empty_header_not_stored (d : Int) : ttl [] d = none := by
  simp [ttl, parseHeader, joinComma, trim, trimLeft, ttlOf]

/-! Non-vacuity: concrete headers meeting the hypotheses above. -/
example : ttl [s "public, max-age=60"] 5 = some (60 * second) := by decide
example : ttl [s "public, s-maxage=10, max-age=60"] 5 = some (10 * second) := by decide
example : ttl [s "public"] 5 = some 5 := by decide
example : ttl [s "Public, No-Store"] 5 = none := by decide
example : ttl [s "public, private=\"x\""] 5 = none := by decide
example : ttl [s "max-age=60"] 5 = none := by decide
example : ttl [s "public, max-age=0"] 5 = none := by decide
example : ttl [s "public", s "no-cache"] 5 = none := by decide

end GqlVerif.Props.C16
