/-
  Props.C05 — property theorems for C05 (lexing is total, in bounds and makes progress; the
  depth/field limits of TokenizeWithLimits are sound).  Model: GqlVerif.Gql.Lex.
  The parser and the printer are not modelled in Lean; their clauses of C05 (references in bounds
  after parsing, print/parse round trip, fixpoint) are evaluated on the implementation by the
  harness and are NOT covered by a theorem (see evidence / DESIGN.md).
-/
import GqlVerif.Proofs.C05
import GqlVerif.Proofs.C05Limits
namespace GqlVerif.Props.C05
open GqlVerif.Lex

/-- **lex_total** is definitional (every model function is a total Lean function by structural
    recursion).  **lex_progress** (∀ byte strings, ∀ positions): a `Read` that does not return EOF
    consumes at least one byte, stays inside the input, and its literal satisfies
    `pos ≤ start ≤ stop ≤ newPos ≤ size`; in particular the `uint32` arithmetic
    `End = pos − 3 − whitespaceCount`, `Start += leadingWhitespace` of the block-string reader never
    underflows or crosses. -/
theorem lex_progress (inp : Input) (pos : Nat) (h : pos ≤ inp.size) :
    let r := read inp pos
    pos ≤ r.1.start ∧ r.1.start ≤ r.1.stop ∧ r.1.stop ≤ r.2 ∧ r.2 ≤ inp.size ∧ (r.1.kw ≠ .eof → pos < r.2) :=
  read_good inp pos h

/-- **lex_bounds** (∀ byte strings): every token of `Tokenize` has `start ≤ stop ≤ len(input)`. -/
theorem lex_bounds (inp : Input) : ∀ t ∈ tokenize inp, t.start ≤ t.stop ∧ t.stop ≤ inp.size := by
  intro t ht
  have := tokenizeFrom_bounds inp (inp.size + 1) 0 (Nat.zero_le _) t ht
  omega

/-- **lex_monotone** (∀ byte strings): tokens are emitted in input order and never overlap. -/
theorem lex_monotone (inp : Input) : (tokenize inp).Pairwise (fun a b => a.stop ≤ b.start) :=
  tokenizeFrom_sorted inp (inp.size + 1) 0 (Nat.zero_le _)

/-- **lex_terminates**: the model's fuel `size + 1` is never the reason the tokenizer stops — with
    any larger fuel the result is the same (so the Go loop, which has no fuel, terminates after at
    most `size + 1` reads). -/
theorem lex_terminates (inp : Input) (extra : Nat) :
    tokenizeFrom inp (inp.size + 1 + extra) 0 = tokenize inp := by
  induction extra with
  | zero => rfl
  | succ n ih =>
    rw [← ih]
    exact (tokenizeFrom_fuel inp (inp.size + 1 + n) 0 (Nat.zero_le _) (by omega)).symm

/-- **limits_depth_sound** (∀ token streams, ∀ limits): if `TokenizeWithLimits` accepts with a depth
    limit `D > 0`, then after *every* prefix of the token stream the brace nesting is at most `D`.
    The selection depth of any document parsed from these tokens is bounded by the brace nesting
    (each selection set is enclosed in one pair of braces), so a document deeper than `D` is never
    accepted. -/
theorem limits_depth_sound (inp : Input) (D F d : Int) (f : Nat) (hD : 0 < D)
    (h : tokenizeWithLimits inp D F = .ok d f) :
    ∀ pre, pre <+: limInput inp → net pre ≤ D := by
  intro pre hpre
  have := limRun_depth D F hD (limInput inp) {} 0 d f h (by simp) (by simp) (by omega) pre hpre
  omega

/-- **limits_fields_sound** (∀ token streams, ∀ limits): an accepted run reports exactly
    `fieldCount` fields — every identifier that stands inside braces, is not the name right after a
    spread, and is not a definition keyword at top level — and with a field limit `F > 0` that number is
    at most `F`.  (Every field of a parsed selection set is such an identifier: aliases, argument
    names and enum values make it an over-approximation, never an under-approximation.) -/
theorem limits_fields_sound (inp : Input) (D F d : Int) (f : Nat)
    (h : tokenizeWithLimits inp D F = .ok d f) :
    f = fieldCount (limInput inp) 0 false ∧ (0 < F → (f : Int) ≤ F) := by
  have := limRun_fields D F (limInput inp) {} d f h
  simp at this
  exact ⟨this.1, fun hF => this.2 hF (by simpa using Int.le_of_lt hF)⟩

/-! Non-vacuity and witnesses (closed terms, evaluated by the kernel). -/

def inputOf (s : String) : Input := (asciiBytes s).toArray

/-- a field named `query` inside a selection set is counted (the repaired behaviour, fix 652c3f7) -/
example : tokenizeWithLimits (inputOf "{ query a b c d e f g }") 0 3 = .fieldsExceeded 2 4 := by decide +kernel
example : tokenizeWithLimits (inputOf "query Q { a { b } } fragment F on T { c }") 5 10 = .ok 3 3 := by decide +kernel
example : tokenizeWithLimits (inputOf "{ a { b { c } } }") 2 0 = .depthExceeded 5 2 := by decide +kernel

/-- **finding_C05_blockstring_witness** (open known finding C05-blockstring-quote-whitespace): the model
    exhibits the defect of the unchanged code — in `"""  "  """` the literal of the block string is
    the single byte range [3,4) (a space), the quote is lost, because a quote does not reset the
    trailing-whitespace counter. -/
theorem finding_C05_blockstring_witness :
    tokenize (inputOf "\"\"\"  \"  \"\"\"") = [⟨.blockstring, 3, 4⟩] := by decide +kernel

/-- **finding_C05_nul_witness** (open known finding C05-nul-terminates-tokens): a NUL byte ends the
    token stream silently. -/
theorem finding_C05_nul_witness :
    tokenize (#[97, 0, 98] : Input) = [⟨.ident, 0, 1⟩] := by decide +kernel

end GqlVerif.Props.C05
