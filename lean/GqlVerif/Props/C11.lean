/-
  Props.C11 — property theorems for C11 (request de-duplication is transparent and never wedges or
  crashes), inbound single flight.  Model: GqlVerif.Proto.SingleFlight (`step`), the repaired protocol
  (fix fb02889: a follower that finds no published data resolves on its own).

  All theorems quantify over every reachable state: ANY number of participants, ANY interleaving of
  arrivals, registrations, leader completions (ok / error), wake-ups and follower cancellations.
-/
import GqlVerif.Proofs.C11
namespace GqlVerif.Props.C11
open GqlVerif.SingleFlight

/-- **no_double_close** — the process never panics with "close of closed channel": no entry's Done
    channel is ever closed twice. -/
theorem no_double_close (s : St) (h : Reach s) : ∀ g e, s.entries g = some e → e.closed ≤ 1 :=
  (inv_reach s h).closedLe

/-- **follower_reads_published_data** — a follower that returns shared bytes returns the bytes its
    leader published, and reads them only after the close that follows the write (no partially
    written buffer), from an entry without error. -/
theorem follower_reads_published_data (s : St) (h : Reach s) (t g : Nat) (hp : s.pcs t = .gotData g) :
    ∃ e, s.entries g = some e ∧ e.closed ≥ 1 ∧ e.dataSet = true ∧ e.err = none :=
  (inv2_reach s h).data t g hp

/-- **err_provenance** — an error a follower returns from the shared work is the shared work's own
    failure or the cancellation of that entry's LEADER; never the cancellation of a third
    participant, never an error that was not published. -/
theorem err_provenance (s : St) (h : Reach s) (t g : Nat) (src : ErrSrc) (hp : s.pcs t = .gotErr g src) :
    ∃ e, s.entries g = some e ∧ (src = .upstream ∨ src = .cancelOf e.creator) := by
  obtain ⟨e, he, _, herr⟩ := (inv2_reach s h).err t g src hp
  exact ⟨e, he, (inv_reach s h).errProv g e src he herr⟩

/-- the full statement "one client's disconnect never becomes another client's error" -/
def no_foreign_cancel_statement : Prop :=
  ∀ s, Reach s → ∀ t g u, s.pcs t = .gotErr g (.cancelOf u) → u = t

/-- **finding_C11_leader_cancel_witness** (open known finding C11-leader-cancel-leaks): the full
    statement is FALSE for the code as it is — when the leader's own client disconnects, the leader
    publishes its context error and a waiting follower returns it.  Six steps, two participants. -/
theorem finding_C11_leader_cancel_witness : ¬ no_foreign_cancel_statement := by
  intro hall
  have hrun : (run St.init [.arrive 0, .arrive 1, .addFollower 1, .finishErrDelete 0 (.cancelOf 0),
      .finishErrClose 0, .wake 1]).map (fun s => s.pcs 1) = some (.gotErr 0 (.cancelOf 0)) := by decide
  cases hr : run St.init [.arrive 0, .arrive 1, .addFollower 1, .finishErrDelete 0 (.cancelOf 0),
      .finishErrClose 0, .wake 1] with
  | none => rw [hr] at hrun; simp at hrun
  | some s =>
    rw [hr] at hrun; simp at hrun
    have := hall s ⟨_, hr⟩ 1 0 0 hrun
    omega

/-- **no_foreign_cancel_partial** — what does hold: the only foreign cancellation a follower can ever
    see is the leader's; if leaders publish only upstream failures, no follower sees any cancellation. -/
theorem no_foreign_cancel_partial (s : St) (h : Reach s) (t g u : Nat)
    (hp : s.pcs t = .gotErr g (.cancelOf u)) : ∃ e, s.entries g = some e ∧ u = e.creator := by
  obtain ⟨e, he, hsrc⟩ := err_provenance s h t g _ hp
  rcases hsrc with h1 | h1
  · cases h1
  · cases h1; exact ⟨e, he, rfl⟩

/-- **never_wedged** — a waiting follower can always be completed without anybody being cancelled:
    either its entry is already closed (the wake-up is enabled now) or the entry's leader is still
    running and each of its remaining steps is enabled (at most three), after which the wake-up is
    enabled.  In particular the leader never needs a step of the follower. -/
theorem never_wedged (s : St) (h : Reach s) (t g : Nat) (hp : s.pcs t = .waiting g) :
    ∃ e, s.entries g = some e ∧
      (e.closed ≥ 1 ∨ (e.closed = 0 ∧ (s.pcs e.creator).owns g = true ∧ e.creator ≠ t)) := by
  obtain ⟨e, he⟩ := (inv3_reach s h).known t g (Or.inl hp)
  refine ⟨e, he, ?_⟩
  by_cases hc : e.closed = 0
  · right
    have hl := (inv3_reach s h).live g e he hc
    refine ⟨hc, hl, ?_⟩
    intro heq
    rw [heq, hp] at hl
    simp [Pc.owns] at hl
  · left; omega

/-- every leader-side step is enabled whenever the leader is at it (the leader is never blocked) -/
theorem leader_never_blocked (s : St) (h : Reach s) (t g : Nat) (hown : (s.pcs t).owns g = true) :
    (step s (.finishOkDelete t)).isSome ∨ (step s (.finishOkCheck t)).isSome ∨
    (step s (.finishOkClose t)).isSome ∨ (step s (.finishErrClose t)).isSome := by
  obtain ⟨e, he, _, _⟩ := (inv_reach s h).owner t g hown
  rcases owns_cases hown with hp | hp | hp | hp
  · left; simp [step, hp]
  · right; left; simp [step, hp, he]
  · right; right; left; simp [step, hp, he]
  · right; right; right; simp [step, hp, he]

/-- a closed entry with a waiting follower: the wake-up is enabled -/
theorem wake_enabled (s : St) (t g : Nat) (e : Entry) (hp : s.pcs t = .waiting g)
    (he : s.entries g = some e) (hc : e.closed ≥ 1) : (step s (.wake t)).isSome := by
  have hpos : e.closed > 0 := by omega
  simp only [step, hp, he, hpos, if_true]
  cases e.err with
  | some src => simp
  | none =>
    cases e.dataSet <;> simp

/-! ### Non-vacuity: concrete reachable executions (kernel-evaluated) -/

/-- leader 0 with an early follower 1: the follower receives the data -/
example : (run St.init [.arrive 0, .arrive 1, .addFollower 1, .finishOkDelete 0, .finishOkCheck 0,
    .finishOkClose 0, .wake 1]).map (fun s => s.pcs 1) = some (.gotData 0) := by decide

/-- the late follower of the repaired protocol: registers after the leader looked, finds no data,
    resolves on its own; the entry is closed exactly once -/
example : (run St.init [.arrive 0, .arrive 1, .finishOkDelete 0, .finishOkCheck 0, .finishOkClose 0,
    .addFollower 1, .wake 1]).map (fun s => (s.pcs 1, (s.entries 0).map (·.closed))) = some (.solo, some 1) := by decide

/-- a new leader can start while an old follower is still parked (generations) -/
example : (run St.init [.arrive 0, .arrive 1, .finishOkDelete 0, .arrive 2]).map (fun s => s.pcs 2) =
    some (.leader 1) := by decide

end GqlVerif.Props.C11
