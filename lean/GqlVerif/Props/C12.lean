/-
  Props.C12 — subscription delivery stops at completion, completion is signalled exactly once, and what has been
  delivered is never rewritten; stated over every reachable state of the transition system Proto.Subs (any number of
  subscribers, triggers, connections; every interleaving of the modelled lock regions).

  Ordering (Proofs.C12Ord, proved over `step` directly): in every reachable state the data messages written to one
  subscriber belong to the subscriber's own trigger generation, carry strictly increasing event numbers (in order, none
  twice), are events that pass its filter, and none is numbered above the trigger's last event.

  The filter decision (Misc.SubFilter, the meaning of "passes its filter"; the driver evaluates it for every generated
  filter tree and the harness compares SkipEvent with it): And skips when one child skips, Or when all do, Not inverts;
  an IN condition passes exactly when the event has the field and some listed value matches it by type and value —
  which value of the list it is, and in which order the values are listed, is irrelevant.

  Not proved here (see DESIGN.md, C12): that every event which passes the filter IS delivered to a subscriber that
  stays registered (liveness of a fan-out: the model lets `fanOne` happen, it does not force it), and that each
  message is the response the event would produce for that subscriber alone (the payload is abstracted to the event
  number); both are checked against the implementation by exact log comparison.  Mutual exclusion of writer calls is an
  atomicity assumption of the model that the harness observes on the implementation.
-/
import GqlVerif.Proofs.C12
import GqlVerif.Proofs.C12Ord
import GqlVerif.Proofs.C12Filter
namespace GqlVerif.Props.C12
open GqlVerif.Subs

/-- Once a subscription has been removed (unsubscribed, client removed, trigger done, start failed, shutdown) nothing
    further is ever written to its writer — no data, heartbeat, error report, error or complete — whatever happens next. -/
theorem nothing_after_removed {s s' : St} (hs : Reach s) (as : List Act) (h : run s as = some s')
    (i : Nat) (x : Sub) (hx : s.subs i = some x) (hr : x.removed = true) :
    ∃ x', s'.subs i = some x' ∧ x'.removed = true ∧ x'.log = x.log := by
  obtain ⟨x', h1, h2⟩ := prims_subs (run_prims (reach_prims hs).2 as h).1 i x hx
  exact ⟨x', h1, h2.removed_mono hr, h2.frozen hr⟩

/-- What has been written to a subscriber is never taken back or reordered: later logs extend earlier ones, and a
    subscriber never changes trigger, key or connection. -/
theorem delivered_is_final {s s' : St} (hs : Reach s) (as : List Act) (h : run s as = some s')
    (i : Nat) (x : Sub) (hx : s.subs i = some x) :
    ∃ x', s'.subs i = some x' ∧ x.log <+: x'.log ∧ x'.gen = x.gen ∧ x'.key = x.key ∧ x'.conn = x.conn := by
  obtain ⟨x', h1, h2⟩ := prims_subs (run_prims (reach_prims hs).2 as h).1 i x hx
  exact ⟨x', h1, h2.pref, h2.gen, h2.key, h2.conn⟩

/-- **data_in_order**: in every reachable state, the data messages in a subscriber's writer log are events of the
    subscriber's own trigger generation with strictly increasing event numbers — the order in which the source emitted
    them, and no event twice — whatever other subscribers, triggers and connections did in between. -/
theorem data_in_order {s : St} (hs : Reach s) (i : Nat) (x : Sub) (hx : s.subs i = some x) :
    (∀ p ∈ dataCalls x.log, p.1 = x.gen) ∧ ((dataCalls x.log).map (·.2)).Pairwise (· < ·) :=
  ⟨((ord_reach hs).sub i x hx).gen, ((ord_reach hs).sub i x hx).sorted⟩

/-- **delivered_at_most_once**: no event number occurs twice among a subscriber's data messages. -/
theorem delivered_at_most_once {s : St} (hs : Reach s) (i : Nat) (x : Sub) (hx : s.subs i = some x) :
    ((dataCalls x.log).map (·.2)).Nodup :=
  (data_in_order hs i x hx).2.imp (fun h => Nat.ne_of_lt h)

/-- **delivered_passed_filter**: every delivered event passes the subscriber's own filter (SkipEvent said no skip). -/
theorem delivered_passed_filter {s : St} (hs : Reach s) (i : Nat) (x : Sub) (hx : s.subs i = some x) :
    ∀ p ∈ dataCalls x.log, x.passes p.2 = true :=
  ((ord_reach hs).sub i x hx).pass

/-- **delivered_not_beyond_last_event**: a subscriber never holds an event its trigger has not emitted yet. -/
theorem delivered_not_beyond_last_event {s : St} (hs : Reach s) (i : Nat) (x : Sub) (hx : s.subs i = some x)
    (G : Gen) (hG : s.gens x.gen = some G) : ∀ p ∈ dataCalls x.log, p.2 ≤ G.lastEvent :=
  ((ord_reach hs).sub i x hx).le G hG

/-! ### the filter decision -/

open GqlVerif.SubFilter in
/-- **and_skips_iff_some_child_skips**, **or_skips_iff_all_children_skip**, **not_inverts** -/
theorem filter_connectives (event vars : List (String × GqlVerif.Json)) (fs : List Filter) (f : Filter) :
    (SubFilter.skip event vars (.and fs) = true ↔ ∃ g ∈ fs, SubFilter.skip event vars g = true) ∧
    (SubFilter.skip event vars (.or fs) = true ↔ ∀ g ∈ fs, SubFilter.skip event vars g = true) ∧
    SubFilter.skip event vars (.not f) = !SubFilter.skip event vars f := by
  refine ⟨?_, ?_, ?_⟩
  · unfold SubFilter.skip
    simp only [passes, Bool.not_eq_true']
    constructor
    · intro h
      have : ¬ (∀ g ∈ fs, passes event vars g = true) := by
        intro hall; rw [(passesAll_iff event vars fs).mpr hall] at h; cases h
      apply Classical.byContradiction
      intro hne
      apply this
      intro g hg
      cases hp : passes event vars g with
      | true => rfl
      | false => exact absurd ⟨g, hg, hp⟩ hne
    · rintro ⟨g, hg, hp⟩
      cases hall : passesAll event vars fs with
      | false => rfl
      | true => have := (passesAll_iff event vars fs).mp hall g hg; rw [this] at hp; cases hp
  · unfold SubFilter.skip
    simp only [passes, Bool.not_eq_true']
    constructor
    · intro h g hg
      cases hp : passes event vars g with
      | false => rfl
      | true => have := (passesAny_iff event vars fs).mpr ⟨g, hg, hp⟩; rw [this] at h; cases h
    · intro h
      cases hany : passesAny event vars fs with
      | false => rfl
      | true =>
        obtain ⟨g, hg, hp⟩ := (passesAny_iff event vars fs).mp hany
        have := h g hg; rw [hp] at this; cases this
  · unfold SubFilter.skip; simp [passes]

open GqlVerif.SubFilter in
/-- **in_passes_iff_some_value_matches**: an IN condition passes exactly when the event has the field and some listed
    value (a static value, a variable, or an element of an array-valued variable) equals it in type and value. -/
theorem in_passes_iff_some_value_matches (event vars : List (String × GqlVerif.Json)) (field : String) (values : List FV) :
    passes event vars (.isIn field values) = true ↔
      ∃ fv, lookup event field = some fv ∧ ∃ v ∈ values, ∃ j, valueOf vars v = some j ∧ matchesValue fv j = true := by
  simp only [passes]; exact inPasses_iff event vars field values

open GqlVerif.SubFilter in
/-- **in_ignores_position_and_order**: two value lists with the same members decide alike — the decision does not
    depend on where in the list the matching value stands (the two repaired defects 971143d and 4fdac57 broke this). -/
theorem in_ignores_position_and_order (event vars : List (String × GqlVerif.Json)) (field : String) (vs ws : List FV)
    (h : ∀ v, v ∈ vs ↔ v ∈ ws) :
    passes event vars (.isIn field vs) = passes event vars (.isIn field ws) := by
  have key : ∀ (xs ys : List FV), (∀ v, v ∈ xs → v ∈ ys) →
      passes event vars (.isIn field xs) = true → passes event vars (.isIn field ys) = true := by
    intro xs ys hsub hp
    obtain ⟨fv, hf, v, hv, j, hj, hm⟩ := (in_passes_iff_some_value_matches event vars field xs).mp hp
    exact (in_passes_iff_some_value_matches event vars field ys).mpr ⟨fv, hf, v, hsub v hv, j, hj, hm⟩
  cases h1 : passes event vars (.isIn field vs) with
  | true => exact (key vs ws (fun v hv => (h v).mp hv) h1).symm
  | false =>
    cases h2 : passes event vars (.isIn field ws) with
    | false => rfl
    | true => have := key ws vs (fun v hv => (h v).mpr hv) h2; rw [h1] at this; cases this

/-- non-vacuity: IN s ["a", $v] with $v = ["b", "x\"y"] on events with s = x"y / a / c -/
example : SubFilter.passes [("s", .str "x\"y")] [("v", .arr [.str "b", .str "x\"y"])]
    (.isIn "s" [.static (.str "a"), .var "v"]) = true := by decide
example : SubFilter.passes [("s", .str "c")] [("v", .arr [.str "b"])] (.isIn "s" [.static (.str "a"), .var "v"]) = false := by decide
example : SubFilter.skip [("s", .str "a")] [] (.not (.or [.isIn "s" [.static (.str "a")], .isIn "t" [.static (.num "1")]])) = true := by decide

/-- The completed channel of a subscriber is closed at most once (a second close would be a Go panic), and only after
    the subscriber was removed. -/
theorem completed_at_most_once {s : St} (hs : Reach s) (i : Nat) (x : Sub) (hx : s.subs i = some x) :
    x.closed ≤ 1 ∧ (0 < x.closed → x.removed = true) := by
  have := (closeInv_reach hs).acct i x hx
  constructor
  · split at this <;> omega
  · intro hc
    cases hr : x.removed with
    | true => rfl
    | false => rw [hr] at this; simp at this; omega

/-- Completion is signalled exactly once: when no close is pending any more, a removed subscriber's channel has been
    closed exactly once, and a subscriber that was not removed has not been completed. -/
theorem completed_exactly_once {s : St} (hs : Reach s) (hq : s.pendClose = []) (i : Nat) (x : Sub) (hx : s.subs i = some x) :
    x.closed = (if x.removed then 1 else 0) := by
  have := (closeInv_reach hs).acct i x hx
  rw [hq] at this
  simpa using this

/-- One fan-out write delivers exactly one message to a subscriber that is still subscribed, and nothing to a removed one. -/
theorem fan_write_exact (g : Nat) (k : Kind) (x : Sub) :
    (x.removed = true → (fanWrite g k false x).log = x.log) ∧
    (x.removed = false → (fanWrite g k false x).log = x.log ++ [callOf g k]) := by
  constructor
  · intro h; simp [fanWrite, h]
  · intro h
    cases k <;> simp [fanWrite, h, callOf]

/-- A data fan-out selects exactly the registered subscribers of the updater's own trigger whose filter passes the
    event and whose request context is still alive, and it cannot start before the previous one has ended. -/
theorem fan_selects_exactly {s s' : St} (g n : Nat) (only : Option Nat) (h : step s (.fanBegin g (.data n) only) = some s') :
    (∃ G, s.gens g = some G ∧ G.fan = none ∧ G.done = false ∧ G.cancelled = false ∧ G.lastEvent < n) ∧
    (s'.gens g).bind (·.fan) = some (.data n, s.selected g n only) := by
  simp only [step] at h
  split at h
  · next G hG =>
    split at h
    · next hc =>
      split at h
      · next hn =>
        cases h
        exact ⟨⟨G, hG, hc.2.2, hc.1, hc.2.1, hn⟩, by simp [upd]⟩
      · cases h
    · cases h
  · cases h

/-- who is selected: exactly the registered subscribers of that trigger (just the addressed one for
    UpdateSubscription) whose filter passes the event and whose own request context is alive -/
theorem mem_selected (s : St) (g n : Nat) (only : Option Nat) (i : Nat) :
    i ∈ s.selected g n only ↔
      (i ∈ s.byID ∧ s.genOf i = some g ∧ (only = none ∨ only = some i) ∧
       ∃ x, s.subs i = some x ∧ x.passes n = true ∧ x.ctxDone = false) := by
  unfold St.selected St.members
  simp only [List.mem_filter, Bool.and_eq_true, beq_iff_eq]
  constructor
  · rintro ⟨⟨h1, h2⟩, h3, h4⟩
    refine ⟨h1, h2, ?_, ?_⟩
    · cases only with
      | none => exact Or.inl rfl
      | some j => simp at h3; exact Or.inr (by rw [h3])
    · cases hx : s.subs i with
      | none => simp [hx] at h4
      | some x => simp [hx] at h4; exact ⟨x, rfl, h4.1, h4.2⟩
  · rintro ⟨h1, h2, h3, x, hx, h4, h5⟩
    refine ⟨⟨h1, h2⟩, ?_, ?_⟩
    · rcases h3 with rfl | rfl <;> simp
    · simp [hx, h4, h5]

/-- a fan-out ends only when every selected subscriber has been visited -/
theorem fan_ends_when_all_visited {s s' : St} (g : Nat) (h : step s (.fanEnd g) = some s') :
    ∃ G k, s.gens g = some G ∧ G.fan = some (k, []) := by
  simp only [step] at h
  split at h
  · next G hG =>
    split at h
    · next k hf => exact ⟨G, k, hG, hf⟩
    · cases h
  · cases h

/-! non-vacuity: a concrete history (two subscribers share a trigger, one leaves during a fan-out) -/

def demo : List Act :=
  [.subscribe 0 7 1 none false, .startCall 0, .startOk 0, .subscribe 1 7 2 (some [1]) true,
   .fanBegin 0 (.data 1) none, .fanOne 0 0 false, .unsubscribe 0, .fanOne 0 1 false, .fanEnd 0, .close 0,
   .fanBegin 0 (.data 2) none, .fanEnd 0, .fanBegin 0 .complete none, .fanOne 0 1 false, .fanEnd 0, .done 0, .close 1, .cancel 0]

example : ((run St.init demo).bind (·.subs 0)).map (fun x => (x.log, x.removed, x.closed)) = some ([.data 0 1], true, 1) := by decide
example : ((run St.init demo).bind (·.subs 1)).map (fun x => (x.log, x.removed, x.closed)) = some ([.data 0 1, .complete], true, 1) := by decide

/-- a history in which one subscriber receives several events (6 and 11 pass its filter, 7 does not) -/
def demoOrder : List Act :=
  [.subscribe 0 7 1 (some [1]) false, .startCall 0, .startOk 0,
   .fanBegin 0 (.data 6) none, .fanOne 0 0 false, .fanEnd 0,
   .fanBegin 0 (.data 7) none, .fanEnd 0,
   .fanBegin 0 (.data 11) none, .fanOne 0 0 false, .fanEnd 0]

example : ((run St.init demoOrder).bind (·.subs 0)).map (fun x => dataCalls x.log) = some [(0, 6), (0, 11)] := by decide
/-- the guards the ordering rests on: an event number that is not larger than the last one cannot start a fan-out, and a
    subscriber is written to once per fan-out -/
example : run St.init (demoOrder ++ [.fanBegin 0 (.data 11) none]) = none := by decide
example : run St.init (demoOrder.take 5 ++ [.fanOne 0 0 false]) = none := by decide

end GqlVerif.Props.C12
