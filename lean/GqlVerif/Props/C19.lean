/-
  Props.C19 — the WebSocket subscription server, on every client frame sequence and every interleaving with the
  operation goroutines and timers (transition system Proto.WsServer).

  The last sentence of the property ("every started operation yields its data messages followed by exactly one
  terminal message, and nothing is sent for an id after the server's terminal message for it") is FALSE for the
  current engine: the statement is kept as `TerminalDiscipline`, refuted by kernel-checked witnesses below and recorded
  as known findings (see DESIGN.md, C19); what holds is proved: the handshake and close-code rules, that a closed
  connection is final, that no operation starts or delivers before the acknowledged init, and that output is
  append-only.
-/
import GqlVerif.Proofs.C19
namespace GqlVerif.Props.C19
open GqlVerif.WsServer

/-- graphql-transport-ws: no operation is started before a successful connection_init. -/
theorem no_start_before_init {s : St} (h : Reach .transport s) : ∀ p ∈ s.starts, p.2 = true := (tinv_reach h).starts

/-- graphql-transport-ws: no operation result reaches the client before connection_ack was sent. -/
theorem no_result_before_ack {s : St} (h : Reach .transport s) (id : String) (t : Nat) (hm : Out.next id t ∈ s.out) :
    Out.ack ∈ s.out := (tinv_reach h).nexts id t hm

/-- the init timer can only fire while the connection is not initialised -/
theorem timeout_only_before_init {s : St} (h : Reach .transport s) (ht : s.timerLive = true) : s.initialized = false :=
  (tinv_reach h).timer ht

/-- Once the connection has been closed (by the server with a code, or by the client) nothing more is written and the
    close code never changes, whatever operation goroutines and timers still do. -/
theorem closed_is_final {s s' : St} (as : List Act) (h : run s as = some s') (hc : s.closed.isSome = true) :
    s'.out = s.out ∧ s'.closed = s.closed := by
  induction as generalizing s with
  | nil => simp only [run] at h; cases h; exact ⟨rfl, rfl⟩
  | cons a as ih =>
    simp only [run] at h
    split at h
    · next t ht =>
      have f := closed_frozen a ht hc
      have r := ih h (by rw [f.2]; exact hc)
      exact ⟨r.1.trans f.1, r.2.trans f.2⟩
    · cases h

/-- The server never rewrites what it has sent. -/
theorem output_append_only {s s' : St} (as : List Act) (h : run s as = some s') : s.out <+: s'.out := by
  induction as generalizing s with
  | nil => simp only [run] at h; cases h; exact List.prefix_refl _
  | cons a as ih =>
    simp only [run] at h
    split at h
    · next t ht => exact List.IsPrefix.trans (step_out_prefix a ht) (ih h)
    · cases h

/-! ### the prescribed close codes (graphql-transport-ws), for an open connection in any state -/

section codes
variable (s : St) (hp : s.proto = .transport) (ho : s.closed = none) (hx : s.exited = false)
include hp ho hx

/-- a frame that is not JSON closes with 4400 -/
theorem malformed_closes_4400 : (step s (.recv .syntaxErr)).map (·.closed) = some (some 4400) := by
  simp [step, ho, hx, hp, recvTransport, (closeWith_open s 4400 ho).1]

/-- an unknown message type closes with 4400 -/
theorem unknown_type_closes_4400 (ty id raw : String) (hpay rej : Bool) (op : Option OpKind)
    (h1 : ty ≠ "connection_init") (h2 : ty ≠ "ping") (h3 : ty ≠ "pong") (h4 : ty ≠ "subscribe") (h5 : ty ≠ "complete") :
    (step s (.recv (.msg ty id hpay rej raw op))).map (·.closed) = some (some 4400) := by
  simp [step, ho, hx, hp, recvTransport, h1, h2, h3, h4, h5, (closeWith_open s 4400 ho).1]

/-- a second connection_init closes with 4429 -/
theorem second_init_closes_4429 (hi : s.initialized = true) (id raw : String) (hpay rej : Bool) (op : Option OpKind) :
    (step s (.recv (.msg "connection_init" id hpay rej raw op))).map (·.closed) = some (some 4429) := by
  simp [step, ho, hx, hp, recvTransport, hi, (closeWith_open s 4429 ho).1]

/-- a connection_init refused by the init function closes with 4401 -/
theorem refused_init_closes_4401 (hi : s.initialized = false) (id raw : String) (op : Option OpKind) :
    (step s (.recv (.msg "connection_init" id true true raw op))).map (·.closed) = some (some 4401) := by
  simp [step, ho, hx, hp, recvTransport, hi, (closeWith_open s 4401 ho).1]

/-- subscribe before a successful connection_init closes with 4401 and starts nothing -/
theorem subscribe_before_init_closes_4401 (hi : s.initialized = false) (id raw : String) (hpay rej : Bool) (op : Option OpKind) :
    (step s (.recv (.msg "subscribe" id hpay rej raw op))).map (fun s' => (s'.closed, s'.starts, s'.insts)) =
      some (some 4401, s.starts, s.insts) := by
  simp [step, ho, hx, hp, recvTransport, hi, (closeWith_open s 4401 ho).1, closeWith_insts]

/-- a subscribe with the id of a running operation closes with 4409 -/
theorem duplicate_id_closes_4409 (hi : s.initialized = true) (id raw : String) (hpay rej : Bool) (k : OpKind) (hk : k ≠ .poolErr)
    (hd : (regLookup s.reg id).isSome = true) :
    (step s (.recv (.msg "subscribe" id hpay rej raw (some k)))).map (·.closed) = some (some 4409) := by
  cases k with
  | poolErr => exact absurd rfl hk
  | sub => simp [step, ho, hx, hp, recvTransport, hi, St.engineStart, hd, (closeWith_open s 4409 ho).1]
  | query => simp [step, ho, hx, hp, recvTransport, hi, St.engineStart, hd, (closeWith_open s 4409 ho).1]

/-- the init timeout closes with 4408 -/
theorem init_timeout_closes_4408 (ht : s.timerLive = true) : (step s .initTimeout).map (·.closed) = some (some 4408) := by
  simp only [step, hp, ht]
  simp [St.closeWith, ho]

end codes

/-- every frame is handled: the protocol handler is a total function of the connection state and the frame -/
theorem every_frame_is_handled (s : St) (ho : s.closed = none) (hx : s.exited = false) (f : Frame) : (step s (.recv f)).isSome = true := by
  simp [step, ho, hx]

/-! ### the terminal-message discipline does not hold (known findings) -/

/-- after the server's terminal message (`complete` or `error`) for an id nothing else is sent for that id until the
    client starts a new operation with it — checked here on a server output alone for an id that is subscribed once -/
def TerminalDiscipline (id : String) (out : List Out) : Bool :=
  let rec go : List Out → Bool → Bool
    | [], _ => true
    | o :: rest, terminated =>
      match o with
      | .next i _ => if i = id && terminated then false else go rest terminated
      | .error i => if i = id then (if terminated then false else go rest true) else go rest terminated
      | .complete i => if i = id then (if terminated then false else go rest true) else go rest terminated
      | _ => go rest terminated
  go out false

def sub1 : Frame := .msg "subscribe" "1" true false "" (some .sub)
def init0 : Frame := .msg "connection_init" "" false false "" none

/-- witness 1: the client completes an operation while its execution is in flight: `complete`, then `next`. -/
def witnessCompleteInFlight : List Act :=
  [.recv init0, .recv sub1, .execBegin 0, .recv (.msg "complete" "1" false false "" none), .execFlush 0 7]

theorem finding_C19_next_after_complete :
    (run (St.init .transport) witnessCompleteInFlight).map (fun s => (s.out, TerminalDiscipline "1" s.out)) =
      some ([.ack, .complete "1", .next "1" 7], false) := by decide

/-- witness 2: a failing subscription is executed again on every update interval: `error` is sent repeatedly. -/
def witnessErrorRepeated : List Act :=
  [.recv init0, .recv sub1, .execBegin 0, .execEnd 0 false none, .execBegin 0, .execEnd 0 false none]

theorem finding_C19_error_repeated :
    (run (St.init .transport) witnessErrorRepeated).map (fun s => (s.out, TerminalDiscipline "1" s.out)) =
      some ([.ack, .error "1", .error "1"], false) := by decide

/-- the full statement is refuted -/
theorem terminal_discipline_fails : ¬ ∀ s, Reach .transport s → TerminalDiscipline "1" s.out = true := by
  intro h
  have hr : ∃ s, run (St.init .transport) witnessErrorRepeated = some s ∧ TerminalDiscipline "1" s.out = false := by
    cases hrun : run (St.init .transport) witnessErrorRepeated with
    | none => have := finding_C19_error_repeated; rw [hrun] at this; cases this
    | some s =>
      refine ⟨s, rfl, ?_⟩
      have := finding_C19_error_repeated
      rw [hrun] at this
      simp at this
      exact this.2
  obtain ⟨s, hs, hf⟩ := hr
  have := h s ⟨_, hs⟩
  rw [hf] at this; cases this

/-- what does hold (partial): a query or mutation gets exactly its result and one terminal message, in one step. -/
theorem query_result_then_complete_partial (s : St) (k : Nat) (x : Inst) (t : Nat) (hk : s.insts[k]? = some x)
    (hq : x.isSub = false) (hr : x.phase = .running) (ho : s.closed = none) :
    (step s (.execEnd k true (some t))).map (·.out) = some (s.out ++ [.next x.id t, .complete x.id]) := by
  simp [step, hk, hq, hr, St.emit, St.setPhase, ho]

theorem query_error_is_terminal_partial (s : St) (k : Nat) (x : Inst) (hk : s.insts[k]? = some x)
    (hq : x.isSub = false) (hr : x.phase = .running) (ho : s.closed = none) :
    (step s (.execEnd k false none)).map (·.out) = some (s.out ++ [.error x.id]) := by
  simp [step, hk, hq, hr, St.emit, St.setPhase, ho]

/-- a finished query releases its id (it can be used again) -/
theorem query_releases_id (s : St) (k : Nat) (x : Inst) (ok : Bool) (tag : Option Nat) (hk : s.insts[k]? = some x)
    (hq : x.isSub = false) (hr : x.phase = .running) :
    (step s (.execEnd k ok tag)).map (fun s' => regLookup s'.reg x.id) = some none := by
  have key : ∀ st : St, regLookup (st.cancelId x.id).reg x.id = none := by
    intro st
    unfold St.cancelId
    split
    · simp [regLookup, regErase, List.find?_eq_none]
    · next h => simpa using h
  cases ok <;> simp [step, hk, hq, hr, key]

end GqlVerif.Props.C19
