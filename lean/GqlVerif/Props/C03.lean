/-
  Props.C03 — the rewrites normalization performs, in the reference semantics (Gql.Exec): each is stated as an equation
  of `evalVal` (argument values), `dirsAllow` (@skip / @include) or `collect` (CollectFields), the only places where the
  executor looks at the syntax the rewrite touches.

  * variable extraction: an argument literal and a variable bound to the same JSON value denote the same value;
  * default-value injection: an absent variable with a default denotes what the variable denotes once the default is
    added to the variables object;
  * @skip / @include evaluation: a selection whose directives do not allow it contributes nothing to the collected
    fields, and a selection all of whose directives allow it is collected as if it had none;
  * inline-fragment merging: a fragment without type condition and directives is transparent for CollectFields, and a
    fragment whose condition does not apply contributes nothing;
  * fragment-spread inlining: a spread of a known, not yet visited fragment collects what the inline fragment with the
    fragment's type condition and selections collects (up to the visited bookkeeping);
  * field de-duplication: collecting the same response key twice merges the sub-selections and keeps one entry.

  That the real normalizer's output (operation and variables) means the same as its input on generated backends, stays
  valid, is a fixed point and is canonical under reformulation is validated per generated case, not proved.
  Variable renaming is Props.C09.evalVal_rename.
-/
import GqlVerif.Gql.Exec
import GqlVerif.Proofs.ExecRespell
namespace GqlVerif.Props.C03
open GqlVerif GqlVerif.Exec

theorem evalVal_lit (vars defs : List (String × Json)) (j : Json) : evalVal vars defs (.lit j) = some j := rfl

theorem evalVal_var (vars defs : List (String × Json)) (n : String) :
    evalVal vars defs (.var n) = (match lookupKV vars n with | some j => some j | none => lookupKV defs n) := rfl

theorem lookupKV_cons_self {α : Type} (l : List (String × α)) (n : String) (d : α) : lookupKV ((n, d) :: l) n = some d := by
  simp [lookupKV]

/-- variable extraction: `f(a: <lit>)` ↦ `f(a: $v)` with `v := lit` in the variables object -/
theorem extracted_literal_same_value (vars defs : List (String × Json)) (n : String) (j : Json)
    (h : lookupKV vars n = some j) : evalVal vars defs (.var n) = evalVal vars defs (.lit j) := by
  rw [evalVal_var, evalVal_lit, h]

/-- default-value injection: `$v: T = d` with v absent ↦ v := d in the variables object -/
theorem injected_default_same_value (vars defs : List (String × Json)) (n : String) (d : Json)
    (habs : lookupKV vars n = none) (hd : lookupKV defs n = some d) :
    evalVal vars defs (.var n) = evalVal ((n, d) :: vars) defs (.var n) := by
  rw [evalVal_var, evalVal_var, habs, hd, lookupKV_cons_self]

/-- … and a provided variable is not affected by its default -/
theorem provided_ignores_default (vars defs defs' : List (String × Json)) (n : String) (j : Json)
    (h : lookupKV vars n = some j) : evalVal vars defs (.var n) = evalVal vars defs' (.var n) := by
  rw [evalVal_var, evalVal_var, h]

/-! ### @skip / @include -/

theorem skip_true_not_allowed (vars defs : List (String × Json)) (rest : List Dir) :
    dirsAllow vars defs (⟨"skip", .lit (.bool true)⟩ :: rest) = false := by
  simp [dirsAllow, evalVal_lit]

theorem include_false_not_allowed (vars defs : List (String × Json)) (rest : List Dir) :
    dirsAllow vars defs (⟨"include", .lit (.bool false)⟩ :: rest) = false := by
  simp [dirsAllow, evalVal_lit]

theorem skip_false_transparent (vars defs : List (String × Json)) (rest : List Dir) :
    dirsAllow vars defs (⟨"skip", .lit (.bool false)⟩ :: rest) = dirsAllow vars defs rest := by
  simp [dirsAllow, evalVal_lit]

theorem include_true_transparent (vars defs : List (String × Json)) (rest : List Dir) :
    dirsAllow vars defs (⟨"include", .lit (.bool true)⟩ :: rest) = dirsAllow vars defs rest := by
  simp [dirsAllow, evalVal_lit]

/-- the directive's condition may equally come from a variable -/
theorem skip_variable_as_literal (vars defs : List (String × Json)) (n : String) (b : Bool) (rest : List Dir)
    (h : lookupKV vars n = some (.bool b)) :
    dirsAllow vars defs (⟨"skip", .var n⟩ :: rest) = dirsAllow vars defs (⟨"skip", .lit (.bool b)⟩ :: rest) := by
  simp [dirsAllow, evalVal_lit, evalVal_var, h]

/-! ### CollectFields -/

/-- a field that its directives do not allow contributes nothing (removing it costs one unit of fuel less) -/
theorem collect_skipped_field (s : Schema) (op : Op) (vars : List (String × Json)) (t : String) (fuel : Nat)
    (visited : List String) (alias name : String) (args : List (String × Val)) (dirs : List Dir) (sels rest : List Sel)
    (acc : List Collected) (h : dirsAllow vars op.varDefaults dirs = false) :
    collect s op vars t (fuel + 1) visited (.field alias name args dirs sels :: rest) acc = collect s op vars t fuel visited rest acc := by
  simp [collect, h]

/-- an allowed field is collected exactly as the same field without directives -/
theorem collect_allowed_field (s : Schema) (op : Op) (vars : List (String × Json)) (t : String) (fuel : Nat)
    (visited : List String) (alias name : String) (args : List (String × Val)) (dirs : List Dir) (sels rest : List Sel)
    (acc : List Collected) (h : dirsAllow vars op.varDefaults dirs = true) :
    collect s op vars t (fuel + 1) visited (.field alias name args dirs sels :: rest) acc =
      collect s op vars t (fuel + 1) visited (.field alias name args [] sels :: rest) acc := by
  have h0 : dirsAllow vars op.varDefaults [] = true := by simp [dirsAllow]
  simp only [collect, h, h0]

/-- an inline fragment without condition and directives is transparent -/
theorem collect_plain_inline (s : Schema) (op : Op) (vars : List (String × Json)) (t : String) (fuel : Nat)
    (visited : List String) (sels rest : List Sel) (acc : List Collected) :
    collect s op vars t (fuel + 1) visited (.inline none [] sels :: rest) acc =
      collect s op vars t fuel (collect s op vars t fuel visited sels acc).2 rest (collect s op vars t fuel visited sels acc).1 := by
  simp [collect, dirsAllow, fragApplies]

/-- an inline fragment whose type condition does not apply contributes nothing -/
theorem collect_inapplicable_inline (s : Schema) (op : Op) (vars : List (String × Json)) (t : String) (fuel : Nat)
    (visited : List String) (c : String) (dirs : List Dir) (sels rest : List Sel) (acc : List Collected)
    (h : fragApplies s t (some c) = false) :
    collect s op vars t (fuel + 1) visited (.inline (some c) dirs sels :: rest) acc = collect s op vars t fuel visited rest acc := by
  simp [collect, h]

/-- fragment-spread inlining: the spread of a known fragment that was not visited collects what the inline fragment
    with the fragment's type condition and selections collects, with the fragment marked visited -/
theorem collect_spread_as_inline (s : Schema) (op : Op) (vars : List (String × Json)) (t : String) (fuel : Nat)
    (visited : List String) (name : String) (dirs : List Dir) (f : Frag) (rest : List Sel) (acc : List Collected)
    (hf : op.frags.find? (·.name == name) = some f) (hv : visited.contains name = false)
    (ha : fragApplies s t (some f.typeCond) = true) (hd : dirsAllow vars op.varDefaults dirs = true) :
    collect s op vars t (fuel + 1) visited (.spread name dirs :: rest) acc =
      collect s op vars t (fuel + 1) (name :: visited) (.inline (some f.typeCond) dirs f.sels :: rest) acc := by
  have hv' : (!visited.contains name) = true := by rw [hv]; rfl
  simp only [collect, hd, hf, hv', ha, Bool.and_self, if_true]

/-- field de-duplication: a second occurrence of a response key is merged into the first; the entry count is unchanged -/
theorem addCollected_duplicate_merges (acc : List Collected) (c : Collected) (h : acc.any (·.key == c.key) = true) :
    (addCollected acc c).length = acc.length ∧ (addCollected acc c).map (·.key) = acc.map (·.key) := by
  unfold addCollected
  simp only [h, if_true, List.length_map, true_and, List.map_map]
  apply List.map_congr_left
  intro x _
  simp only [Function.comp]
  split <;> rfl

/-- … and a new response key is appended -/
theorem addCollected_new_appends (acc : List Collected) (c : Collected) (h : acc.any (·.key == c.key) = false) :
    addCollected acc c = acc ++ [c] := by
  simp [addCollected, h]

/-! ### the response depends on argument and directive values only through what they denote -/

/-- **execution_depends_only_on_denotations** (∀ schemas, universes, pairs of (operation, variables)): when two operations
    have the same structure and every argument and directive condition evaluates, in its own environment, to the same
    JSON value (`SelRel`), the responses are equal.  Every normalization step that only changes how a value is spelled
    is an instance. -/
theorem execution_depends_only_on_denotations (s : Schema) (u : Universe) (op op' : Op) (vars vars' : List (String × Json))
    (hk : op.kind = op'.kind) (hs : SelsRel (evOf op vars) (evOf op' vars') op.sels op'.sels)
    (hf : Rel2 (FragRel (evOf op vars) (evOf op' vars')) op.frags op'.frags) :
    execute s u op vars = execute s u op' vars' :=
  execute_respelled op op' vars vars' s u hk hs hf

/-! ### variable extraction (the variables object is the one after extraction) -/

/-- an argument entry after extraction: unchanged, or a literal replaced by a variable that is bound to the same value -/
def ExtArg (vars : List (String × Json)) (x y : String × Val) : Prop :=
  x.1 = y.1 ∧ (y.2 = x.2 ∨ ∃ n j, x.2 = .lit j ∧ y.2 = .var n ∧ lookupKV vars n = some j)
def ExtDir (vars : List (String × Json)) (d d' : Dir) : Prop :=
  d.name = d'.name ∧ (d'.ifArg = d.ifArg ∨ ∃ n j, d.ifArg = .lit j ∧ d'.ifArg = .var n ∧ lookupKV vars n = some j)

/-- **extraction_preserves_execution** (∀ schemas, universes, operations, variables): replacing literals by variables
    that the variables object binds to the same values — in any subset of the arguments and directive conditions of the
    selections and fragments — does not change the response. -/
theorem extraction_preserves_execution (s : Schema) (u : Universe) (op op' : Op) (vars : List (String × Json))
    (hk : op.kind = op'.kind) (hd : op'.varDefaults = op.varDefaults)
    (hs : Rel2 (SelMap (ExtArg vars) (ExtDir vars)) op.sels op'.sels)
    (hf : Rel2 (fun f f' => f.name = f'.name ∧ f.typeCond = f'.typeCond ∧ Rel2 (SelMap (ExtArg vars) (ExtDir vars)) f.sels f'.sels)
      op.frags op'.frags) :
    execute s u op vars = execute s u op' vars := by
  have hval : ∀ (v v' : Val), (v' = v ∨ ∃ n j, v = .lit j ∧ v' = .var n ∧ lookupKV vars n = some j) →
      evOf op vars v = evOf op' vars v' := by
    intro v v' h
    simp only [evOf, hd]
    rcases h with h | ⟨n, j, h1, h2, h3⟩
    · rw [h]
    · rw [h1, h2]; exact (extracted_literal_same_value vars op.varDefaults n j h3).symm
  have hA : ∀ x y, ExtArg vars x y → x.1 = y.1 ∧ evOf op vars x.2 = evOf op' vars y.2 :=
    fun x y h => ⟨h.1, hval _ _ h.2⟩
  have hD : ∀ d d', ExtDir vars d d' → d.name = d'.name ∧ evOf op vars d.ifArg = evOf op' vars d'.ifArg :=
    fun d d' h => ⟨h.1, hval _ _ h.2⟩
  apply execute_respelled op op' vars vars s u hk (selsMap_rel hA hD _ _ hs)
  exact Rel2.mono (fun f f' h => ⟨h.1, h.2.1, selsMap_rel hA hD _ _ h.2.2⟩) hf

theorem evalValF_inject (vars defs : List (String × Json)) (n : String) (d : Json)
    (habs : lookupKV vars n = none) (hd : lookupKV defs n = some d) :
    ∀ (fuel : Nat) (v : Val), evalValF ((n, d) :: vars) defs fuel v = evalValF vars defs fuel v := by
  intro fuel
  induction fuel with
  | zero => intro v; rfl
  | succ fuel ih =>
    intro v
    cases v with
    | var m =>
      simp only [evalValF]
      by_cases hm : m = n
      · subst hm
        rw [lookupKV_cons_self, habs, hd]
      · have : lookupKV ((n, d) :: vars) m = lookupKV vars m := by
          unfold lookupKV
          rw [List.find?_cons]
          have hb : ((n, d).1 == m) = false := by simpa using fun h => hm h.symm
          simp only [hb]
        rw [this]
    | lit j => rfl
    | list xs =>
      simp only [evalValF]
      congr 2
      apply List.map_congr_left
      intro x _
      rw [ih x]
    | obj fs =>
      simp only [evalValF]
      congr 2
      have : (fun (p : String × Val) => (evalValF ((n, d) :: vars) defs fuel p.2).map fun j => (p.1, j)) =
          fun (p : String × Val) => (evalValF vars defs fuel p.2).map fun j => (p.1, j) := by
        funext p; rw [ih p.2]
      exact congrArg (fun f => List.filterMap f fs) this

/-- **default_injection_preserves_execution** (∀ …): writing the operation default of an absent variable into the
    variables object does not change the response. -/
theorem default_injection_preserves_execution (s : Schema) (u : Universe) (op : Op) (vars : List (String × Json))
    (n : String) (d : Json) (habs : lookupKV vars n = none) (hd : lookupKV op.varDefaults n = some d) :
    execute s u op vars = execute s u op ((n, d) :: vars) := by
  have hev : ∀ v, evOf op vars v = evOf op ((n, d) :: vars) v := by
    intro v
    simp only [evOf, evalVal]
    exact (evalValF_inject vars op.varDefaults n d habs hd 64 v).symm
  apply execute_respelled op op vars ((n, d) :: vars) s u rfl (selsRel_refl hev _)
  have : ∀ (l : List Frag), Rel2 (FragRel (evOf op vars) (evOf op ((n, d) :: vars))) l l := by
    intro l
    induction l with
    | nil => exact .nil
    | cons f fs ih => exact .cons ⟨rfl, rfl, selsRel_refl hev _⟩ ih
  exact this _

end GqlVerif.Props.C03
