/-
  Props.C03 — the rewrites normalization performs, in the reference semantics (Gql.Exec): each is stated as an equation
  of `evalVal` (argument values), `dirsAllow` (@skip / @include) or `collect` (CollectFields), the only places where the
  executor looks at the syntax the rewrite touches.

  * variable extraction: an argument literal and a variable bound to the same JSON value denote the same value;
  * default-value injection: an absent variable with a default denotes what the variable denotes once the default is
    added to the variables object;
  * @skip / @include evaluation: a selection whose directives do not allow it contributes nothing to the collected
    fields, and a selection all of whose directives allow it is collected as if it had none;
  * inline-fragment merging: a fragment without type condition and directives is transparent for CollectFields, and a
    fragment whose condition does not apply contributes nothing;
  * fragment-spread inlining: a spread of a known, not yet visited fragment collects what the inline fragment with the
    fragment's type condition and selections collects (up to the visited bookkeeping);
  * field de-duplication: collecting the same response key twice merges the sub-selections and keeps one entry.

  That the real normalizer's output (operation and variables) means the same as its input on generated backends, stays
  valid, is a fixed point and is canonical under reformulation is validated per generated case, not proved.
  Variable renaming is Props.C09.evalVal_rename.
-/
import GqlVerif.Gql.Exec
namespace GqlVerif.Props.C03
open GqlVerif GqlVerif.Exec

theorem evalVal_lit (vars defs : List (String × Json)) (j : Json) : evalVal vars defs (.lit j) = some j := rfl

theorem evalVal_var (vars defs : List (String × Json)) (n : String) :
    evalVal vars defs (.var n) = (match lookupKV vars n with | some j => some j | none => lookupKV defs n) := rfl

theorem lookupKV_cons_self {α : Type} (l : List (String × α)) (n : String) (d : α) : lookupKV ((n, d) :: l) n = some d := by
  simp [lookupKV]

/-- variable extraction: `f(a: <lit>)` ↦ `f(a: $v)` with `v := lit` in the variables object -/
theorem extracted_literal_same_value (vars defs : List (String × Json)) (n : String) (j : Json)
    (h : lookupKV vars n = some j) : evalVal vars defs (.var n) = evalVal vars defs (.lit j) := by
  rw [evalVal_var, evalVal_lit, h]

/-- default-value injection: `$v: T = d` with v absent ↦ v := d in the variables object -/
theorem injected_default_same_value (vars defs : List (String × Json)) (n : String) (d : Json)
    (habs : lookupKV vars n = none) (hd : lookupKV defs n = some d) :
    evalVal vars defs (.var n) = evalVal ((n, d) :: vars) defs (.var n) := by
  rw [evalVal_var, evalVal_var, habs, hd, lookupKV_cons_self]

/-- … and a provided variable is not affected by its default -/
theorem provided_ignores_default (vars defs defs' : List (String × Json)) (n : String) (j : Json)
    (h : lookupKV vars n = some j) : evalVal vars defs (.var n) = evalVal vars defs' (.var n) := by
  rw [evalVal_var, evalVal_var, h]

/-! ### @skip / @include -/

theorem skip_true_not_allowed (vars defs : List (String × Json)) (rest : List Dir) :
    dirsAllow vars defs (⟨"skip", .lit (.bool true)⟩ :: rest) = false := by
  simp [dirsAllow, evalVal_lit]

theorem include_false_not_allowed (vars defs : List (String × Json)) (rest : List Dir) :
    dirsAllow vars defs (⟨"include", .lit (.bool false)⟩ :: rest) = false := by
  simp [dirsAllow, evalVal_lit]

theorem skip_false_transparent (vars defs : List (String × Json)) (rest : List Dir) :
    dirsAllow vars defs (⟨"skip", .lit (.bool false)⟩ :: rest) = dirsAllow vars defs rest := by
  simp [dirsAllow, evalVal_lit]

theorem include_true_transparent (vars defs : List (String × Json)) (rest : List Dir) :
    dirsAllow vars defs (⟨"include", .lit (.bool true)⟩ :: rest) = dirsAllow vars defs rest := by
  simp [dirsAllow, evalVal_lit]

/-- the directive's condition may equally come from a variable -/
theorem skip_variable_as_literal (vars defs : List (String × Json)) (n : String) (b : Bool) (rest : List Dir)
    (h : lookupKV vars n = some (.bool b)) :
    dirsAllow vars defs (⟨"skip", .var n⟩ :: rest) = dirsAllow vars defs (⟨"skip", .lit (.bool b)⟩ :: rest) := by
  simp [dirsAllow, evalVal_lit, evalVal_var, h]

/-! ### CollectFields -/

/-- a field that its directives do not allow contributes nothing (removing it costs one unit of fuel less) -/
theorem collect_skipped_field (s : Schema) (op : Op) (vars : List (String × Json)) (t : String) (fuel : Nat)
    (visited : List String) (alias name : String) (args : List (String × Val)) (dirs : List Dir) (sels rest : List Sel)
    (acc : List Collected) (h : dirsAllow vars op.varDefaults dirs = false) :
    collect s op vars t (fuel + 1) visited (.field alias name args dirs sels :: rest) acc = collect s op vars t fuel visited rest acc := by
  simp [collect, h]

/-- an allowed field is collected exactly as the same field without directives -/
theorem collect_allowed_field (s : Schema) (op : Op) (vars : List (String × Json)) (t : String) (fuel : Nat)
    (visited : List String) (alias name : String) (args : List (String × Val)) (dirs : List Dir) (sels rest : List Sel)
    (acc : List Collected) (h : dirsAllow vars op.varDefaults dirs = true) :
    collect s op vars t (fuel + 1) visited (.field alias name args dirs sels :: rest) acc =
      collect s op vars t (fuel + 1) visited (.field alias name args [] sels :: rest) acc := by
  have h0 : dirsAllow vars op.varDefaults [] = true := by simp [dirsAllow]
  simp only [collect, h, h0]

/-- an inline fragment without condition and directives is transparent -/
theorem collect_plain_inline (s : Schema) (op : Op) (vars : List (String × Json)) (t : String) (fuel : Nat)
    (visited : List String) (sels rest : List Sel) (acc : List Collected) :
    collect s op vars t (fuel + 1) visited (.inline none [] sels :: rest) acc =
      collect s op vars t fuel (collect s op vars t fuel visited sels acc).2 rest (collect s op vars t fuel visited sels acc).1 := by
  simp [collect, dirsAllow, fragApplies]

/-- an inline fragment whose type condition does not apply contributes nothing -/
theorem collect_inapplicable_inline (s : Schema) (op : Op) (vars : List (String × Json)) (t : String) (fuel : Nat)
    (visited : List String) (c : String) (dirs : List Dir) (sels rest : List Sel) (acc : List Collected)
    (h : fragApplies s t (some c) = false) :
    collect s op vars t (fuel + 1) visited (.inline (some c) dirs sels :: rest) acc = collect s op vars t fuel visited rest acc := by
  simp [collect, h]

/-- fragment-spread inlining: the spread of a known fragment that was not visited collects what the inline fragment
    with the fragment's type condition and selections collects, with the fragment marked visited -/
theorem collect_spread_as_inline (s : Schema) (op : Op) (vars : List (String × Json)) (t : String) (fuel : Nat)
    (visited : List String) (name : String) (dirs : List Dir) (f : Frag) (rest : List Sel) (acc : List Collected)
    (hf : op.frags.find? (·.name == name) = some f) (hv : visited.contains name = false)
    (ha : fragApplies s t (some f.typeCond) = true) (hd : dirsAllow vars op.varDefaults dirs = true) :
    collect s op vars t (fuel + 1) visited (.spread name dirs :: rest) acc =
      collect s op vars t (fuel + 1) (name :: visited) (.inline (some f.typeCond) dirs f.sels :: rest) acc := by
  have hv' : (!visited.contains name) = true := by rw [hv]; rfl
  simp only [collect, hd, hf, hv', ha, Bool.and_self, if_true]

/-- field de-duplication: a second occurrence of a response key is merged into the first; the entry count is unchanged -/
theorem addCollected_duplicate_merges (acc : List Collected) (c : Collected) (h : acc.any (·.key == c.key) = true) :
    (addCollected acc c).length = acc.length ∧ (addCollected acc c).map (·.key) = acc.map (·.key) := by
  unfold addCollected
  simp only [h, if_true, List.length_map, true_and, List.map_map]
  apply List.map_congr_left
  intro x _
  simp only [Function.comp]
  split <;> rfl

/-- … and a new response key is appended -/
theorem addCollected_new_appends (acc : List Collected) (c : Collected) (h : acc.any (·.key == c.key) = false) :
    addCollected acc c = acc ++ [c] := by
  simp [addCollected, h]

end GqlVerif.Props.C03
