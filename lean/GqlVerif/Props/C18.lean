/-
  Props.C18 — the multiplexing client model (Proto.WsClient), for every action sequence:

  * routing is exact: an upstream message is delivered to the subscriber registered under its id on that connection
    and to nobody else; without such a registration nothing is delivered (`upstream_routes_exactly`,
    `upstream_other_subscribers_untouched`);
  * data messages never change the registrations, so a run of data messages is delivered per subscriber in upstream
    order (`data_keeps_registrations`);
  * a terminal message or an unsubscribe ends only the one subscription (`removeReg_only_that_id`);
  * connections are shared exactly between subscriptions with the same key: at every reachable state there is at most
    one connection per key, a subscribe with a known key opens no connection, one with a new key opens exactly one
    (`one_connection_per_key`, `subscribe_known_key_no_dial`, `subscribe_new_key_one_dial`);
  * no connection outlives its last subscription: every connection of a reachable state has a registration, so when no
    registration is left no connection is left (`no_empty_connection`, `quiescent_no_connections`).

  The model's actions are the implementation's critical sections; what the model cannot exhibit — the windows *inside*
  getOrDial (a dial shared by waiters runs under the first subscriber's context) and between the emptiness check and the
  close — is covered by the harness' race scenarios, see the known findings.
-/
import GqlVerif.Proofs.C18
namespace GqlVerif.Props.C18
open GqlVerif.WsClient

/-- an upstream message is delivered to exactly the subscriber registered under its id on that connection -/
theorem upstream_routes_exactly (st : St) (c id : Nat) (k : Kind) :
    (∃ r, ((st.conns.find? (·.cid == c)).bind fun cn => cn.regs.find? (·.id == id)) = some r ∧
        (step st (.upstream c id k)).log = st.log ++ [(r.sub, .msg k)]) ∨
    ((((st.conns.find? (·.cid == c)).bind fun cn => cn.regs.find? (·.id == id)) = none) ∧
        (step st (.upstream c id k)).log = st.log) := by
  simp only [step]
  split
  · rename_i r hr
    exact Or.inl ⟨r, hr, rfl⟩
  · rename_i hr
    exact Or.inr ⟨hr, rfl⟩

/-- … so what any other subscriber has received does not change -/
theorem upstream_other_subscribers_untouched (st : St) (c id : Nat) (k : Kind) (s : Nat)
    (h : ∀ r, ((st.conns.find? (·.cid == c)).bind fun cn => cn.regs.find? (·.id == id)) = some r → r.sub ≠ s) :
    delivered (step st (.upstream c id k)) s = delivered st s := by
  rcases upstream_routes_exactly st c id k with ⟨r, hr, hl⟩ | ⟨_, hl⟩
  · have hne : (r.sub == s) = false := by simpa using h r hr
    simp [delivered, hl, List.filter_append, hne]
  · simp [delivered, hl]

/-- a data message leaves every registration where it is -/
theorem data_keeps_registrations (st : St) (c id n : Nat) :
    (step st (.upstream c id (.data n))).conns = st.conns := by
  simp only [step]
  split <;> simp [Kind.terminal]

/-- removing one registration (terminal message, unsubscribe) keeps every registration with another id -/
theorem removeReg_only_that_id (conns : List Conn) (c id : Nat) (r : Reg) (hr : r.id ≠ id)
    (h : ∃ cn ∈ conns, r ∈ cn.regs) : ∃ cn ∈ removeReg conns c id, r ∈ cn.regs := by
  obtain ⟨cn, hcn, hmem⟩ := h
  by_cases hc : cn.cid == c
  · refine ⟨{ cn with regs := cn.regs.filter (·.id != id) }, ?_, ?_⟩
    · unfold removeReg
      simp only [List.mem_filter, List.mem_map]
      refine ⟨⟨cn, hcn, by simp [hc]⟩, ?_⟩
      have : r ∈ cn.regs.filter (·.id != id) := by simp [List.mem_filter, hmem, hr]
      have hne : (cn.regs.filter (·.id != id)) ≠ [] := List.ne_nil_of_mem this
      simp [hne]
    · simp [List.mem_filter, hmem, hr]
  · refine ⟨cn, ?_, hmem⟩
    unfold removeReg
    simp only [List.mem_filter, List.mem_map]
    have hc' : (cn.cid == c) = false := by simpa using hc
    exact ⟨⟨cn, hcn, by simp [hc']⟩, by simp [hc']⟩

/-- at every reachable state there is at most one connection per key -/
theorem one_connection_per_key (acts : List Act) : ((run {} acts).conns.map (·.key)).Nodup :=
  (run_inv {} acts inv_init).keysNodup

/-- subscribing with the key of a live connection opens no connection -/
theorem subscribe_known_key_no_dial (st : St) (s k : Nat) (cn : Conn) (h : st.conns.find? (·.key == k) = some cn) :
    (step st (.subscribe s k)).dials = st.dials ∧ (step st (.subscribe s k)).conns.length = st.conns.length := by
  simp [step, h, addReg]

/-- … and with a key no live connection has, exactly one -/
theorem subscribe_new_key_one_dial (st : St) (s k : Nat) (h : st.conns.find? (·.key == k) = none) :
    (step st (.subscribe s k)).dials = st.dials + 1 ∧
    (step st (.subscribe s k)).conns = st.conns ++ [⟨st.nextConn, k, [⟨st.nextId, s⟩]⟩] := by
  simp [step, h]

/-- every connection of a reachable state carries at least one subscription -/
theorem no_empty_connection (acts : List Act) : ∀ cn ∈ (run {} acts).conns, cn.regs ≠ [] :=
  (run_inv {} acts inv_init).nonEmpty

/-- at quiescence — no subscription registered anywhere — no connection is left -/
theorem quiescent_no_connections (acts : List Act) (h : ∀ cn ∈ (run {} acts).conns, cn.regs = []) :
    (run {} acts).conns = [] := by
  cases hc : (run {} acts).conns with
  | nil => rfl
  | cons cn rest =>
    have hmem : cn ∈ (run {} acts).conns := by rw [hc]; simp
    exact absurd (h cn hmem) (no_empty_connection acts cn hmem)

/-- non-vacuity: two subscribers share one connection, a third has its own; a complete ends only its subscription -/
example :
    let st := run {} [.subscribe 0 7, .subscribe 1 7, .subscribe 2 8, .upstream 0 0 (.data 1), .upstream 0 1 .complete, .upstream 0 0 (.data 2)]
    st.dials = 2 ∧ delivered st 0 = [.msg (.data 1), .msg (.data 2)] ∧ delivered st 1 = [.msg .complete] ∧ delivered st 2 = [] := by
  decide

end GqlVerif.Props.C18
