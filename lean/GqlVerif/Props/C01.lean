/-
  Props.C01 — properties of the reference executor that gives operations their meaning (for the supergraph and for
  every subgraph).  The federation planner itself is not modelled: that the real engine's answer equals the reference
  answer is validated per generated case by the harness (translation validation); what is proved here is that the
  reference semantics is a well-formed GraphQL execution: a non-null position never holds null, a failed non-null
  field nulls its parent object, the collected response keys of a selection set have no duplicates; that a response
  object's keys are exactly the collected keys and that list results keep their length and order is proved in Props.C20
  (execSels_keys, complete_list_shape).
-/
import GqlVerif.Gql.Exec
namespace GqlVerif.Props.C01
open GqlVerif GqlVerif.Exec

/-- CompleteValue never returns null for a non-null type: it either returns a non-null value or propagates (`none`). -/
theorem nonnull_never_null (s : Schema) (u : Universe) (op : Op) (vars : List (String × Json)) (fuel : Nat) (t : TRef) (v : FVal)
    (sels : List Sel) (e : Errs) : complete s u op vars (fuel + 1) (.nonNull t) v sels ≠ (some .null, e) := by
  unfold complete
  simp only
  split
  · intro h; cases h
  · next r hne =>
    intro h
    cases hr : complete s u op vars fuel t v sels with
    | mk a b =>
      rw [hr] at h
      cases a with
      | none => cases h
      | some j =>
        injection h with h1 h2
        injection h1 with h1
        subst h1
        exact hne b hr

/-- … and when it propagates there is an error to report. -/
theorem nonnull_propagates_with_error (s : Schema) (u : Universe) (op : Op) (vars : List (String × Json)) (fuel : Nat) (t : TRef) (v : FVal)
    (sels : List Sel) (e : Errs) (h : complete s u op vars fuel t v sels = (some .null, e)) :
    ∃ e', complete s u op vars (fuel + 1) (.nonNull t) v sels = (none, e') ∧ e' ≠ [] := by
  unfold complete
  simp only [h]
  by_cases he : e.isEmpty = true
  · exact ⟨["Cannot return null for non-nullable field"], by simp [he], by simp⟩
  · refine ⟨e, by simp [he], ?_⟩
    intro h'; subst h'; simp at he

/-! ### response keys -/

/-- adding a collected field never duplicates a response key -/
theorem addCollected_nodup (acc : List Collected) (c : Collected) (h : (acc.map (·.key)).Nodup) :
    ((addCollected acc c).map (·.key)).Nodup := by
  unfold addCollected
  split
  · -- the key exists: selection sets are merged, keys unchanged
    have : (acc.map fun x => if x.key == c.key then { x with sels := x.sels ++ c.sels } else x).map (·.key) = acc.map (·.key) := by
      rw [List.map_map]
      apply List.map_congr_left
      intro x _
      simp only [Function.comp]
      split <;> rfl
    rw [this]; exact h
  · next hn =>
    rw [List.map_append, List.map_cons, List.map_nil]
    rw [List.nodup_append]
    refine ⟨h, by simp, ?_⟩
    intro k hk k' hk'
    simp at hk'
    subst hk'
    intro hkk
    subst hkk
    apply hn
    simp only [List.any_eq_true]
    obtain ⟨x, hx, hxk⟩ := List.mem_map.mp hk
    exact ⟨x, hx, by simp [hxk]⟩

/-- the keys already collected stay, in their order (first occurrence fixes the position of a response key) -/
theorem addCollected_prefix (acc : List Collected) (c : Collected) : acc.map (·.key) <+: (addCollected acc c).map (·.key) := by
  unfold addCollected
  split
  · have : (acc.map fun x => if x.key == c.key then { x with sels := x.sels ++ c.sels } else x).map (·.key) = acc.map (·.key) := by
      rw [List.map_map]
      apply List.map_congr_left
      intro x _
      simp only [Function.comp]
      split <;> rfl
    rw [this]; exact List.prefix_refl _
  · rw [List.map_append]; exact List.prefix_append _ _

/-- CollectFields yields each response key once, whatever fragments and directives the selection uses. -/
theorem collect_nodup (s : Schema) (op : Op) (vars : List (String × Json)) (objType : String) :
    ∀ (fuel : Nat) (visited : List String) (sels : List Sel) (acc : List Collected), (acc.map (·.key)).Nodup →
      ((collect s op vars objType fuel visited sels acc).1.map (·.key)).Nodup := by
  intro fuel
  induction fuel with
  | zero => intro visited sels acc h; simpa [collect] using h
  | succ fuel ih =>
    intro visited sels acc h
    cases sels with
    | nil => simpa [collect] using h
    | cons sel rest =>
      simp only [collect]
      cases sel with
      | field alias name args dirs sels' =>
        simp only
        split
        · exact ih _ _ _ (addCollected_nodup _ _ h)
        · exact ih _ _ _ h
      | inline cond dirs sels' =>
        simp only
        split
        · exact ih _ _ _ (ih _ _ _ h)
        · exact ih _ _ _ h
      | spread name dirs =>
        simp only
        split
        · split
          · split
            · exact ih _ _ _ (ih _ _ _ h)
            · exact ih _ _ _ h
          · exact ih _ _ _ h
        · exact ih _ _ _ h

/-- a fragment applies exactly when its type condition is the object's type or an abstract type containing it -/
theorem fragApplies_iff (s : Schema) (objType c : String) :
    fragApplies s objType (some c) = true ↔ (c = objType ∨ ∃ t, s.type? c = some t ∧ objType ∈ t.possible) := by
  unfold fragApplies
  simp only [Bool.or_eq_true, beq_iff_eq]
  constructor
  · rintro (h | h)
    · exact Or.inl h
    · cases ht : s.type? c with
      | none => simp [ht] at h
      | some t => rw [ht] at h; exact Or.inr ⟨t, rfl, by simpa using h⟩
  · rintro (h | ⟨t, ht, hm⟩)
    · exact Or.inl h
    · right; rw [ht]; simpa using hm

/-- @skip / @include: a selection is kept iff no @skip(if: true) and no @include(if: false) is on it -/
theorem dirs_allow_nil (vars defaults : List (String × Json)) : dirsAllow vars defaults [] = true := rfl

end GqlVerif.Props.C01
