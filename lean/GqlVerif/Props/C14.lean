/-
  Props.C14 — denied coordinates in the reference semantics, and the request-sent rule.

  * In the reference executor (Gql.Exec, `Schema.denied`) a field whose coordinate is denied is a field error: its
    position holds null — or the null propagates to the parent when the position is non-null — and an error is
    reported, for every field type, selection set, universe and fuel.  Since the value is never looked at, no data of
    the denied field can occur in the response (`execField_denied_ignores_data`).
  * The request-sent rule (Misc.Authz.fetchSent): a query request is not sent iff all root fields are denied, a
    mutation / subscription request is not sent iff any root field is denied; more denials never cause more requests.

  That the real engine's responses equal the reference executor's under the same denied set (both authorizer modes,
  with and without @defer) and that no request is sent which the rule forbids is validated per generated case.
-/
import GqlVerif.Proofs.C14
import GqlVerif.Misc.Authz
namespace GqlVerif.Props.C14
open GqlVerif GqlVerif.Exec GqlVerif.Authz

/-- the position of a denied field never holds a non-null value, and the denial is reported -/
theorem execField_denied (s : Schema) (u : Universe) (op : Op) (vars : List (String × Json)) (fuel : Nat) (objType : String)
    (i : Nat) (overlay : Option Json) (c : Collected) (hd : (objType, c.name) ∈ s.denied) (hn : c.name ≠ "_entities") :
    ((execField s u op vars fuel objType i overlay c).1 = some .null ∨ (execField s u op vars fuel objType i overlay c).1 = none) ∧
    (execField s u op vars fuel objType i overlay c).2 ≠ [] := by
  cases fuel with
  | zero => simp [execField]
  | succ fuel =>
    have hc : s.denied.contains (objType, c.name) = true := by simpa using hd
    have hne : (c.name == "_entities") = false := by simpa using hn
    simp only [execField, hne, hc, if_true, Bool.false_eq_true, if_false]
    exact complete_err s u op vars "Unauthorized" c.sels _ fuel

/-- the result at a denied position does not depend on the data: two universes give the same (null) result -/
theorem execField_denied_ignores_data (s : Schema) (u u' : Universe) (op : Op) (vars : List (String × Json)) (fuel : Nat)
    (objType : String) (i i' : Nat) (overlay overlay' : Option Json) (c : Collected)
    (hd : (objType, c.name) ∈ s.denied) (hn : c.name ≠ "_entities") :
    (execField s u op vars fuel objType i overlay c).1 = (execField s u' op vars fuel objType i' overlay' c).1 := by
  cases fuel with
  | zero => simp [execField]
  | succ fuel =>
    have hc : s.denied.contains (objType, c.name) = true := by simpa using hd
    have hne : (c.name == "_entities") = false := by simpa using hn
    simp only [execField, hne, hc, if_true, Bool.false_eq_true, if_false]
    -- completing an error value looks neither at the universe nor at the selection set
    rw [complete_err_fst, complete_err_fst]

/-! ### the request-sent rule -/

theorem query_not_sent_iff (roots : List RootField) (h : roots ≠ []) :
    fetchSent .query roots = false ↔ ∀ r ∈ roots, r.blocked = true := by
  have he : roots.isEmpty = false := by simpa using h
  simp only [fetchSent, he, Bool.false_eq_true, if_false, bne_eq_false_iff_eq]
  constructor
  · intro hl r hr
    have := List.length_filter_eq_length_iff.mp hl
    exact this r hr
  · intro ha
    exact List.length_filter_eq_length_iff.mpr ha

theorem mutation_not_sent_iff (roots : List RootField) (h : roots ≠ []) :
    fetchSent .mutation roots = false ↔ ∃ r ∈ roots, r.blocked = true := by
  have he : roots.isEmpty = false := by simpa using h
  simp [fetchSent, he]

theorem subscription_not_sent_iff (roots : List RootField) (h : roots ≠ []) :
    fetchSent .subscription roots = false ↔ ∃ r ∈ roots, r.blocked = true := by
  have he : roots.isEmpty = false := by simpa using h
  simp [fetchSent, he]

/-- a mutation with a denied root field is never sent, whatever the other root fields are -/
theorem denied_mutation_never_sent (roots : List RootField) (r : RootField) (hr : r ∈ roots) (hb : r.blocked = true) :
    fetchSent .mutation roots = false := by
  have h : roots ≠ [] := by intro h; simp [h] at hr
  exact (mutation_not_sent_iff roots h).mpr ⟨r, hr, hb⟩

/-- a fetch without protected root fields is always sent -/
theorem unprotected_always_sent (t : OpType) (roots : List RootField) (h : ∀ r ∈ roots, r.protected_ = false) :
    fetchSent t roots = true := by
  by_cases he : roots = []
  · simp [fetchSent, he]
  · cases t
    · -- query
      have : ¬ (fetchSent .query roots = false) := by
        rw [query_not_sent_iff roots he]
        intro ha
        obtain ⟨r, hr⟩ := List.exists_mem_of_ne_nil roots he
        have := ha r hr
        simp [RootField.blocked, h r hr] at this
      simpa using this
    · have : ¬ (fetchSent .mutation roots = false) := by
        rw [mutation_not_sent_iff roots he]
        rintro ⟨r, hr, hb⟩
        simp [RootField.blocked, h r hr] at hb
      simpa using this
    · have : ¬ (fetchSent .subscription roots = false) := by
        rw [subscription_not_sent_iff roots he]
        rintro ⟨r, hr, hb⟩
        simp [RootField.blocked, h r hr] at hb
      simpa using this

example : fetchSent .query [⟨true, true⟩, ⟨true, false⟩] = true ∧ fetchSent .query [⟨true, true⟩, ⟨true, true⟩] = false ∧
    fetchSent .mutation [⟨true, true⟩, ⟨false, false⟩] = false ∧ fetchSent .mutation [⟨true, false⟩] = true := by decide

end GqlVerif.Props.C14
