/-
  Props.C08 — property theorems for C08 (fetch execution respects data dependencies under every
  schedule).  Model: GqlVerif.Plan.Sched.

  Pattern: *proved checker*.  `validate` mirrors the repository's own `validateSchedule`; it is proved
  sound w.r.t. every linearization of the tree that the loader's Sequence/Parallel semantics admits.
  The harness feeds every tree the real organiser produces (legacy waves, scheduler, all option
  combinations) to the compiled `validate`, with the dependency relation taken from the generated DAG
  (not from the tree), so a produced tree that is unsafe under some interleaving is rejected here
  even when the organiser's own validation passed or was skipped (legacy path).
-/
import GqlVerif.Proofs.C08
namespace GqlVerif.Props.C08
open GqlVerif.Sched

/-- **validate_sound** (∀ trees, ∀ dependency relations, ∀ known-id sets): an accepted tree orders
    `done d` before `start f` in the happens-before relation of the tree, for every fetch `f` of the
    tree and every dependency `d` of `f` that belongs to the DAG; it contains every DAG fetch, and no
    fetch twice. -/
theorem validate_sound (deps : Nat → List Nat) (known : List Nat) (t : FTree)
    (h : validate deps known t = true) :
    (∀ i, i ∈ ids t → ∀ d, d ∈ deps i → d ∈ known → HB t (.done d) (.start i)) ∧
    (ids t).Nodup ∧ (∀ k, k ∈ known → k ∈ ids t) ∧ (∀ i, i ∈ ids t → i ∈ known) := by
  unfold validate at h
  split at h
  · simp at h
  · rename_i is hw
    obtain ⟨e, hk, hd⟩ := walk_spec deps known t [] is hw
    simp only [Bool.and_eq_true, decide_eq_true_eq, List.all_eq_true] at h
    subst e
    refine ⟨?_, h.1, ?_, hk⟩
    · intro i hi d hdd hkn
      rcases hd i hi d hdd hkn with h1 | h1
      · simp at h1
      · exact h1
    · intro k hkk
      simpa using h.2 k hkk

/-- **schedule_safe** (∀ …, ∀ linearizations = ∀ interleavings of the parallel branches and ∀
    completion orders): in every schedule of an accepted tree, each fetch is prepared only after every
    fetch it depends on has been merged. -/
theorem schedule_safe (deps : Nat → List Nat) (known : List Nat) (t : FTree)
    (h : validate deps known t = true) (tr : List Ev) (hl : Linearization t tr) :
    ∀ i, i ∈ ids t → ∀ d, d ∈ deps i → d ∈ known → Before tr (.done d) (.start i) := by
  intro i hi d hd hk
  exact hl.respects _ _ ((validate_sound deps known t h).1 i hi d hd hk)

/-- **exactly_once**: in every schedule of an accepted tree every DAG fetch is prepared exactly once
    and merged exactly once (the trace is a permutation of a duplicate-free event list). -/
theorem exactly_once (deps : Nat → List Nat) (known : List Nat) (t : FTree)
    (h : validate deps known t = true) (tr : List Ev) (hl : Linearization t tr) :
    ∀ k, k ∈ known → tr.count (.start k) = 1 ∧ tr.count (.done k) = 1 := by
  intro k hk
  obtain ⟨_, hnd, hall, _⟩ := validate_sound deps known t h
  have hcount : ∀ e, tr.count e = (events t).count e := fun e => hl.perm.count_eq e
  have key : ∀ (t : FTree), (ids t).Nodup → ∀ k, k ∈ ids t →
      (events t).count (.start k) = 1 ∧ (events t).count (.done k) = 1 := by
    intro t
    induction t with
    | empty => intro _ k hk; simp [ids] at hk
    | single j =>
      intro _ k hk
      simp [ids] at hk; subst hk
      simp [events, List.count_cons]
    | seq a b iha ihb =>
      intro hnd k hk
      simp only [ids, List.mem_append] at hk
      simp only [ids] at hnd
      have hna := (List.nodup_append.mp hnd).1
      have hnb := (List.nodup_append.mp hnd).2.1
      have hdis := (List.nodup_append.mp hnd).2.2
      simp only [events, List.count_append]
      have zero : ∀ (t : FTree) k, k ∉ ids t → (events t).count (.start k) = 0 ∧ (events t).count (.done k) = 0 := by
        intro t
        induction t with
        | empty => intro k _; simp [events]
        | single j => intro k hk; simp [ids] at hk; simp [events, List.count_cons, Ne.symm hk]
        | seq a b iha ihb =>
          intro k hk; simp only [ids, List.mem_append, not_or] at hk
          simp only [events, List.count_append]
          have := iha k hk.1; have := ihb k hk.2; omega
        | par a b iha ihb =>
          intro k hk; simp only [ids, List.mem_append, not_or] at hk
          simp only [events, List.count_append]
          have := iha k hk.1; have := ihb k hk.2; omega
      rcases hk with hk | hk
      · have h1 := iha hna k hk
        have h2 := zero b k (fun hb => hdis k hk k hb rfl)
        omega
      · have h1 := ihb hnb k hk
        have h2 := zero a k (fun ha => hdis k ha k hk rfl)
        omega
    | par a b iha ihb =>
      intro hnd k hk
      simp only [ids, List.mem_append] at hk
      simp only [ids] at hnd
      have hna := (List.nodup_append.mp hnd).1
      have hnb := (List.nodup_append.mp hnd).2.1
      have hdis := (List.nodup_append.mp hnd).2.2
      simp only [events, List.count_append]
      have zero : ∀ (t : FTree) k, k ∉ ids t → (events t).count (.start k) = 0 ∧ (events t).count (.done k) = 0 := by
        intro t
        induction t with
        | empty => intro k _; simp [events]
        | single j => intro k hk; simp [ids] at hk; simp [events, List.count_cons, Ne.symm hk]
        | seq a b iha ihb =>
          intro k hk; simp only [ids, List.mem_append, not_or] at hk
          simp only [events, List.count_append]
          have := iha k hk.1; have := ihb k hk.2; omega
        | par a b iha ihb =>
          intro k hk; simp only [ids, List.mem_append, not_or] at hk
          simp only [events, List.count_append]
          have := iha k hk.1; have := ihb k hk.2; omega
      rcases hk with hk | hk
      · have h1 := iha hna k hk
        have h2 := zero b k (fun hb => hdis k hk k hb rfl)
        omega
      · have h1 := ihb hnb k hk
        have h2 := zero a k (fun ha => hdis k ha k hk rfl)
        omega
  rw [hcount, hcount]
  exact key t hnd k (hall k hk)

/-! Non-vacuity -/
def depsEx : Nat → List Nat := fun i => if i == 2 then [0, 1] else if i == 3 then [2, 9] else []
example : validate depsEx [0, 1, 2, 3] (.seq (.par (.single 0) (.single 1)) (.seq (.single 2) (.single 3))) = true := by decide
example : validate depsEx [0, 1, 2, 3] (.seq (.par (.single 0) (.single 2)) (.seq (.single 1) (.single 3))) = false := by decide
example : validate depsEx [0, 1, 2, 3] (.seq (.par (.single 0) (.single 1)) (.single 2)) = false := by decide

end GqlVerif.Props.C08
