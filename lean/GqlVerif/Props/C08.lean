/-
  Props.C08 — property theorems for C08 (fetch execution respects data dependencies under every
  schedule).  Model: GqlVerif.Plan.Sched.

  Pattern: *proved checker*.  `validate` mirrors the repository's own `validateSchedule`; it is proved
  sound w.r.t. every linearization of the tree that the loader's Sequence/Parallel semantics admits.
  The harness feeds every tree the real organiser produces (legacy waves, scheduler, all option
  combinations) to the compiled `validate`, with the dependency relation taken from the generated DAG
  (not from the tree), so a produced tree that is unsafe under some interleaving is rejected here
  even when the organiser's own validation passed or was skipped (legacy path).
-/
import GqlVerif.Proofs.C08
import GqlVerif.Proofs.C08Skip
import GqlVerif.Proofs.C08Bridge
namespace GqlVerif.Props.C08
open GqlVerif.Sched

/-- **validate_sound** (∀ trees, ∀ dependency relations, ∀ known-id sets): an accepted tree orders
    `done d` before `start f` in the happens-before relation of the tree, for every fetch `f` of the
    tree and every dependency `d` of `f` that belongs to the DAG; it contains every DAG fetch, and no
    fetch twice. -/
theorem validate_sound (deps : Nat → List Nat) (known : List Nat) (t : FTree)
    (h : validate deps known t = true) :
    (∀ i, i ∈ ids t → ∀ d, d ∈ deps i → d ∈ known → HB t (.done d) (.start i)) ∧
    (ids t).Nodup ∧ (∀ k, k ∈ known → k ∈ ids t) ∧ (∀ i, i ∈ ids t → i ∈ known) := by
  unfold validate at h
  split at h
  · simp at h
  · rename_i is hw
    obtain ⟨e, hk, hd⟩ := walk_spec deps known t [] is hw
    simp only [Bool.and_eq_true, decide_eq_true_eq, List.all_eq_true] at h
    subst e
    refine ⟨?_, h.1, ?_, hk⟩
    · intro i hi d hdd hkn
      rcases hd i hi d hdd hkn with h1 | h1
      · simp at h1
      · exact h1
    · intro k hkk
      simpa using h.2 k hkk

/-- **schedule_safe** (∀ …, ∀ linearizations = ∀ interleavings of the parallel branches and ∀
    completion orders): in every schedule of an accepted tree, each fetch is prepared only after every
    fetch it depends on has been merged. -/
theorem schedule_safe (deps : Nat → List Nat) (known : List Nat) (t : FTree)
    (h : validate deps known t = true) (tr : List Ev) (hl : Linearization t tr) :
    ∀ i, i ∈ ids t → ∀ d, d ∈ deps i → d ∈ known → Before tr (.done d) (.start i) := by
  intro i hi d hd hk
  exact hl.respects _ _ ((validate_sound deps known t h).1 i hi d hd hk)

/-- **exactly_once**: in every schedule of an accepted tree every DAG fetch is prepared exactly once
    and merged exactly once (the trace is a permutation of a duplicate-free event list). -/
theorem exactly_once (deps : Nat → List Nat) (known : List Nat) (t : FTree)
    (h : validate deps known t = true) (tr : List Ev) (hl : Linearization t tr) :
    ∀ k, k ∈ known → tr.count (.start k) = 1 ∧ tr.count (.done k) = 1 := by
  intro k hk
  obtain ⟨_, hnd, hall, _⟩ := validate_sound deps known t h
  have hcount : ∀ e, tr.count e = (events t).count e := fun e => hl.perm.count_eq e
  have key : ∀ (t : FTree), (ids t).Nodup → ∀ k, k ∈ ids t →
      (events t).count (.start k) = 1 ∧ (events t).count (.done k) = 1 := by
    intro t
    induction t with
    | empty => intro _ k hk; simp [ids] at hk
    | single j =>
      intro _ k hk
      simp [ids] at hk; subst hk
      simp [events, List.count_cons]
    | seq a b iha ihb =>
      intro hnd k hk
      simp only [ids, List.mem_append] at hk
      simp only [ids] at hnd
      have hna := (List.nodup_append.mp hnd).1
      have hnb := (List.nodup_append.mp hnd).2.1
      have hdis := (List.nodup_append.mp hnd).2.2
      simp only [events, List.count_append]
      have zero : ∀ (t : FTree) k, k ∉ ids t → (events t).count (.start k) = 0 ∧ (events t).count (.done k) = 0 := by
        intro t
        induction t with
        | empty => intro k _; simp [events]
        | single j => intro k hk; simp [ids] at hk; simp [events, List.count_cons, Ne.symm hk]
        | seq a b iha ihb =>
          intro k hk; simp only [ids, List.mem_append, not_or] at hk
          simp only [events, List.count_append]
          have := iha k hk.1; have := ihb k hk.2; omega
        | par a b iha ihb =>
          intro k hk; simp only [ids, List.mem_append, not_or] at hk
          simp only [events, List.count_append]
          have := iha k hk.1; have := ihb k hk.2; omega
      rcases hk with hk | hk
      · have h1 := iha hna k hk
        have h2 := zero b k (fun hb => hdis k hk k hb rfl)
        omega
      · have h1 := ihb hnb k hk
        have h2 := zero a k (fun ha => hdis k ha k hk rfl)
        omega
    | par a b iha ihb =>
      intro hnd k hk
      simp only [ids, List.mem_append] at hk
      simp only [ids] at hnd
      have hna := (List.nodup_append.mp hnd).1
      have hnb := (List.nodup_append.mp hnd).2.1
      have hdis := (List.nodup_append.mp hnd).2.2
      simp only [events, List.count_append]
      have zero : ∀ (t : FTree) k, k ∉ ids t → (events t).count (.start k) = 0 ∧ (events t).count (.done k) = 0 := by
        intro t
        induction t with
        | empty => intro k _; simp [events]
        | single j => intro k hk; simp [ids] at hk; simp [events, List.count_cons, Ne.symm hk]
        | seq a b iha ihb =>
          intro k hk; simp only [ids, List.mem_append, not_or] at hk
          simp only [events, List.count_append]
          have := iha k hk.1; have := ihb k hk.2; omega
        | par a b iha ihb =>
          intro k hk; simp only [ids, List.mem_append, not_or] at hk
          simp only [events, List.count_append]
          have := iha k hk.1; have := ihb k hk.2; omega
      rcases hk with hk | hk
      · have h1 := iha hna k hk
        have h2 := zero b k (fun hb => hdis k hk k hb rfl)
        omega
      · have h1 := ihb hnb k hk
        have h2 := zero a k (fun ha => hdis k ha k hk rfl)
        omega
  rw [hcount, hcount]
  exact key t hnd k (hall k hk)

/-! Non-vacuity -/
def depsEx : Nat → List Nat := fun i => if i == 2 then [0, 1] else if i == 3 then [2, 9] else []
example : validate depsEx [0, 1, 2, 3] (.seq (.par (.single 0) (.single 1)) (.seq (.single 2) (.single 3))) = true := by decide
example : validate depsEx [0, 1, 2, 3] (.seq (.par (.single 0) (.single 2)) (.seq (.single 1) (.single 3))) = false := by decide
example : validate depsEx [0, 1, 2, 3] (.seq (.par (.single 0) (.single 1)) (.single 2)) = false := by decide

/-! ## Failing requests (model: GqlVerif.Plan.Skip)

  The loader records failed requests in `Loader.erroredFetchIDs` and does not issue a request that reads
  from a recorded one.  `errored` / `issued` are that bookkeeping along one linearisation of the tree
  (latest fetch first); `WO` says the linearisation is legal (unique ids, nobody reads from itself or
  from a later fetch — what `schedule_respects_dependencies` above gives for a validated tree). -/
section Failing
open GqlVerif.Plan.Skip

/-- the bookkeeping computes the least fixpoint: a fetch is recorded iff its own request fails or it reads from a recorded one -/
theorem errored_is_the_fixpoint (fail : List Nat) (s : List F) (h : WO s) (f : F) (hf : f ∈ s) :
    f.id ∈ errored fail s ↔ (f.id ∈ fail ∨ ∃ d ∈ f.deps, d ∈ errored fail s) :=
  errored_iff fail s h f hf

/-- a request is issued exactly when nothing it reads from is recorded -/
theorem issued_iff_no_errored_dependency (fail : List Nat) (s : List F) (h : WO s) (f : F) (hf : f ∈ s) :
    f.id ∈ issued fail s ↔ ∀ d ∈ f.deps, d ∉ errored fail s :=
  issued_iff fail s h f hf

/-- a request that reads from a planned request that fails is never issued -/
theorem dependent_of_failed_request_not_issued (fail : List Nat) (s : List F) (h : WO s)
    (f g : F) (hf : f ∈ s) (hg : g ∈ s) (hdep : g.id ∈ f.deps) (hfail : g.id ∈ fail) :
    f.id ∉ issued fail s := fun hi =>
  (issued_iff fail s h f hf).mp hi g.id hdep ((errored_iff fail s h g hg).mpr (Or.inl hfail))

/-- … nor is one that reads from a request that was itself not issued for that reason (transitively) -/
theorem dependent_of_skipped_request_not_issued (fail : List Nat) (s : List F) (h : WO s)
    (f g : F) (hf : f ∈ s) (hg : g ∈ s) (hdep : g.id ∈ f.deps) (hskip : g.id ∉ issued fail s) :
    f.id ∉ issued fail s := fun hi => by
  have hne : ¬ ∀ d ∈ g.deps, d ∉ errored fail s := fun hall => hskip ((issued_iff fail s h g hg).mpr hall)
  have : g.id ∈ errored fail s := by
    refine (errored_iff fail s h g hg).mpr (Or.inr ?_)
    apply Classical.byContradiction
    intro hno
    exact hne (fun d hd he => hno ⟨d, hd, he⟩)
  exact (issued_iff fail s h f hf).mp hi g.id hdep this

/-- the set of recorded fetches and the set of issued requests do not depend on the linearisation:
    any two legal orders of the same fetches agree -/
theorem failing_requests_order_independent (fail : List Nat) (s₁ s₂ : List F) (h₁ : WO s₁) (h₂ : WO s₂) (hp : s₁.Perm s₂) :
    (∀ x, x ∈ errored fail s₁ ↔ x ∈ errored fail s₂) ∧ (∀ x, x ∈ issued fail s₁ ↔ x ∈ issued fail s₂) :=
  ⟨errored_perm fail s₁ s₂ h₁ h₂ hp, issued_perm fail s₁ s₂ h₁ h₂ hp⟩

/-- every planned request is issued at most once -/
theorem issued_at_most_once (fail : List Nat) : ∀ (s : List F), WO s → (issued fail s).Nodup
  | [], _ => by simp [issued]
  | g :: t, hw => by
    have ih := issued_at_most_once fail t (WO_tail hw)
    unfold issued
    split
    · exact ih
    · refine List.nodup_cons.mpr ⟨fun h => ?_, ih⟩
      obtain ⟨f', hf', e⟩ := mem_issued h
      exact ((List.pairwise_cons.mp hw.1).1 f' hf').1 e

/-! Non-vacuity: 1 reads 0, 2 reads 1, 3 reads nothing; 0 fails. Two legal orders, same outcome. -/
example : issued [0] [⟨2, [1]⟩, ⟨1, [0]⟩, ⟨3, []⟩, ⟨0, []⟩] = [3, 0] := by decide
example : issued [0] [⟨3, []⟩, ⟨2, [1]⟩, ⟨1, [0]⟩, ⟨0, []⟩] = [3, 0] := by decide
example : errored [0] [⟨2, [1]⟩, ⟨1, [0]⟩, ⟨3, []⟩, ⟨0, []⟩] = [2, 1, 0] := by decide
end Failing

/-! ## The two models meet: failing requests under every schedule of an accepted tree -/
section Bridge
open GqlVerif.Plan.Skip

/-- the decision sequence (order of the `start` events, Plan.SkipSched) of **every** schedule of an accepted tree is a
    legal linearisation in the sense of Plan.Skip: the failing-request theorems above apply to exactly the schedules the
    loader can take -/
theorem every_schedule_is_a_legal_decision_sequence (deps : Nat → List Nat) (known : List Nat) (t : FTree)
    (h : validate deps known t = true) (tr : List Ev) (hl : Linearization t tr) :
    WO (decisions deps known tr) :=
  decisions_WO' deps known t tr (validate_sound deps known t h).2.1 (schedule_safe deps known t h tr hl) hl

/-- **for every accepted tree, every set of failing requests and any two schedules** (interleavings and completion orders):
    the same requests are issued and the same fetches are recorded as failed or skipped -/
theorem failing_requests_schedule_independent (deps : Nat → List Nat) (known : List Nat) (t : FTree)
    (h : validate deps known t = true) (fail : List Nat) (tr₁ tr₂ : List Ev)
    (hl₁ : Linearization t tr₁) (hl₂ : Linearization t tr₂) :
    (∀ x, x ∈ issued fail (decisions deps known tr₁) ↔ x ∈ issued fail (decisions deps known tr₂)) ∧
    (∀ x, x ∈ errored fail (decisions deps known tr₁) ↔ x ∈ errored fail (decisions deps known tr₂)) := by
  have w₁ := every_schedule_is_a_legal_decision_sequence deps known t h tr₁ hl₁
  have w₂ := every_schedule_is_a_legal_decision_sequence deps known t h tr₂ hl₂
  have p := decisions_perm deps known t tr₁ tr₂ hl₁ hl₂
  exact ⟨issued_perm fail _ _ w₁ w₂ p, errored_perm fail _ _ w₁ w₂ p⟩

/-- … and in every schedule a request that reads (inside the DAG) from a failing request is not issued -/
theorem no_schedule_issues_a_dependent_of_a_failed_request (deps : Nat → List Nat) (known : List Nat) (t : FTree)
    (h : validate deps known t = true) (fail : List Nat) (tr : List Ev) (hl : Linearization t tr)
    (i d : Nat) (hi : i ∈ ids t) (hd : d ∈ deps i) (hk : d ∈ known) (hf : d ∈ fail) :
    i ∉ issued fail (decisions deps known tr) := by
  have w := every_schedule_is_a_legal_decision_sequence deps known t h tr hl
  have hso : ∀ j, j ∈ ids t → (⟨j, (deps j).filter (fun d => known.contains d)⟩ : F) ∈ decisions deps known tr := by
    intro j hj
    unfold decisions
    refine List.mem_reverse.mpr (List.mem_map.mpr ⟨j, ?_, rfl⟩)
    have : (startOrder tr).Perm (ids t) := by
      have := hl.perm.filterMap startId
      rwa [show List.filterMap startId (events t) = ids t from startOrder_events t] at this
    exact this.mem_iff.mpr hj
  have hdt : d ∈ ids t := (validate_sound deps known t h).2.2.1 d hk
  exact dependent_of_failed_request_not_issued fail _ w _ _ (hso i hi) (hso d hdt)
    (by simp [List.mem_filter, hd, hk]) hf

/-! Non-vacuity: the tree S(P(0,1),2) with 2 reading 0 and 1, two of its schedules, request 0 failing -/
def depsB : Nat → List Nat := fun i => if i == 2 then [0, 1] else []
def treeB : FTree := .seq (.par (.single 0) (.single 1)) (.single 2)
example : validate depsB [0, 1, 2] treeB = true := by decide
example : issued [0] (decisions depsB [0, 1, 2] [.start 0, .start 1, .done 1, .done 0, .start 2, .done 2]) = [1, 0] := by decide
example : issued [0] (decisions depsB [0, 1, 2] [.start 1, .done 1, .start 0, .done 0, .start 2, .done 2]) = [0, 1] := by decide
end Bridge

end GqlVerif.Props.C08
