/-
  Props.C13 — triggers are shared exactly by key, started at most once, cancelled exactly when they leave the
  registry, and nothing is left behind; stated over every reachable state of Proto.Subs.
-/
import GqlVerif.Proofs.C13
namespace GqlVerif.Props.C13
open GqlVerif.Subs

/-- Two registered subscribers share a trigger (one upstream subscription) iff they have the same key
    (input and forwarded headers). -/
theorem share_iff_same_key {s : St} (hs : Reach s) (i j : Nat) (hi : i ∈ s.byID) (hj : j ∈ s.byID)
    (x y : Sub) (hx : s.subs i = some x) (hy : s.subs j = some y) : x.gen = y.gen ↔ x.key = y.key := by
  have h := regInv_reach hs
  obtain ⟨x', hx', _, xt, xk⟩ := h.subOf i hi
  obtain ⟨y', hy', _, yt, yk⟩ := h.subOf j hj
  rw [hx] at hx'; cases hx'
  rw [hy] at hy'; cases hy'
  constructor
  · intro e; rw [e] at xk; rw [xk] at yk; exact Option.some.inj yk
  · intro e
    apply h.keys x.gen xt y.gen yt
    rw [xk, yk, e]

/-- Source.Start is called at most once for a trigger. -/
theorem started_at_most_once {s : St} (hs : Reach s) (g : Nat) (G : Gen) (hG : s.gens g = some G) : G.started ≤ 1 :=
  startedOnce_reach hs g G hG

/-- At most one trigger is registered per key at any time (one live upstream per (input, headers)). -/
theorem one_trigger_per_key {s : St} (hs : Reach s) (g g' : Nat) (hg : g ∈ s.trigs) (hg' : g' ∈ s.trigs)
    (hk : s.keyOfGen g = s.keyOfGen g') : g = g' :=
  (regInv_reach hs).keys g hg g' hg' hk

/-- A trigger with a registered subscriber is registered, its context is not cancelled and no cancel is pending. -/
theorem live_trigger_not_cancelled {s : St} (hs : Reach s) (i : Nat) (hi : i ∈ s.byID) (x : Sub) (hx : s.subs i = some x) :
    x.removed = false ∧ ∃ G, s.gens x.gen = some G ∧ G.cancelled = false ∧ x.gen ∉ s.pendCancel := by
  have h := regInv_reach hs
  obtain ⟨x', hx', r1, xt, _⟩ := h.subOf i hi
  rw [hx] at hx'; cases hx'
  obtain ⟨G, hG, hc, hp, _⟩ := h.trig x.gen xt
  exact ⟨r1, G, hG, hc, hp⟩

/-- A trigger without a registered subscriber — its last subscriber left, its source finished, its start-up failed,
    or the resolver shut down — has had its context cancelled, or the cancel call is pending. -/
theorem idle_trigger_cancelled {s : St} (hs : Reach s) (g : Nat) (G : Gen) (hG : s.gens g = some G)
    (hidle : ∀ i ∈ s.byID, s.genOf i ≠ some g) : G.cancelled = true ∨ g ∈ s.pendCancel := by
  have h := regInv_reach hs
  apply h.gone g G hG
  intro hg
  obtain ⟨_, _, _, _, w, hw, hwg⟩ := h.trig g hg
  exact hidle w hw hwg

/-- The reporter's counts are exact at every moment: subscriptions reported = registered subscriptions, triggers
    reported = registered initialised triggers. -/
theorem counts_exact {s : St} (hs : Reach s) :
    s.subInc = s.subDec + s.byID.length ∧ s.trigInc = s.trigDec + s.inited.length :=
  ⟨(counters_reach hs).subs, (counters_reach hs).trigs⟩

/-- Resolver shutdown empties the registry. -/
theorem shutdown_empties {s : St} (hs : Reach s) (hsh : s.shutdown = true) : s.byID = [] ∧ s.trigs = [] := by
  have h := regInv_reach hs
  have ht := h.shut hsh
  refine ⟨?_, ht⟩
  cases hb : s.byID with
  | nil => rfl
  | cons i l =>
    obtain ⟨x, _, _, xt, _⟩ := h.subOf i (by rw [hb]; exact List.mem_cons_self ..)
    rw [ht] at xt; cases xt

/-- After any history that leaves no registered subscriber (all unsubscribed, completed, failed or shut down) and no
    pending close/cancel call: no trigger or subscription record remains, both reported counts are back to zero,
    every trigger context is cancelled, and every subscriber has been completed exactly once. -/
theorem quiescent_clean {s : St} (hs : Reach s) (hempty : s.byID = []) (hq1 : s.pendClose = []) (hq2 : s.pendCancel = []) :
    s.trigs = [] ∧ s.inited = [] ∧ s.subInc = s.subDec ∧ s.trigInc = s.trigDec ∧
    (∀ g G, s.gens g = some G → G.cancelled = true) ∧
    (∀ i x, s.subs i = some x → x.removed = true ∧ x.closed = 1) := by
  have h := regInv_reach hs
  have c := counters_reach hs
  have ht : s.trigs = [] := by
    cases hb : s.trigs with
    | nil => rfl
    | cons g l =>
      obtain ⟨_, _, _, _, w, hw, _⟩ := h.trig g (by rw [hb]; exact List.mem_cons_self ..)
      rw [hempty] at hw; cases hw
  have hi : s.inited = [] := by
    cases hb : s.inited with
    | nil => rfl
    | cons g l =>
      have := (h.inited g (by rw [hb]; exact List.mem_cons_self ..)).1
      rw [ht] at this; cases this
  refine ⟨ht, hi, ?_, ?_, ?_, ?_⟩
  · have := c.subs; rw [hempty] at this; simpa using this
  · have := c.trigs; rw [hi] at this; simpa using this
  · intro g G hG
    rcases h.gone g G hG (by rw [ht]; simp) with r | r
    · exact r
    · rw [hq2] at r; cases r
  · intro i x hx
    have hr : x.removed = true := h.unreg i x hx (by rw [hempty]; simp)
    have := (closeInv_reach hs).acct i x hx
    rw [hq1, hr] at this
    exact ⟨hr, by simpa using this⟩

/-- the same after shutdown -/
theorem shutdown_clean {s : St} (hs : Reach s) (hsh : s.shutdown = true) (hq1 : s.pendClose = []) (hq2 : s.pendCancel = []) :
    s.trigs = [] ∧ s.inited = [] ∧ s.subInc = s.subDec ∧ s.trigInc = s.trigDec ∧
    (∀ g G, s.gens g = some G → G.cancelled = true) ∧
    (∀ i x, s.subs i = some x → x.removed = true ∧ x.closed = 1) :=
  quiescent_clean hs (shutdown_empties hs hsh).1 hq1 hq2

/-! non-vacuity: a history with sharing, a second key, a start failure and shutdown -/

def demo : List Act :=
  [.subscribe 0 7 1 none false, .startCall 0, .subscribe 1 7 2 none false, .subscribe 2 9 1 none false, .startCall 1,
   .startOk 0, .startFail 1 [2], .close 2, .cancel 1, .unsubscribe 0, .close 0, .shutdown, .close 1, .cancel 0]

example : (run St.init demo).map (fun s => (s.byID, s.trigs, s.pendClose, s.pendCancel)) = some ([], [], [], []) := by decide
example : (run St.init demo).map (fun s => (s.subInc, s.subDec, s.trigInc, s.trigDec)) = some (3, 3, 1, 1) := by decide
example : (run St.init demo).map (·.shutdown) = some true := by decide
example : ((run St.init demo).bind (·.gens 1)).map (fun G => (G.started, G.cancelled)) = some (1, true) := by decide

end GqlVerif.Props.C13
