/-
  Props.C15 — the JSON form of an argument literal (model of ast.Document.ValueToJSON, with the control-character
  repair) is the rendering of a JSON tree that denotes the literal's GraphQL value; omitted variables stay omitted,
  nulls stay null.

  Domain: literals whose single-line strings are lexically valid GraphQL (October 2021): `gqlUnits` accepts them.
  The `\u{…}` escape of the current spec draft is outside that domain and is copied verbatim by the code (known
  finding); block strings are shown to give a valid JSON string, their value (BlockStringValue) is computed by the
  document and compared with the spec algorithm by the harness (two known findings there).
-/
import GqlVerif.Proofs.C15
namespace GqlVerif.Props.C15
open GqlVerif.Value

mutual
  /-- every single-line string in the literal is lexically valid GraphQL; no block strings -/
  def Clean : Lit → Prop
    | .str content => (gqlUnits content).isSome = true
    | .block _ => False
    | .list xs => CleanList xs
    | .obj fs => CleanFields fs
    | _ => True
  def CleanList : Lits → Prop
    | .nil => True
    | .cons x xs => Clean x ∧ CleanList xs
  def CleanFields : Fields → Prop
    | .nil => True
    | .cons _ v fs => Clean v ∧ CleanFields fs
end

/-! ### the bytes written are the rendering of the tree -/

mutual
  theorem write_is_render (env : Env) : ∀ l : Lit, writeJSON env l = render (toTree env l)
    | .null => by simp [writeJSON, toTree, render]
    | .bool b => by simp [writeJSON, toTree, render]
    | .int neg raw => by simp [writeJSON, toTree, render]
    | .float neg raw => by simp [writeJSON, toTree, render]
    | .enum name => by simp [writeJSON, toTree, render]
    | .str c => by simp [writeJSON, toTree, render]
    | .block v => by simp [writeJSON, toTree, render]
    | .list xs => by simp [writeJSON, toTree, render, writeList_is_render env xs true]
    | .obj fs => by simp [writeJSON, toTree, render, writeFields_is_render env fs false]
    | .var name => by
      simp only [writeJSON, toTree]
      cases env name with
      | none => simp [render]
      | some v => cases hs : v.isString <;> simp [hs, render]
  theorem writeList_is_render (env : Env) : ∀ (xs : Lits) (first : Bool), writeList env xs first = renderList (toTrees env xs) first
    | .nil, _ => by simp [writeList, toTrees, renderList]
    | .cons x xs, first => by
      simp [writeList, toTrees, renderList, write_is_render env x, writeList_is_render env xs false]
  theorem writeFields_is_render (env : Env) : ∀ (fs : Fields) (rendered : Bool),
      writeFields env fs rendered = renderFields (toFields env fs) (!rendered)
    | .nil, _ => by simp [writeFields, toFields, renderFields]
    | .cons name v fs, rendered => by
      cases v with
      | var vn =>
        simp only [writeFields, toFields]
        cases henv : env vn with
        | none => simpa using writeFields_is_render env fs rendered
        | some vv =>
          simp only [renderFields]
          rw [write_is_render env (.var vn), writeFields_is_render env fs true]
          cases rendered <;> simp
      | null | bool _ | int _ _ | float _ _ | enum _ | str _ | block _ | list _ | obj _ =>
        simp only [writeFields, toFields, renderFields]
        rw [write_is_render env _, writeFields_is_render env fs true]
        cases rendered <;> simp
end

/-! ### the tree denotes the literal's value -/

mutual
  theorem tree_denotes (env : Env) : ∀ l : Lit, Clean l → treeValue (toTree env l) = litValue env l
    | .null, _ => by simp [toTree, treeValue, litValue]
    | .bool b, _ => by simp [toTree, treeValue, litValue]
    | .int neg raw, _ => by simp [toTree, treeValue, litValue]
    | .float neg raw, _ => by simp [toTree, treeValue, litValue]
    | .enum name, _ => by simp [toTree, treeValue, litValue]
    | .str c, h => by
      simp only [Clean] at h
      cases hu : gqlUnits c with
      | none => rw [hu] at h; cases h
      | some u => simp [toTree, treeValue, litValue, hu, json_reads_escaped c u hu]
    | .block v, h => by simp [Clean] at h
    | .list xs, h => by
      simp only [Clean] at h
      simp [toTree, treeValue, litValue, trees_denote env xs h]
    | .obj fs, h => by
      simp only [Clean] at h
      simp [toTree, treeValue, litValue, fields_denote env fs h]
    | .var name, _ => by
      simp only [toTree, litValue]
      cases env name with
      | none => simp [treeValue]
      | some v => cases hs : v.isString <;> simp [hs, treeValue]
  theorem trees_denote (env : Env) : ∀ xs : Lits, CleanList xs → treeValues (toTrees env xs) = litValues env xs
    | .nil, _ => by simp [toTrees, treeValues, litValues]
    | .cons x xs, h => by
      simp only [CleanList] at h
      simp [toTrees, treeValues, litValues, tree_denotes env x h.1, trees_denote env xs h.2]
  theorem fields_denote (env : Env) : ∀ fs : Fields, CleanFields fs → treeFieldValues (toFields env fs) = litFieldValues env fs
    | .nil, _ => by simp [toFields, treeFieldValues, litFieldValues]
    | .cons name v fs, h => by
      simp only [CleanFields] at h
      cases v with
      | var vn =>
        simp only [toFields, litFieldValues]
        cases henv : env vn with
        | none => simpa using fields_denote env fs h.2
        | some vv => simp [treeFieldValues, tree_denotes env (.var vn) h.1, fields_denote env fs h.2]
      | null | bool _ | int _ _ | float _ _ | enum _ | str _ | block _ | list _ | obj _ =>
        simp only [toFields, litFieldValues, treeFieldValues]
        rw [tree_denotes env _ h.1, fields_denote env fs h.2]
end

/-- C15, literal → JSON: the bytes ValueToJSON writes for a lexically valid literal are the rendering of a JSON tree
    whose value is the literal's GraphQL value. -/
theorem literal_json_denotes_value (env : Env) (l : Lit) (h : Clean l) :
    ∃ t : JTree, writeJSON env l = render t ∧ treeValue t = litValue env l :=
  ⟨toTree env l, write_is_render env l, tree_denotes env l h⟩

/-- every lexically valid single-line string becomes a string JSON can read, with the same content -/
theorem string_survives (c : List Nat) (u : Units) (h : gqlUnits c = some u) : jsonUnits (escapeControls c) = some u :=
  json_reads_escaped c u h

/-- a block string always becomes a valid JSON string (ASCII values; Go's encoder does the escaping) -/
theorem block_string_is_valid_json (v : List Nat) (h : ∀ c ∈ v, c < 128) : (jsonUnits (goEncodeBytes v)).isSome = true :=
  json_reads_encoded v h

/-- A variable the client omitted stays omitted inside an input object … -/
theorem absent_stays_absent (env : Env) (name vn : List Nat) (fs : Fields) (h : env vn = none) :
    toFields env (.cons name (.var vn) fs) = toFields env fs ∧
    writeFields env (.cons name (.var vn) fs) false = writeFields env fs false := by
  simp [toFields, writeFields, h]

/-- … and an explicit null stays null: as a literal, and as a variable value. -/
theorem null_stays_null (env : Env) : writeJSON env .null = strNull ∧
    ∀ vn, env vn = some ⟨strNull, false⟩ → writeJSON env (.var vn) = strNull := by
  refine ⟨by simp [writeJSON], fun vn h => by simp [writeJSON, h]⟩

/-- why the repair was needed: GraphQL accepts a raw TAB in a string, JSON does not — the unrepaired raw copy of the
    body `a<TAB>b` is not a JSON string body, the repaired one is, with the same content -/
theorem raw_tab_witness : gqlUnits [97, 9, 98] = some [.inl 97, .inl 9, .inl 98] ∧ jsonUnits [97, 9, 98] = none ∧
    jsonUnits (escapeControls [97, 9, 98]) = some [.inl 97, .inl 9, .inl 98] := by
  refine ⟨?_, ?_, ?_⟩
  · simp [gqlUnits, bs, q]
  · simp [jsonUnits, bs, q]
  · simp [escapeControls, jsonUnits, simpleEscape, bs, q]

/-- known finding: the draft-spec escape `\u{1F600}` is not JSON (and not October-2021 GraphQL): copying it verbatim
    gives an invalid JSON string -/
theorem finding_C15_braced_escape_witness : jsonUnits (escapeControls [92, 117, 123, 49, 70, 54, 48, 48, 125]) = none := by
  simp [escapeControls, jsonUnits, isHex, bs]

end GqlVerif.Props.C15
