/-
  Props.C17 — introspection data generated from a schema describes exactly that schema: converting it back yields
  the schema again (nothing missing, invented or mis-typed), type references survive at every nesting depth, and
  "implements" and "possible types" are two views of the same relation.
-/
import GqlVerif.Misc.Introspection
namespace GqlVerif.Props.C17
open GqlVerif.Introspection

/-- a type reference of any nesting depth survives the nested {kind, name, ofType} form -/
theorem typeref_roundtrip (s : Schema) (t : TypeRef) : unref (nref s t) = t := by
  induction t with
  | named n => rfl
  | list t ih => simp [nref, unref, ih]
  | nonNull t ih => simp [nref, unref, ih]

/-- the nested form has the wrappers of the reference, in order, and ends in the named type with its kind -/
theorem typeref_leaf (s : Schema) (t : TypeRef) : refName (nref s t) = (match t with | .named n => n | .list u => refName (nref s u) | .nonNull u => refName (nref s u)) := by
  cases t <;> rfl

theorem arg_roundtrip (s : Schema) (a : Arg) : unarg (iarg s a) = a := by
  cases a; simp [iarg, unarg, typeref_roundtrip]

theorem args_roundtrip (s : Schema) (as : List Arg) : (as.map (iarg s)).map unarg = as := by
  induction as with
  | nil => rfl
  | cons a as ih => simp [arg_roundtrip, ih]

theorem args_roundtrip' (s : Schema) (as : List Arg) : as.map (unarg ∘ iarg s) = as := by
  rw [← List.map_map]; exact args_roundtrip s as

theorem field_roundtrip (s : Schema) (f : Field) :
    (fun g : IField => (⟨g.name, g.args.map unarg, unref g.type, if g.isDeprecated then g.reason else none⟩ : Field)) (ifield s f) = f := by
  cases f with
  | mk name args type dep =>
    simp only [ifield]
    have := args_roundtrip s args
    cases dep <;> simp [typeref_roundtrip, this]

theorem enumval_roundtrip (v : EnumVal) :
    (fun w : IEnumVal => (⟨w.name, if w.isDeprecated then w.reason else none⟩ : EnumVal)) ⟨v.name, v.dep.isSome, v.dep⟩ = v := by
  cases v with
  | mk name dep => cases dep <;> simp

theorem map_id' {α : Type} (f : α → α) (l : List α) (h : ∀ x, f x = x) : l.map f = l := by
  induction l with
  | nil => rfl
  | cons a l ih => simp [h a, ih]

theorem type_roundtrip (s : Schema) (t : TypeDef) (h : t.wf = true) : untype (fullType s t) = t := by
  cases t with
  | mk kind name fields inputFields interfaces members enumValues =>
    simp only [TypeDef.wf, Bool.and_eq_true, Bool.or_eq_true, beq_iff_eq, List.isEmpty_iff] at h
    obtain ⟨⟨⟨h1, h2⟩, h3⟩, h4⟩ := h
    have hf : ∀ fs : List Field, (fs.map (ifield s)).map (fun g : IField => (⟨g.name, g.args.map unarg, unref g.type, if g.isDeprecated then g.reason else none⟩ : Field)) = fs := by
      intro fs; rw [List.map_map]; exact map_id' _ fs (field_roundtrip s)
    have he : ∀ vs : List EnumVal, (vs.map fun v => (⟨v.name, v.dep.isSome, v.dep⟩ : IEnumVal)).map (fun w : IEnumVal => (⟨w.name, if w.isDeprecated then w.reason else none⟩ : EnumVal)) = vs := by
      intro vs; rw [List.map_map]; exact map_id' _ vs enumval_roundtrip
    have hi : ∀ is : List String, (is.map fun i => NRef.leaf .iface i).map refName = is := by
      intro is; rw [List.map_map]; exact map_id' _ is (fun _ => rfl)
    have hm : ∀ ms : List String, (ms.map fun m => NRef.leaf (kindOf s m) m).map refName = ms := by
      intro ms; rw [List.map_map]; exact map_id' _ ms (fun _ => rfl)
    cases kind <;> simp_all [untype, fullType, possible, nkind, unkind, args_roundtrip']

/-- C17, round trip: converting the introspection data of a well-formed schema back gives the schema again — every
    type, field, argument, default value, enum value, deprecation, implemented interface, union member, directive and
    root operation type, and nothing else. -/
theorem roundtrip (s : Schema) (h : s.wf = true) : convert (generate s) = s := by
  cases s with
  | mk types directives query mutation subscription =>
    simp only [Schema.wf, List.all_eq_true] at h
    simp only [convert, generate, List.map_map]
    congr 1
    · -- types
      have : ∀ ts : List TypeDef, (∀ t ∈ ts, t.wf = true) →
          ts.map (untype ∘ fullType ⟨types, directives, query, mutation, subscription⟩) = ts := by
        intro ts hts
        induction ts with
        | nil => rfl
        | cons t ts ih =>
          simp only [List.map_cons, Function.comp]
          rw [type_roundtrip _ t (hts t (List.mem_cons_self ..))]
          congr 1
          exact ih (fun x hx => hts x (List.mem_cons_of_mem _ hx))
      exact this types h
    · apply map_id'
      intro d
      cases d with
      | mk name locations args repeatable =>
        simp only [Function.comp]
        rw [args_roundtrip]

/-- "T implements I" and "T is a possible type of I" are the same relation on object types -/
theorem possible_iff_implements (s : Schema) (i : TypeDef) (hi : i.kind = .iface) (n : String) :
    NRef.leaf .object n ∈ possible s i ↔ (∃ u ∈ s.types, u.name = n ∧ u.kind = .object ∧ i.name ∈ u.interfaces) := by
  simp only [possible, hi, List.mem_map, List.mem_filter]
  constructor
  · rintro ⟨u, ⟨hu, hc⟩, he⟩
    simp only [Bool.and_eq_true, beq_iff_eq, List.contains_iff_mem] at hc
    injection he with h1 h2
    exact ⟨u, hu, h2, hc.1, hc.2⟩
  · rintro ⟨u, hu, hn, hk, hm⟩
    refine ⟨u, ⟨hu, ?_⟩, by rw [hn]⟩
    simp only [Bool.and_eq_true, beq_iff_eq, List.contains_iff_mem]
    exact ⟨hk, hm⟩

/-- a union's possible types are exactly its members -/
theorem union_possible (s : Schema) (u : TypeDef) (hu : u.kind = .union) : (possible s u).map refName = u.members := by
  simp only [possible, hu, List.map_map]
  exact map_id' _ u.members (fun _ => rfl)

/-- nothing is invented: the generated data has exactly one entry per declared type, in order, with its name and kind -/
theorem types_exact (s : Schema) : (generate s).types.map (fun t => (t.name, t.kind)) = s.types.map (fun t => (t.name, nkind t.kind)) := by
  simp [generate, fullType, List.map_map, Function.comp]

/-! non-vacuity -/
def demo : Schema :=
  { types := [⟨.iface, "Node", [⟨"id", [], .nonNull (.named "ID"), none⟩], [], [], [], []⟩,
              ⟨.object, "Query", [⟨"node", [⟨"id", .nonNull (.named "ID"), some "\"1\""⟩], .named "Node", some "use nodes"⟩], [], [], [], []⟩,
              ⟨.object, "User", [⟨"id", [], .nonNull (.named "ID"), none⟩, ⟨"tags", [], .list (.nonNull (.named "Color")), none⟩], [], ["Node"], [], []⟩,
              ⟨.enum, "Color", [], [], [], [], [⟨"RED", none⟩, ⟨"BLUE", some "No longer supported"⟩]⟩,
              ⟨.union, "Any", [], [], [], ["User"], []⟩],
    directives := [⟨"tag", ["FIELD_DEFINITION"], [⟨"n", .named "Int", some "-5"⟩], true⟩],
    query := "Query", mutation := none, subscription := none }

example : demo.wf = true ∧ convert (generate demo) = demo := by decide

end GqlVerif.Props.C17
