/-
  Props.C10 — the @defer stream protocol.  `Defer.accept` is the acceptor the harness runs (through the driver) on
  every stream the engine produces; these theorems say what acceptance means, for streams of any length:

  * every id is completed exactly once, and only if announced (on every prefix of the stream),
  * nothing is delivered for an id that is unannounced or already completed,
  * `hasNext` is false on the last frame and only there,
  * at the end every announced id is completed.

  `Defer.reconstruct` is the client-side merge the harness compares with the data of the query without @defer; the
  theorems below fix its meaning on the cases that make the comparison meaningful (no incremental payload → the
  initial data; a payload for the root → deep merge; payloads never remove a key of the data).

  That the engine's streams are accepted and reconstruct to the undeferred data is checked per generated
  (operation, universe, completion order), not proved.
-/
import GqlVerif.Proofs.C10
import GqlVerif.Proofs.C10Tree
import GqlVerif.Proofs.C10Lock
namespace GqlVerif.Props.C10
open GqlVerif GqlVerif.Defer

/-- on every prefix of an accepted stream: completed ids are announced, and no id is announced or completed twice -/
theorem accepted_prefix_discipline (fs : List Frame) (h : accept fs = true) (n : Nat) :
    let s := finalState {} (fs.take n)
    (s.announced.map (·.1)).Nodup ∧ s.done.Nodup ∧ ∀ id ∈ s.done, id ∈ s.announced.map (·.1) := by
  cases fs with
  | nil => simp [accept] at h
  | cons f rest =>
    simp only [accept, Bool.and_eq_true] at h
    exact acceptFrom_prefix_inv _ _ inv_init h.2 n

/-- every announced id of an accepted stream is completed in exactly one frame, exactly once -/
theorem accepted_completed_exactly_once (fs : List Frame) (h : accept fs = true) (p : String × List PathElem)
    (hp : p ∈ fs.flatMap (·.pending)) : (fs.flatMap (·.completed)).count p.1 = 1 := by
  cases fs with
  | nil => simp [accept] at h
  | cons f rest =>
    simp only [accept, Bool.and_eq_true] at h
    have hfin := acceptFrom_final _ _ h.2
    have hinv := acceptFrom_prefix_inv _ _ inv_init h.2 (f :: rest).length
    rw [List.take_length] at hinv
    have hd := finalState_done {} (f :: rest)
    have ha := finalState_announced {} (f :: rest)
    simp only [List.nil_append] at hd ha
    have hmem : p.1 ∈ (finalState {} (f :: rest)).done := by
      simp only [allDone, List.all_eq_true, List.contains_eq_mem, decide_eq_true_eq] at hfin
      exact hfin p (by rw [ha]; exact hp)
    rw [← hd]
    have := hinv.2.1.count (a := p.1)
    simpa [hmem] using this

/-- a completed id was announced: in an earlier frame or in the same one -/
theorem accepted_completed_announced (fs : List Frame) (h : accept fs = true) (id : String)
    (hid : id ∈ fs.flatMap (·.completed)) : id ∈ (fs.flatMap (·.pending)).map (·.1) := by
  cases fs with
  | nil => simp [accept] at h
  | cons f rest =>
    simp only [accept, Bool.and_eq_true] at h
    have hinv := acceptFrom_prefix_inv _ _ inv_init h.2 (f :: rest).length
    rw [List.take_length] at hinv
    have hd := finalState_done {} (f :: rest)
    have ha := finalState_announced {} (f :: rest)
    simp only [List.nil_append] at hd ha
    rw [← ha]
    exact hinv.2.2 id (by rw [hd]; exact hid)

/-- nothing is delivered for an id that is unannounced (by the end of that frame) or already completed -/
theorem accepted_incremental_announced_and_open (fs : List Frame) (h : accept fs = true) (n : Nat) (f : Frame)
    (hn : fs[n]? = some f) (i : Inc) (hi : i ∈ f.incremental) :
    i.id ∈ annIds (finalState {} (fs.take n)) f ∧ i.id ∉ (finalState {} (fs.take n)).done := by
  cases fs with
  | nil => simp at hn
  | cons g rest =>
    simp only [accept, Bool.and_eq_true] at h
    exact acceptFrom_incremental _ _ h.2 n f hn i hi

/-- `hasNext` is false on the last frame and only there; an accepted stream has a last frame -/
theorem accepted_hasNext (fs : List Frame) (h : accept fs = true) :
    (∀ f ∈ fs.dropLast, f.hasNext = true) ∧ ∃ l, fs.getLast? = some l ∧ l.hasNext = false := by
  cases fs with
  | nil => simp [accept] at h
  | cons g rest =>
    simp only [accept, Bool.and_eq_true] at h
    exact acceptFrom_hasNext _ _ h.2

/-- the first frame of an accepted stream is the initial payload -/
theorem accepted_initial (fs : List Frame) (h : accept fs = true) :
    ∃ f rest, fs = f :: rest ∧ f.hasData = true ∧ f.incremental = [] := by
  cases fs with
  | nil => simp [accept] at h
  | cons f rest =>
    simp only [accept, Bool.and_eq_true, List.isEmpty_iff] at h
    exact ⟨f, rest, rfl, h.1.1, h.1.2⟩

/-! ### reconstruction -/

/-- a stream that delivers nothing incrementally reconstructs to the initial data -/
theorem reconstruct_no_incremental (d : Json) (fs : List Frame) (h : ∀ f ∈ fs, f.incremental = []) :
    reconstruct d fs = d := by
  unfold reconstruct
  suffices ∀ (s : State), (fs.foldl (fun (acc : State × Json) f => (stepState acc.1 f, applyFrame acc.1 acc.2 f)) (s, d)).2 = d from this {}
  induction fs with
  | nil => intro s; rfl
  | cons f fs ih =>
    intro s
    simp only [List.foldl_cons]
    have hf : applyFrame s d f = d := by simp [applyFrame, h f (by simp)]
    rw [hf]
    exact ih (fun g hg => h g (by simp [hg])) _

/-- merging never removes a key of the data it is merged into -/
theorem mergeKvs_keeps_keys (fuel : Nat) (a b : List (String × Json)) (k : String) (hk : k ∈ a.map (·.1)) :
    k ∈ (mergeKvs fuel a b).map (·.1) := by
  induction fuel generalizing a b with
  | zero => simpa [mergeKvs] using hk
  | succ fuel ih =>
    cases b with
    | nil => simpa [mergeKvs] using hk
    | cons p rest =>
      obtain ⟨k', v⟩ := p
      simp only [mergeKvs]
      apply ih
      have hmap : ∀ l : List (String × Json),
          (l.map fun (k'', v') => if k'' == k' then (k'', mergeJson fuel v' v) else (k'', v')).map (·.1) = l.map (·.1) := by
        intro l
        induction l with
        | nil => rfl
        | cons x xs ihl =>
          obtain ⟨x1, x2⟩ := x
          simp only [List.map_cons, ihl]
          split <;> rfl
      split
      · rw [hmap]; exact hk
      · rw [List.map_append]; exact List.mem_append_left _ hk

/-- a payload for the position of an object with other keys only adds its keys (sufficient fuel: one level) -/
theorem mergeKvs_disjoint_single (fuel : Nat) (a : List (String × Json)) (k : String) (v : Json)
    (h : a.any (·.1 == k) = false) : mergeKvs (fuel + 2) a [(k, v)] = a ++ [(k, v)] := by
  simp [mergeKvs, h]

def exF1 : Frame := { hasData := true, pending := [("1", [.key "user"])], incremental := [], completed := [], hasNext := true }
def exF2 : Frame := { hasData := false, pending := [], incremental := [⟨"1", [], .obj [("title", .str "t")]⟩], completed := ["1"], hasNext := false }

/-- the acceptor is not vacuous: the two-frame stream of the simplest deferred query is accepted and reconstructs -/
example : accept [exF1, exF2] = true := by decide
example : Json.beq (reconstruct (.obj [("user", .obj [("name", .str "n")])]) [exF1, exF2])
    (.obj [("user", .obj [("name", .str "n"), ("title", .str "t")])]) = true := by decide +kernel

/-- … and rejects a stream that delivers for an unannounced id, completes twice, ends with an open id or never ends -/
example :
    accept [exF1, { hasData := false, pending := [], incremental := [⟨"2", [], .null⟩], completed := ["1"], hasNext := false }] = false ∧
    accept [exF1, { hasData := false, pending := [], incremental := [], completed := ["1", "1"], hasNext := false }] = false ∧
    accept [exF1, { hasData := false, pending := [], incremental := [], completed := [], hasNext := false }] = false ∧
    accept [exF1, { hasData := false, pending := [], incremental := [], completed := ["1"], hasNext := true }] = false := by
  decide

/-! ## The defer tree of the resolver (model: GqlVerif.Proto.DeferTree)

  While the resolver renders a deferred group it may seek into object fields that belong to *other* groups, but only
  to enclosing ones (`Resolvable.isDeferAncestor`, called from `collectDeferFields` with the parent of the current
  group): an enclosing group has delivered, so its data is in the tree; a sibling of an enclosing group may not have. -/
section Tree
open GqlVerif.Proto.DeferTree

/-- the loop of `isDeferAncestor` decides exactly "is the parent or an enclosing defer of it" -/
theorem is_defer_ancestor_iff_enclosing (parent : Nat → Nat) (hw : WF parent) (f p : Nat) :
    anc parent f p = true ↔ InChain parent p f := anc_iff parent hw f p

/-- in **every** delivery order that delivers a nested group after its enclosing group, the renderer of group `g` only
    seeks into groups that were delivered before `g` -/
theorem renderer_seeks_only_into_delivered_groups (parent : Nat → Nat) (ord : List Nat) (hv : Valid parent ord)
    (l₁ : List Nat) (g : Nat) (l₂ : List Nat) (ho : ord = l₁ ++ g :: l₂) (f : Nat)
    (h : anc parent f (parent g) = true) : f ∈ l₁ :=
  seeks_only_into_delivered_groups parent ord hv l₁ g l₂ ho f h

/-! Non-vacuity, and why the id order alone does not decide it: defers 2 and 3 inside 1, defer 4 inside 3; in the
    delivery order 1,3,4,2 group 2 (an "uncle" of 4 with a smaller id than 4's parent) has not delivered when 4 is rendered. -/
def parentEx : Nat → Nat := fun g => if g == 2 then 1 else if g == 3 then 1 else if g == 4 then 3 else 0
example : anc parentEx 3 (parentEx 4) = true ∧ anc parentEx 1 (parentEx 4) = true ∧ anc parentEx 2 (parentEx 4) = false := by decide
example : (2 ≤ parentEx 4) ∧ 2 ∉ [1, 3] := by decide
end Tree

/-! ## The render / flush region of concurrent deferred groups (model: GqlVerif.Proto.DeferLock)

  All deferred groups write into one buffered writer; groups of a Parallel node run concurrently. The region
  `Lock · render… · Flush · Unlock` of `resolveDeferSingle` (tied in `Ties.C10.resolveDeferSingle_tie`: the unlock is
  deferred, the flush is the returned expression) is what keeps the frames of different groups apart. -/
section Lock
open GqlVerif.Proto.DeferLock

/-- **in every interleaving of any number of groups, every frame sent is the payload of exactly one group** -/
theorem frames_of_concurrent_groups_never_interleave (as : List Act) (s : St) (h : run {} as = some s) :
    ∀ fr ∈ s.out, Homogeneous fr := frames_never_interleave as s h

/-- whenever no group holds the lock, nothing rendered is waiting in the buffer -/
theorem buffer_empty_when_unlocked (as : List Act) (s : St) (h : run {} as = some s) : s.lock = none → s.buf = [] :=
  nothing_unsent_when_unlocked as s h

/-! Non-vacuity; and the region is necessary: with the flush after the unlock a second group renders in between and one
    frame carries both payloads. -/
example : (run {} [.acq 1, .rend 1, .rend 1, .flush 1, .rel 1, .acq 2, .rend 2, .flush 2, .rel 2]).map (·.out) = some [[1, 1], [2]] := by decide
example : (run {} [.acq 1, .rend 1, .acq 2]).isNone = true := by decide
example : (runLate {} [.acq 1, .rend 1, .rel 1, .acq 2, .rend 2, .flush 1]).map (·.out) = some [[1, 2]] := by decide
example : ¬ Homogeneous [1, 2] := by
  rintro ⟨g, h⟩
  have h1 := h 1 (by simp); have h2 := h 2 (by simp); omega
end Lock

end GqlVerif.Props.C10
