/-
  Props.C02 — property theorems for C02 (the rendered response is well-formed and type-safe whatever
  the subgraphs return).  Model: GqlVerif.Plan.Render (two-pass renderer, default options).

  Proved so far (all for every response-plan tree and every JSON document):
    • every_failure_is_reported / data_null_has_error : null propagation never happens silently
    • errors_only_grow
  Stated, not yet proved (kept visible; currently covered by the differential run and the Go
  oracles only): two_pass_agree_statement (the render pass never meets an error after a successful
  pre-walk, i.e. the output is always a JSON value), welltyped_projects_statement.
-/
import GqlVerif.Proofs.C02
namespace GqlVerif.Props.C02
open GqlVerif GqlVerif.Render

/-- **errors_only_grow** (∀ trees, ∀ data, ∀ states): the pre-walk never drops an error. -/
theorem errors_only_grow (n : Node) (c : Json) (st : St) :
    st.errs.length ≤ (preNode n c st).st.errs.length := by
  have := preNode_reports n c st
  unfold Reports b2n at this
  split at this <;> omega

/-- **every_failure_is_reported** (∀ trees, ∀ data): whenever a node fails upward (a null or
    ill-typed value that must be propagated to an ancestor), at least one error has been recorded. -/
theorem every_failure_is_reported (n : Node) (c : Json) (st : St) (h : (preNode n c st).err = true) :
    st.errs.length < (preNode n c st).st.errs.length := by
  have := preNode_reports n c st
  unfold Reports b2n at this
  simp [h] at this
  omega

/-- **data_null_has_error** (∀ trees, ∀ data): a response with `"data":null` always carries an error. -/
theorem data_null_has_error (root : Node) (data : Json) (h : (resolve root data).dataNull = true) :
    (resolve root data).errors ≠ [] := by
  unfold resolve at h ⊢
  simp only at h ⊢
  split at h
  · rename_i herr
    simp only [herr, if_true]
    have := every_failure_is_reported root data {} herr
    intro he
    simp [he] at this
  · simp at h

/-- the invariant that makes two-pass rendering sound (full statement; proof pending) -/
def two_pass_agree_statement : Prop :=
  ∀ (root : Node) (data : Json), (preNode root data {}).err = false →
    (rndNode root (preNode root data {}).c []).isSome = true

/-! Non-vacuity / witnesses on concrete trees (kernel-evaluated) -/

def listOfLists : Node :=
  .object [] false "Query" "" [] [] false
    (.cons "m" {} (.array ["m"] true (.array [] true (.scalar .int [] false))) .nil)

/-- the repaired nested-list case (fix dbb8f94): `[[1,null]]` for `[[Int!]]` renders `[null]` with one error -/
example : (resolve listOfLists (.obj [("m", .arr [.arr [.num "1", .null]])])).data.map
    (· == .obj [("m", .arr [.null])]) = some true := by decide
example : ((resolve listOfLists (.obj [("m", .arr [.arr [.num "1", .null]])])).errors.map (·.cls)) = ["nonNull"] := by decide
example : (resolve listOfLists (.obj [("m", .arr [.arr [.num "1", .num "2"]])])).data.map
    (· == .obj [("m", .arr [.arr [.num "1", .num "2"]])]) = some true := by decide

def nonNullLeaf : Node :=
  .object [] false "Query" "" [] [] false (.cons "a" {} (.scalar .string ["a"] false) .nil)
example : (resolve nonNullLeaf (.obj [("a", .null)])).dataNull = true := by decide
example : (resolve nonNullLeaf (.obj [("a", .str "x")])).data.map (· == .obj [("a", .str "x")]) = some true := by decide

end GqlVerif.Props.C02
