/-
  Props.C02 — property theorems for C02 (the rendered response is well-formed and type-safe whatever
  the subgraphs return).  Model: GqlVerif.Plan.Render (two-pass renderer, default options).

  Proved for every response-plan tree and every JSON document:
    • every_failure_is_reported / data_null_has_error : null propagation never happens silently
    • errors_only_grow
  Proved for every plan tree of the shape the planner produces (`wfRoot`, Plan.RenderSpec: a field value reads one key
  of its parent, a list item reads the element itself, no later field writes a key an earlier field reads) and every
  JSON document:
    • two_pass_agree : the render pass never meets an error after a successful pre-walk
    • response_is_always_a_value : `Resolve` always produces a JSON value for `data`
    • rendered_data_type_safe : that value conforms to the plan (`Conforms`)
    • object_keys_exactly_selected : a conforming object has exactly the response keys of its selected fields, in order
    • wf_is_needed : without the shape hypothesis the statement is false (a concrete tree, kernel-evaluated)
  Proved for every plan tree and every JSON document (no shape hypothesis):
    • no_error_means_projection : a response without errors is the projection of the UNCHANGED subgraph data
    • welltyped_projects : on plan-directed well-typed data (`WT`) there is no error, `data` is not null and is that projection
    • errors_located_below_the_node : the errors a node's walk adds lie at or below the response path of that node, and
      the walk restores the path (errors of one subtree are never attributed to another)
  Not proved (differential run and Go oracles only): that the path of each reported error is EXACTLY the response path of
  the offending position; which ancestor is nulled (the nearest nullable one).
-/
import GqlVerif.Proofs.C02
import GqlVerif.Proofs.C02Safe
import GqlVerif.Proofs.C02Proj
import GqlVerif.Proofs.C02Path
namespace GqlVerif.Props.C02
open GqlVerif GqlVerif.Render

/-- **errors_only_grow** (∀ trees, ∀ data, ∀ states): the pre-walk never drops an error. -/
theorem errors_only_grow (n : Node) (c : Json) (st : St) :
    st.errs.length ≤ (preNode n c st).st.errs.length := by
  have := preNode_reports n c st
  unfold Reports b2n at this
  split at this <;> omega

/-- **every_failure_is_reported** (∀ trees, ∀ data): whenever a node fails upward (a null or
    ill-typed value that must be propagated to an ancestor), at least one error has been recorded. -/
theorem every_failure_is_reported (n : Node) (c : Json) (st : St) (h : (preNode n c st).err = true) :
    st.errs.length < (preNode n c st).st.errs.length := by
  have := preNode_reports n c st
  unfold Reports b2n at this
  simp [h] at this
  omega

/-- **data_null_has_error** (∀ trees, ∀ data): a response with `"data":null` always carries an error. -/
theorem data_null_has_error (root : Node) (data : Json) (h : (resolve root data).dataNull = true) :
    (resolve root data).errors ≠ [] := by
  unfold resolve at h ⊢
  simp only at h ⊢
  split at h
  · rename_i herr
    simp only [herr, if_true]
    have := every_failure_is_reported root data {} herr
    intro he
    simp [he] at this
  · simp at h

theorem wfRoot_shape {root : Node} (h : wfRoot root = true) :
    wfNode root = true ∧ (root.reads = false ∨ root.path.length ≤ 1) := by
  simp only [wfRoot, Bool.and_eq_true, Bool.or_eq_true, Bool.not_eq_true'] at h
  refine ⟨h.2, ?_⟩
  rcases h.1 with h1 | h1
  · exact Or.inl h1
  · right; simp [List.isEmpty_iff.mp h1]

/-- **two_pass_agree** (∀ planner-shaped trees, ∀ data): the invariant that makes two-pass rendering sound — after a
    pre-walk that did not fail upward, the render pass meets no error, and what it prints conforms to the plan. -/
theorem two_pass_agree (root : Node) (data : Json) (hwf : wfRoot root = true)
    (h : (preNode root data {}).err = false) :
    ∃ v, rndNode root (preNode root data {}).c [] = some v ∧ Conforms root v [] := by
  obtain ⟨h1, h2⟩ := wfRoot_shape hwf
  exact node_ok root data {} h1 h2 h

/-- **response_is_always_a_value** (∀ planner-shaped trees, ∀ data): whatever the subgraphs delivered, `data` of the
    response is a JSON value (never the malformed output of a render pass that stopped half-way). -/
theorem response_is_always_a_value (root : Node) (data : Json) (hwf : wfRoot root = true) :
    (resolve root data).data.isSome = true := by
  unfold resolve
  simp only
  split
  · rfl
  · rename_i herr
    obtain ⟨v, hv, _⟩ := two_pass_agree root data hwf (by simpa using herr)
    simp [hv]

/-- **rendered_data_type_safe** (∀ planner-shaped trees, ∀ data): unless the whole response is `data: null`, the
    rendered data conforms to the plan: null only at nullable nodes, scalars of the declared kind, declared and
    accessible enum values, lists of conforming items, objects with exactly the selected keys. -/
theorem rendered_data_type_safe (root : Node) (data : Json) (hwf : wfRoot root = true)
    (hnn : (resolve root data).dataNull = false) :
    ∃ v, (resolve root data).data = some v ∧ Conforms root v [] := by
  unfold resolve at hnn ⊢
  simp only at hnn ⊢
  split
  · rename_i herr; simp [herr] at hnn
  · rename_i herr
    exact two_pass_agree root data hwf (by simpa using herr)

/-- **no_error_means_projection** (∀ trees, ∀ data): when no error is reported the pre-walk did not touch the data, so
    `data` is the render pass (the projection through the selection) applied to what the subgraphs delivered. -/
theorem no_error_means_projection (root : Node) (data : Json) (h : (resolve root data).errors = []) :
    (resolve root data).dataNull = false ∧ (resolve root data).data = rndNode root data [] := by
  unfold resolve at h ⊢
  simp only at h ⊢
  have hl : (preNode root data {}).st.errs.length = ({} : St).errs.length := by
    split at h <;> simp_all
  have herr := reports_err (preNode_reports root data {}) hl
  have hc := preNode_nochange root data {} hl
  simp [herr, hc]

/-- **welltyped_projects** (∀ trees, ∀ data): on data that is well-typed for the plan (nulls only at nullable nodes, the
    declared JSON kinds, declared accessible enum values, admissible `__typename`s) no error is reported, `data` is not
    null and equals the projection of the subgraph data through the selection. -/
theorem welltyped_projects (root : Node) (data : Json) (h : WT root data []) :
    (resolve root data).errors = [] ∧ (resolve root data).dataNull = false ∧
      (resolve root data).data = rndNode root data [] := by
  have he : (resolve root data).errors = [] := by
    have := wt_node root data {} h
    unfold resolve
    simp only
    split <;> simpa using this
  exact ⟨he, no_error_means_projection root data he⟩

/-- **errors_located_below_the_node** (∀ trees, ∀ data, ∀ walk states): the walk of a node keeps the errors recorded so
    far, every error it adds has a path that extends the response path at which the walk started, and the path is restored
    afterwards — so the errors of one subtree are never attributed to a position outside it. -/
theorem errors_located_below_the_node (n : Node) (c : Json) (st : St) :
    (∃ new, (preNode n c st).st.errs = st.errs ++ new ∧ ∀ e ∈ new, st.path <+: e.path) ∧
      (preNode n c st).st.path = st.path :=
  preNode_located n c st

/-- the response keys a field list selects under a stack of runtime type names -/
def selectedNames : Fields → List (Option String) → List String
  | .nil, _ => []
  | .cons name guard _ rest, tns => if skipField guard tns then selectedNames rest tns else name :: selectedNames rest tns

/-- **object_keys_exactly_selected**: a conforming object has exactly the response keys of the fields that are not
    skipped for the runtime type, in plan order — no key more, none less, none twice unless selected twice. -/
theorem object_keys_exactly_selected : ∀ (fs : Fields) (kvs : List (String × Json)) (tns : List (Option String)),
    ConformsFields fs kvs tns → kvs.map (·.1) = selectedNames fs tns
  | .nil, kvs, tns, h => by simp only [ConformsFields] at h; simp [h, selectedNames]
  | .cons name guard value rest, kvs, tns, h => by
    simp only [ConformsFields] at h
    simp only [selectedNames]
    split
    · rename_i hs; simp only [hs, if_true] at h; exact object_keys_exactly_selected rest kvs tns h
    · rename_i hs
      simp only [hs, if_false] at h
      obtain ⟨x, r, rfl, _, hr⟩ := h
      simp [object_keys_exactly_selected rest r tns hr]

/-! Non-vacuity / witnesses on concrete trees (kernel-evaluated) -/

def listOfLists : Node :=
  .object [] false "Query" "" [] [] false
    (.cons "m" {} (.array ["m"] true (.array [] true (.scalar .int [] false))) .nil)

/-- the repaired nested-list case (fix dbb8f94): `[[1,null]]` for `[[Int!]]` renders `[null]` with one error -/
example : (resolve listOfLists (.obj [("m", .arr [.arr [.num "1", .null]])])).data.map
    (· == .obj [("m", .arr [.null])]) = some true := by decide
example : ((resolve listOfLists (.obj [("m", .arr [.arr [.num "1", .null]])])).errors.map (·.cls)) = ["nonNull"] := by decide
example : (resolve listOfLists (.obj [("m", .arr [.arr [.num "1", .num "2"]])])).data.map
    (· == .obj [("m", .arr [.arr [.num "1", .num "2"]])]) = some true := by decide

/-- **wf_is_needed**: a tree in which a later field (a nullable object under key `a`) writes the key an earlier
    field (a non-null custom scalar under the same key `a`) reads — not a shape the planner produces. The pre-walk
    succeeds (the scalar saw an object, then the object was nulled), the render pass then finds null at a non-null scalar:
    without the shape hypothesis `two_pass_agree` is false. -/
def clashingKeys : Node :=
  .object [] false "Query" "" [] [] false
    (.cons "x" {} (.scalar .custom ["a"] false)
      (.cons "y" {} (.object ["a"] true "T" "" [] [] false (.cons "z" {} (.scalar .string ["z"] false) .nil)) .nil))
example : wfRoot clashingKeys = false := by decide
example : (preNode clashingKeys (.obj [("a", .obj [("z", .null)])]) {}).err = false := by decide
example : (resolve clashingKeys (.obj [("a", .obj [("z", .null)])])).data.isNone = true := by decide

/-- non-vacuity of `welltyped_projects`: well-typed data for the nested-list tree -/
example : WT listOfLists (.obj [("m", .arr [.arr [.num "1", .num "2"]])]) [] := by
  simp [WT, WTFields, listOfLists, getPath, get1, skipField, typenameCheck, isAbstract, kindOk]

/-- the trees of the other examples have the planner's shape, so the theorems apply to them -/
example : wfRoot listOfLists = true := by decide

def nonNullLeaf : Node :=
  .object [] false "Query" "" [] [] false (.cons "a" {} (.scalar .string ["a"] false) .nil)
example : (resolve nonNullLeaf (.obj [("a", .null)])).dataNull = true := by decide
example : (resolve nonNullLeaf (.obj [("a", .str "x")])).data.map (· == .obj [("a", .str "x")]) = some true := by decide
example : wfRoot nonNullLeaf = true := by decide

end GqlVerif.Props.C02
