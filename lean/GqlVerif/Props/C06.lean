/-
  Props.C06 — property theorems for C06 (variable validation accepts exactly the coercible values).
  Model: GqlVerif.Gql.Coerce (`validate` mirrors VariablesValidator.Validate/ValidateWithRemap).
  Spec: the inference rules `Co S strict` in the same module (strict = GraphQL specification reading,
  lenient = plus the four enumerated kind-level leniencies of the implementation).

  Full statement of the property (kept visible):  accept ↔ Co S true.
  It is FALSE for the unchanged code (witness theorems below, known findings C06-*), so what is proved is
    • validate_sound        : accept → Co S false                (nothing outside the enumerated gaps is accepted)
    • coercible_is_accepted : Co S true → accept (enough fuel)   (no coercible value is ever rejected)
    • accept_iff_lenient    : accept ↔ Co S false, up to fuel
  together with no_echo and error_names_variable.
-/
import GqlVerif.Proofs.C06
namespace GqlVerif.Props.C06
open GqlVerif GqlVerif.Coerce

/-- the full statement of C06 at validator level (not provable for the unchanged code) -/
def accept_iff_coercible_statement : Prop :=
  ∀ (S : Schema) (opts : Opts) (defs : List VarDef) (vars : Json) (remap : List (String × String)),
    validate S opts defs vars remap = none ↔
      ∀ d, d ∈ defs → Co S true (.op d.type (vars.get? (clientName remap d)))

/-- **validate_sound** (∀ schemas, definitions, JSON, remaps, options): whatever the validator
    accepts is coercible in the lenient reading, for every declared variable — looked up under its
    client-visible (remapped) name. -/
theorem validate_sound (S : Schema) (opts : Opts) (defs : List VarDef) (vars : Json)
    (remap : List (String × String)) (h : validate S opts defs vars remap = none) :
    ∀ d, d ∈ defs → Co S false (.op d.type (vars.get? (clientName remap d))) :=
  validate_sound_aux S opts vars remap defs h

/-- **accept_iff_lenient** (∀ …): a value is accepted by the type traversal, for all sufficiently
    large recursion budgets, exactly when it is coercible in the lenient reading. -/
theorem accept_iff_lenient (c : Ctx) (t : GType) (j : Option Json) :
    (∃ N, ∀ fuel, N ≤ fuel → ∀ rp, opType c fuel j t rp none = none) ↔ Co c.S false (.op t j) := by
  constructor
  · rintro ⟨N, h⟩
    exact (sound_op c N).1 j t [] (h N (Nat.le_refl _) [])
  · intro h
    exact complete c (.op t j) h

/-- **coercible_is_accepted** (∀ …): every value that is coercible under the GraphQL specification's
    input-coercion rules is accepted (given enough recursion budget): the validator never rejects a
    coercible value. -/
theorem coercible_is_accepted (c : Ctx) (t : GType) (j : Option Json) (h : Co c.S true (.op t j)) :
    ∃ N, ∀ fuel, N ≤ fuel → ∀ rp, opType c fuel j t rp none = none :=
  complete c (.op t j) (strict_lenient c.S _ h)

/-- **no_echo** (∀ …): with `DisableExposingVariablesContent`, no rejection message contains bytes of
    the variable's value. -/
theorem no_echo (S : Schema) (opts : Opts) (defs : List VarDef) (vars : Json) (remap : List (String × String))
    (hd : opts.disableExposingContent = true) (e : Err) (h : validate S opts defs vars remap = some e) :
    e.echoesContent = false := by
  have := validate_invariant S opts vars remap (fun e => ∀ x, e = some x → x.echoesContent = false) defs
    (fun d _ => good_noEcho ⟨S, clientName remap d, opts⟩ hd) defs (fun _ h => h) none (by simp)
  exact this e h

/-- **error_names_variable** (∀ …): every rejection names a declared variable by its client-visible
    (remapped) name. -/
theorem error_names_variable (S : Schema) (opts : Opts) (defs : List VarDef) (vars : Json)
    (remap : List (String × String)) (e : Err) (h : validate S opts defs vars remap = some e) :
    ∃ d, d ∈ defs ∧ e.var = clientName remap d := by
  have := validate_invariant S opts vars remap
    (fun e => ∀ x, e = some x → ∃ d, d ∈ defs ∧ x.var = clientName remap d) defs
    (fun d hd => by
      constructor
      · intro x hx; simp [outOfFuel] at hx; subst hx; exact ⟨d, hd, rfl⟩
      · intro cls path b x hx; simp [mkErr] at hx; subst hx; exact ⟨d, hd, rfl⟩)
    defs (fun _ h => h) none (by simp)
  exact this e h

/-! ### Witnesses: the unchanged code violates the full statement (open known findings) -/

def S0 : Schema := ⟨[.scalar "Int", .scalar "ID", .input "I" false [⟨"a", .nonNull (.named "Int"), true⟩]]⟩

/-- finding C06-int-accepts-any-number: `$x: Int!` with `{"x":1.5}` is accepted by the model (as by
    the code) although 1.5 is not an Int -/
theorem finding_C06_int_witness :
    validate S0 {} [⟨"x", .nonNull (.named "Int")⟩] (.obj [("x", .num "1.5")]) [] = none ∧
    scalarOk true "Int" (.num "1.5") = false := by
  constructor <;> decide

/-- finding C06-id-accepts-float -/
theorem finding_C06_id_witness :
    validate S0 {} [⟨"x", .named "ID"⟩] (.obj [("x", .num "1.5")]) [] = none ∧
    scalarOk true "ID" (.num "1.5") = false := by
  constructor <;> decide

/-- finding C06-null-for-nonnull-field-with-default: `{"i":{"a":null}}` for `input I { a: Int! = 3 }` -/
theorem finding_C06_null_default_witness :
    validate S0 {} [⟨"i", .named "I"⟩] (.obj [("i", .obj [("a", .null)])]) [] = none := by decide

/-- the strict reading rejects that value: no rule derives a null for a non-null field -/
theorem finding_C06_null_default_not_coercible :
    ¬ Co S0 true (.field ⟨"a", .nonNull (.named "Int"), true⟩ (.nonNull (.named "Int")) (some .null)) := by
  have key : ∀ jd, Co S0 true jd → ∀ f t, jd = .field f (.nonNull t) (some .null) → False := by
    intro jd h
    cases h <;> intro f t heq <;> simp_all [isNullOrAbsent]
  intro h
  exact key _ h _ _ rfl

/-! Non-vacuity: rejected and accepted concrete cases -/
example : (validate S0 {} [⟨"x", .nonNull (.named "Int")⟩] (.obj []) []).isSome = true := by decide
example : (validate S0 {} [⟨"x", .named "Int"⟩] (.obj [("x", .str "s")]) []).isSome = true := by decide
example : validate S0 {} [⟨"x", .list (.named "Int")⟩] (.obj [("x", .arr [.num "1", .null])]) [] = none := by decide
example : (validate S0 {} [⟨"i", .named "I"⟩] (.obj [("i", .obj [("b", .num "1")])]) []).map (·.cls.tag) =
    some "fieldNotDefined" := by decide
example : Co S0 true (.op (.named "Int") (some (.num "7"))) :=
  .opNamed rfl (.scalar (m := "Int") (by rfl) (by decide))

end GqlVerif.Props.C06
