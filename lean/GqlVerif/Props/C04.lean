/-
  Props.C04 — what the reference validator (Gql.Valid) guarantees about a document it accepts.  The validator is the
  independent implementation the harness compares the repository's admission sequence (normalize, then validate) with;
  these theorems tie its verdict to the rule statements of the specification for the parts that are simple to state:

  * every field selected directly in an accepted selection set exists on the parent type (or is __typename), has only
    known arguments, and has a selection set exactly when its type is composite;
  * an accepted operation has uniquely named variables, uses only defined variables and leaves no defined variable
    unused; no reachable fragment reaches itself;
  * accepted arguments (of fields and directives) have unique names, are all defined with values that fit the declared
    type, and every required argument is given and not null; accepted directives are defined, allowed at their location
    and well-argued; an accepted fragment spread names a defined fragment whose composite type condition can apply;
  * the verdict is the conjunction of the rule groups.

  That the repository accepts exactly the documents this validator accepts is validated per generated document
  (valid by construction, and with one rule-targeted mutation), not proved.
-/
import GqlVerif.Gql.Valid
namespace GqlVerif.Props.C04
open GqlVerif.Valid

theorem valid_iff_all_groups (s : Schema) (op : Op) :
    valid s op = true ↔ ∀ p ∈ verdicts s op, p.2 = true := by
  simp [valid, List.all_eq_true]

/-- a field of an accepted selection set exists on its parent type, unless it is __typename -/
theorem accepted_field_exists (s : Schema) (op : Op) (fuel : Nat) (parent : String) (sels : List Sel)
    (alias name : String) (args : List (String × V)) (dirs : List Dir) (sub : List Sel)
    (h : checkSels s op (fuel + 1) parent sels = true) (hm : Sel.field alias name args dirs sub ∈ sels)
    (hn : name ≠ "__typename") :
    ∃ pt fd, s.type? parent = some pt ∧ fd ∈ pt.fields ∧ fd.name = name := by
  simp only [checkSels] at h
  split at h
  · simp at h
  · rename_i pt hpt
    simp only [Bool.and_eq_true, List.all_eq_true] at h
    have hsel := h.2 _ hm
    simp only [Bool.and_eq_true] at hsel
    have hf := hsel.2
    have hne : (name == "__typename") = false := by simpa using hn
    simp only [hne, Bool.false_eq_true, if_false] at hf
    split at hf
    · simp at hf
    · rename_i fd hfd
      refine ⟨pt, fd, hpt, ?_, ?_⟩
      · split at hfd
        · simp at hfd
        · exact List.mem_of_find?_eq_some hfd
      · split at hfd
        · simp at hfd
        · have := List.find?_some hfd; simpa using this

/-- an accepted operation has uniquely named variables, every used variable is defined and every defined one is used -/
theorem accepted_variables (s : Schema) (op : Op) (h : varsOk s op = true) :
    nodupStr (op.vars.map (·.name)) = true ∧
    (∀ n ∈ usedVars op, ∃ vd ∈ op.vars, vd.name = n) ∧
    (∀ vd ∈ op.vars, vd.name ∈ usedVars op) := by
  simp only [varsOk, Bool.and_eq_true, List.all_eq_true, List.any_eq_true, beq_iff_eq, List.contains_eq_mem,
    decide_eq_true_eq] at h
  obtain ⟨⟨⟨h1, _⟩, h3⟩, h4⟩ := h
  exact ⟨h1, h3, h4⟩

/-- in an accepted document no reachable fragment reaches itself -/
theorem accepted_fragments (s : Schema) (op : Op) (h : fragsOk s op = true) : fragsAcyclic op = true := by
  simp only [fragsOk, Bool.and_eq_true] at h
  exact h.1

/-- the arguments of an accepted field or directive: unique names, every given argument is defined and its value fits
    the declared type, and every required argument (non-null, no default) is given and is not the literal null -/
theorem accepted_arguments (s : Schema) (vars : List VarDef) (defs : List ArgDef) (args : List (String × V))
    (h : argsOk s vars defs args = true) :
    nodupStr (args.map (·.1)) = true ∧
    (∀ kv ∈ args, ∃ d ∈ defs, d.name = kv.1 ∧ valueOk s vars 32 d.type d.hasDefault kv.2 = true) ∧
    (∀ d ∈ defs, d.type.isNonNull = true → d.hasDefault = false → ∃ kv ∈ args, kv.1 = d.name ∧ kv.2 ≠ V.null) := by
  simp only [argsOk, Bool.and_eq_true, List.all_eq_true] at h
  obtain ⟨⟨h1, h2⟩, h3⟩ := h
  refine ⟨h1, ?_, ?_⟩
  · intro kv hkv
    have := h2 kv hkv
    obtain ⟨k, v⟩ := kv
    simp only at this
    split at this
    · rename_i d hd
      exact ⟨d, List.mem_of_find?_eq_some hd, by have := List.find?_some hd; simpa using this, this⟩
    · simp at this
  · intro d hd hnn hdef
    have := h3 d hd
    simp only [hnn, hdef, Bool.not_false, Bool.and_self, Bool.not_true, Bool.false_or] at this
    split at this
    · simp at this
    · rename_i kv hnot hkv
      refine ⟨kv, List.mem_of_find?_eq_some hkv, by have := List.find?_some hkv; simpa using this, ?_⟩
      intro hnull
      obtain ⟨k, v⟩ := kv
      simp only at hnull
      subst hnull
      exact hnot k rfl
    · simp at this

/-- the directives of an accepted location: each is defined, allowed at that location, well-argued, and a directive that
    is not repeatable occurs at most once -/
theorem accepted_directives (s : Schema) (vars : List VarDef) (loc : String) (dirs : List Dir)
    (h : dirsOk s vars loc dirs = true) :
    ∀ d ∈ dirs, ∃ dd ∈ s.directives, dd.name = d.name ∧ dd.locations.contains loc = true ∧
      argsOk s vars dd.args d.args = true := by
  simp only [dirsOk, Bool.and_eq_true, List.all_eq_true] at h
  intro d hd
  have := h.1 d hd
  split at this
  · rename_i dd hdd
    simp only [Bool.and_eq_true] at this
    exact ⟨dd, List.mem_of_find?_eq_some hdd, by have := List.find?_some hdd; simpa using this, this.1, this.2⟩
  · simp at this

/-- leaf and composite fields of an accepted selection set: a field of a scalar or enum type has no sub-selection, a
    field of an object, interface or union type has a non-empty one that is itself accepted -/
theorem accepted_leaf_and_composite (s : Schema) (op : Op) (fuel : Nat) (parent : String) (sels : List Sel)
    (alias name : String) (args : List (String × V)) (dirs : List Dir) (sub : List Sel)
    (h : checkSels s op (fuel + 1) parent sels = true) (hm : Sel.field alias name args dirs sub ∈ sels)
    (hn : name ≠ "__typename") :
    ∃ pt fd rt, s.type? parent = some pt ∧ fd ∈ pt.fields ∧ fd.name = name ∧ s.type? fd.type.base = some rt ∧
      argsOk s op.vars fd.args args = true ∧
      (if isComposite rt.kind then sub ≠ [] ∧ checkSels s op fuel rt.name sub = true else sub = []) := by
  simp only [checkSels] at h
  split at h
  · simp at h
  · rename_i pt hpt
    simp only [Bool.and_eq_true, List.all_eq_true] at h
    have hsel := h.2 _ hm
    simp only [Bool.and_eq_true] at hsel
    have hf := hsel.2
    have hne : (name == "__typename") = false := by simpa using hn
    simp only [hne, Bool.false_eq_true, if_false] at hf
    split at hf
    · simp at hf
    · rename_i fd hfd
      have hfd' : pt.fields.find? (·.name == name) = some fd := by
        split at hfd
        · simp at hfd
        · exact hfd
      simp only [Bool.and_eq_true] at hf
      obtain ⟨hargs, hrt⟩ := hf
      split at hrt
      · simp at hrt
      · rename_i rt hrtt
        refine ⟨pt, fd, rt, hpt, List.mem_of_find?_eq_some hfd', by have := List.find?_some hfd'; simpa using this, hrtt, hargs, ?_⟩
        split at hrt
        · rename_i hc
          simp only [hc, if_true]
          simp only [Bool.and_eq_true, Bool.not_eq_true', List.isEmpty_eq_false_iff] at hrt
          exact hrt
        · rename_i hc
          simp only [hc, Bool.false_eq_true, if_false]
          simpa using hrt

/-- a fragment spread of an accepted selection set names a defined fragment whose type condition is a composite type that
    can apply inside the parent type -/
theorem accepted_spread (s : Schema) (op : Op) (fuel : Nat) (parent : String) (sels : List Sel)
    (name : String) (dirs : List Dir)
    (h : checkSels s op (fuel + 1) parent sels = true) (hm : Sel.spread name dirs ∈ sels) :
    ∃ f ct, f ∈ op.frags ∧ f.name = name ∧ s.type? f.typeCond = some ct ∧ isComposite ct.kind = true ∧
      spreadPossible s parent f.typeCond = true := by
  simp only [checkSels] at h
  split at h
  · simp at h
  · simp only [Bool.and_eq_true, List.all_eq_true] at h
    have hsel := h.2 _ hm
    simp only [Bool.and_eq_true] at hsel
    have hf := hsel.2
    split at hf
    · rename_i f hfr
      split at hf
      · rename_i ct hct
        simp only [Bool.and_eq_true] at hf
        exact ⟨f, ct, List.mem_of_find?_eq_some hfr, by have := List.find?_some hfr; simpa using this, hct, hf.1, hf.2⟩
      · simp at hf
    · simp at hf

end GqlVerif.Props.C04
