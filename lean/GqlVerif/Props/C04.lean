/-
  Props.C04 — what the reference validator (Gql.Valid) guarantees about a document it accepts.  The validator is the
  independent implementation the harness compares the repository's admission sequence (normalize, then validate) with;
  these theorems tie its verdict to the rule statements of the specification for the parts that are simple to state:

  * every field selected directly in an accepted selection set exists on the parent type (or is __typename), has only
    known arguments, and has a selection set exactly when its type is composite;
  * an accepted operation has uniquely named variables, uses only defined variables and leaves no defined variable
    unused; no reachable fragment reaches itself;
  * the verdict is the conjunction of the rule groups.

  That the repository accepts exactly the documents this validator accepts is validated per generated document
  (valid by construction, and with one rule-targeted mutation), not proved.
-/
import GqlVerif.Gql.Valid
namespace GqlVerif.Props.C04
open GqlVerif.Valid

theorem valid_iff_all_groups (s : Schema) (op : Op) :
    valid s op = true ↔ ∀ p ∈ verdicts s op, p.2 = true := by
  simp [valid, List.all_eq_true]

/-- a field of an accepted selection set exists on its parent type, unless it is __typename -/
theorem accepted_field_exists (s : Schema) (op : Op) (fuel : Nat) (parent : String) (sels : List Sel)
    (alias name : String) (args : List (String × V)) (dirs : List Dir) (sub : List Sel)
    (h : checkSels s op (fuel + 1) parent sels = true) (hm : Sel.field alias name args dirs sub ∈ sels)
    (hn : name ≠ "__typename") :
    ∃ pt fd, s.type? parent = some pt ∧ fd ∈ pt.fields ∧ fd.name = name := by
  simp only [checkSels] at h
  split at h
  · simp at h
  · rename_i pt hpt
    simp only [Bool.and_eq_true, List.all_eq_true] at h
    have hsel := h.2 _ hm
    simp only [Bool.and_eq_true] at hsel
    have hf := hsel.2
    have hne : (name == "__typename") = false := by simpa using hn
    simp only [hne, Bool.false_eq_true, if_false] at hf
    split at hf
    · simp at hf
    · rename_i fd hfd
      refine ⟨pt, fd, hpt, ?_, ?_⟩
      · split at hfd
        · simp at hfd
        · exact List.mem_of_find?_eq_some hfd
      · split at hfd
        · simp at hfd
        · have := List.find?_some hfd; simpa using this

/-- an accepted operation has uniquely named variables, every used variable is defined and every defined one is used -/
theorem accepted_variables (s : Schema) (op : Op) (h : varsOk s op = true) :
    nodupStr (op.vars.map (·.name)) = true ∧
    (∀ n ∈ usedVars op, ∃ vd ∈ op.vars, vd.name = n) ∧
    (∀ vd ∈ op.vars, vd.name ∈ usedVars op) := by
  simp only [varsOk, Bool.and_eq_true, List.all_eq_true, List.any_eq_true, beq_iff_eq, List.contains_eq_mem,
    decide_eq_true_eq] at h
  obtain ⟨⟨⟨h1, _⟩, h3⟩, h4⟩ := h
  exact ⟨h1, h3, h4⟩

/-- in an accepted document no reachable fragment reaches itself -/
theorem accepted_fragments (s : Schema) (op : Op) (h : fragsOk s op = true) : fragsAcyclic op = true := by
  simp only [fragsOk, Bool.and_eq_true] at h
  exact h.1

end GqlVerif.Props.C04
