/-
  Props.C20 — what "projection of the service data" means: facts about the reference executor (Gql.Exec) that the C20
  harness uses as the projection of the data a service returned.

  * the object built for a selection set has exactly the collected response keys, in collection order
    (`execSels_keys`): aliases become keys, duplicates and fragments add no keys;
  * the value computed for a field does not depend on its alias (`execField_ignores_key`), hence adding or changing an
    alias never changes a value;
  * a list-typed position holds an array or null (`complete_list_shape`).

  Order independence and merging of duplicates are CollectFields facts (Props.C01.collect_nodup, addCollected_*;
  Props.C03.collect_*).  That the gRPC datasource's answer equals this projection of the service data for every
  generated formulation is validated per case, not proved.

  The positional assembly of `_entities` from the calls of one request IS modelled (Misc.GrpcMerge, tied to entity.go /
  json_builder.go by regenerated guard skeletons): `entities_one_item_per_representation`,
  `entity_answers_its_representation`, `unanswered_representation_is_null`.
-/
import GqlVerif.Gql.Exec
import GqlVerif.Proofs.C20Merge
namespace GqlVerif.Props.C20
open GqlVerif GqlVerif.Exec

/-- the step of execSels' fold, named -/
def step (s : Schema) (u : Universe) (op : Op) (vars : List (String × Json)) (fuel : Nat) (objType : String) (i : Nat)
    (overlay : Option Json) (acc : Option (List (String × Json)) × Errs) (c : Collected) : Option (List (String × Json)) × Errs :=
  match acc.1 with
  | none => acc
  | some out =>
    match execField s u op vars fuel objType i overlay c with
    | (some j, e) => (some (out ++ [(c.key, j)]), acc.2 ++ e)
    | (none, e) => (none, acc.2 ++ e)

theorem fold_none (s : Schema) (u : Universe) (op : Op) (vars : List (String × Json)) (fuel : Nat) (objType : String) (i : Nat)
    (overlay : Option Json) (cs : List Collected) (e : Errs) :
    (cs.foldl (step s u op vars fuel objType i overlay) (none, e)).1 = none := by
  induction cs generalizing e with
  | nil => rfl
  | cons c cs ih => simp only [List.foldl_cons, step]; exact ih e

theorem fold_keys (s : Schema) (u : Universe) (op : Op) (vars : List (String × Json)) (fuel : Nat) (objType : String) (i : Nat)
    (overlay : Option Json) (cs : List Collected) :
    ∀ (out0 : List (String × Json)) (e0 : Errs) (fs : List (String × Json)),
      (cs.foldl (step s u op vars fuel objType i overlay) (some out0, e0)).1 = some fs →
      fs.map (·.1) = out0.map (·.1) ++ cs.map (·.key) := by
  induction cs with
  | nil => intro out0 e0 fs h; simp at h; subst h; simp
  | cons c cs ih =>
    intro out0 e0 fs h
    simp only [List.foldl_cons] at h
    rcases hf : execField s u op vars fuel objType i overlay c with ⟨v, e⟩
    cases v with
    | none =>
      have : step s u op vars fuel objType i overlay (some out0, e0) c = (none, e0 ++ e) := by simp [step, hf]
      rw [this, fold_none] at h
      cases h
    | some j =>
      have : step s u op vars fuel objType i overlay (some out0, e0) c = (some (out0 ++ [(c.key, j)]), e0 ++ e) := by
        simp [step, hf]
      rw [this] at h
      have := ih _ _ _ h
      simp [this]

/-- the response object of a selection set has exactly the collected response keys, in order -/
theorem execSels_keys (s : Schema) (u : Universe) (op : Op) (vars : List (String × Json)) (fuel : Nat) (objType : String)
    (i : Nat) (overlay : Option Json) (sels : List Sel) (fs : List (String × Json))
    (h : (execSels s u op vars (fuel + 1) objType i overlay sels).1 = some fs) :
    fs.map (·.1) = (collect s op vars objType 4096 [] sels []).1.map (·.key) := by
  have hs : execSels s u op vars (fuel + 1) objType i overlay sels =
      (collect s op vars objType 4096 [] sels []).1.foldl (step s u op vars fuel objType i overlay) (some [], []) := by
    simp only [execSels]; rfl
  rw [hs] at h
  simpa using fold_keys s u op vars fuel objType i overlay _ [] [] fs h

/-- the value of a field does not depend on the response key (alias) it is delivered under -/
theorem execField_ignores_key (s : Schema) (u : Universe) (op : Op) (vars : List (String × Json)) (fuel : Nat)
    (objType : String) (i : Nat) (overlay : Option Json) (c : Collected) (k : String) :
    execField s u op vars fuel objType i overlay { c with key := k } = execField s u op vars fuel objType i overlay c := by
  cases fuel with
  | zero => simp [execField]
  | succ fuel => simp [execField, fieldArgs, givenArgs]

/-- a list-typed position holds an array or null -/
theorem complete_list_shape (s : Schema) (u : Universe) (op : Op) (vars : List (String × Json)) (fuel : Nat) (t : TRef)
    (v : FVal) (sels : List Sel) (j : Json) (h : (complete s u op vars fuel (.list t) v sels).1 = some j) :
    j = .null ∨ ∃ xs, j = .arr xs := by
  cases fuel with
  | zero => simp [complete] at h; exact Or.inl h.symm
  | succ fuel =>
    simp only [complete] at h
    split at h
    · split at h
      · simp at h; exact Or.inr ⟨_, h.symm⟩
      · simp at h; exact Or.inl h.symm
    · simp at h; exact Or.inl h.symm
    · simp at h; exact Or.inl h.symm

/-! ### `_entities`: one item per representation, each at the position of its representation -/

/-- **entities_one_item_per_representation** (∀ representation lists, ∀ non-empty sequences of calls): the merged
    `_entities` list has exactly one item per representation. -/
theorem entities_one_item_per_representation (types : List String) (calls : List (String × List String)) (h : calls ≠ []) :
    (GrpcMerge.mergeAll types calls).length = types.length :=
  GrpcMerge.entities_one_item_per_representation types calls h

/-- **entity_answers_its_representation** (∀ …, one call per entity type): result `k` of the call for entity type `t` is
    the item at the position of the `k`-th representation of type `t` — whatever the other calls returned and in
    whatever order the calls are merged. -/
theorem entity_answers_its_representation (types : List String) (calls : List (String × List String))
    (hnd : (calls.map (·.1)).Nodup) (c : String × List String) (hc : c ∈ calls) (k p : Nat) (r : String)
    (hk : (GrpcMerge.indexMap c.1 types 0)[k]? = some p) (hr : c.2[k]? = some r) :
    (GrpcMerge.mergeAll types calls)[p]? = some (some r) :=
  GrpcMerge.entity_answers_its_representation types calls hnd c hc k p r hk hr

/-- **unanswered_representation_is_null**: a representation whose type no call answers is null, also at the end of the
    list (the defect repaired by d7127af). -/
theorem unanswered_representation_is_null (types : List String) (calls : List (String × List String)) (hne : calls ≠ [])
    (p : Nat) (hp : p < types.length) (hno : ∀ c ∈ calls, types[p]? ≠ some c.1) :
    (GrpcMerge.mergeAll types calls)[p]? = some none :=
  GrpcMerge.unanswered_representation_is_null types calls hne p hp hno

/-- the index map of a type lists exactly the positions of its representations, in increasing order -/
theorem index_map_exact (types : List String) (t : String) (p : Nat) :
    p ∈ GrpcMerge.indexMap t types 0 ↔ types[p]? = some t := by
  constructor
  · intro h; have := (GrpcMerge.indexMap_mem t types 0 p h).2.2; simpa using this
  · exact GrpcMerge.every_representation_has_a_position types t p

end GqlVerif.Props.C20
