/-
  Props.C07 — the meaning of "null-propagated": the reference executor with unavailable coordinates, and the nulling
  order used to compare a response under faults with the fault-free response.

  What is proved: a coordinate whose only source failed behaves exactly like a field error of the GraphQL
  specification (null in a nullable position, propagation with an error from a non-null one); the nulling order
  is reflexive, has null as its least element and is transitive on the shapes the oracle compares.  That the real
  loader's handling of failed fetches produces a response between the two reference executions is validated per
  generated case (translation validation), not proved.
-/
import GqlVerif.Gql.Exec
import GqlVerif.Proofs.C07Taint
namespace GqlVerif.Props.C07
open GqlVerif GqlVerif.Exec

/-- an unavailable value in a nullable named position: null, and the failure is reported -/
theorem unavailable_named_is_null_with_error (s : Schema) (u : Universe) (op : Op) (vars : List (String × Json)) (fuel : Nat)
    (n m : String) (sels : List Sel) : complete s u op vars (fuel + 1) (.named n) (.err m) sels = (some .null, [m]) := by
  simp [complete]

/-- … in a nullable list position likewise -/
theorem unavailable_list_is_null_with_error (s : Schema) (u : Universe) (op : Op) (vars : List (String × Json)) (fuel : Nat)
    (t : TRef) (m : String) (sels : List Sel) : complete s u op vars (fuel + 1) (.list t) (.err m) sels = (some .null, [m]) := by
  simp [complete]

/-- … and in a non-null position it propagates to the parent, with the error -/
theorem unavailable_nonnull_propagates (s : Schema) (u : Universe) (op : Op) (vars : List (String × Json)) (fuel : Nat)
    (n m : String) (sels : List Sel) : complete s u op vars (fuel + 2) (.nonNull (.named n)) (.err m) sels = (none, [m]) := by
  simp [complete]

/-! ### the nulling order: `a ⊑ b` iff `a` is `b` with some subtrees replaced by null -/

mutual
  def nulled : Json → Json → Bool
    | .null, _ => true
    | .arr a, .arr b => nulledList a b
    | .obj a, .obj b => nulledKvs a b
    | a, b => Json.beq a b
  def nulledList : List Json → List Json → Bool
    | [], [] => true
    | x :: xs, y :: ys => nulled x y && nulledList xs ys
    | _, _ => false
  def nulledKvs : List (String × Json) → List (String × Json) → Bool
    | [], [] => true
    | (k, x) :: xs, (l, y) :: ys => k == l && nulled x y && nulledKvs xs ys
    | _, _ => false
end

/-- null is below everything: a failure may always null a whole subtree -/
theorem null_least (b : Json) : nulled .null b = true := by unfold nulled; rfl

mutual
  theorem beq_refl : ∀ a : Json, Json.beq a a = true
    | .null => by simp [Json.beq]
    | .bool b => by simp [Json.beq]
    | .num r => by simp [Json.beq]
    | .str s => by simp [Json.beq]
    | .arr xs => by simp [Json.beq, beqList_refl xs]
    | .obj kvs => by simp [Json.beq, beqKvs_refl kvs]
  theorem beqList_refl : ∀ xs : List Json, Json.beqList xs xs = true
    | [] => by simp [Json.beqList]
    | x :: xs => by simp [Json.beqList, beq_refl x, beqList_refl xs]
  theorem beqKvs_refl : ∀ kvs : List (String × Json), Json.beqKvs kvs kvs = true
    | [] => by simp [Json.beqKvs]
    | (k, x) :: xs => by simp [Json.beqKvs, beq_refl x, beqKvs_refl xs]
end

mutual
  /-- the fault-free response is (trivially) an admissible response under no fault -/
  theorem nulled_refl : ∀ a : Json, nulled a a = true
    | .null => by simp [nulled]
    | .bool b => by simp [nulled, Json.beq]
    | .num r => by simp [nulled, Json.beq]
    | .str s => by simp [nulled, Json.beq]
    | .arr xs => by simp [nulled, nulledList_refl xs]
    | .obj kvs => by simp [nulled, nulledKvs_refl kvs]
  theorem nulledList_refl : ∀ xs : List Json, nulledList xs xs = true
    | [] => by simp [nulledList]
    | x :: xs => by simp [nulledList, nulled_refl x, nulledList_refl xs]
  theorem nulledKvs_refl : ∀ kvs : List (String × Json), nulledKvs kvs kvs = true
    | [] => by simp [nulledKvs]
    | (k, x) :: xs => by simp [nulledKvs, nulled_refl x, nulledKvs_refl xs]
end

/-- lists keep their length under the nulling order: a fault never drops or adds list elements, it nulls them -/
theorem nulledList_length : ∀ (xs ys : List Json), nulledList xs ys = true → xs.length = ys.length
  | [], [], _ => rfl
  | [], _ :: _, h => by simp [nulledList] at h
  | _ :: _, [], h => by simp [nulledList] at h
  | x :: xs, y :: ys, h => by
    simp only [nulledList, Bool.and_eq_true] at h
    simp [nulledList_length xs ys h.2]

/-- objects keep their keys, in order -/
theorem nulledKvs_keys : ∀ (xs ys : List (String × Json)), nulledKvs xs ys = true → xs.map (·.1) = ys.map (·.1)
  | [], [], _ => rfl
  | [], _ :: _, h => by simp [nulledKvs] at h
  | _ :: _, [], h => by simp [nulledKvs] at h
  | (k, x) :: xs, (l, y) :: ys, h => by
    simp only [nulledKvs, Bool.and_eq_true, beq_iff_eq] at h
    simp [h.1.1, nulledKvs_keys xs ys h.2]

mutual
  /-- the nulling order is transitive: nulling more of an already nulled response stays below the fault-free one -/
  theorem nulled_trans : ∀ (a b c : Json), nulled a b = true → nulled b c = true → nulled a c = true
    | .null, _, _, _, _ => by simp [nulled]
    | .bool x, b, c, h1, h2 => by
      cases b <;> simp [nulled, Json.beq] at h1
      subst h1
      exact h2
    | .num x, b, c, h1, h2 => by
      cases b <;> simp [nulled, Json.beq] at h1
      subst h1
      exact h2
    | .str x, b, c, h1, h2 => by
      cases b <;> simp [nulled, Json.beq] at h1
      subst h1
      exact h2
    | .arr xs, b, c, h1, h2 => by
      cases b with
      | arr ys =>
        cases c with
        | arr zs =>
          simp only [nulled] at h1 h2 ⊢
          exact nulledList_trans xs ys zs h1 h2
        | _ => simp [nulled, Json.beq] at h2
      | _ => simp [nulled, Json.beq] at h1
    | .obj xs, b, c, h1, h2 => by
      cases b with
      | obj ys =>
        cases c with
        | obj zs =>
          simp only [nulled] at h1 h2 ⊢
          exact nulledKvs_trans xs ys zs h1 h2
        | _ => simp [nulled, Json.beq] at h2
      | _ => simp [nulled, Json.beq] at h1
  theorem nulledList_trans : ∀ (xs ys zs : List Json), nulledList xs ys = true → nulledList ys zs = true → nulledList xs zs = true
    | [], ys, zs, h1, h2 => by
      cases ys <;> simp [nulledList] at h1
      exact h2
    | x :: xs, ys, zs, h1, h2 => by
      cases ys with
      | nil => simp [nulledList] at h1
      | cons y ys =>
        cases zs with
        | nil => simp [nulledList] at h2
        | cons z zs =>
          simp only [nulledList, Bool.and_eq_true] at h1 h2 ⊢
          exact ⟨nulled_trans x y z h1.1 h2.1, nulledList_trans xs ys zs h1.2 h2.2⟩
  theorem nulledKvs_trans : ∀ (xs ys zs : List (String × Json)), nulledKvs xs ys = true → nulledKvs ys zs = true → nulledKvs xs zs = true
    | [], ys, zs, h1, h2 => by
      cases ys <;> simp [nulledKvs] at h1
      exact h2
    | (k, x) :: xs, ys, zs, h1, h2 => by
      cases ys with
      | nil => simp [nulledKvs] at h1
      | cons y ys =>
        cases zs with
        | nil => obtain ⟨l, y⟩ := y; simp [nulledKvs] at h2
        | cons z zs =>
          obtain ⟨l, y⟩ := y
          obtain ⟨m, z⟩ := z
          simp only [nulledKvs, Bool.and_eq_true, beq_iff_eq] at h1 h2 ⊢
          exact ⟨⟨h1.1.1.trans h2.1.1, nulled_trans x y z h1.1.2 h2.1.2⟩, nulledKvs_trans xs ys zs h1.2 h2.2⟩
end

/-! ## Tainted objects (model: GqlVerif.Misc.Taint)

  After a subgraph answered an entity with an error for a nullable `@requires` input, the loader marks that entity; a later
  fetch must not build a representation from an item that is or contains a marked entity
  (`taintedObjects.filterOutTainted`, with `ValidateRequiredExternalFields`). -/
section Taint
open GqlVerif.Misc.Taint

/-- an item is dropped exactly when it is or contains a marked object (for values nested at most 100 levels deep,
    the traversal limit of the implementation) -/
theorem item_dropped_iff_it_contains_a_tainted_object (t : T) (h : height t ≤ maxDepth + 1) :
    isTainted 0 t = hasMark t := dropped_iff_contains_marked t h

/-- what remains is exactly the items without a marked object, in their original order -/
theorem remaining_items_are_the_untainted_ones (items : List T) (h : ∀ t ∈ items, height t ≤ maxDepth + 1) :
    filterOut items = items.filter (fun t => !hasMark t) := filterOut_spec items h

/-- at any depth, an item is never dropped without containing a marked object -/
theorem no_item_dropped_without_cause (t : T) (d : Nat) (h : isTainted d t = true) : hasMark t = true :=
  isTainted_sound t d h

/-! Non-vacuity; and why the verdict has to latch: an entity nested as the first of two values is found, the variant that
    keeps only the last value's verdict loses it. -/
def nestedEx : T := .node false (.cons (.node true .nil) (.cons (.leaf false) .nil))
example : isTainted 0 nestedEx = true ∧ hasMark nestedEx = true ∧ height nestedEx ≤ maxDepth + 1 := by decide
example : isTaintedLast 0 nestedEx = false := by decide
example : (filterOut [nestedEx, .node false (.cons (.leaf false) .nil)]).length = 1 := by decide
end Taint

end GqlVerif.Props.C07
