#!/usr/bin/env python3
"""mkties.py <Cxx> <import-module> "<doc comment>" — writes lean/GqlVerif/Ties/Cxx.lean as a snapshot of the current
lean/GqlVerif/Generated/Cxx.lean (every extracted list must stay equal to what it was when the model was written and
reviewed against it).  Run by hand after reviewing the extracted lists; never run by the checks."""
import re, sys
prop, imp, doc = sys.argv[1], sys.argv[2], sys.argv[3]
g = open('/verif/lean/GqlVerif/Generated/%s.lean' % prop).read()
out = "/-\n  Ties.%s — %s\n  Snapshot ties: each regenerated list (re-extracted from /repo on every run) must equal the list the model was\n  written against; a source edit to one of these functions breaks the corresponding theorem at `lake build`.\n-/\nimport %s\nimport GqlVerif.Generated.%s\nnamespace GqlVerif.Ties.%s\nopen GqlVerif.Generated.%s\n\n" % (prop, doc, imp, prop, prop, prop)
for m in re.finditer(r'def (\w+) : (List \(List (?:String|Nat)\)|List String|List \(String × (?:Nat|String)\)) :=\n  (\[.*?\])\n\n', g, flags=re.S):
    name, ty, body = m.group(1), m.group(2), m.group(3)
    out += "theorem %s_tie : %s =\n    %s := by decide +kernel\n\n" % (name, name, body.replace("\n", "\n  "))
out += "end GqlVerif.Ties.%s\n" % prop
open('/verif/lean/GqlVerif/Ties/%s.lean' % prop, 'w').write(out)
print("wrote Ties/%s.lean" % prop)
