#!/usr/bin/env python3
"""reties.py Cxx… — after a reviewed change to /repo (a `fix:` commit of ours): re-extract the facts and re-snapshot
Ties/Cxx.lean, keeping its import and doc comment.  By hand only, never by the checks."""
import re, subprocess, sys
for prop in sys.argv[1:]:
    p = '/verif/lean/GqlVerif/Ties/%s.lean' % prop
    s = open(p).read()
    doc = re.search(r'Ties\.%s — (.*?)\n  Snapshot ties' % prop, s, re.S).group(1)
    imp = [l.split()[1] for l in s.split('\n') if l.startswith('import ') and 'Generated' not in l][0]
    subprocess.check_call(['/verif/.run/extract', '-repo', '/repo', '-prop', prop, '-out', '/verif/lean/GqlVerif/Generated/%s.lean' % prop])
    subprocess.check_call(['python3', '/verif/tools/mkties.py', prop, imp, doc])
