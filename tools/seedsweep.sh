#!/bin/bash
# seedsweep.sh <tier> <seed>… — run the harness of every property (no lake / extractor stage) with several seeds, 4 at a time
tier="$1"; shift
cd /verif
for seed in "$@"; do
  for p in C01 C02 C03 C04 C05 C06 C07 C08 C09 C10 C11 C12 C13 C14 C15 C16 C17 C18 C19 C20; do
    while [ "$(jobs -r | wc -l)" -ge 4 ]; do sleep 0.3; done
    ( .run/vh $p --tier $tier --seed $seed --verif /verif --driver lean/.lake/build/bin/driver > /tmp/ss.$p.$seed.log 2>&1; rc=$?; n=$(grep -c '^VIOLATION' /tmp/ss.$p.$seed.log); [ $rc -ne 0 -o $n -ne 0 ] && echo "FAIL $p seed=$seed rc=$rc violations=$n" ) &
  done
done
wait
echo sweep-done
