#!/usr/bin/env python3
"""Regenerates /verif/MANIFEST.json from tools/claims.json (one entry per property)."""
import json, os
V = os.path.dirname(os.path.dirname(os.path.abspath(__file__)))
claims = json.load(open(os.path.join(V, "tools", "claims.json")))
props = [json.loads(l) for l in open(os.path.join(V, "properties.jsonl"))]
baseline = json.load(open("/root/.vp/BASELINE.json"))["cmd"] if os.path.exists("/root/.vp/BASELINE.json") else claims["_baseline_cmd"]
checks, na = [], []
for p in props:
    c = claims.get(p["id"])
    if not c or not c.get("claimed"):
        na.append({"property_id": p["id"], "reason": (c or {}).get("reason", "check not built yet in this session; see DESIGN.md §4 for the planned Lean model and theorems")})
        continue
    checks.append({
        "property_id": p["id"],
        "quick_cmd": "./check %s quick" % p["id"],
        "thorough_cmd": "./check %s thorough" % p["id"],
        "evidence_file": "/verif/evidence/%s.json" % p["id"],
        "replay_cmd_template": "./check %s --replay {path}" % p["id"],
        "engine": "lean+vh",
        "level_claimed": {"category": c["category"], "text": c["text"], "design_ref": c.get("design_ref", "DESIGN.md §4 " + p["id"])},
        "level_note": c["note"],
        "technique": c["technique"],
    })
m = {
    "version": 1,
    "setup_cmd": "./setup.sh",
    "hooks": {"guard": "verif", "enable": "go build -tags verif (the harness under /verif/harness is built with this tag against /repo through module replace directives)",
              "baseline_off_cmd": baseline, "source_commits": claims.get("_hook_commits", []), "add_only": True},
    "engines": [
        {"name": "lean", "path": "/verif/lean", "serves_properties": [c["property_id"] for c in checks],
         "kind_free_text": "Lean 4 library GqlVerif: executable models (core Lean only), property theorems in GqlVerif/Props/Cxx.lean, regenerated-fact tie theorems in GqlVerif/Ties/Cxx.lean, compiled driver (line protocol), Audit.lean (axiom audit)"},
        {"name": "vh", "path": "/verif/harness", "serves_properties": [c["property_id"] for c in checks],
         "kind_free_text": "Go harness built on every run against /repo's working tree: generators, real implementation in-process, property oracles, differential comparison with the Lean driver"},
        {"name": "extract", "path": "/verif/tools/extract", "serves_properties": [c["property_id"] for c in checks],
         "kind_free_text": "go/ast fact extractor regenerating lean/GqlVerif/Generated/Cxx.lean from the current source on every run"},
    ],
    "checks": checks,
    "not_applicable": na,
    "notes": "Technique family: machine-checked proof in Lean 4 + checked tie (correspondence and regenerated facts). See DESIGN.md. Known findings: known_findings.json.",
}
json.dump(m, open(os.path.join(V, "MANIFEST.json"), "w"), indent=1)
print("MANIFEST.json: %d checks, %d not_applicable" % (len(checks), len(na)))
