#!/usr/bin/env python3
"""refreshseeds.py — make sure every seeded/*/patch.diff applies to /repo's HEAD with plain `git apply`.
Patches were produced against an earlier commit; hook and fix commits may have moved their context.  A patch that
no longer applies is re-applied with a 3-way merge and re-written from the resulting diff (same change, new context);
one that conflicts is reported."""
import glob, os, subprocess, sys
def sh(*a, **k):
    return subprocess.run(a, capture_output=True, text=True, **k)
bad = []
for d in sorted(glob.glob('/verif/seeded/*/')):
    p = os.path.join(d, 'patch.diff')
    if sh('git', '-C', '/repo', 'apply', '--check', p).returncode == 0:
        continue
    r = sh('git', '-C', '/repo', 'apply', '--3way', p)
    st = sh('git', '-C', '/repo', 'status', '--porcelain').stdout
    if r.returncode != 0 or any(l.startswith(('UU', 'AA', 'U', 'DU', 'UD')) for l in st.splitlines()):
        bad.append((d, (r.stderr or r.stdout).strip()[-300:]))
    else:
        diff = sh('git', '-C', '/repo', 'diff', 'HEAD').stdout
        open(p, 'w').write(diff)
        print('refreshed', d)
    sh('git', '-C', '/repo', 'reset', '-q', '--hard', 'HEAD')
    sh('git', '-C', '/repo', 'clean', '-fdq')
for d, e in bad:
    print('CONFLICT', d, e)
sys.exit(1 if bad else 0)
