#!/usr/bin/env python3
"""verifyseed.py <prop> <mN> [--race]
Confirms a sub-agent's seeded change in a scratch worktree (base commit of the seeds): the demonstration passes
without the change, fails with it, and the existing tests of the touched packages still pass with it.
On success copies patch/demo/meta into /verif/seeded/<prop>-<mN>/ with what was run."""
import json, os, re, shutil, subprocess, sys

prop, m = sys.argv[1], sys.argv[2]
BASE = open("/tmp/seedout/%s/base" % prop).read().strip() if os.path.exists("/tmp/seedout/%s/base" % prop) else "bfa0067"
src = "/tmp/seedout/%s/%s" % (prop, m)
meta = json.load(open(os.path.join(src, "meta.json")))
wt = "/tmp/vs/%s-%s" % (prop, m)
env = dict(os.environ, GOPROXY="off")
env.pop("GOFLAGS", None)


def sh(cmd, cwd, timeout=3000):
    p = subprocess.run(cmd, cwd=cwd, env=env, shell=True, stdout=subprocess.PIPE, stderr=subprocess.STDOUT, text=True, timeout=timeout)
    return p.returncode, p.stdout


os.makedirs("/tmp/vs", exist_ok=True)
subprocess.run("git -C /repo worktree remove --force %s 2>/dev/null; git -C /repo worktree add -q --detach %s %s" % (wt, wt, BASE), shell=True, check=True)
try:
    demo_files = [f for f in os.listdir(src) if f.endswith(".go")]
    demo_rel = meta["demo_path_in_repo"]
    demo_dir = os.path.dirname(demo_rel)
    mod = demo_rel.split("/")[0]  # v2 | execution
    pkg = "./" + os.path.relpath(demo_dir, mod)
    for f in demo_files:
        shutil.copy(os.path.join(src, f), os.path.join(wt, demo_dir, f if len(demo_files) > 1 else os.path.basename(demo_rel)))
    tests = re.findall(r"^func (Test\w+)\(", open(os.path.join(wt, demo_rel)).read(), flags=re.M)
    race = "-race " if ("-race" in meta.get("demo_cmd", "") or "--race" in sys.argv) else ""
    run = "go test %s-count=1 %s -run '^(%s)$'" % (race, pkg, "|".join(tests))
    res = {"demo_cmd": "cd %s && GOPROXY=off %s" % (mod, run)}
    rc0, out0 = sh(run, os.path.join(wt, mod))
    res["demo_without_change"] = "pass" if rc0 == 0 else "FAIL: " + out0[-600:]
    rc, out = sh("git apply %s" % os.path.join(src, "patch.diff"), wt)
    if rc != 0:
        res["error"] = "patch does not apply: " + out
    else:
        rc1, out1 = sh(run, os.path.join(wt, mod))
        res["demo_with_change"] = ("fail (as required): " + out1[-500:]) if rc1 != 0 else "PASSES (seed rejected)"
        for f in demo_files:
            try:
                os.remove(os.path.join(wt, demo_dir, f if len(demo_files) > 1 else os.path.basename(demo_rel)))
            except OSError:
                pass
        pkgs = {}
        for f in meta.get("files_touched", []):
            f = f.split(" ")[0]
            mm = f.split("/")[0]
            if mm in ("v2", "execution"):
                pkgs.setdefault(mm, set()).add("./" + os.path.relpath(os.path.dirname(f), mm) + "/...")
        res["existing_tests"] = {}
        ok = True
        for mm, ps in pkgs.items():
            cmd = "go test -count=1 -p 6 " + " ".join(sorted(ps))
            rc2, out2 = sh(cmd, os.path.join(wt, mm))
            res["existing_tests"]["cd %s && GOPROXY=off %s" % (mm, cmd)] = "pass" if rc2 == 0 else "FAIL: " + out2[-800:]
            ok = ok and rc2 == 0
        confirmed = rc0 == 0 and rc1 != 0 and ok
        res["confirmed"] = confirmed
        if confirmed:
            dst = "/verif/seeded/%s-%s" % (prop, m)
            os.makedirs(dst, exist_ok=True)
            shutil.copy(os.path.join(src, "patch.diff"), dst)
            for f in demo_files:
                shutil.copy(os.path.join(src, f), dst)
            json.dump({"property": prop, "summary": meta.get("summary"), "needs": meta.get("what_it_needs_to_manifest"),
                       "files_touched": meta.get("files_touched"), "demo_path_in_repo": demo_rel, "base_commit": BASE,
                       "confirmed_by_me": res, "agent_claims": {k: meta.get(k) for k in ("tests_run", "demo_result_with_change", "demo_result_without_change")},
                       "detected_by": "(filled in after running the checks)"}, open(os.path.join(dst, "meta.json"), "w"), indent=1)
    print(json.dumps({"seed": prop + "-" + m, **res})[:1500])
finally:
    subprocess.run("git -C /repo worktree remove --force %s" % wt, shell=True)
