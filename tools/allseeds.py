#!/usr/bin/env python3
"""allseeds.py — apply every seeded change in /verif/seeded to /repo in turn, run the property's quick check, undo the
change, and record in each meta.json what caught it (detected_by) — never run while other work uses /repo or .run/vh."""
import json, os, re, subprocess, sys, glob
V = "/verif"
only = sys.argv[1:]
results = {}
for d in sorted(glob.glob(V + "/seeded/C*-m*")):
    name = os.path.basename(d)
    prop = name.split("-")[0]
    if only and prop not in only and name not in only:
        continue
    if not os.path.exists(os.path.join(V, "harness", prop.lower() + ".go")) and prop not in ("C13",):
        results[name] = {"detected": False, "how": "no check built for " + prop}
    else:
        p = subprocess.run([V + "/tools/seedtest", d + "/patch.diff", prop], capture_output=True, text=True)
        out = p.stdout
        lines = [l for l in out.split("\n") if l.startswith("VIOLATION")]
        if "patch does not apply" in out or "repo dirty" in out:
            how = {"detected": False, "how": "patch does not apply to the current tree"}
        elif not lines:
            how = {"detected": False, "how": "quick check exits 0"}
        elif any("no-failing-input-found" not in l for l in lines):
            kind = "harness crash" if any("harness-crash" in l for l in lines) else "oracle violation with a concrete failing input"
            how = {"detected": True, "how": kind, "lines": lines[:2]}
        else:
            how = {"detected": True, "how": "broken tie / theorem only (no-failing-input-found)", "lines": lines[:2]}
        results[name] = how
    mp = d + "/meta.json"
    try:
        m = json.load(open(mp))
    except Exception:
        m = {}
    m["detected_by"] = results[name]
    json.dump(m, open(mp, "w"), indent=1)
    print(name, results[name]["detected"], results[name]["how"], flush=True)
allr = {os.path.basename(d): json.load(open(d + "/meta.json")).get("detected_by") for d in sorted(glob.glob(V + "/seeded/C*-m*"))}
json.dump(allr, open(V + "/seeded/RESULTS.json", "w"), indent=1)
subprocess.run(["bash", "-c", "cd /verif/harness && GOFLAGS=-mod=mod GOPROXY=off go build -tags verif -o ../.run/vh ."])
# the regenerated facts of the last seeded tree are stale now: regenerate them from the restored tree
subprocess.run(["bash", "-c", "cd /verif && for p in $(seq -w 1 20); do .run/extract -repo /repo -prop C$p -out lean/GqlVerif/Generated/C$p.lean >/dev/null 2>&1; done; cd lean && lake build >/dev/null 2>&1"])
