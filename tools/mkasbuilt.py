#!/usr/bin/env python3
"""mkasbuilt.py — (re)write section 9 of DESIGN.md from tools/asbuilt_head.md, known_findings.json, tools/claims.json and
seeded/*/meta.json"""
import json, glob, os, re
V = '/verif'
out = open(V + '/tools/asbuilt_head.md').read()
d = json.load(open(V + '/known_findings.json'))
out += "\n### 9.6 Genuine defects: repaired (`fix:` commits in /repo) and recorded (open known findings)\n\n"
out += ("Every entry was reproduced against the real code with the input quoted in `known_findings.json` (`witness`). A repair is "
        "one minimal unguarded commit; the repository's own test suite still passes with all of them. `fixed:` entries suppress nothing.\n\n")
out += "| property | finding | status |\n|---|---|---|\n"
for f in d['findings']:
    w = f['what'].replace('|', '/').replace('\n', ' ')
    out += "| %s | **%s** — %s | %s |\n" % (f['property'], f['id'], w[:420] + ('…' if len(w) > 420 else ''), f['status'])
out += ("\nOpen findings are not repaired because the repair is not small or not obviously safe — they need a design decision "
        "(validation before normalization; a defer-aware planner for `@requires` and keys; the render rule for containers shared by "
        "sibling defers; a race-free way to hand the decision cache to defer-group loaders; a dial that does not run under one "
        "subscriber's context; kind-level variable validation) — or an existing "
        "unit test pins the behaviour (C09), or the behaviour is a documented choice (C14 deferred pruning).\n")
c = json.load(open(V + '/tools/claims.json'))
out += "\n### 9.7 Per property: level, theorems, tie\n\n"
for k in sorted(c):
    v = c[k]
    if k.startswith('_') or not isinstance(v, dict) or not v.get('claimed'):
        continue
    out += "**%s** (%s). %s\n\n*Trusted / not covered:* %s\n\n" % (k, v['category'], v['text'], v.get('note', ''))
out += "\n### 9.8 Seeded changes (60; made by fresh sub-agents that saw only the property text) and what catches them\n\n"
out += ("Each change compiles and passes the repository's test suite. `tools/allseeds.py` applies each to /repo, runs the property's "
        "quick check, undoes the change and records the outcome in `seeded/<id>/meta.json` (`detected_by`).\n\n")
out += "| seed | change (first sentence) | caught by |\n|---|---|---|\n"
n_in = n_tie = n_miss = 0
tie_only, missed = [], []
for dd in sorted(glob.glob(V + '/seeded/C*-m*')):
    m = json.load(open(dd + '/meta.json'))
    det = m.get('detected_by') or {}
    how = det.get('how', 'not run')
    if det.get('detected') and 'no-failing-input' in how:
        n_tie += 1
        tie_only.append(os.path.basename(dd))
    elif det.get('detected'):
        n_in += 1
    else:
        n_miss += 1
        missed.append(os.path.basename(dd))
    summ = (m.get('summary') or '').replace('|', '/').replace('\n', ' ')
    first = re.split(r'(?<=[.:]) ', summ)[0][:230]
    out += "| %s | %s | %s |\n" % (os.path.basename(dd), first, how)
out += ("\n%d are caught with a concrete failing input (or a harness crash whose replay names the inputs), %d only because a regenerated "
        "skeleton or a theorem instance no longer checks (`no-failing-input-found`: %s), %d are missed by the quick tier%s. "
        "\n"
        % (n_in, n_tie, ', '.join(tie_only) or 'none', n_miss, (' (' + ', '.join(missed) + ')') if missed else ''))
design = open(V + '/DESIGN.md').read()
i = design.find('\n## 9. As built')
if i >= 0:
    design = design[:i]
open(V + '/DESIGN.md', 'w').write(design.rstrip('\n') + '\n\n' + out)
print('section 9:', len(out), 'bytes')
