package main

func init() {
	const lex = "v2/pkg/engine/cache/lex.go"
	const cc = "v2/pkg/engine/cache/cache_control.go"
	specs["C16"] = []item{
		{Kind: "cases", File: lex, Func: "lexer.isInvalidTokenCharacter", Name: "invalidTokenChars", Typ: "nat"},
		{Kind: "cases", File: lex, Func: "lexer.matchSingleRuneToken", Name: "singleRuneTokens", Typ: "nat"},
		{Kind: "cases", File: lex, Func: "lexer.readIdent", Name: "identDelimiters", Typ: "nat"},
		{Kind: "cases", File: lex, Func: "lexer.readString", Name: "stringTerminators", Typ: "nat"},
		{Kind: "cases", File: cc, Func: "parseIdent", Name: "directiveNames", Typ: "string"},
		{Kind: "strings", File: cc, Func: "ParseCacheControlResponse", Name: "headerStrings"},
		{Kind: "calls", File: "v2/pkg/caching/cachecontrol.go", Func: "TTL", Name: "ttlSkeleton",
			Match: []string{"if", "return", "cache.ParseCacheControlResponse", "cc.SMaxAge.AsDuration", "cc.MaxAge.AsDuration"}},
		// engine side (model: Cache.RespCache): which entities are collected under which key, the all-or-nothing lookup
		{Kind: "guards", File: "v2/pkg/engine/resolve/response_cache.go", Func: "Loader.responseCacheCollect", Name: "collectGuards"},
		{Kind: "guards", File: "v2/pkg/engine/resolve/response_cache.go", Func: "Loader.responseCacheLookup", Name: "lookupGuards"},
		{Kind: "calls", File: "v2/pkg/engine/resolve/response_cache.go", Func: "Loader.responseCacheFlush", Name: "flushSkeleton",
			Match: []string{"if", "return", "l.ctx.responseCache.store.SetMany", "l.reportResponseCacheError"}},
	}

	const lx = "v2/pkg/lexer/lexer.go"
	const tk = "v2/pkg/astparser/tokenizer.go"
	specs["C05"] = []item{
		{Kind: "cases", File: lx, Func: "Lexer.byteIsWhitespace", Name: "whitespaceBytes", Typ: "nat"},
		{Kind: "cases", File: lx, Func: "Lexer.matchSingleRuneToken", Name: "singleRuneBytes", Typ: "nat"},
		{Kind: "cases", File: lx, Func: "Lexer.Read", Name: "readDispatch", Typ: "nat"},
		{Kind: "cases", File: lx, Func: "Lexer.readComment", Name: "commentCases", Typ: "nat"},
		{Kind: "cases", File: lx, Func: "Lexer.readBlockString", Name: "blockStringCases", Typ: "nat"},
		{Kind: "cases", File: lx, Func: "Lexer.readSingleLineString", Name: "stringCases", Typ: "nat"},
		{Kind: "conds", File: lx, Func: "Lexer.runeIsIdent", Name: "identConds"},
		{Kind: "conds", File: lx, Func: "runeIsDigit", Name: "digitConds"},
		{Kind: "consts", File: "v2/pkg/lexer/keyword/keyword.go", Name: "keywordValues", Typ: "nat",
			Names: []string{"UNDEFINED", "IDENT", "COMMENT", "EOF", "COLON", "BANG", "LT", "TAB", "SPACE", "COMMA", "AT", "DOT", "SPREAD", "PIPE", "SLASH", "EQUALS", "SUB", "AND", "QUOTE", "DOLLAR", "STRING", "BLOCKSTRING", "INTEGER", "FLOAT", "LPAREN", "RPAREN", "LBRACK", "RBRACK", "LBRACE", "RBRACE"}},
		{Kind: "conds", File: tk, Func: "Tokenizer.TokenizeWithLimits", Name: "limitsOuterCases", Index: 0},
		{Kind: "conds", File: tk, Func: "Tokenizer.TokenizeWithLimits", Name: "limitsKeywordCases", Index: 1},
		{Kind: "calls", File: tk, Func: "Tokenizer.TokenizeWithLimits", Name: "limitsConditions", Match: []string{"if"}},
	}

	const vv = "v2/pkg/variablesvalidation/variablesvalidation.go"
	specs["C06"] = []item{
		{Kind: "conds", File: vv, Func: "variablesVisitor.traverseNamedTypeNode", Name: "namedKinds", Index: 0},
		{Kind: "cases", File: vv, Func: "variablesVisitor.traverseNamedTypeNode", Name: "scalarNames", Typ: "string", Index: 1},
		{Kind: "calls", File: vv, Func: "variablesVisitor.traverseNamedTypeNode", Name: "namedConds", Match: []string{"if"}},
		{Kind: "calls", File: vv, Func: "variablesVisitor.traverseOperationType", Name: "opConds", Match: []string{"if"}},
		{Kind: "calls", File: vv, Func: "variablesVisitor.traverseFieldDefinitionType", Name: "fieldConds", Match: []string{"if"}},
		{Kind: "calls", File: vv, Func: "variablesVisitor.violatesOneOfConstraint", Name: "oneOfConds", Match: []string{"if"}},
		{Kind: "calls", File: vv, Func: "variablesVisitor.EnterVariableDefinition", Name: "enterConds", Match: []string{"if", "v.variables.Get", "v.traverseOperationType"}},
		{Kind: "calls", File: vv, Func: "VariablesValidator.Validate", Name: "validateSkeleton", Match: []string{"if", "astjson.ParseBytes", "v.walker.Walk", "return"}},
	}

	const ld = "v2/pkg/engine/resolve/loader.go"
	const ldr = ld
	const sf = "v2/pkg/engine/postprocess/schedule_fetches.go"
	specs["C08"] = []item{
		{Kind: "conds", File: ld, Func: "Loader.resolveFetchNodeWithCtx", Name: "nodeKinds"},
		{Kind: "calls", File: ld, Func: "Loader.resolveFetchNodeWithCtx", Name: "nodeDispatch", Match: []string{"l.resolveSingle", "l.resolveSerial", "l.resolveParallel"}},
		{Kind: "calls", File: ld, Func: "Loader.resolveSerial", Name: "serialSkeleton", Match: []string{"l.resolveFetchNodeWithCtx", "if", "return"}},
		{Kind: "calls", File: ld, Func: "Loader.resolveParallel", Name: "parallelSkeleton", Match: []string{"g.Go", "l.resolveFetchNodeWithCtx", "g.Wait", "if", "return", "go:*"}},
		{Kind: "calls", File: ld, Func: "Loader.resolveSingle", Name: "singleSkeleton", Match: []string{"l.preparePhase", "l.loadPhase", "l.mergePhase", "l.responseCacheFlush"}},
		{Kind: "calls", File: ld, Func: "Loader.preparePhase", Name: "prepareLock", Match: []string{"l.dataBuffer.Lock", "defer:l.dataBuffer.Unlock", "l.shouldSkipErroredDependencyLocked", "l.selectItemsForPath"}},
		{Kind: "calls", File: ld, Func: "Loader.mergePhase", Name: "mergeLock", Match: []string{"l.dataBuffer.Lock", "defer:l.dataBuffer.Unlock", "l.mergeResult", "l.mergeMultiEntityResult", "l.callOnFinished"}},
		{Kind: "calls", File: ld, Func: "Loader.loadPhase", Name: "loadRecordsFailure", Match: []string{"l.executeSourceLoad", "l.recordErroredFetchID", "l.recordErroredFetchIDLocked", "if"}},
		{Kind: "calls", File: ld, Func: "Loader.recordErroredFetchID", Name: "recordLock", Match: []string{"l.dataBuffer.Lock", "defer:l.dataBuffer.Unlock", "l.recordErroredFetchIDLocked"}},
		{Kind: "guards", File: ld, Func: "Loader.shouldSkipErroredDependencyLocked", Name: "skipGuards"},
		{Kind: "guards", File: ld, Func: "Loader.recordErroredFetchIDLocked", Name: "recordGuards"},
		{Kind: "conds", File: sf, Func: "validateSchedule", Name: "validateKinds"},
		{Kind: "calls", File: sf, Func: "validateSchedule", Name: "validateConds", Match: []string{"if"}},
	}

	const rs = "v2/pkg/engine/resolve/resolvable.go"
	specs["C02"] = []item{
		{Kind: "calls", File: rs, Func: "Resolvable.walkString", Name: "stringConds", Match: []string{"if"}},
		{Kind: "calls", File: rs, Func: "Resolvable.walkBoolean", Name: "boolConds", Match: []string{"if"}},
		{Kind: "calls", File: rs, Func: "Resolvable.walkInteger", Name: "intConds", Match: []string{"if"}},
		{Kind: "calls", File: rs, Func: "Resolvable.walkFloat", Name: "floatConds", Match: []string{"if"}},
		{Kind: "calls", File: rs, Func: "Resolvable.walkBigInt", Name: "bigIntConds", Match: []string{"if"}},
		{Kind: "calls", File: rs, Func: "Resolvable.walkScalar", Name: "scalarConds", Match: []string{"if"}},
		{Kind: "calls", File: rs, Func: "Resolvable.walkEnum", Name: "enumConds", Match: []string{"if"}},
		{Kind: "calls", File: rs, Func: "Resolvable.walkArray", Name: "arrayConds", Match: []string{"if", "value.SetArrayItem", "astjson.SetNull"}},
		{Kind: "calls", File: rs, Func: "Resolvable.walkObject", Name: "objectConds", Match: []string{"if", "r.walkFields", "r.walkNull", "r.err"}},
		{Kind: "calls", File: rs, Func: "Resolvable.walkFields", Name: "fieldsConds", Match: []string{"if", "astjson.SetNull", "r.walkNode"}},
		{Kind: "calls", File: rs, Func: "Resolvable.Resolve", Name: "resolveSkeleton", Match: []string{"r.walkObject", "r.printErrors", "r.printData", "if"}},
		{Kind: "calls", File: "v2/pkg/engine/resolve/node_object.go", Func: "Object.isAbstract", Name: "abstractConds", Match: []string{"if", "return"}},
	}

	const isf = "v2/pkg/engine/resolve/inbound_request_singleflight.go"
	const ssf = "v2/pkg/engine/resolve/subgraph_request_singleflight.go"
	const rsv = "v2/pkg/engine/resolve/resolve.go"
	specs["C11"] = []item{
		{Kind: "calls", File: isf, Func: "InboundRequestSingleFlight.GetOrCreate", Name: "getOrCreate",
			Match: []string{"if", "shard.m.LoadOrStore", "request.AddFollower", "select", "recv:request.Done", "recv:ctx.ctx.Done()", "return"}},
		{Kind: "calls", File: isf, Func: "InboundRequestSingleFlight.FinishOk", Name: "finishOk",
			Match: []string{"if", "shard.m.Delete", "req.HasFollowers", "copy", "close(req.Done)"}},
		{Kind: "calls", File: isf, Func: "InboundRequestSingleFlight.FinishErr", Name: "finishErr",
			Match: []string{"if", "shard.m.Delete", "close(req.Done)"}},
		{Kind: "calls", File: ssf, Func: "SubgraphRequestSingleFlight.GetOrCreateItem", Name: "getOrCreateItem",
			Match: []string{"shard.items.LoadOrStore", "return"}},
		{Kind: "calls", File: ssf, Func: "SubgraphRequestSingleFlight.Finish", Name: "finishItem",
			Match: []string{"shard.items.Delete", "close(item.loaded)"}},
		{Kind: "calls", File: ldr, Func: "Loader.loadByContext", Name: "loadByContext",
			Match: []string{"if", "l.singleFlightAllowed", "l.singleFlight.GetOrCreateItem", "select", "recv:item.loaded", "recv:ctx.Done()", "defer:l.singleFlight.Finish", "l.loadByContextDirect"}},
		{Kind: "calls", File: rsv, Func: "Resolver.ArenaResolveGraphQLResponse", Name: "arenaResolve",
			Match: []string{"if", "r.inboundRequestSingleFlight.GetOrCreate", "r.inboundRequestSingleFlight.FinishErr", "r.inboundRequestSingleFlight.FinishOk", "writer.Write", "loader.LoadGraphQLResponseData", "resolvable.Resolve"}},
		{Kind: "calls", File: "v2/pkg/engine/resolve/response.go", Func: "GraphQLResponse.SingleFlightAllowed", Name: "inboundAllowed", Match: []string{"if", "return"}},
		{Kind: "calls", File: ldr, Func: "Loader.singleFlightAllowed", Name: "subgraphAllowed", Match: []string{"if", "return"}},
	}
	// C12: every path that touches a subscription writer, with its locking and its removed-check
	wr := []string{"if", "return", "s.writeMu.Lock", "defer:s.writeMu.Unlock", "s.removed.Load", "s.writer.*", "w.WriteError", "close(s.completed)",
		"sub.writeMu.Lock", "sub.writeMu.Unlock", "sub.removed.Load", "sub.writer.*", "sub.writeError", "resolvable.Resolve", "r.errorFormatter.WriteError",
		"r.UnsubscribeSubscription", "loader.LoadGraphQLResponseData", "sub.lastWriteTime.Store", "sub.sendHeartbeat", "sub.ctx.Context"}
	upd := []string{"if", "return", "s.mu.Lock", "defer:s.mu.Unlock", "s.resolver.*", "s.ctx.Err"}
	specs["C12"] = []item{
		// the filter decision (model: Misc.SubFilter): the connective dispatch and every condition of the IN comparison
		{Kind: "guards", File: "v2/pkg/engine/resolve/subscription_filter.go", Func: "SubscriptionFilter.SkipEvent", Name: "filterSkipEventGuards"},
		{Kind: "guards", File: "v2/pkg/engine/resolve/subscription_filter.go", Func: "SubscriptionFieldFilter.SkipEvent", Name: "fieldFilterSkipEventGuards"},
		{Kind: "calls", File: rsv, Func: "subscriptionState.done", Name: "subDone", Match: wr},
		{Kind: "calls", File: rsv, Func: "subscriptionState.complete", Name: "subComplete", Match: wr},
		{Kind: "calls", File: rsv, Func: "subscriptionState.error", Name: "subError", Match: wr},
		{Kind: "calls", File: rsv, Func: "subscriptionState.writeError", Name: "subWriteError", Match: wr},
		{Kind: "calls", File: rsv, Func: "subscriptionState.sendHeartbeat", Name: "subSendHeartbeat", Match: wr},
		{Kind: "calls", File: rsv, Func: "Resolver.executeSubscriptionUpdate", Name: "executeUpdate", Match: wr},
		{Kind: "calls", File: rsv, Func: "Resolver.executeSubscriptionHeartbeat", Name: "executeHeartbeat", Match: wr},
		{Kind: "calls", File: rsv, Func: "subscriptionUpdater.Update", Name: "updUpdate", Match: upd},
		{Kind: "calls", File: rsv, Func: "subscriptionUpdater.UpdateSubscription", Name: "updUpdateSubscription", Match: upd},
		{Kind: "calls", File: rsv, Func: "subscriptionUpdater.Complete", Name: "updComplete", Match: upd},
		{Kind: "calls", File: rsv, Func: "subscriptionUpdater.Error", Name: "updError", Match: upd},
		{Kind: "calls", File: rsv, Func: "subscriptionUpdater.Heartbeat", Name: "updHeartbeat", Match: upd},
		{Kind: "calls", File: rsv, Func: "subscriptionUpdater.Done", Name: "updDone", Match: upd},
		{Kind: "calls", File: rsv, Func: "subscriptionUpdater.CloseSubscription", Name: "updCloseSubscription", Match: upd},
		{Kind: "calls", File: rsv, Func: "Resolver.getTriggerForUpdater", Name: "getTriggerForUpdater", Match: []string{"if", "return", "r.getTrigger"}},
		{Kind: "calls", File: rsv, Func: "Resolver.handleTriggerUpdate", Name: "handleUpdate",
			Match: []string{"if", "return", "r.getTriggerForUpdater", "r.getTrigger", "trig.filterSubscriptions", "fe.sub.writeError", "for", "sub.removed.Load", "wg.Go", "r.executeSubscriptionUpdate", "wg.Wait"}},
		{Kind: "calls", File: rsv, Func: "Resolver.handleUpdateSubscription", Name: "handleUpdateSubscription",
			Match: []string{"if", "return", "r.getTriggerForUpdater", "r.getTrigger", "trig.filterSubscription", "filterErr.sub.writeError", "sub.removed.Load", "r.executeSubscriptionUpdate"}},
		{Kind: "calls", File: rsv, Func: "Resolver.handleTriggerComplete", Name: "handleComplete",
			Match: []string{"if", "return", "r.getTriggerForUpdater", "r.getTrigger", "trig.snapshotSubscriptions", "for", "s.removed.Load", "s.complete"}},
		{Kind: "calls", File: rsv, Func: "Resolver.handleTriggerError", Name: "handleError",
			Match: []string{"if", "return", "r.getTriggerForUpdater", "r.getTrigger", "trig.snapshotSubscriptions", "for", "s.removed.Load", "s.error"}},
		{Kind: "calls", File: rsv, Func: "trigger.evalFilter", Name: "evalFilter", Match: []string{"if", "return", "s.ctx.ctx.Err", "s.resolve.Filter.SkipEvent"}},
		{Kind: "calls", File: rsv, Func: "trigger.filterSubscriptions", Name: "filterSubscriptions", Match: []string{"t.mu.Lock", "defer:t.mu.Unlock", "for", "t.evalFilter", "if"}},
		{Kind: "calls", File: rsv, Func: "closeSubs", Name: "closeSubs", Match: []string{"for", "s.done"}},
	}
	// C13: every registry mutation, with its locking, reporter calls and the cancel/close that follow it
	regm := []string{"if", "return", "for", "r.mu.Lock", "r.mu.Unlock", "defer:r.mu.Unlock", "trig.mu.Lock", "trig.mu.Unlock", "r.reporter.*", "r.registerSubscriptionLocked",
		"r.unregisterSubscriptionLocked", "r.removeSubscriptionLocked", "r.detachTriggerLocked", "closeSubs", "res.triggerCancel", "cancel", "delete", "s.removed.CompareAndSwap",
		"trig.initialized.*", "go", "r.executeStartupHooks", "add.resolve.Trigger.Source.Start", "sub.writeError", "s.writeError", "r.doneTriggerFromUpdater", "r.markTriggerInitialized",
		"r.UnsubscribeSubscription", "r.removeClient", "context.WithCancel", "trig.snapshotSubscriptions", "defer:verifYield"}
	// C01: the response-tree merging that decides which fields are rendered for which runtime types
	mf := "v2/pkg/engine/postprocess/merge_fields.go"
	mm := []string{"if", "return", "for", "m.*", "append", "bytes.Equal", "copy", "make"}
	specs["C01"] = []item{
		{Kind: "calls", File: mf, Func: "mergeFields.traverseNode", Name: "mergeTraverse", Match: mm},
		{Kind: "calls", File: mf, Func: "mergeFields.mergeScalars", Name: "mergeScalars", Match: mm},
		{Kind: "calls", File: mf, Func: "mergeFields.mergeParentOnTypeNames", Name: "mergeParentOnTypeNames", Match: mm},
		{Kind: "calls", File: mf, Func: "mergeFields.fieldsCanMerge", Name: "fieldsCanMerge", Match: mm},
		{Kind: "calls", File: mf, Func: "mergeFields.mergeValues", Name: "mergeValues", Match: mm},
	}
	// C07: the loader's failure handling
	ldr7 := "v2/pkg/engine/resolve/loader.go"
	lm := []string{"if", "return", "for", "l.record*", "l.shouldSkip*", "l.render*", "l.mergeErrors", "l.setSkipErrors", "res.parsedResponse", "isEmptyEntityFetch", "astjson.MergeValuesWithPath", "l.taintedObjs.add", "getTaintedIndices", "l.executeSourceLoad", "l.selectItemsForPath", "l.responseCacheLookup"}
	specs["C07"] = []item{
		{Kind: "calls", File: ldr7, Func: "Loader.mergeResult", Name: "mergeResult", Match: lm},
		{Kind: "calls", File: ldr7, Func: "Loader.preparePhase", Name: "preparePhase", Match: lm},
		{Kind: "calls", File: ldr7, Func: "Loader.loadPhase", Name: "loadPhase", Match: lm},
		{Kind: "calls", File: ldr7, Func: "Loader.shouldSkipErroredDependencyLocked", Name: "shouldSkipErroredDependency", Match: lm},
		{Kind: "calls", File: ldr7, Func: "Loader.recordErroredFetchIDLocked", Name: "recordErroredFetchID", Match: []string{"if", "return", "item.Fetch.Dependencies", "make"}},
		{Kind: "calls", File: ldr7, Func: "Loader.renderErrorsFailedToFetch", Name: "renderErrorsFailedToFetch", Match: lm},
		{Kind: "calls", File: ldr7, Func: "Loader.renderErrorsStatusFallback", Name: "renderErrorsStatusFallback", Match: lm},
		{Kind: "calls", File: "v2/pkg/engine/resolve/tainted_objects.go", Func: "taintedObjects.isTainted", Name: "isTainted", Match: []string{"if", "return", "for", "t.*", "found"}},
	}
	// C09: the plan cache key and the option wiring
	ee := "execution/engine/execution_engine.go"
	em := []string{"if", "return", "for", "e.*", "astprinter.*", "operation.*", "xxhash.*", "pool.*", "hash.*", "h.*", "postprocess.*", "plan.*", "planner.*", "report.*", "lru.*", "append"}
	specs["C09"] = []item{
		{Kind: "calls", File: ee, Func: "ExecutionEngine.getCachedPlan", Name: "getCachedPlan", Match: em},
		{Kind: "calls", File: ee, Func: "NewExecutionEngine", Name: "newExecutionEngine", Match: []string{"if", "return", "for", "postprocess.*", "append", "lru.New", "resolve.New", "introspection_datasource.*"}},
		{Kind: "calls", File: "v2/pkg/engine/postprocess/deduplicate_single_fetches.go", Func: "replaceDependsOnFetchID", Name: "replaceDependsOnFetchID", Match: []string{"if", "return", "for", "replaceDependsOnFetchID", "slices.*", "append"}},
		{Kind: "calls", File: "v2/pkg/engine/resolve/loader_multi_entity.go", Func: "Loader.mergeEntryResults", Name: "mergeEntryResults", Match: []string{"if", "return", "for", "l.*", "goerrors.Join"}},
	}
	// C10: where frames are rendered and flushed (one lock region), which fields a defer renders, descriptor paths
	rs10 := "v2/pkg/engine/resolve/resolve.go"
	rb := "v2/pkg/engine/resolve/resolvable.go"
	dm := []string{"if", "return", "for", "defer:*", "dc.*", "r.*", "groupLoader.*", "g.*", "pruneDeadDefers", "NewLoader", "c.*", "d.*", "m.*", "append", "slices.*", "maps.*"}
	specs["C10"] = []item{
		{Kind: "calls", File: rs10, Func: "Resolver.resolveDeferSingle", Name: "resolveDeferSingle", Match: dm},
		{Kind: "calls", File: rs10, Func: "Resolver.resolveDeferTree", Name: "resolveDeferTree", Match: dm},
		{Kind: "calls", File: rb, Func: "Resolvable.collectDeferFields", Name: "collectDeferFields", Match: dm},
		{Kind: "calls", File: rb, Func: "Resolvable.isDeferAncestor", Name: "isDeferAncestor", Match: dm},
		{Kind: "calls", File: rb, Func: "Resolvable.liveChildDescriptors", Name: "liveChildDescriptors", Match: dm},
		{Kind: "calls", File: "v2/pkg/engine/plan/defer_info_collector.go", Func: "deferInfoCollector.outermostListFieldIndex", Name: "outermostListFieldIndex", Match: dm},
		{Kind: "calls", File: "v2/pkg/engine/plan/defer_info_collector.go", Func: "deferInfoCollector.deferPath", Name: "deferPath", Match: dm},
		{Kind: "conds", File: "v2/pkg/ast/ast_field.go", Func: "Document.MergeFieldsDefer", Name: "mergeFieldsDeferConds"},
		{Kind: "calls", File: "v2/pkg/engine/postprocess/extract_defer_fetches.go", Func: "extractDeferFetches.Process", Name: "extractDeferFetches", Match: dm},
		{Kind: "calls", File: "v2/pkg/engine/postprocess/extract_defer_fetches.go", Func: "extractDeferFetches.dropDescriptorsWithoutFetchGroup", Name: "dropDescriptors", Match: dm},
		{Kind: "calls", File: "v2/pkg/engine/postprocess/merge_fields.go", Func: "mergeFields.sameDefer", Name: "sameDefer", Match: dm},
		{Kind: "calls", File: "v2/pkg/engine/postprocess/merge_fields.go", Func: "mergeFields.fieldsCanMerge", Name: "fieldsCanMerge", Match: dm},
		{Kind: "conds", File: "v2/pkg/astvalidation/operation_rule_defer_stream_unique_labels.go", Func: "deferStreamLabelsVisitor.EnterDirective", Name: "uniqueLabelConds"},
	}
	// C14: the decision cache, the field check in the pre-walk, fetch pruning and the coordinate collector
	fa := "v2/pkg/engine/resolve/field_authorization.go"
	am := []string{"if", "return", "for", "a.*", "l.*", "r.*", "c.*", "append", "fmt.Errorf", "authorizationDecisionID", "strings.*", "slices.*", "sort.*"}
	specs["C14"] = []item{
		{Kind: "calls", File: "v2/pkg/engine/resolve/loader.go", Func: "Loader.isFetchAuthorizedFromCache", Name: "isFetchAuthorizedFromCache", Match: am},
		{Kind: "calls", File: "v2/pkg/engine/resolve/loader.go", Func: "Loader.isFetchAuthorized", Name: "isFetchAuthorized", Match: am},
		{Kind: "calls", File: "v2/pkg/engine/resolve/loader.go", Func: "Loader.validatePreFetch", Name: "validatePreFetch", Match: am},
		{Kind: "calls", File: "v2/pkg/engine/resolve/resolvable.go", Func: "Resolvable.authorizeField", Name: "authorizeField", Match: am},
		{Kind: "calls", File: "v2/pkg/engine/resolve/resolvable.go", Func: "Resolvable.fieldAuthorizationCoordinate", Name: "fieldAuthorizationCoordinate", Match: am},
		{Kind: "calls", File: fa, Func: "FieldAuthorization.decide", Name: "authDecide", Match: am},
		{Kind: "calls", File: fa, Func: "FieldAuthorization.authorizePreFetch", Name: "authorizePreFetch", Match: am},
		{Kind: "calls", File: fa, Func: "authorizationDecisionID", Name: "decisionID", Match: []string{"return", "xxhash.*"}},
		{Kind: "calls", File: "v2/pkg/engine/postprocess/collect_authorization_coordinates.go", Func: "collectAuthorizationCoordinates.Process", Name: "collectProcess", Match: am},
		{Kind: "calls", File: "v2/pkg/engine/postprocess/collect_authorization_coordinates.go", Func: "collectAuthorizationCoordinates.collectNode", Name: "collectNode", Match: am},
		{Kind: "calls", File: "v2/pkg/engine/postprocess/collect_authorization_coordinates.go", Func: "collectAuthorizationCoordinates.collectFetchItem", Name: "collectFetchItem", Match: am},
		{Kind: "calls", File: "v2/pkg/engine/plan/path_builder_visitor.go", Func: "pathBuilderVisitor.addRootField", Name: "addRootField", Match: am},
		{Kind: "calls", File: "v2/pkg/engine/plan/path_builder_visitor.go", Func: "pathBuilderVisitor.fieldIsChildNode", Name: "fieldIsChildNode", Match: am},
	}
	// C03: the rewrites whose semantic counterparts are the equations of Props.C03
	an := "v2/pkg/astnormalization/"
	nm := []string{"if", "return", "for", "f.*", "d.*", "v.*", "m.*", "r.*", "bytes.*", "append", "sjson.*", "jsonparser.*", "continue", "break"}
	specs["C03"] = []item{
		{Kind: "calls", File: an + "fragment_spread_inlining.go", Func: "fragmentSpreadInlineVisitor.replaceFragmentSpread", Name: "replaceFragmentSpread", Match: nm},
		{Kind: "calls", File: an + "fragment_spread_inlining.go", Func: "fragmentSpreadInlineVisitor.EnterSelectionSet", Name: "inlineEnterSelectionSet", Match: nm},
		{Kind: "calls", File: an + "field_deduplication.go", Func: "deduplicateFieldsVisitor.EnterSelectionSet", Name: "dedupEnterSelectionSet", Match: nm},
		{Kind: "calls", File: an + "directive_include_skip.go", Func: "directiveIncludeSkipVisitor.handleSkip", Name: "handleSkip", Match: nm},
		{Kind: "calls", File: an + "directive_include_skip.go", Func: "directiveIncludeSkipVisitor.handleInclude", Name: "handleInclude", Match: nm},
		{Kind: "calls", File: an + "directive_include_skip.go", Func: "directiveIncludeSkipVisitor.removeParentNode", Name: "removeParentNode", Match: nm},
		{Kind: "calls", File: an + "variables_extraction.go", Func: "variablesExtractionVisitor.EnterArgument", Name: "extractEnterArgument", Match: nm},
		{Kind: "calls", File: an + "variables_extraction.go", Func: "variablesExtractionVisitor.variableExists", Name: "extractVariableExists", Match: nm},
		{Kind: "calls", File: an + "variables_unused_deletion.go", Func: "deleteUnusedVariablesVisitor.LeaveOperationDefinition", Name: "deleteUnusedLeaveOperation", Match: nm},
		{Kind: "calls", File: an + "inline_fragment_selection_merging.go", Func: "inlineFragmentSelectionMergeVisitor.fieldsCanMerge", Name: "mergeFieldsCanMerge", Match: nm},
		{Kind: "calls", File: an + "inline_fragment_selection_merging.go", Func: "inlineFragmentSelectionMergeVisitor.fragmentsCanBeMerged", Name: "mergeFragmentsCanBeMerged", Match: nm},
		{Kind: "calls", File: an + "inline_selections_from_inline_fragments.go", Func: "inlineSelectionsFromInlineFragmentsVisitor.couldInline", Name: "couldInline", Match: nm},
		{Kind: "calls", File: an + "remove_self_aliasing.go", Func: "removeSelfAliasingVisitor.EnterField", Name: "removeSelfAliasing", Match: nm},
		{Kind: "calls", File: an + "variables_default_value_extraction.go", Func: "variablesDefaultValueExtractionVisitor.EnterVariableDefinition", Name: "defaultEnterVariableDefinition", Match: nm},
	}
	// C20: how the response JSON is built from the proto message and how resolver results are merged back
	gd := "v2/pkg/engine/datasource/grpc_datasource/"
	gm := []string{"if", "return", "for", "j.*", "p.*", "root.*", "message.*", "field.*", "data.*", "astjson.*", "append", "fmt.Errorf", "errors.New", "list.*", "responseValues[].Set", "continue"}
	specs["C20"] = []item{
		{Kind: "calls", File: gd + "json_builder.go", Func: "jsonBuilder.marshalResponseJSON", Name: "marshalResponseJSON", Match: gm},
		{Kind: "calls", File: gd + "json_builder.go", Func: "jsonBuilder.mergeWithPath", Name: "mergeWithPath", Match: gm},
		{Kind: "calls", File: gd + "json_builder.go", Func: "jsonBuilder.flattenObject", Name: "flattenObject", Match: gm},
		{Kind: "calls", File: gd + "json_builder.go", Func: "jsonBuilder.flattenList", Name: "flattenList", Match: gm},
		{Kind: "calls", File: gd + "compiler.go", Func: "RPCCompiler.processRepeatedField", Name: "processRepeatedField", Match: gm},
		{Kind: "calls", File: gd + "compiler.go", Func: "RPCCompiler.getEnumValue", Name: "getEnumValue", Match: gm},
		{Kind: "calls", File: gd + "compiler.go", Func: "RPCCompiler.setValueForKind", Name: "setValueForKind", Match: gm},
		// the positional assembly of _entities (model: Misc.GrpcMerge): every condition, range and index expression
		{Kind: "guards", File: gd + "entity.go", Func: "newEntityIndexMap", Name: "newEntityIndexMapGuards"},
		{Kind: "guards", File: gd + "entity.go", Func: "newRequiredFieldsIndexMap", Name: "newRequiredFieldsIndexMapGuards"},
		{Kind: "guards", File: gd + "json_builder.go", Func: "jsonBuilder.mergeEntities", Name: "mergeEntitiesGuards"},
		{Kind: "guards", File: gd + "json_builder.go", Func: "jsonBuilder.mergeRequiredFields", Name: "mergeRequiredFieldsGuards"},
		{Kind: "guards", File: gd + "json_builder.go", Func: "jsonBuilder.mergeWithPath", Name: "mergeWithPathGuards"},
	}
	// C04: the rule set of the default validator and the order of the admission sequence
	specs["C04"] = []item{
		{Kind: "calls", File: "v2/pkg/astvalidation/operation_validation.go", Func: "DefaultOperationValidator", Name: "defaultRules", Match: []string{"validator.RegisterRule", "AllVariablesUsed", "AllVariableUsesDefined", "DocumentContainsExecutableOperation", "OperationNameUniqueness", "LoneAnonymousOperation", "SubscriptionSingleRootField", "FieldSelections", "FieldSelectionMerging", "KnownArguments", "Values", "ArgumentUniqueness", "RequiredArguments", "Fragments", "DirectivesAreDefined", "DirectivesAreInValidLocations", "VariableUniqueness", "DirectivesAreUniquePerLocation", "VariablesAreInputTypes"}},
		{Kind: "calls", File: "execution/engine/execution_engine.go", Func: "ExecutionEngine.Execute", Name: "admissionSequence", Match: []string{"operation.Normalize", "operation.ValidateForSchema", "astnormalization.*", "astvalidation.*", "variablesvalidation.*", "validator.ValidateWithRemap"}},
		{Kind: "calls", File: "v2/pkg/astvalidation/operation_rule_required_arguments.go", Func: "requiredArgumentsVisitor.EnterField", Name: "requiredArgumentsEnterField", Match: []string{"if", "return", "for", "r.*", "bytes.*"}},
		{Kind: "calls", File: "v2/pkg/astvalidation/operation_rule_all_variable_uses_defined.go", Func: "allVariableUsesDefinedVisitor.EnterArgument", Name: "allVariableUsesDefinedEnterArgument", Match: []string{"if", "return", "for", "a.*", "bytes.*"}},
		{Kind: "calls", File: "v2/pkg/astvalidation/operation_rule_known_arguments.go", Func: "knownArgumentsVisitor.EnterArgument", Name: "knownArgumentsEnterArgument", Match: []string{"if", "return", "for", "v.*", "bytes.*"}},
	}
	// C18: connection sharing, registration, dispatch and shutdown of the upstream multiplexing client
	wt := "v2/pkg/engine/datasource/graphql_datasource/subscriptionclient/transport/"
	wm := []string{"if", "return", "for", "select", "recv:*", "t.*", "c.*", "close", "delete", "handler", "connKey", "len", "time.AfterFunc", "defer:*", "h.*", "json.Marshal", "make"}
	specs["C18"] = []item{
		{Kind: "calls", File: wt + "ws_transport.go", Func: "WSTransport.getOrDial", Name: "getOrDial", Match: wm},
		{Kind: "calls", File: wt + "ws_transport.go", Func: "WSTransport.Subscribe", Name: "transportSubscribe", Match: wm},
		{Kind: "calls", File: wt + "ws_transport.go", Func: "WSTransport.removeConn", Name: "removeConn", Match: wm},
		{Kind: "calls", File: wt + "ws_transport.go", Func: "connKey", Name: "connKey", Match: wm},
		{Kind: "calls", File: wt + "ws_conn.go", Func: "wsConnection.subscribe", Name: "connSubscribe", Match: wm},
		{Kind: "calls", File: wt + "ws_conn.go", Func: "wsConnection.removeSub", Name: "removeSub", Match: wm},
		{Kind: "calls", File: wt + "ws_conn.go", Func: "wsConnection.unsubscribe", Name: "unsubscribe", Match: wm},
		{Kind: "calls", File: wt + "ws_conn.go", Func: "wsConnection.dispatch", Name: "dispatch", Match: wm},
		{Kind: "calls", File: wt + "ws_conn.go", Func: "wsConnection.shutdown", Name: "shutdown", Match: wm},
		{Kind: "calls", File: wt + "ws_conn.go", Func: "wsConnection.readLoop", Name: "readLoop", Match: wm},
	}
	// C15: the literal → JSON converter and the block string value
	av := "v2/pkg/ast/ast_value.go"
	asv := "v2/pkg/ast/ast_val_string_value.go"
	jm := []string{"if", "return", "for", "buf.*", "quotes.WrapBytes", "d.*", "json.*", "enc.*", "jsonparser.Get", "escapeControlCharacters", "fmt.*", "bytes.*", "splitBytesIntoLines", "commonBlockStringIndent", "leadingWhitespaceCount", "append", "make"}
	specs["C15"] = []item{
		{Kind: "conds", File: av, Func: "Document.writeJSONValue", Name: "writeJSONKinds"},
		{Kind: "calls", File: av, Func: "Document.writeJSONValue", Name: "writeJSONValue", Match: jm},
		{Kind: "calls", File: av, Func: "escapeControlCharacters", Name: "escapeControlCharacters", Match: jm},
		{Kind: "conds", File: av, Func: "escapeControlCharacters", Name: "escapeControlCases"},
		{Kind: "calls", File: asv, Func: "Document.BlockStringValueContentBytes", Name: "blockStringValue", Match: jm},
		{Kind: "calls", File: asv, Func: "Document.BlockStringValueContentRawBytes", Name: "blockStringRaw", Match: jm},
		{Kind: "calls", File: "v2/pkg/lexer/lexer.go", Func: "Lexer.readDigit", Name: "lexReadDigit", Match: []string{"if", "return", "for", "l.*", "runeIsDigit", "tok.*"}},
		{Kind: "calls", File: "v2/pkg/lexer/lexer.go", Func: "Lexer.readFloat", Name: "lexReadFloat", Match: []string{"if", "return", "for", "l.*", "runeIsDigit", "tok.*"}},
	}
	// C17: the generator's visitor and the converter
	ig := "v2/pkg/introspection/generator.go"
	ic := "v2/pkg/introspection/converter.go"
	im := []string{"if", "return", "for", "i.*", "j.*", "append", "strings.HasPrefix", "NewFullType", "NewField", "NewDirective", "make"}
	specs["C17"] = []item{
		{Kind: "calls", File: ig, Func: "introspectionVisitor.EnterObjectTypeDefinition", Name: "genObject", Match: im},
		{Kind: "calls", File: ig, Func: "introspectionVisitor.LeaveObjectTypeDefinition", Name: "genObjectLeave", Match: im},
		{Kind: "calls", File: ig, Func: "introspectionVisitor.EnterFieldDefinition", Name: "genField", Match: im},
		{Kind: "calls", File: ig, Func: "introspectionVisitor.EnterInputValueDefinition", Name: "genInputValue", Match: im},
		{Kind: "calls", File: ig, Func: "introspectionVisitor.EnterInterfaceTypeDefinition", Name: "genInterface", Match: im},
		{Kind: "calls", File: ig, Func: "introspectionVisitor.EnterUnionMemberType", Name: "genUnionMember", Match: im},
		{Kind: "calls", File: ig, Func: "introspectionVisitor.LeaveEnumValueDefinition", Name: "genEnumValue", Match: im},
		{Kind: "calls", File: ig, Func: "introspectionVisitor.LeaveDirectiveDefinition", Name: "genDirective", Match: im},
		{Kind: "calls", File: ig, Func: "introspectionVisitor.EnterRootOperationTypeDefinition", Name: "genRoot", Match: im},
		{Kind: "calls", File: ig, Func: "introspectionVisitor.LeaveDocument", Name: "genLeaveDocument", Match: im},
		{Kind: "calls", File: ig, Func: "introspectionVisitor.TypeRef", Name: "genTypeRef", Match: im},
		{Kind: "calls", File: ig, Func: "introspectionVisitor.deprecationReason", Name: "genDeprecationReason", Match: im},
		{Kind: "calls", File: ic, Func: "JsonConverter.importObject", Name: "convObject", Match: im},
		{Kind: "calls", File: ic, Func: "JsonConverter.importInterface", Name: "convInterface", Match: im},
		{Kind: "calls", File: ic, Func: "JsonConverter.importDirective", Name: "convDirective", Match: im},
		{Kind: "calls", File: ic, Func: "JsonConverter.importEnum", Name: "convEnum", Match: im},
		{Kind: "calls", File: ic, Func: "JsonConverter.importUnion", Name: "convUnion", Match: im},
		{Kind: "calls", File: ic, Func: "JsonConverter.importType", Name: "convType", Match: im},
		{Kind: "calls", File: "v2/pkg/engine/datasource/introspection_datasource/config_factory.go", Func: "NewIntrospectionConfigFactory", Name: "configFactory", Match: []string{"if", "return", "introspection.*", "gen.*", "generator.*"}},
	}
	// C19: message-type switches, close codes and call skeletons of the two protocol handlers, the read loop and the engine
	tws := "execution/subscription/websocket/protocol_graphql_transport_ws.go"
	lws := "execution/subscription/websocket/protocol_graphql_ws.go"
	eng := "execution/subscription/engine.go"
	hnd := "execution/subscription/handler.go"
	wsm := []string{"if", "return", "go:*", "p.*", "engine.*", "g.*", "NewCloseReason", "e.*", "eventHandler.Emit", "u.*", "errors.As", "defer:*", "select", "recv:*", "executor.*", "buf.*"}
	specs["C19"] = []item{
		{Kind: "conds", File: tws, Func: "ProtocolGraphQLTransportWSHandler.Handle", Name: "transportTypeSwitch"},
		{Kind: "conds", File: lws, Func: "ProtocolGraphQLWSHandler.Handle", Name: "legacyTypeSwitch"},
		{Kind: "conds", File: tws, Func: "GraphQLTransportWSEventHandler.Emit", Name: "transportEmitSwitch"},
		{Kind: "conds", File: lws, Func: "GraphQLWSWriteEventHandler.Emit", Name: "legacyEmitSwitch"},
		{Kind: "args", File: tws, Name: "transportCloseCodes", Names: []string{"NewCloseReason"}},
		{Kind: "consts", File: tws, Name: "transportTypeNames", Typ: "string", Names: []string{"GraphQLTransportWSMessageTypeConnectionInit", "GraphQLTransportWSMessageTypeConnectionAck",
			"GraphQLTransportWSMessageTypePing", "GraphQLTransportWSMessageTypePong", "GraphQLTransportWSMessageTypeSubscribe", "GraphQLTransportWSMessageTypeNext",
			"GraphQLTransportWSMessageTypeError", "GraphQLTransportWSMessageTypeComplete"}},
		{Kind: "consts", File: lws, Name: "legacyTypeNames", Typ: "string", Names: []string{"GraphQLWSMessageTypeConnectionInit", "GraphQLWSMessageTypeConnectionAck", "GraphQLWSMessageTypeConnectionError",
			"GraphQLWSMessageTypeConnectionTerminate", "GraphQLWSMessageTypeConnectionKeepAlive", "GraphQLWSMessageTypeStart", "GraphQLWSMessageTypeStop", "GraphQLWSMessageTypeData",
			"GraphQLWSMessageTypeError", "GraphQLWSMessageTypeComplete"}},
		{Kind: "calls", File: tws, Func: "ProtocolGraphQLTransportWSHandler.Handle", Name: "transportHandle", Match: wsm},
		{Kind: "calls", File: tws, Func: "ProtocolGraphQLTransportWSHandler.handleInit", Name: "transportHandleInit", Match: wsm},
		{Kind: "calls", File: tws, Func: "ProtocolGraphQLTransportWSHandler.handleSubscribe", Name: "transportHandleSubscribe", Match: wsm},
		{Kind: "calls", File: tws, Func: "ProtocolGraphQLTransportWSHandler.handleComplete", Name: "transportHandleComplete", Match: wsm},
		{Kind: "calls", File: tws, Func: "ProtocolGraphQLTransportWSHandler.startConnectionInitTimer", Name: "transportStartTimer", Match: wsm},
		{Kind: "calls", File: tws, Func: "ProtocolGraphQLTransportWSHandler.startHeartbeat", Name: "transportStartHeartbeat", Match: wsm},
		{Kind: "calls", File: tws, Func: "GraphQLTransportWSEventHandler.Emit", Name: "transportEmit", Match: wsm},
		{Kind: "calls", File: tws, Func: "GraphQLTransportWSMessageReader.Read", Name: "transportRead", Match: []string{"json.*", "if", "return", "bytes.*", "io.*"}},
		{Kind: "calls", File: lws, Func: "ProtocolGraphQLWSHandler.Handle", Name: "legacyHandle", Match: wsm},
		{Kind: "calls", File: lws, Func: "ProtocolGraphQLWSHandler.handleInit", Name: "legacyHandleInit", Match: wsm},
		{Kind: "calls", File: lws, Func: "GraphQLWSMessageReader.Read", Name: "legacyRead", Match: []string{"json.*", "if", "return", "bytes.*", "io.*"}},
		{Kind: "calls", File: eng, Func: "ExecutorEngine.StartOperation", Name: "engineStartOperation", Match: wsm},
		{Kind: "calls", File: eng, Func: "ExecutorEngine.StopSubscription", Name: "engineStopSubscription", Match: wsm},
		{Kind: "calls", File: eng, Func: "ExecutorEngine.TerminateAllSubscriptions", Name: "engineTerminateAll", Match: wsm},
		{Kind: "calls", File: eng, Func: "ExecutorEngine.checkForDuplicateSubscriberID", Name: "engineCheckDuplicate", Match: wsm},
		{Kind: "calls", File: eng, Func: "ExecutorEngine.startSubscription", Name: "engineStartSubscription", Match: wsm},
		{Kind: "calls", File: eng, Func: "ExecutorEngine.executeSubscription", Name: "engineExecuteSubscription", Match: wsm},
		{Kind: "calls", File: eng, Func: "ExecutorEngine.handleNonSubscriptionOperation", Name: "engineHandleNonSubscription", Match: wsm},
		{Kind: "calls", File: hnd, Func: "UniversalProtocolHandler.Handle", Name: "readLoop", Match: wsm},
	}
	gds := "v2/pkg/engine/datasource/graphql_datasource/graphql_datasource.go"
	specs["C13"] = []item{
		{Kind: "calls", File: rsv, Func: "Resolver.addSubscription", Name: "addSubscription", Match: regm},
		{Kind: "calls", File: rsv, Func: "Resolver.markTriggerInitialized", Name: "markTriggerInitialized", Match: regm},
		{Kind: "calls", File: rsv, Func: "Resolver.doneTriggerFromUpdater", Name: "doneTriggerFromUpdater", Match: regm},
		{Kind: "calls", File: rsv, Func: "Resolver.removeClient", Name: "removeClient", Match: regm},
		{Kind: "calls", File: rsv, Func: "Resolver.removeSubscriptionLocked", Name: "removeSubscriptionLocked", Match: regm},
		{Kind: "calls", File: rsv, Func: "Resolver.detachTriggerLocked", Name: "detachTriggerLocked", Match: regm},
		{Kind: "calls", File: rsv, Func: "Resolver.shutdownResolver", Name: "shutdownResolver", Match: regm},
		{Kind: "calls", File: rsv, Func: "Resolver.UnsubscribeSubscription", Name: "unsubscribeSubscription", Match: regm},
		{Kind: "calls", File: rsv, Func: "Resolver.UnsubscribeClient", Name: "unsubscribeClient", Match: regm},
		{Kind: "calls", File: rsv, Func: "Resolver.prepareTrigger", Name: "prepareTrigger",
			Match: []string{"if", "return", "source.HashTriggerInput", "ctx.SubgraphHeadersBuilder.HeadersForSubgraph", "binary.LittleEndian.PutUint64", "keyGen.Write", "keyGen.Sum64"}},
		{Kind: "calls", File: gds, Func: "SubscriptionSource.HashTriggerInput", Name: "gqlHashTriggerInput", Match: []string{"if", "return", "xxh.*", "json.*", "for"}},
		{Kind: "calls", File: gds, Func: "SubscriptionSource.Start", Name: "gqlStart", Match: []string{"if", "return", "json.Unmarshal", "s.client.Subscribe"}},
	}
}
