package main

func init() {
	const lex = "v2/pkg/engine/cache/lex.go"
	const cc = "v2/pkg/engine/cache/cache_control.go"
	specs["C16"] = []item{
		{Kind: "cases", File: lex, Func: "lexer.isInvalidTokenCharacter", Name: "invalidTokenChars", Typ: "nat"},
		{Kind: "cases", File: lex, Func: "lexer.matchSingleRuneToken", Name: "singleRuneTokens", Typ: "nat"},
		{Kind: "cases", File: lex, Func: "lexer.readIdent", Name: "identDelimiters", Typ: "nat"},
		{Kind: "cases", File: lex, Func: "lexer.readString", Name: "stringTerminators", Typ: "nat"},
		{Kind: "cases", File: cc, Func: "parseIdent", Name: "directiveNames", Typ: "string"},
		{Kind: "strings", File: cc, Func: "ParseCacheControlResponse", Name: "headerStrings"},
		{Kind: "calls", File: "v2/pkg/caching/cachecontrol.go", Func: "TTL", Name: "ttlSkeleton",
			Match: []string{"if", "return", "cache.ParseCacheControlResponse", "cc.SMaxAge.AsDuration", "cc.MaxAge.AsDuration"}},
	}
}
