// extract — regenerates, from /repo's current source, the facts the hand-written Lean models
// hard-wire (switch-case tables, constants, string literals, ordered call skeletons of the
// concurrency-critical functions).  Output: one Lean file of plain data `def`s per property
// (GqlVerif/Generated/Cxx.lean); the hand-written GqlVerif/Ties/Cxx.lean proves (rfl/decide) that
// they equal the constants and step orders used by the models.  Standard library only.
package main

import (
	"flag"
	"fmt"
	"go/ast"
	"go/printer"
	"go/parser"
	"go/token"
	"os"
	"path/filepath"
	"sort"
	"strconv"
	"strings"
)

type item struct {
	Kind  string   // cases | calls | strings | consts | conds | args | guards
	File  string   // relative to repo root
	Func  string   // function or Recv.Method
	Name  string   // Lean def name
	Typ   string   // nat | string
	Index int      // which switch statement inside the function (source order)
	Match []string // for calls: selector / function names to record
	Names []string // for consts
}

var specs = map[string][]item{}

type pkgConsts map[string]string // name -> literal text (Go syntax)

var constCache = map[string]pkgConsts{}

func loadConsts(dir string) pkgConsts {
	if c, ok := constCache[dir]; ok {
		return c
	}
	c := pkgConsts{}
	constCache[dir] = c
	fset := token.NewFileSet()
	pkgs, err := parser.ParseDir(fset, dir, func(fi os.FileInfo) bool { return !strings.HasSuffix(fi.Name(), "_test.go") }, 0)
	if err != nil {
		return c
	}
	for _, p := range pkgs {
		for _, f := range p.Files {
			for _, d := range f.Decls {
				gd, ok := d.(*ast.GenDecl)
				if !ok || gd.Tok != token.CONST {
					continue
				}
				iota := 0
				var lastExpr ast.Expr
				for _, s := range gd.Specs {
					vs := s.(*ast.ValueSpec)
					for i, n := range vs.Names {
						var e ast.Expr
						if i < len(vs.Values) {
							e = vs.Values[i]
							lastExpr = e
						} else {
							e = lastExpr
						}
						if e != nil {
							if v, ok := evalConst(e, c, iota); ok {
								c[n.Name] = v
							}
						}
					}
					iota++
				}
			}
		}
	}
	return c
}

// evalConst evaluates literals, iota, unary minus and simple binary + on ints; returns Go literal text.
func evalConst(e ast.Expr, c pkgConsts, iota int) (string, bool) {
	switch x := e.(type) {
	case *ast.BasicLit:
		return x.Value, true
	case *ast.Ident:
		if x.Name == "iota" {
			return strconv.Itoa(iota), true
		}
		if v, ok := c[x.Name]; ok {
			return v, true
		}
	case *ast.UnaryExpr:
		if x.Op == token.SUB {
			if v, ok := evalConst(x.X, c, iota); ok {
				return "-" + v, true
			}
		}
	case *ast.ParenExpr:
		return evalConst(x.X, c, iota)
	case *ast.CallExpr: // type conversion T(x)
		if len(x.Args) == 1 {
			return evalConst(x.Args[0], c, iota)
		}
	case *ast.BinaryExpr:
		a, ok1 := evalConst(x.X, c, iota)
		b, ok2 := evalConst(x.Y, c, iota)
		if ok1 && ok2 {
			ai, e1 := strconv.Atoi(a)
			bi, e2 := strconv.Atoi(b)
			if e1 == nil && e2 == nil {
				switch x.Op {
				case token.ADD:
					return strconv.Itoa(ai + bi), true
				case token.SUB:
					return strconv.Itoa(ai - bi), true
				case token.SHL:
					return strconv.Itoa(ai << uint(bi)), true
				case token.MUL:
					return strconv.Itoa(ai * bi), true
				}
			}
		}
	}
	return "", false
}

type ctx struct {
	repo    string
	fset    *token.FileSet
	file    *ast.File
	dir     string
	imports map[string]string // local name -> dir
}

func openFile(repo, rel string) (*ctx, error) {
	fset := token.NewFileSet()
	path := filepath.Join(repo, rel)
	f, err := parser.ParseFile(fset, path, nil, 0)
	if err != nil {
		return nil, err
	}
	c := &ctx{repo: repo, fset: fset, file: f, dir: filepath.Dir(path), imports: map[string]string{}}
	for _, im := range f.Imports {
		p, _ := strconv.Unquote(im.Path.Value)
		name := filepath.Base(p)
		if im.Name != nil {
			name = im.Name.Name
		}
		const pre = "github.com/wundergraph/graphql-go-tools/"
		if strings.HasPrefix(p, pre) {
			c.imports[name] = filepath.Join(repo, strings.TrimPrefix(p, pre))
		}
	}
	return c, nil
}

func (c *ctx) findFunc(name string) *ast.FuncDecl {
	recv, fn := "", name
	if i := strings.Index(name, "."); i >= 0 {
		recv, fn = name[:i], name[i+1:]
	}
	for _, d := range c.file.Decls {
		fd, ok := d.(*ast.FuncDecl)
		if !ok || fd.Name.Name != fn {
			continue
		}
		r := ""
		if fd.Recv != nil && len(fd.Recv.List) > 0 {
			t := fd.Recv.List[0].Type
			if s, ok := t.(*ast.StarExpr); ok {
				t = s.X
			}
			if ix, ok := t.(*ast.IndexExpr); ok {
				t = ix.X
			}
			if id, ok := t.(*ast.Ident); ok {
				r = id.Name
			}
		}
		if r == recv {
			return fd
		}
	}
	return nil
}

func (c *ctx) value(e ast.Expr) (string, bool) {
	switch x := e.(type) {
	case *ast.SelectorExpr:
		if id, ok := x.X.(*ast.Ident); ok {
			if dir, ok := c.imports[id.Name]; ok {
				if v, ok := loadConsts(dir)[x.Sel.Name]; ok {
					return v, true
				}
			}
		}
		return "", false
	default:
		return evalConst(e, loadConsts(c.dir), 0)
	}
}

func goLitToNat(v string) (string, bool) {
	if strings.HasPrefix(v, "'") {
		r, _, _, err := strconv.UnquoteChar(v[1:len(v)-1], '\'')
		if err != nil {
			return "", false
		}
		return strconv.Itoa(int(r)), true
	}
	if n, err := strconv.ParseInt(v, 0, 64); err == nil {
		if n < 0 {
			return "", false
		}
		return strconv.FormatInt(n, 10), true
	}
	return "", false
}

func leanString(s string) string {
	var sb strings.Builder
	sb.WriteByte('"')
	for _, r := range s {
		switch {
		case r == '"':
			sb.WriteString("\\\"")
		case r == '\\':
			sb.WriteString("\\\\")
		case r == '\n':
			sb.WriteString("\\n")
		case r == '\t':
			sb.WriteString("\\t")
		case r == '\r':
			sb.WriteString("\\r")
		case r < 0x20:
			sb.WriteString(fmt.Sprintf("\\x%02x", r))
		default:
			sb.WriteRune(r)
		}
	}
	sb.WriteByte('"')
	return sb.String()
}

func (c *ctx) conv(e ast.Expr, typ string) (string, error) {
	v, ok := c.value(e)
	if !ok {
		return "", fmt.Errorf("cannot evaluate %s", exprString(e))
	}
	switch typ {
	case "nat":
		if v == "-1" {
			return "", fmt.Errorf("negative")
		}
		n, ok := goLitToNat(v)
		if !ok {
			return "", fmt.Errorf("not a nat literal: %s", v)
		}
		return n, nil
	case "string":
		s, err := strconv.Unquote(v)
		if err != nil {
			return "", err
		}
		return leanString(s), nil
	}
	return "", fmt.Errorf("bad type")
}

func exprString(e ast.Expr) string {
	switch x := e.(type) {
	case *ast.Ident:
		return x.Name
	case *ast.SelectorExpr:
		return exprString(x.X) + "." + x.Sel.Name
	case *ast.CallExpr:
		return exprString(x.Fun) + "()"
	case *ast.StarExpr:
		return "*" + exprString(x.X)
	case *ast.BasicLit:
		return x.Value
	case *ast.IndexExpr:
		return exprString(x.X) + "[]"
	case *ast.ParenExpr:
		return "(" + exprString(x.X) + ")"
	case *ast.UnaryExpr:
		return x.Op.String() + exprString(x.X)
	case *ast.BinaryExpr:
		return exprString(x.X) + x.Op.String() + exprString(x.Y)
	case *ast.FuncLit:
		return "func"
	case *ast.CompositeLit:
		return "lit"
	case *ast.TypeAssertExpr:
		return exprString(x.X) + ".(T)"
	case *ast.SliceExpr:
		return exprString(x.X) + "[:]"
	}
	return fmt.Sprintf("%T", e)
}

// the source text of an expression (go/printer, one line)
func fullExpr(n ast.Node) string {
	var sb strings.Builder
	if err := printer.Fprint(&sb, token.NewFileSet(), n); err != nil {
		return exprString(n.(ast.Expr))
	}
	return strings.Join(strings.Fields(sb.String()), " ")
}

func run(repo string, it item) (string, error) {
	c, err := openFile(repo, it.File)
	if err != nil {
		return "", err
	}
	var body ast.Node
	if it.Func != "" {
		fd := c.findFunc(it.Func)
		if fd == nil || fd.Body == nil {
			return "", fmt.Errorf("function %s not found in %s", it.Func, it.File)
		}
		body = fd.Body
	} else {
		body = c.file
	}
	switch it.Kind {
	case "cases":
		// the Index-th switch statement: one inner list per case clause (default = empty list omitted)
		var sw []*ast.SwitchStmt
		ast.Inspect(body, func(n ast.Node) bool {
			if s, ok := n.(*ast.SwitchStmt); ok {
				sw = append(sw, s)
			}
			return true
		})
		if it.Index >= len(sw) {
			return "", fmt.Errorf("%s: switch #%d not found in %s", it.Name, it.Index, it.Func)
		}
		var clauses []string
		for _, st := range sw[it.Index].Body.List {
			cc := st.(*ast.CaseClause)
			if cc.List == nil {
				continue
			}
			var vals []string
			for _, e := range cc.List {
				v, err := c.conv(e, it.Typ)
				if err != nil {
					if it.Typ == "nat" { // e.g. `case -1` (EOF sentinel) is not a byte
						continue
					}
					return "", fmt.Errorf("%s: %v", it.Name, err)
				}
				vals = append(vals, v)
			}
			clauses = append(clauses, "["+strings.Join(vals, ", ")+"]")
		}
		lt := "Nat"
		if it.Typ == "string" {
			lt = "String"
		}
		return fmt.Sprintf("def %s : List (List %s) :=\n  [%s]\n", it.Name, lt, strings.Join(clauses, ",\n   ")), nil
	case "conds":
		// the Index-th switch statement: printed case expressions (for tagless / non-constant switches)
		var sw []*ast.SwitchStmt
		ast.Inspect(body, func(n ast.Node) bool {
			if s, ok := n.(*ast.SwitchStmt); ok {
				sw = append(sw, s)
			}
			return true
		})
		if it.Index >= len(sw) {
			return "", fmt.Errorf("%s: switch #%d not found in %s", it.Name, it.Index, it.Func)
		}
		var clauses []string
		for _, st := range sw[it.Index].Body.List {
			cc := st.(*ast.CaseClause)
			var vals []string
			for _, e := range cc.List {
				vals = append(vals, leanString(exprString(e)))
			}
			clauses = append(clauses, "["+strings.Join(vals, ", ")+"]")
		}
		return fmt.Sprintf("def %s : List (List String) :=\n  [%s]\n", it.Name, strings.Join(clauses, ",\n   ")), nil
	case "guards":
		// the printed condition of every if statement and every index expression, in source order: the decision skeleton
		// of a function together with the positions it reads and writes
		var vals []string
		ast.Inspect(body, func(n ast.Node) bool {
			switch x := n.(type) {
			case *ast.IfStmt:
				vals = append(vals, leanString("if "+fullExpr(x.Cond)))
			case *ast.IndexExpr:
				vals = append(vals, leanString(fullExpr(x)))
			case *ast.RangeStmt:
				k, v := "_", "_"
				if x.Key != nil {
					k = fullExpr(x.Key)
				}
				if x.Value != nil {
					v = fullExpr(x.Value)
				}
				vals = append(vals, leanString("range "+k+", "+v+" := "+fullExpr(x.X)))
			}
			return true
		})
		return fmt.Sprintf("def %s : List String :=\n  [%s]\n", it.Name, strings.Join(vals, ",\n   ")), nil
	case "args":
		// printed first arguments of every call to one of the callees in Names, in source order
		var vals []string
		ast.Inspect(body, func(n ast.Node) bool {
			if call, ok := n.(*ast.CallExpr); ok && len(call.Args) > 0 {
				callee := exprString(call.Fun)
				for _, want := range it.Names {
					if callee == want {
						vals = append(vals, leanString(exprString(call.Args[0])))
					}
				}
			}
			return true
		})
		return fmt.Sprintf("def %s : List String :=\n  [%s]\n", it.Name, strings.Join(vals, ", ")), nil
	case "strings":
		var vals []string
		ast.Inspect(body, func(n ast.Node) bool {
			if b, ok := n.(*ast.BasicLit); ok && b.Kind == token.STRING {
				s, err := strconv.Unquote(b.Value)
				if err == nil {
					vals = append(vals, leanString(s))
				}
			}
			return true
		})
		return fmt.Sprintf("def %s : List String :=\n  [%s]\n", it.Name, strings.Join(vals, ", ")), nil
	case "consts":
		consts := loadConsts(c.dir)
		var out []string
		for _, n := range it.Names {
			v, ok := consts[n]
			if !ok {
				return "", fmt.Errorf("%s: constant %s not found", it.Name, n)
			}
			if it.Typ == "string" {
				s, err := strconv.Unquote(v)
				if err != nil {
					return "", err
				}
				out = append(out, fmt.Sprintf("(%s, %s)", leanString(n), leanString(s)))
			} else {
				nv, ok := goLitToNat(v)
				if !ok {
					return "", fmt.Errorf("%s: %s=%s not a nat", it.Name, n, v)
				}
				out = append(out, fmt.Sprintf("(%s, %s)", leanString(n), nv))
			}
		}
		lt := "Nat"
		if it.Typ == "string" {
			lt = "String"
		}
		return fmt.Sprintf("def %s : List (String × %s) :=\n  [%s]\n", it.Name, lt, strings.Join(out, ", ")), nil
	case "calls":
		// ordered list of the calls (by printed callee) whose printed callee matches one of Match;
		// `go f()` is recorded as "go:<callee>", `defer f()` as "defer:<callee>", close(ch) as "close(<arg>)",
		// `<-x` receives as "recv:<x>", `select` as "select".
		match := func(s string) bool {
			for _, m := range it.Match {
				if m == s || (strings.HasSuffix(m, "*") && strings.HasPrefix(s, strings.TrimSuffix(m, "*"))) ||
					(strings.HasPrefix(m, "*") && strings.HasSuffix(s, strings.TrimPrefix(m, "*"))) {
					return true
				}
			}
			return false
		}
		var evs []string
		var walk func(n ast.Node) bool
		walk = func(n ast.Node) bool {
			switch x := n.(type) {
			case *ast.GoStmt:
				s := "go:" + exprString(x.Call.Fun)
				if match(s) || match("go:*") {
					evs = append(evs, s)
				}
			case *ast.DeferStmt:
				s := "defer:" + exprString(x.Call.Fun)
				if match(s) {
					evs = append(evs, s)
					return false
				}
			case *ast.SelectStmt:
				if match("select") {
					evs = append(evs, "select")
				}
			case *ast.UnaryExpr:
				if x.Op == token.ARROW {
					s := "recv:" + exprString(x.X)
					if match(s) || match("recv:*") {
						evs = append(evs, s)
					}
				}
			case *ast.ReturnStmt:
				if match("return") {
					evs = append(evs, "return")
				}
			case *ast.IfStmt:
				if match("if") {
					evs = append(evs, "if "+exprString(x.Cond))
				}
			case *ast.CallExpr:
				s := exprString(x.Fun)
				if s == "close" && len(x.Args) == 1 {
					s = "close(" + exprString(x.Args[0]) + ")"
				}
				if match(s) {
					// arguments first (evaluation order), then the call
					for _, a := range x.Args {
						ast.Inspect(a, walk)
					}
					ast.Inspect(x.Fun, func(m ast.Node) bool {
						if m == x.Fun {
							return true
						}
						return walk(m)
					})
					evs = append(evs, s)
					return false
				}
			}
			return true
		}
		ast.Inspect(body, walk)
		q := make([]string, len(evs))
		for i, e := range evs {
			q[i] = leanString(e)
		}
		return fmt.Sprintf("def %s : List String :=\n  [%s]\n", it.Name, strings.Join(q, ",\n   ")), nil
	}
	return "", fmt.Errorf("unknown kind %s", it.Kind)
}

func main() {
	repo := flag.String("repo", "/repo", "repository root")
	prop := flag.String("prop", "", "property id")
	out := flag.String("out", "", "output Lean file")
	flag.Parse()
	items := specs[*prop]
	var sb strings.Builder
	sb.WriteString("-- GENERATED by /verif/tools/extract from /repo's current source on every check run. Do not edit.\n")
	sb.WriteString("namespace GqlVerif.Generated." + *prop + "\n\n")
	var errs []string
	for _, it := range items {
		s, err := run(*repo, it)
		if err != nil {
			errs = append(errs, err.Error())
			// keep the name defined so only the affected tie theorem fails, with a value that cannot match
			sb.WriteString(fmt.Sprintf("-- extraction failed: %s\ndef %s : Unit := ()\n\n", strings.ReplaceAll(err.Error(), "\n", " "), it.Name))
			continue
		}
		sb.WriteString(fmt.Sprintf("-- %s %s %s\n", it.Kind, it.File, it.Func))
		sb.WriteString(s)
		sb.WriteString("\n")
	}
	sb.WriteString("end GqlVerif.Generated." + *prop + "\n")
	if err := os.WriteFile(*out, []byte(sb.String()), 0o644); err != nil {
		fmt.Fprintln(os.Stderr, err)
		os.Exit(2)
	}
	sort.Strings(errs)
	for _, e := range errs {
		fmt.Fprintln(os.Stderr, "extract:", e)
	}
}
