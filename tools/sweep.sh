#!/bin/bash
# sweep.sh <tier> [seed] — run every registered check on the current tree, one after the other; print exit codes
tier="${1:-quick}"; seed="${2:-}"
cd /verif
for p in C01 C02 C03 C04 C05 C06 C07 C08 C09 C10 C11 C12 C13 C14 C15 C16 C17 C18 C19 C20; do
  t0=$(date +%s)
  if [ -n "$seed" ]; then VERIF_SEED=$seed ./check $p $tier > /tmp/sweep.$p.$tier.log 2>&1; else ./check $p $tier > /tmp/sweep.$p.$tier.log 2>&1; fi
  rc=$?
  echo "$p $tier rc=$rc $(( $(date +%s) - t0 ))s $(grep -c '^VIOLATION' /tmp/sweep.$p.$tier.log) violations, $(grep -c '^KNOWN-FINDING' /tmp/sweep.$p.$tier.log) known"
done
