package main

// C20 — gRPC datasource answers are consistent projections of the service data.
//
// The datasource runs against the repository's mock product service over an in-memory gRPC connection.  A case is a
// selection tree over one deterministic root field of the mapped schema.  Two operations are rendered from the tree:
//   * the canonical superset: no aliases, every scalar field and __typename in every selection set — its answer is
//     taken as the service data D;
//   * a formulation of the tree: a subset of the fields, with aliases, reordered and duplicated fields, selections split
//     over several occurrences of a field, selections wrapped into inline fragments.
// The formulation's answer must be the projection of D by the formulation, computed by the Lean reference executor
// (Gql.Exec) over a universe built from D; independently, the answer must have the shape and the value kinds the
// schema declares for the selection.

import (
	"context"
	"encoding/json"
	"fmt"
	"math/rand"
	"net"
	"os"
	"runtime/debug"
	"sort"
	"strings"
	"sync"

	"google.golang.org/grpc"
	"google.golang.org/grpc/credentials/insecure"
	"google.golang.org/grpc/test/bufconn"

	"github.com/wundergraph/graphql-go-tools/v2/pkg/ast"
	"github.com/wundergraph/graphql-go-tools/v2/pkg/astparser"
	"github.com/wundergraph/graphql-go-tools/v2/pkg/astprinter"
	grpcdatasource "github.com/wundergraph/graphql-go-tools/v2/pkg/engine/datasource/grpc_datasource"
	"github.com/wundergraph/graphql-go-tools/v2/pkg/engine/plan"
	"github.com/wundergraph/graphql-go-tools/v2/pkg/grpctest"
	"github.com/wundergraph/graphql-go-tools/v2/pkg/grpctest/mapping"
	"github.com/wundergraph/graphql-go-tools/v2/pkg/grpctest/productv1"
)

func init() { props["C20"] = runC20 }

type c20Env struct {
	resolvers map[[2]string]bool // (type, field) with @connect__fieldResolver
	conn      *grpc.ClientConn
	def       *ast.Document
	compiler  *grpcdatasource.RPCCompiler
	mapping   *grpcdatasource.GRPCMapping
	schema    *fedSchema
	stop      func()
}

var c20Once sync.Once
var c20E *c20Env
var c20Err error

func c20Setup() (*c20Env, error) {
	c20Once.Do(func() {
		lis := bufconn.Listen(1024 * 1024)
		server := grpc.NewServer()
		productv1.RegisterProductServiceServer(server, &grpctest.MockService{})
		go func() { _ = server.Serve(lis) }()
		conn, err := grpc.NewClient("passthrough:///bufnet", grpc.WithTransportCredentials(insecure.NewCredentials()),
			grpc.WithContextDialer(func(context.Context, string) (net.Conn, error) { return lis.Dial() }), grpc.WithLocalDNSResolution())
		if err != nil {
			c20Err = err
			return
		}
		def, err := grpctest.GraphQLSchema()
		if err != nil {
			c20Err = err
			return
		}
		proto, err := grpctest.ProtoSchema()
		if err != nil {
			c20Err = err
			return
		}
		m := mapping.DefaultGRPCMapping()
		compiler, err := grpcdatasource.NewProtoCompiler(proto, m)
		if err != nil {
			c20Err = err
			return
		}
		sdl, err := astprinter.PrintString(&def)
		if err != nil {
			c20Err = err
			return
		}
		schema, err := fedAnalyze(sdl)
		if err != nil {
			c20Err = err
			return
		}
		resolvers := map[[2]string]bool{}
		for _, n := range def.RootNodes {
			if n.Kind != ast.NodeKindObjectTypeDefinition {
				continue
			}
			tn := def.ObjectTypeDefinitionNameString(n.Ref)
			for _, fr := range def.ObjectTypeDefinitions[n.Ref].FieldsDefinition.Refs {
				for _, dr := range def.FieldDefinitions[fr].Directives.Refs {
					if def.DirectiveNameString(dr) == "connect__fieldResolver" {
						resolvers[[2]string{tn, def.FieldDefinitionNameString(fr)}] = true
					}
				}
			}
		}
		c20E = &c20Env{resolvers: resolvers, conn: conn, def: &def, compiler: compiler, mapping: m, schema: schema, stop: func() { conn.Close(); server.Stop(); lis.Close() }}
	})
	return c20E, c20Err
}

// load: the operation goes through the repository's normalizer first (fragment inlining, field merging, variable
// extraction), as it does on its way from the engine's planner to the datasource
func (e *c20Env) load(written string) (data any, raw string, err error) {
	defer func() {
		if r := recover(); r != nil {
			err = fmt.Errorf("panic: %v", r)
			if os.Getenv("VERIF_DEBUG") != "" {
				fmt.Fprintf(os.Stderr, "%s\n", debug.Stack())
			}
		}
	}()
	norm := c03Normalize(e.def, written, []byte("{}"), false)
	if norm.Err != "" {
		return nil, "", fmt.Errorf("normalization: %s", norm.Err)
	}
	query := norm.Printed
	doc, rep := astparser.ParseGraphqlDocumentString(query)
	if rep.HasErrors() {
		return nil, "", fmt.Errorf("parse: %s", rep.Error())
	}
	ds, err := grpcdatasource.NewDataSource(grpcdatasource.NewGRPCTransport(e.conn), grpcdatasource.DataSourceConfig{
		Operation: &doc, Definition: e.def, SubgraphName: "Products", Compiler: e.compiler, Mapping: e.mapping})
	if err != nil {
		return nil, "", fmt.Errorf("plan: %w", err)
	}
	in, _ := json.Marshal(map[string]any{"query": query, "body": map[string]any{"variables": json.RawMessage(norm.Vars)}})
	out, err := ds.Load(context.Background(), nil, in)
	if err != nil {
		return nil, string(out), fmt.Errorf("load: %w", err)
	}
	var parsed struct {
		Data   any   `json:"data"`
		Errors []any `json:"errors"`
	}
	dec := json.NewDecoder(strings.NewReader(string(out)))
	dec.UseNumber()
	if err := dec.Decode(&parsed); err != nil {
		return nil, string(out), fmt.Errorf("response is not JSON: %w", err)
	}
	if len(parsed.Errors) > 0 {
		return parsed.Data, string(out), fmt.Errorf("errors: %s", truncate(jsonStr(parsed.Errors), 300))
	}
	return parsed.Data, string(out), nil
}

// ---- selection trees ----------------------------------------------------------------------------------------------------

type c20Node struct {
	Field     string                `json:"field"`
	Args      string                `json:"args,omitempty"` // literal argument text, with parentheses
	Children  []*c20Node            `json:"children,omitempty"`
	ByType    map[string][]*c20Node `json:"byType,omitempty"`    // abstract return type: selections per possible type
	ListDepth int                   `json:"listDepth,omitempty"` // nesting of list types of the field's type
	Resolver  bool                  `json:"resolver,omitempty"`  // the field is a @connect__fieldResolver field
	typ       *fedType
}

func c20ListDepth(t map[string]any) int {
	n := 0
	for t != nil {
		if t["k"] == "list" {
			n++
		}
		t, _ = t["of"].(map[string]any)
	}
	return n
}

// a field-resolver field somewhere below a field whose type is a list of lists
func c20ResolverUnderNestedList(n *c20Node, under bool) bool {
	if under && n.Resolver {
		return true
	}
	under = under || n.ListDepth >= 2
	for _, c := range n.Children {
		if c20ResolverUnderNestedList(c, under) {
			return true
		}
	}
	for _, cs := range n.ByType {
		for _, c := range cs {
			if c20ResolverUnderNestedList(c, under) {
				return true
			}
		}
	}
	return false
}

// deterministic root fields of the mock service and literal arguments for them
var c20Roots = []struct{ field, args string }{
	{"users", ""}, {"user", `(id: "1")`}, {"nestedType", ""}, {"recursiveType", ""}, {"typeFilterWithArguments", `(filterField1: "a", filterField2: "b")`},
	{"categories", ""}, {"category", `(id: "1")`}, {"categoriesByKind", `(kind: BOOK)`}, {"categoriesByKinds", `(kinds: [BOOK, ELECTRONICS])`},
	{"allPets", ""}, {"nullableFieldsType", ""}, {"nullableFieldsTypeById", `(id: "full-data")`}, {"allNullableFieldsTypes", ""},
	{"blogPost", ""}, {"blogPostById", `(id: "1")`}, {"allBlogPosts", ""}, {"author", ""}, {"authorById", `(id: "1")`}, {"allAuthors", ""},
	{"testContainer", `(id: "1")`}, {"testContainers", ""},
}

// field resolvers with arguments take part with ONE fixed literal argument list each (the reference data is keyed by field name)
var c20FixedArgs = map[[2]string]string{
	{"Category", "popularityScore"}: "(threshold: 5)", {"Category", "categoryMetrics"}: `(metricType: "sales")`,
	{"Category", "mascot"}: "(includeVolume: true)", {"Category", "categoryStatus"}: "(checkHealth: true)",
	{"Category", "childCategories"}: "(include: true)", {"Category", "optionalCategories"}: "(include: true)",
	{"CategoryMetrics", "normalizedScore"}: "(baseline: 1.5)", // (the mock does not implement Subcategory.featuredCategory)
	{"CategoryMetrics", "relatedCategory"}: "(include: true)", {"TestContainer", "details"}: "(includeExtended: true)",
}

func c20Selectable(f *fedField) bool {
	for _, a := range f.ArgNames {
		_ = a
		return false // other fields with arguments are not part of the trees
	}
	return !strings.HasPrefix(f.Name, "_")
}

func (e *c20Env) genChildren(r *rand.Rand, t *fedType, depth int, budget *int) []*c20Node {
	var out []*c20Node
	fields := append([]*fedField{}, t.Fields...)
	r.Shuffle(len(fields), func(i, j int) { fields[i], fields[j] = fields[j], fields[i] })
	for _, f := range fields {
		if *budget <= 0 {
			break
		}
		fixed, hasFixed := c20FixedArgs[[2]string{t.Name, f.Name}]
		if !(c20Selectable(f) || hasFixed) || r.Intn(3) == 0 {
			continue
		}
		leaf := e.schema.typ(fedNamed(f.Type))
		composite := leaf != nil && (leaf.Kind == "OBJECT" || leaf.Kind == "INTERFACE" || leaf.Kind == "UNION")
		if composite && depth >= 4 {
			continue
		}
		*budget--
		n := &c20Node{Field: f.Name, Args: fixed, typ: leaf, ListDepth: c20ListDepth(f.Type), Resolver: e.resolvers[[2]string{t.Name, f.Name}]}
		if composite {
			e.fill(r, n, leaf, depth+1, budget)
			if len(n.Children) == 0 && len(n.ByType) == 0 {
				continue
			}
		}
		out = append(out, n)
	}
	return out
}

func (e *c20Env) fill(r *rand.Rand, n *c20Node, t *fedType, depth int, budget *int) {
	switch t.Kind {
	case "OBJECT":
		n.Children = e.genChildren(r, t, depth, budget)
	case "INTERFACE":
		n.Children = e.genChildren(r, t, depth, budget)
		fallthrough
	case "UNION":
		n.ByType = map[string][]*c20Node{}
		for _, p := range t.Possible {
			if r.Intn(4) == 0 {
				continue
			}
			if pt := e.schema.typ(p); pt != nil {
				if cs := e.genChildren(r, pt, depth, budget); len(cs) > 0 {
					n.ByType[p] = cs
				}
			}
		}
	}
}

func (e *c20Env) scalarFields(t *fedType) []string {
	var out []string
	for _, f := range t.Fields {
		if !c20Selectable(f) || e.resolvers[[2]string{t.Name, f.Name}] {
			continue // (resolver fields are selected only where the tree selects them)
		}
		leaf := e.schema.typ(fedNamed(f.Type))
		if leaf == nil || leaf.Kind == "SCALAR" || leaf.Kind == "ENUM" {
			out = append(out, f.Name)
		}
	}
	return out
}

// the canonical superset of a tree: no aliases, __typename and every scalar field in every selection set
func (e *c20Env) renderSuperset(nodes []*c20Node, t *fedType) string {
	parts := []string{"__typename"}
	seen := map[string]bool{}
	if t.Kind != "UNION" {
		for _, s := range e.scalarFields(t) {
			parts = append(parts, s)
			seen[s] = true
		}
	}
	for _, n := range nodes {
		if seen[n.Field] {
			continue
		}
		seen[n.Field] = true
		if n.typ != nil && (n.typ.Kind == "OBJECT" || n.typ.Kind == "INTERFACE" || n.typ.Kind == "UNION") {
			parts = append(parts, n.Field+n.Args+" "+e.renderSupersetOf(n))
		} else {
			parts = append(parts, n.Field+n.Args)
		}
	}
	return strings.Join(parts, " ")
}

func (e *c20Env) renderSupersetOf(n *c20Node) string {
	body := e.renderSuperset(n.Children, n.typ)
	var types []string
	for p := range n.ByType {
		types = append(types, p)
	}
	sort.Strings(types)
	if n.typ.Kind == "INTERFACE" || n.typ.Kind == "UNION" {
		// every possible type gets its scalars, so that the data is complete whatever the formulation selects
		for _, p := range n.typ.Possible {
			if _, ok := n.ByType[p]; !ok {
				types = append(types, p)
			}
		}
		sort.Strings(types)
	}
	for _, p := range types {
		body += " ... on " + p + " { " + e.renderSuperset(n.ByType[p], e.schema.typ(p)) + " }"
	}
	return "{ " + body + " }"
}

// one formulation of (a subset of) the tree
func (f *c20Formulator) typename() string {
	if f.r.Intn(3) == 0 {
		f.feats["aliased_typename"] = true
		f.nalias++
		return fmt.Sprintf("t%d: __typename", f.nalias)
	}
	return "__typename"
}

type c20Formulator struct {
	r      *rand.Rand
	e      *c20Env
	nalias int
	feats  map[string]bool
}

func (f *c20Formulator) sel(nodes []*c20Node, t *fedType) string {
	var parts []string
	for _, n := range nodes {
		if f.r.Intn(4) == 0 && len(nodes) > 1 {
			f.feats["subset"] = true
			continue
		}
		composite := n.typ != nil && (n.typ.Kind == "OBJECT" || n.typ.Kind == "INTERFACE" || n.typ.Kind == "UNION")
		alias := ""
		if f.r.Intn(4) == 0 {
			alias = fmt.Sprintf("a%d: ", f.nalias)
			f.nalias++
			f.feats["alias"] = true
		}
		if !composite {
			p := alias + n.Field + n.Args
			parts = append(parts, p)
			if f.r.Intn(8) == 0 {
				parts = append(parts, p) // the same leaf twice
				f.feats["duplicate_leaf"] = true
			}
			continue
		}
		if len(n.Children) > 1 && len(n.ByType) == 0 && f.r.Intn(5) == 0 {
			// the field twice, each time with a part of its selection: the two must be merged
			k := 1 + f.r.Intn(len(n.Children)-1)
			a := &c20Node{Field: n.Field, Args: n.Args, typ: n.typ, Children: n.Children[:k]}
			b := &c20Node{Field: n.Field, Args: n.Args, typ: n.typ, Children: n.Children[k:]}
			parts = append(parts, alias+n.Field+n.Args+" "+f.selOf(a, true), alias+n.Field+n.Args+" "+f.selOf(b, true))
			f.feats["split_field"] = true
			continue
		}
		parts = append(parts, alias+n.Field+n.Args+" "+f.selOf(n, false))
	}
	if len(parts) == 0 || f.r.Intn(5) == 0 {
		parts = append(parts, f.typename())
	}
	f.r.Shuffle(len(parts), func(i, j int) { parts[i], parts[j] = parts[j], parts[i] })
	if t != nil && t.Kind == "OBJECT" && f.r.Intn(6) == 0 && len(parts) > 1 {
		k := 1 + f.r.Intn(len(parts)-1)
		f.feats["inline_fragment_on_same_type"] = true
		return strings.Join(parts[:k], " ") + " ... on " + t.Name + " { " + strings.Join(parts[k:], " ") + " }"
	}
	return strings.Join(parts, " ")
}

func (f *c20Formulator) selOf(n *c20Node, all bool) string {
	body := ""
	if len(n.Children) > 0 || n.typ.Kind == "OBJECT" {
		if all {
			save := f.r
			body = f.selAll(n.Children, n.typ)
			f.r = save
		} else {
			body = f.sel(n.Children, n.typ)
		}
	}
	var types []string
	for p := range n.ByType {
		types = append(types, p)
	}
	sort.Strings(types)
	f.r.Shuffle(len(types), func(i, j int) { types[i], types[j] = types[j], types[i] })
	if n.typ.Kind != "OBJECT" {
		if body == "" || f.r.Intn(2) == 0 {
			body = strings.TrimSpace(f.typename() + " " + body)
		}
		for _, p := range types {
			if f.r.Intn(5) == 0 && len(types) > 1 {
				f.feats["subset"] = true
				continue
			}
			body += " ... on " + p + " { " + f.sel(n.ByType[p], f.e.schema.typ(p)) + " }"
			f.feats["abstract_fragment"] = true
		}
	}
	return "{ " + body + " }"
}

// every child, no subset (used for the two halves of a split field)
func (f *c20Formulator) selAll(nodes []*c20Node, t *fedType) string {
	var parts []string
	for _, n := range nodes {
		composite := n.typ != nil && (n.typ.Kind == "OBJECT" || n.typ.Kind == "INTERFACE" || n.typ.Kind == "UNION")
		if composite {
			parts = append(parts, n.Field+n.Args+" "+f.selOf(n, false))
		} else {
			parts = append(parts, n.Field+n.Args)
		}
	}
	if len(parts) == 0 {
		parts = append(parts, "__typename")
	}
	return strings.Join(parts, " ")
}

// ---- D as a universe of the Lean executor ----------------------------------------------------------------------------------

func c20Universe(rootField string, d any) *fedUniverse {
	u := &fedUniverse{}
	root := u.add("Query", map[string]any{})
	var conv func(v any) map[string]any
	conv = func(v any) map[string]any {
		switch x := v.(type) {
		case nil:
			return fvN()
		case map[string]any:
			fields := map[string]any{}
			tn, _ := x["__typename"].(string)
			idx := u.add(tn, fields)
			for k, y := range x {
				if k == "__typename" {
					continue
				}
				fields[k] = conv(y)
			}
			return fvR(idx)
		case []any:
			var items []any
			for _, y := range x {
				items = append(items, conv(y))
			}
			return fvL(items...)
		default:
			return fvS(x)
		}
	}
	u.Nodes[root].Fields[rootField] = conv(d)
	return u
}

func c20StripArgs(v any) {
	switch x := v.(type) {
	case map[string]any:
		if _, ok := x["args"]; ok {
			x["args"] = []any{}
		}
		for _, y := range x {
			c20StripArgs(y)
		}
	case []any:
		for _, y := range x {
			c20StripArgs(y)
		}
	}
}

// ---- the shape oracle (independent of the Lean executor) -------------------------------------------------------------------

func (e *c20Env) checkValue(t map[string]any, v any, path string) string {
	switch t["k"] {
	case "nonnull":
		if v == nil {
			return path + ": null in a non-null position"
		}
		of, _ := t["of"].(map[string]any)
		return e.checkValue(of, v, path)
	case "list":
		if v == nil {
			return ""
		}
		arr, ok := v.([]any)
		if !ok {
			return path + ": a list type holds a non-list value"
		}
		of, _ := t["of"].(map[string]any)
		for i, x := range arr {
			if m := e.checkValue(of, x, fmt.Sprintf("%s[%d]", path, i)); m != "" {
				return m
			}
		}
		return ""
	}
	if v == nil {
		return ""
	}
	name, _ := t["n"].(string)
	leaf := e.schema.typ(name)
	kind := "SCALAR"
	if leaf != nil {
		kind = leaf.Kind
	}
	switch kind {
	case "ENUM":
		s, ok := v.(string)
		if !ok || !containsStr(leaf.Values, s) {
			return fmt.Sprintf("%s: %v is not a value of enum %s", path, v, name)
		}
	case "SCALAR":
		switch name {
		case "String", "ID":
			if _, ok := v.(string); !ok {
				return fmt.Sprintf("%s: %v is not a %s", path, v, name)
			}
		case "Int":
			n, ok := v.(json.Number)
			if !ok || strings.ContainsAny(n.String(), ".eE") {
				return fmt.Sprintf("%s: %v is not an Int", path, v)
			}
		case "Float":
			if _, ok := v.(json.Number); !ok {
				return fmt.Sprintf("%s: %v is not a Float", path, v)
			}
		case "Boolean":
			if _, ok := v.(bool); !ok {
				return fmt.Sprintf("%s: %v is not a Boolean", path, v)
			}
		}
	default:
		if _, ok := v.(map[string]any); !ok {
			return fmt.Sprintf("%s: a composite type holds %v", path, v)
		}
	}
	return ""
}

// walk the operation's JSON AST against the response: every leaf value has the declared kind
func (e *c20Env) checkShape(sels []any, typeName string, v any, path string) string {
	obj, ok := v.(map[string]any)
	if !ok {
		return ""
	}
	runtime := typeName
	if tn, ok := obj["__typename"].(string); ok {
		runtime = tn
	}
	rt := e.schema.typ(runtime)
	if rt == nil {
		return ""
	}
	for _, s := range sels {
		m, _ := s.(map[string]any)
		switch m["t"] {
		case "field":
			name, _ := m["name"].(string)
			key, _ := m["alias"].(string)
			if key == "" {
				key = name
			}
			val, present := obj[key]
			if !present {
				continue // (key presence is decided by the comparison with the projection)
			}
			if name == "__typename" {
				if s, ok := val.(string); !ok || e.schema.typ(s) == nil {
					return fmt.Sprintf("%s.%s: __typename is %v", path, key, val)
				}
				continue
			}
			var fd *fedField
			for _, f := range rt.Fields {
				if f.Name == name {
					fd = f
				}
			}
			if fd == nil {
				continue
			}
			if msg := e.checkValue(fd.Type, val, path+"."+key); msg != "" {
				return msg
			}
			sub, _ := m["sels"].([]any)
			if len(sub) > 0 {
				var walk func(x any, p string) string
				walk = func(x any, p string) string {
					switch y := x.(type) {
					case []any:
						for i, z := range y {
							if msg := walk(z, fmt.Sprintf("%s[%d]", p, i)); msg != "" {
								return msg
							}
						}
					case map[string]any:
						return e.checkShape(sub, fedNamed(fd.Type), y, p)
					}
					return ""
				}
				if msg := walk(val, path+"."+key); msg != "" {
					return msg
				}
			}
		case "inline":
			cond, _ := m["cond"].(string)
			applies := cond == "" || cond == runtime
			if ct := e.schema.typ(cond); ct != nil && containsStr(ct.Possible, runtime) {
				applies = true
			}
			if applies {
				sub, _ := m["sels"].([]any)
				if msg := e.checkShape(sub, runtime, obj, path); msg != "" {
					return msg
				}
			}
		}
	}
	return ""
}

// ---- one case -----------------------------------------------------------------------------------------------------------------

type c20Case struct {
	Root         string   `json:"root"`
	Args         string   `json:"args,omitempty"`
	Tree         *c20Node `json:"tree"`
	Superset     string   `json:"superset"`
	Formulations []string `json:"formulations"`
}

func (e *c20Env) attachTypes(n *c20Node, t *fedType) {
	n.typ = t
	attach := func(cs []*c20Node, pt *fedType) {
		for _, c := range cs {
			for _, f := range pt.Fields {
				if f.Name == c.Field {
					e.attachTypes(c, e.schema.typ(fedNamed(f.Type)))
				}
			}
		}
	}
	if t == nil {
		return
	}
	attach(n.Children, t)
	for p, cs := range n.ByType {
		if pt := e.schema.typ(p); pt != nil {
			attach(cs, pt)
		}
	}
}

func c20Check(run *Run, e *c20Env, c *c20Case) {
	in := map[string]any{"case": c}
	known := ""
	if c20ResolverUnderNestedList(c.Tree, false) {
		known = "C20-field-resolver-below-nested-list"
	}
	d, raw, err := e.load(c.Superset)
	if err != nil {
		run.Violate(Violation{Kind: "oracle", Clause: "superset_answers", Input: in, Impl: raw, Detail: fmt.Sprintf("the canonical superset %s fails: %v", truncate(c.Superset, 600), err)}, known)
		return
	}
	dm, _ := d.(map[string]any)
	if dm == nil {
		run.Feat("no_data")
		return
	}
	// the mock service's data ends recursive and back-referencing types with null in non-null positions: such data
	// violates the schema, nothing is demanded of its projections
	if sop, err := fedOpJSON(c.Superset, "Q"); err == nil {
		ssels, _ := sop["sels"].([]any)
		if msg := e.checkShape(ssels, "Query", d, "data"); msg != "" {
			run.Feat("service_data_violates_schema")
			return
		}
	}
	u := c20Universe(c.Root, dm[c.Root])
	for _, q := range c.Formulations {
		in2 := map[string]any{"case": c, "formulation": q}
		got, raw, err := e.load(q)
		if err != nil {
			run.Violate(Violation{Kind: "oracle", Clause: "formulation_answers", Input: in2, Impl: raw,
				Detail: fmt.Sprintf("%s fails: %v; the canonical superset %s answers", truncate(q, 700), err, truncate(c.Superset, 300))}, known)
			continue
		}
		op, err := fedOpJSON(q, "Q")
		if err != nil {
			continue
		}
		c20StripArgs(op)
		rawRef, err := run.Pool.Ask("fed.exec", map[string]any{"schema": map[string]any{"types": e.schema.Types, "query": "Query", "mutation": "Mutation"}, "universe": u, "op": op, "vars": json.RawMessage(`{}`)})
		if err != nil {
			run.Violate(Violation{Kind: "correspondence", Clause: "driver", Input: in2, Detail: err.Error()}, "")
			continue
		}
		var rr struct {
			Data   json.RawMessage `json:"data"`
			Errors []string        `json:"errors"`
		}
		_ = json.Unmarshal(rawRef, &rr)
		var want any
		dec := json.NewDecoder(strings.NewReader(string(rr.Data)))
		dec.UseNumber()
		_ = dec.Decode(&want)
		if !fedJSONEqual(got, want) {
			run.Violate(Violation{Kind: "oracle", Clause: "projection_of_service_data", Input: in2, Impl: raw, Model: want,
				Detail: fmt.Sprintf("%s answers %s; the projection of the service data (answer of the canonical superset) is %s", truncate(q, 600), truncate(raw, 700), truncate(jsonStr(want), 700))}, known)
		}
		sels, _ := op["sels"].([]any)
		if msg := e.checkShape(sels, "Query", got, "data"); msg != "" {
			run.Violate(Violation{Kind: "oracle", Clause: "declared_value_kinds", Input: in2, Impl: raw, Detail: msg + " in " + truncate(raw, 600)}, known)
		}
		run.mu.Lock()
		run.TracesVsImpl++
		run.mu.Unlock()
	}
}

// ---- one datasource serving several requests --------------------------------------------------------------------------------

var c20ReuseQueries = []string{
	`query Q($id: ID!) { authorById(id: $id) { id name favoriteCategories { id totalProducts activeSubcategories { id parentCategory { id totalProducts } } } } }`,
	`query Q($id: ID!) { authorById(id: $id) { id favoriteCategories { activeSubcategories { parentCategory { totalProducts } } } email } }`,
	`query Q($id: ID!) { blogPostById(id: $id) { id title tags } }`,
	`query Q($id: ID!) { nullableFieldsTypeById(id: $id) { id optionalString requiredInt } }`,
}

func (e *c20Env) newDataSource(query string) (*grpcdatasource.DataSource, error) {
	doc, rep := astparser.ParseGraphqlDocumentString(query)
	if rep.HasErrors() {
		return nil, fmt.Errorf("parse: %s", rep.Error())
	}
	return grpcdatasource.NewDataSource(grpcdatasource.NewGRPCTransport(e.conn), grpcdatasource.DataSourceConfig{
		Operation: &doc, Definition: e.def, SubgraphName: "Products", Compiler: e.compiler, Mapping: e.mapping})
}

func c20Load(ds *grpcdatasource.DataSource, query, id string) (out string) {
	defer func() {
		if r := recover(); r != nil {
			out = fmt.Sprintf("PANIC: %v", r)
		}
	}()
	in, _ := json.Marshal(map[string]any{"query": query, "body": map[string]any{"variables": map[string]any{"id": id}}})
	b, err := ds.Load(context.Background(), nil, in)
	if err != nil {
		return "ERROR: " + err.Error()
	}
	return string(b)
}

// ---- entity lookups: _entities[i] answers representations[i], whatever subset of the fragments is selected ------------------------

func (e *c20Env) loadEntities(query string, variables string) (ents []any, raw string, err error) {
	defer func() {
		if r := recover(); r != nil {
			err = fmt.Errorf("panic: %v", r)
		}
	}()
	doc, rep := astparser.ParseGraphqlDocumentString(query)
	if rep.HasErrors() {
		return nil, "", fmt.Errorf("parse: %s", rep.Error())
	}
	ds, err := grpcdatasource.NewDataSource(grpcdatasource.NewGRPCTransport(e.conn), grpcdatasource.DataSourceConfig{
		Operation: &doc, Definition: e.def, SubgraphName: "Products", Compiler: e.compiler, Mapping: e.mapping,
		FederationConfigs: plan.FederationFieldConfigurations{{TypeName: "Product", SelectionSet: "id"}, {TypeName: "Storage", SelectionSet: "id"}, {TypeName: "Warehouse", SelectionSet: "id"}}})
	if err != nil {
		return nil, "", fmt.Errorf("plan: %w", err)
	}
	out, err := ds.Load(context.Background(), nil, []byte(fmt.Sprintf(`{"query":%q,"body":{"variables":%s}}`, query, variables)))
	if err != nil {
		return nil, string(out), err
	}
	var resp struct {
		Data struct {
			Entities []any `json:"_entities"`
		} `json:"data"`
		Errors []any `json:"errors"`
	}
	if err := json.Unmarshal(out, &resp); err != nil {
		return nil, string(out), err
	}
	if len(resp.Errors) > 0 {
		return nil, string(out), fmt.Errorf("errors: %s", truncate(jsonStr(resp.Errors), 200))
	}
	return resp.Data.Entities, string(out), nil
}

func c20EntityCheck(run *Run, e *c20Env, r *rand.Rand, tag map[string]any) {
	// Warehouse is only ever a representation, never a selected fragment: the mock service answers Warehouse lookups one entity short
	// on purpose.
	types := []string{"Product", "Storage", "Warehouse"}
	selectable := []string{"Product", "Storage"}
	// Storage.location is random in the mock service
	fieldsOf := map[string][]string{"Product": {"id", "name", "price"}, "Storage": {"id", "name"}}
	n := 1 + r.Intn(6)
	var reps []string
	var kinds []string
	for i := 0; i < n; i++ {
		t := types[r.Intn(len(types))]
		kinds = append(kinds, t)
		reps = append(reps, fmt.Sprintf(`{"__typename":%q,"id":"%d"}`, t, 1+r.Intn(9)))
	}
	variables := `{"representations":[` + strings.Join(reps, ",") + `]}`
	chosen := map[string]string{}
	for _, t := range selectable {
		fs := []string{"__typename"}
		for _, f := range fieldsOf[t] {
			if r.Intn(3) > 0 {
				if r.Intn(4) == 0 {
					f = "a_" + f + ": " + f
				}
				fs = append(fs, f)
			}
		}
		r.Shuffle(len(fs), func(i, j int) { fs[i], fs[j] = fs[j], fs[i] })
		chosen[t] = strings.Join(fs, " ")
	}
	frag := func(ts []string) string {
		var fs []string
		for _, t := range ts {
			fs = append(fs, "... on "+t+" { "+chosen[t]+" }")
		}
		return `query($representations: [_Any!]!) { _entities(representations: $representations) { ` + strings.Join(fs, " ") + ` } }`
	}
	in := map[string]any{"entities": true, "representations": json.RawMessage("[" + strings.Join(reps, ",") + "]")}
	full, rawFull, err := e.loadEntities(frag(selectable), variables)
	if err != nil {
		run.Violate(Violation{Kind: "oracle", Clause: "entities_answer", Input: c20Tag(in, tag), Impl: rawFull, Detail: fmt.Sprintf("the lookup with every fragment fails: %v", err)}, "")
		return
	}
	if len(full) != n {
		run.Violate(Violation{Kind: "oracle", Clause: "entities_positional", Input: c20Tag(in, tag), Impl: rawFull, Detail: fmt.Sprintf("%d representations, %d entities: %s", n, len(full), truncate(rawFull, 500))}, "")
		return
	}
	for i, ent := range full {
		m, _ := ent.(map[string]any)
		if kinds[i] == "Warehouse" {
			if ent == nil {
				continue
			}
		} else if m != nil && m["__typename"] == kinds[i] && (fmt.Sprint(m["id"]) == c20RepID(reps[i]) || fmt.Sprint(m["a_id"]) == c20RepID(reps[i]) || (m["id"] == nil && m["a_id"] == nil)) {
			continue
		}
		{
			run.Violate(Violation{Kind: "oracle", Clause: "entities_positional", Input: c20Tag(in, tag), Impl: rawFull, Detail: fmt.Sprintf("entity %d answers a %s representation with %s", i, kinds[i], truncate(jsonStr(ent), 200))}, "")
			return
		}
	}
	// every non-empty proper subset of the fragments, in both orders
	for _, sel := range [][]string{{"Product"}, {"Storage"}, {"Storage", "Product"}} {
		sub, rawSub, err := e.loadEntities(frag(sel), variables)
		if err != nil {
			run.Violate(Violation{Kind: "oracle", Clause: "entities_answer", Input: map[string]any{"entities": true, "representations": in["representations"], "fragments": sel}, Impl: rawSub, Detail: fmt.Sprintf("the lookup with fragments %v fails: %v", sel, err)}, "")
			return
		}
		ok := len(sub) == n
		for i := 0; ok && i < n; i++ {
			if containsStr(sel, kinds[i]) {
				ok = fedJSONEqual(sub[i], full[i])
			} else {
				ok = sub[i] == nil
			}
		}
		if !ok {
			run.Violate(Violation{Kind: "oracle", Clause: "entities_stable_under_subset_selection", Input: map[string]any{"entities": true, "representations": in["representations"], "fragments": sel}, Impl: rawSub, Model: rawFull,
				Detail: fmt.Sprintf("with fragments %v the lookup answers %s; with every fragment %s: selecting a subset must keep every selected entity at its position and leave null elsewhere", sel, truncate(rawSub, 500), truncate(rawFull, 500))}, "")
			return
		}
	}
	run.Feat("entity_lookup")
	run.mu.Lock()
	run.TracesVsImpl++
	run.mu.Unlock()
}

// ---- @requires fields of entities: each field is answered by its own RPC and merged back by position --------------------------------

type c20Req struct {
	field string // the @requires field
	sel   string // how it is selected (with a sub-selection for object results)
	req   string // the @requires selection set
}

var c20Requires = []c20Req{
	{"tagSummary", "tagSummary", "tags"},
	{"optionalTagSummary", "optionalTagSummary", "optionalTags"},
	{"metadataScore", "metadataScore", "metadata { capacity zone }"},
	{"processedTags", "processedTags", "tags"},
	{"optionalProcessedTags", "optionalProcessedTags", "optionalTags"},
	{"kindSummary", "kindSummary", "storageKind"},
	{"stockHealthScore", "stockHealthScore", "itemCount restockData { lastRestockDate }"},
	{"processedMetadata", "processedMetadata { capacity zone }", "metadata { capacity zone priority }"},
	{"optionalProcessedMetadata", "optionalProcessedMetadata { capacity zone }", "metadata { capacity zone }"},
	{"processedMetadataHistory", "processedMetadataHistory { capacity zone }", "metadataHistory { capacity zone }"},
}

func (e *c20Env) loadRequires(fields []c20Req, variables string) (ents []any, raw string, err error) {
	defer func() {
		if r := recover(); r != nil {
			err = fmt.Errorf("panic: %v", r)
		}
	}()
	var sel []string
	fc := plan.FederationFieldConfigurations{{TypeName: "Storage", SelectionSet: "id"}, {TypeName: "Product", SelectionSet: "id"}}
	for _, f := range fields {
		sel = append(sel, f.sel)
		fc = append(fc, plan.FederationFieldConfiguration{TypeName: "Storage", FieldName: f.field, SelectionSet: f.req})
	}
	// both entity types are selected, so representations of both are legitimate in one request
	query := `query($representations: [_Any!]!) { _entities(representations: $representations) { ... on Product { __typename id name } ... on Storage { __typename id ` + strings.Join(sel, " ") + ` } } }`
	doc, rep := astparser.ParseGraphqlDocumentString(query)
	if rep.HasErrors() {
		return nil, "", fmt.Errorf("parse: %s", rep.Error())
	}
	ds, err := grpcdatasource.NewDataSource(grpcdatasource.NewGRPCTransport(e.conn), grpcdatasource.DataSourceConfig{
		Operation: &doc, Definition: e.def, SubgraphName: "Products", Compiler: e.compiler, Mapping: e.mapping, FederationConfigs: fc})
	if err != nil {
		return nil, "", fmt.Errorf("plan: %w", err)
	}
	out, err := ds.Load(context.Background(), nil, []byte(fmt.Sprintf(`{"query":%q,"body":{"variables":%s}}`, query, variables)))
	if err != nil {
		return nil, string(out), err
	}
	var resp struct {
		Data struct {
			Entities []any `json:"_entities"`
		} `json:"data"`
		Errors []any `json:"errors"`
	}
	dec := json.NewDecoder(strings.NewReader(string(out)))
	dec.UseNumber()
	if err := dec.Decode(&resp); err != nil {
		return nil, string(out), err
	}
	if len(resp.Errors) > 0 {
		return nil, string(out), fmt.Errorf("errors: %s", truncate(jsonStr(resp.Errors), 300))
	}
	return resp.Data.Entities, string(out), nil
}

func c20RequiresCheck(run *Run, e *c20Env, r *rand.Rand, tag map[string]any) {
	n := 1 + r.Intn(4)
	var reps []string
	var kinds []string
	for i := 0; i < n; i++ {
		if r.Intn(4) == 0 {
			kinds = append(kinds, "Product")
			reps = append(reps, fmt.Sprintf(`{"__typename":"Product","id":"%d"}`, 1+r.Intn(9)))
			continue
		}
		kinds = append(kinds, "Storage")
		tags := []string{}
		for k := r.Intn(4); k > 0; k-- {
			tags = append(tags, fmt.Sprintf("%q", pick(r, []string{"a", "bb", "ccc", "fragile", "cold"})))
		}
		opt := "null"
		if r.Intn(2) == 0 {
			opt = `["x","yy"]`
		}
		hist := []string{}
		for k := r.Intn(3); k > 0; k-- {
			hist = append(hist, fmt.Sprintf(`{"capacity":%d,"zone":"h%d"}`, 10*k, k))
		}
		reps = append(reps, fmt.Sprintf(`{"__typename":"Storage","id":"%d","tags":[%s],"optionalTags":%s,"metadata":{"capacity":%d,"zone":"z%d","priority":%d},"metadataHistory":[%s],"storageKind":"%s","itemCount":%d,"restockData":{"lastRestockDate":"2024-0%d-01"}}`,
			1+r.Intn(9), strings.Join(tags, ","), opt, 10+r.Intn(90), r.Intn(4), 1+r.Intn(3), strings.Join(hist, ","), pick(r, []string{"ELECTRONICS", "FURNITURE", "BOOK", "OTHER"}), r.Intn(50), 1+r.Intn(9)))
	}
	variables := `{"representations":[` + strings.Join(reps, ",") + `]}`
	perm := r.Perm(len(c20Requires))
	k := 2 + r.Intn(3)
	var chosen []c20Req
	for _, i := range perm[:k] {
		chosen = append(chosen, c20Requires[i])
	}
	in := map[string]any{"requires": true, "representations": json.RawMessage("[" + strings.Join(reps, ",") + "]"), "fields": chosen2names(chosen)}
	full, rawFull, err := e.loadRequires(chosen, variables)
	if err != nil {
		if strings.Contains(err.Error(), "CategoryKind") || strings.Contains(err.Error(), "enum") {
			run.Feat("requires:enum_value_not_mapped")
			return
		}
		run.Violate(Violation{Kind: "oracle", Clause: "requires_answer", Input: c20Tag(in, tag), Impl: rawFull, Detail: fmt.Sprintf("the lookup with fields %v fails: %v", chosen2names(chosen), err)}, "")
		return
	}
	if len(full) != n {
		run.Violate(Violation{Kind: "oracle", Clause: "entities_positional", Input: c20Tag(in, tag), Impl: rawFull, Detail: fmt.Sprintf("%d representations, %d entities: %s", n, len(full), truncate(rawFull, 500))}, "")
		return
	}
	for i, ent := range full {
		m, _ := ent.(map[string]any)
		switch {
		case m != nil && m["__typename"] == kinds[i] && fmt.Sprint(m["id"]) == c20RepID(reps[i]):
		default:
			run.Violate(Violation{Kind: "oracle", Clause: "entities_positional", Input: c20Tag(in, tag), Impl: rawFull, Detail: fmt.Sprintf("entity %d answers a %s representation (%s) with %s", i, kinds[i], reps[i], truncate(jsonStr(ent), 200))}, "")
			return
		}
	}
	// every field alone, and the same fields in another order, must give the same value at every position
	alts := [][]c20Req{}
	for _, f := range chosen {
		alts = append(alts, []c20Req{f})
	}
	rev := append([]c20Req{}, chosen...)
	for i, j := 0, len(rev)-1; i < j; i, j = i+1, j-1 {
		rev[i], rev[j] = rev[j], rev[i]
	}
	alts = append(alts, rev)
	for _, alt := range alts {
		sub, rawSub, err := e.loadRequires(alt, variables)
		in2 := map[string]any{"requires": true, "representations": in["representations"], "fields": chosen2names(alt)}
		if err != nil {
			run.Violate(Violation{Kind: "oracle", Clause: "requires_answer", Input: c20Tag(in2, tag), Impl: rawSub, Detail: fmt.Sprintf("the lookup with fields %v fails (with %v it answers): %v", chosen2names(alt), chosen2names(chosen), err)}, "")
			return
		}
		ok := len(sub) == n
		for i := 0; ok && i < n; i++ {
			fm, _ := full[i].(map[string]any)
			sm, _ := sub[i].(map[string]any)
			if (fm == nil) != (sm == nil) {
				ok = false
				break
			}
			for _, f := range alt {
				if fm != nil && !fedJSONEqual(fm[f.field], sm[f.field]) {
					ok = false
				}
			}
		}
		if !ok {
			run.Violate(Violation{Kind: "oracle", Clause: "requires_stable_under_subset_selection", Input: c20Tag(in2, tag), Impl: rawSub, Model: rawFull,
				Detail: fmt.Sprintf("with fields %v the lookup answers %s; with fields %v %s: a field's value must not depend on which other fields are selected", chosen2names(alt), truncate(rawSub, 600), chosen2names(chosen), truncate(rawFull, 600))}, "")
			return
		}
	}
	run.Feat("requires_lookup")
	run.mu.Lock()
	run.TracesVsImpl++
	run.mu.Unlock()
}

// ---- field resolvers of entities (Product, Storage): each is answered by its own RPC for the entities of its type ---------------------

var c20EntityResolvers = map[string][]c20Req{
	"Product": {
		{"recommendedCategory", "recommendedCategory(maxPrice: 10) { id name kind }", ""},
		{"mascotRecommendation", "mascotRecommendation(includeDetails: true) { __typename id name }", ""},
		{"stockStatus", "stockStatus(checkAvailability: true) { __typename ... on ActionSuccess { message } ... on ActionError { message code } }", ""},
		{"productDetails", "productDetails(includeExtended: false) { id description }", ""},
		{"shippingEstimate", "shippingEstimate(input: {destination: DOMESTIC, weight: 1.5, expedited: false})", ""},
		{"name", "name", ""}, {"price", "price", ""},
	},
	"Storage": {
		{"storageStatus", "storageStatus(checkHealth: true) { __typename ... on ActionSuccess { message } ... on ActionError { message code } }", ""},
		{"linkedStorages", "linkedStorages(depth: 1) { id name }", ""},
		{"nearbyStorages", "nearbyStorages(radius: 5) { id name }", ""},
		{"name", "name", ""},
	},
}

func (e *c20Env) loadEntityResolvers(sel map[string][]c20Req, order []string, variables string) (ents []any, raw string, err error) {
	defer func() {
		if r := recover(); r != nil {
			err = fmt.Errorf("panic: %v", r)
		}
	}()
	var frags []string
	for _, t := range order {
		var parts []string
		for _, f := range sel[t] {
			parts = append(parts, f.sel)
		}
		frags = append(frags, "... on "+t+" { __typename id "+strings.Join(parts, " ")+" }")
	}
	written := `query Q($representations: [_Any!]!) { _entities(representations: $representations) { ` + strings.Join(frags, " ") + ` } }`
	// the engine hands the datasource normalized operations: argument literals are variables by then
	norm := c03Normalize(e.def, written, []byte(variables), false)
	if norm.Err != "" {
		return nil, "", fmt.Errorf("normalization: %s", norm.Err)
	}
	query := norm.Printed
	doc, rep := astparser.ParseGraphqlDocumentString(query)
	if rep.HasErrors() {
		return nil, "", fmt.Errorf("parse: %s", rep.Error())
	}
	ds, err := grpcdatasource.NewDataSource(grpcdatasource.NewGRPCTransport(e.conn), grpcdatasource.DataSourceConfig{
		Operation: &doc, Definition: e.def, SubgraphName: "Products", Compiler: e.compiler, Mapping: e.mapping,
		FederationConfigs: plan.FederationFieldConfigurations{{TypeName: "Storage", SelectionSet: "id"}, {TypeName: "Product", SelectionSet: "id"}}})
	if err != nil {
		return nil, "", fmt.Errorf("plan: %w", err)
	}
	out, err := ds.Load(context.Background(), nil, []byte(fmt.Sprintf(`{"query":%q,"body":{"variables":%s}}`, query, norm.Vars)))
	if err != nil {
		return nil, string(out), err
	}
	var resp struct {
		Data struct {
			Entities []any `json:"_entities"`
		} `json:"data"`
		Errors []any `json:"errors"`
	}
	dec := json.NewDecoder(strings.NewReader(string(out)))
	dec.UseNumber()
	if err := dec.Decode(&resp); err != nil {
		return nil, string(out), err
	}
	if len(resp.Errors) > 0 {
		return nil, string(out), fmt.Errorf("errors: %s", truncate(jsonStr(resp.Errors), 300))
	}
	return resp.Data.Entities, string(out), nil
}

func c20EntityResolverCheck(run *Run, e *c20Env, r *rand.Rand, tag map[string]any) {
	n := 1 + r.Intn(5)
	var reps, kinds []string
	for i := 0; i < n; i++ {
		t := pick(r, []string{"Product", "Storage", "Product", "Storage", "Warehouse"})
		kinds = append(kinds, t)
		reps = append(reps, fmt.Sprintf(`{"__typename":%q,"id":"%d"}`, t, 1+r.Intn(9)))
	}
	variables := `{"representations":[` + strings.Join(reps, ",") + `]}`
	chosen := map[string][]c20Req{}
	for _, t := range []string{"Product", "Storage"} {
		all := c20EntityResolvers[t]
		perm := r.Perm(len(all))
		for _, i := range perm[:1+r.Intn(len(all))] {
			chosen[t] = append(chosen[t], all[i])
		}
	}
	names := func(sel map[string][]c20Req) map[string][]string {
		out := map[string][]string{}
		for t, fs := range sel {
			out[t] = chosen2names(fs)
		}
		return out
	}
	in := map[string]any{"entityResolvers": true, "representations": json.RawMessage("[" + strings.Join(reps, ",") + "]"), "fields": names(chosen)}
	full, rawFull, err := e.loadEntityResolvers(chosen, []string{"Product", "Storage"}, variables)
	if err != nil {
		run.Violate(Violation{Kind: "oracle", Clause: "entity_resolvers_answer", Input: c20Tag(in, tag), Impl: rawFull, Detail: fmt.Sprintf("the lookup with fields %v fails: %v", names(chosen), err)}, "")
		return
	}
	if len(full) != n {
		run.Violate(Violation{Kind: "oracle", Clause: "entities_positional", Input: c20Tag(in, tag), Impl: rawFull, Detail: fmt.Sprintf("%d representations, %d entities: %s", n, len(full), truncate(rawFull, 500))}, "")
		return
	}
	for i, ent := range full {
		m, _ := ent.(map[string]any)
		switch {
		case kinds[i] == "Warehouse" && ent == nil:
		case m != nil && m["__typename"] == kinds[i] && fmt.Sprint(m["id"]) == c20RepID(reps[i]):
		default:
			run.Violate(Violation{Kind: "oracle", Clause: "entities_positional", Input: c20Tag(in, tag), Impl: rawFull, Detail: fmt.Sprintf("entity %d answers a %s representation (%s) with %s", i, kinds[i], reps[i], truncate(jsonStr(ent), 300))}, "")
			return
		}
	}
	// one field of one type alone (with and without the other type's fragment), and the fragments in the other order
	type alt struct {
		sel   map[string][]c20Req
		order []string
	}
	var alts []alt
	for _, t := range []string{"Product", "Storage"} {
		for _, f := range chosen[t] {
			other := "Storage"
			if t == "Storage" {
				other = "Product"
			}
			alts = append(alts, alt{map[string][]c20Req{t: {f}, other: chosen[other]}, []string{"Product", "Storage"}})
			alts = append(alts, alt{map[string][]c20Req{t: {f}}, []string{t}})
		}
	}
	alts = append(alts, alt{chosen, []string{"Storage", "Product"}})
	for _, a := range alts {
		sub, rawSub, err := e.loadEntityResolvers(a.sel, a.order, variables)
		in2 := map[string]any{"entityResolvers": true, "representations": in["representations"], "fields": names(a.sel), "order": a.order}
		if err != nil {
			run.Violate(Violation{Kind: "oracle", Clause: "entity_resolvers_answer", Input: c20Tag(in2, tag), Impl: rawSub, Detail: fmt.Sprintf("the lookup with fields %v (fragments %v) fails, with %v it answers: %v", names(a.sel), a.order, names(chosen), err)}, "")
			return
		}
		ok := len(sub) == n
		for i := 0; ok && i < n; i++ {
			fm, _ := full[i].(map[string]any)
			sm, _ := sub[i].(map[string]any)
			if !containsStr(a.order, kinds[i]) {
				ok = sub[i] == nil
				continue
			}
			if (fm == nil) != (sm == nil) {
				ok = false
				break
			}
			for _, f := range a.sel[kinds[i]] {
				if fm != nil && !fedJSONEqual(fm[f.field], sm[f.field]) {
					ok = false
				}
			}
		}
		if !ok {
			run.Violate(Violation{Kind: "oracle", Clause: "entity_resolvers_stable_under_subset_selection", Input: c20Tag(in2, tag), Impl: rawSub, Model: rawFull,
				Detail: fmt.Sprintf("with fields %v (fragments %v) the lookup answers %s; with fields %v %s: a field's value must not depend on which other fields are selected", names(a.sel), a.order, truncate(rawSub, 700), names(chosen), truncate(rawFull, 700))}, "")
			return
		}
	}
	run.Feat("entity_resolver_lookup")
	run.mu.Lock()
	run.TracesVsImpl++
	run.mu.Unlock()
}

func chosen2names(fs []c20Req) []string {
	var out []string
	for _, f := range fs {
		out = append(out, f.field)
	}
	return out
}

// every randomized stream draws from its own PRNG state, derived from (seed, stream, case index): the three are recorded
// in the violation's input, so that `--replay` regenerates exactly the case
var c20Streams = map[string]struct {
	offset int
	f      func(run *Run, e *c20Env, r *rand.Rand, tag map[string]any)
}{}

func init() {
	c20Streams["reuse"] = struct {
		offset int
		f      func(run *Run, e *c20Env, r *rand.Rand, tag map[string]any)
	}{1_100_000_000, c20ReuseCheck}
	c20Streams["entities"] = struct {
		offset int
		f      func(run *Run, e *c20Env, r *rand.Rand, tag map[string]any)
	}{1_200_000_000, c20EntityCheck}
	c20Streams["requires"] = struct {
		offset int
		f      func(run *Run, e *c20Env, r *rand.Rand, tag map[string]any)
	}{1_300_000_000, c20RequiresCheck}
	c20Streams["entityResolvers"] = struct {
		offset int
		f      func(run *Run, e *c20Env, r *rand.Rand, tag map[string]any)
	}{1_400_000_000, c20EntityResolverCheck}
	c20Streams["arguments"] = struct {
		offset int
		f      func(run *Run, e *c20Env, r *rand.Rand, tag map[string]any)
	}{1_600_000_000, c20ArgumentsCheck}
}

func c20RunStream(run *Run, e *c20Env, name string, seed int64, k int) {
	st := c20Streams[name]
	st.f(run, e, subRng(seed, st.offset+k), map[string]any{"stream": name, "seed": seed, "k": k})
}

func c20Tag(in map[string]any, tag map[string]any) map[string]any {
	in["replay"] = tag
	return in
}

func c20RepID(rep string) string {
	var m map[string]any
	_ = json.Unmarshal([]byte(rep), &m)
	return fmt.Sprint(m["id"])
}

// the answer for (operation, variables) does not depend on what the datasource served before
func c20ReuseCheck(run *Run, e *c20Env, r *rand.Rand, tag map[string]any) {
	q := c20ReuseQueries[r.Intn(len(c20ReuseQueries))]
	shared, err := e.newDataSource(q)
	if err != nil {
		run.Violate(Violation{Kind: "oracle", Clause: "datasource_builds", Input: map[string]any{"query": q}, Detail: err.Error()}, "")
		return
	}
	var ids []string
	for i := 0; i < 3+r.Intn(4); i++ {
		ids = append(ids, pick(r, []string{"1", "2", "not-found", "null-test", "7"}))
	}
	for k, id := range ids {
		got := c20Load(shared, q, id)
		fresh, err := e.newDataSource(q)
		if err != nil {
			return
		}
		want := c20Load(fresh, q, id)
		if !c03JSONEq(got, want) {
			run.Violate(Violation{Kind: "oracle", Clause: "answer_independent_of_history", Input: map[string]any{"reuse": true, "query": q, "ids": ids, "step": k},
				Impl: got, Model: want, Detail: fmt.Sprintf("request %d (id %q) on a datasource that already served %v answers %s; a fresh datasource answers %s", k, id, ids[:k], truncate(got, 500), truncate(want, 500))}, "")
			return
		}
	}
	run.Feat("reuse_sequence")
	run.mu.Lock()
	run.TracesVsImpl++
	run.mu.Unlock()
}

func runC20(run *Run, replay string) Spec {
	spec := Spec{
		Level:       "translation_validation",
		Rule:        "21 deterministic root fields of the mock product service (objects, lists, nested lists, nullable fields, enums, interfaces, unions, recursive types) × generated selection trees × 3 formulations each (subset, aliases, reordering, duplicated leaves, a field split into two occurrences with partial selections, inline fragments on the same type, per-type fragments of abstract types): the datasource's answer = projection, by the Lean reference executor, of the service data (the answer to the canonical alias-free superset with __typename and all scalars); every value has the kind its declared type demands; sequences of 3–6 requests with different variables on ONE datasource answer like fresh datasources. non-trivial = cases with an abstract type or a split / aliased field; distinct = distinct (root, tree)",
		TrustedBase: []string{"the Lean reference executor GqlVerif.Gql.Exec as the projection (CollectFields, field merging, fragment applicability, aliases)", "the repository's mock service, proto schema, default mapping and compiler", "the canonical superset's answer as the service data"},
		Assumptions: []string{"fields with arguments below the root (field resolvers with arguments), mutations and the two random root fields are not exercised; entity lookups only for Product / Storage / Warehouse with id and name", "every operation passes the repository's normalizer (fragment inlining, field merging, variable extraction) before it reaches the datasource, as on the engine's path; duplicated and split fields and same-type fragments therefore reach the datasource merged"},
	}
	e, err := c20Setup()
	if err != nil {
		run.Violate(Violation{Kind: "oracle", Clause: "setup", Detail: err.Error()}, "")
		return spec
	}
	if q := os.Getenv("VERIF_C20_QUERY"); q != "" {
		d, raw, err := e.load(q)
		fmt.Fprintf(os.Stderr, "normalized: %+v\nanswer: %s\nerr: %v\ndata: %s\n", c03Normalize(e.def, q, []byte("{}"), false), raw, err, jsonStr(d))
		return spec
	}
	if replay != "" {
		if b, err := os.ReadFile(replay); err == nil {
			var f struct {
				Violation struct {
					Input struct {
						Case *c20Case `json:"case"`
					} `json:"input"`
				} `json:"violation"`
			}
			var fr struct {
				Violation struct {
					Input struct {
						Replay *struct {
							Stream string `json:"stream"`
							Seed   int64  `json:"seed"`
							K      int    `json:"k"`
						} `json:"replay"`
					} `json:"input"`
				} `json:"violation"`
			}
			if json.Unmarshal(b, &fr) == nil && fr.Violation.Input.Replay != nil {
				if _, ok := c20Streams[fr.Violation.Input.Replay.Stream]; ok {
					c20RunStream(run, e, fr.Violation.Input.Replay.Stream, fr.Violation.Input.Replay.Seed, fr.Violation.Input.Replay.K)
					run.Count("replay")
					return spec
				}
			}
			if json.Unmarshal(b, &f) == nil && f.Violation.Input.Case != nil {
				c20Check(run, e, f.Violation.Input.Case)
				run.Count("replay")
			}
		}
		return spec
	}
	n := 300
	if run.Tier == "thorough" {
		n = 12000
	}
	q := e.schema.typ("Query")
	var wg sync.WaitGroup
	ch := make(chan int, 64)
	for w := 0; w < 8; w++ {
		wg.Add(1)
		go func(w int) {
			defer wg.Done()
			for k := range ch {
				if run.NViolations() >= 6 {
					continue
				}
				r := subRng(run.Seed, k)
				root := c20Roots[r.Intn(len(c20Roots))]
				var fd *fedField
				for _, f := range q.Fields {
					if f.Name == root.field {
						fd = f
					}
				}
				if fd == nil {
					continue
				}
				rt := e.schema.typ(fedNamed(fd.Type))
				if rt == nil {
					continue
				}
				tree := &c20Node{Field: root.field, Args: root.args, typ: rt, ListDepth: c20ListDepth(fd.Type)}
				budget := 6 + r.Intn(14)
				e.fill(r, tree, rt, 1, &budget)
				if len(tree.Children) == 0 && len(tree.ByType) == 0 {
					continue
				}
				c := &c20Case{Root: root.field, Args: root.args, Tree: tree}
				c.Superset = "query Q { " + root.field + root.args + " " + e.renderSupersetOf(tree) + " }"
				feats := map[string]bool{}
				for i := 0; i < 3; i++ {
					f := &c20Formulator{r: r, e: e, feats: feats}
					c.Formulations = append(c.Formulations, "query Q { "+root.field+root.args+" "+f.selOf(tree, false)+" }")
				}
				if k%10 == 0 {
					c20RunStream(run, e, "reuse", run.Seed, k)
				}
				if k%10 == 5 {
					c20RunStream(run, e, "entities", run.Seed, k)
				}
				if k%10 == 8 {
					c20RunStream(run, e, "requires", run.Seed, k)
				}
				if k%10 == 2 {
					c20RunStream(run, e, "entityResolvers", run.Seed, k)
				}
				if k%5 == 1 {
					c20RunStream(run, e, "arguments", run.Seed, k)
				}
				run.SetCurrent(w, c)
				c20Check(run, e, c)
				for f := range feats {
					run.Feat(f)
				}
				run.Feat("root:" + root.field)
				run.Count(c.Superset)
			}
		}(w)
	}
	for k := 0; k < n; k++ {
		ch <- k
	}
	close(ch)
	wg.Wait()
	return spec
}
